import SlocModel.Basic.F64
import SlocModel.Basic.F64Lemmas
import SlocModel.Generated.Consts
import SlocModel.Threshold
import SlocModel.Driver.Proto
import SlocModel.Driver.Threshold
import SlocModel.Props.C05
