/-!
  Model of `atomic_write_with_lock_timeout` (src/state.rs), the save protocol of the baseline,
  the trend history, the SLOC cache and (since the repair) the remote-config cache:

    mkdir parent → create temp → write → flush → fsync → open target for locking (only if it
    exists) → lock → rename(temp, target) → unlock.

  The directory is abstracted to the two names that matter: the target and the temp file.
  `rename(2)` is atomic and `fsync` makes the temp content durable before the rename (trusted).
-/
namespace SlocModel.AtomicWrite

abbrev Content := List Nat      -- bytes

structure Disk where
  target : Option Content
  temp : Option Content
  deriving DecidableEq, Repr

/-- the instrumented points of the protocol, in program order -/
inductive Point where
  | start | dirReady | tempCreated | midWrite | written | flushed | synced | lockOpened | locked
  | renamed | unlocked | done
  deriving DecidableEq, Repr

def Point.index : Point → Nat
  | .start => 0 | .dirReady => 1 | .tempCreated => 2 | .midWrite => 3 | .written => 4
  | .flushed => 5 | .synced => 6 | .lockOpened => 7 | .locked => 8 | .renamed => 9
  | .unlocked => 10 | .done => 11

def allPoints : List Point :=
  [.start, .dirReady, .tempCreated, .midWrite, .written, .flushed, .synced, .lockOpened, .locked,
   .renamed, .unlocked, .done]

/-- what is on disk when the process is killed on reaching `p` (for `midWrite`: after `k` bytes
    of the new content reached the temp file) -/
def crashAt (prior : Option Content) (new : Content) (p : Point) (k : Nat) : Disk :=
  match p with
  | .start | .dirReady => { target := prior, temp := none }
  | .tempCreated => { target := prior, temp := some [] }
  | .midWrite | .written => { target := prior, temp := some (new.take k) }   -- `written`: still buffered
  | .flushed | .synced | .lockOpened | .locked => { target := prior, temp := some new }
  | .renamed | .unlocked | .done => { target := some new, temp := none }

/-- the three loaders.  `parse` is the JSON decoder (a parameter); an absent file is `none`. -/
inductive Loaded (α : Type) where
  | entries (x : α)
  | error
  | defaulted           -- lenient loaders: empty history / no cache
  deriving Repr

/-- `Baseline::load` behind `--baseline`: strict -/
def loadStrict {α : Type} (parse : Content → Option α) (d : Disk) : Loaded α :=
  match d.target with
  | none => .error
  | some c => match parse c with
    | some x => .entries x
    | none => .error

/-- `TrendHistory::load_or_default`, `load_cache`: lenient -/
def loadLenient {α : Type} (parse : Content → Option α) (d : Disk) : Loaded α :=
  match d.target with
  | none => .defaulted
  | some c => match parse c with
    | some x => .entries x
    | none => .defaulted

end SlocModel.AtomicWrite
