/-!
  Model of the path-spelling layer: `canonical_target` (src/commands/context.rs), the walker's
  joining of a root with a relative entry, `normalize_for_matching` (src/output/path.rs) and
  `baseline_key` (src/baseline/mod.rs).

  A path string is its list of `/`-separated segments; a segment may be empty (from `//` or a
  trailing `/`) or `.`.
-/
namespace SlocModel.PathSpelling

abbrev Seg := List Char

def dot : Seg := ['.']

/-- what `Path::components()` keeps of the segments once `CurDir` is filtered out: empty and `.`
    segments disappear -/
def clean (segs : List Seg) : List Seg := segs.filter (fun s => !(s.isEmpty || s = dot))

/-- `Path::strip_prefix` on component lists -/
def stripPrefix : List Seg → List Seg → Option (List Seg)
  | [], rest => some rest
  | _ :: _, [] => none
  | p :: ps, x :: xs => if p = x then stripPrefix ps xs else none

/-- a target as typed: absolute or not, and its segments -/
structure Target where
  absolute : Bool
  segs : List Seg

def orDot (segs : List Seg) : List Seg := if segs.isEmpty then [dot] else segs

/-- `canonical_target`: absolute targets below the working directory become relative, `.`
    segments and trailing separators are dropped, the empty result is `.`.
    The result is (absolute?, segments). -/
def canonicalTarget (cwd : List Seg) (t : Target) : Bool × List Seg :=
  if t.absolute then
    match stripPrefix (clean cwd) (clean t.segs) with
    | some rest => (false, orDot rest)
    | none => (true, clean t.segs)      -- outside the working directory: kept (`/` stays `/`)
  else (false, orDot (clean t.segs))

/-- the first of the working directory's spellings that is a prefix of the target -/
def stripAny : List (List Seg) → List Seg → Option (List Seg)
  | [], _ => none
  | c :: cs, t =>
    match stripPrefix (clean c) t with
    | some rest => some rest
    | none => stripAny cs t

/-- `canonical_target` with `working_directory_spellings()` (fix 4aea684): the working directory
    as the kernel reports it and, when it names the same directory, the shell's `$PWD` -/
def canonicalTargetL (cwds : List (List Seg)) (t : Target) : Bool × List Seg :=
  if t.absolute then
    match stripAny cwds (clean t.segs) with
    | some rest => (false, orDot rest)
    | none => (true, clean t.segs)
  else (false, orDot (clean t.segs))

def dotdot : Seg := ['.', '.']

/-- `covers` of `drop_nested_targets` on target keys: a spelling with `..` relates to its own
    repetition only; otherwise component-wise prefix (`.` covers every relative target) -/
def covers (outer inner : List Seg) : Bool :=
  if outer.contains dotdot || inner.contains dotdot then outer == inner
  else outer.isPrefixOf inner

/-- is the target at position `i` nested in (or a later repetition of) another target? -/
def nestedAt (ts : List (List Seg)) (i : Nat) (t : List Seg) : Bool :=
  ts.zipIdx.any (fun p => p.2 != i && covers p.1 t && !(covers t p.1 && i < p.2))

/-- `drop_nested_targets` -/
def dropNested (ts : List (List Seg)) : List (List Seg) :=
  (ts.zipIdx.filter (fun p => !nestedAt ts p.2 p.1)).map (·.1)

/-- `resolve_scan_paths`: `--include` replaces the positional targets; every target is reduced to
    one spelling; nested targets are dropped.  Relative results only (`.` is the empty list);
    a target that stays absolute is kept as it is. -/
def resolveTargets (cwds : List (List Seg)) (ts : List Target) : List (Bool × List Seg) :=
  let reduced := ts.map (canonicalTargetL cwds)
  -- keys: a leading marker separates relative from absolute targets (`.` is the bare marker,
  -- which is a prefix of every relative key and of no absolute one)
  let key (r : Bool × List Seg) : List Seg :=
    if r.1 then [] :: r.2 else dot :: (if r.2 = [dot] then [] else r.2)
  let keys := reduced.map key
  (reduced.zipIdx.filter (fun p => !nestedAt keys p.2 (key p.1))).map (·.1)

/-- the walker yields `root.join(rel)` for every entry below the root (`rel = []` is the root) -/
def walked (root : List Seg) (rel : List Seg) : List Seg := root ++ rel

/-- `normalize_for_matching` on a relative path: one leading `./` is stripped, `.` alone is the
    empty path -/
def normalize : List Seg → List Seg
  | [] => []
  | s :: rest => if s = dot then rest else s :: rest

/-- `baseline_key`: the same, except that `.` alone stays `.` -/
def baselineKey : List Seg → List Seg
  | [] => []
  | [s] => [s]
  | s :: rest => if s = dot then rest else s :: rest

/-- `baseline_key` in a run started below the project root (fix: keys are project-relative):
    `below` is the working directory relative to the project root (empty at the root); the walked
    path is relative to the working directory -/
def baselineKeyAt (below : List Seg) (walked : List Seg) : List Seg :=
  if below.isEmpty then baselineKey walked
  else if baselineKey walked = [dot] then below
  else below ++ baselineKey walked

end SlocModel.PathSpelling
