import SlocModel.Basic.F64
/-!
  Model of src/checker/threshold.rs (`ThresholdChecker`) and
  src/commands/check/check_processing.rs (`compute_effective_stats`).

  Glob matching is a parameter: a rule list comes with one Boolean per rule
  ("the rule's pattern matches the normalised path"), computed by `globset` in the real code.
-/
namespace SlocModel.Threshold
open SlocModel

structure Stats where
  total : Nat
  code : Nat
  comment : Nat
  blank : Nat
  ignored : Nat
  deriving Repr, DecidableEq

/-- `[[content.rules]]` entry (`CompiledPathRule`); `warnThreshold` is the f64 bit pattern. -/
structure Rule where
  maxLines : Nat
  warnThreshold : Option Nat
  warnAt : Option Nat
  skipComments : Option Bool
  skipBlank : Option Bool
  deriving Repr, DecidableEq

/-- `[content]` globals; `warnThreshold` is `ThresholdChecker.warning_threshold`
    (the config value or the `--warn-threshold` override). -/
structure Global where
  maxLines : Nat
  warnThreshold : Nat
  warnAt : Option Nat
  skipComments : Bool
  skipBlank : Bool
  deriving Repr, DecidableEq

inductive Status where
  | passed | warning | failed
  deriving Repr, DecidableEq

def Status.rank : Status → Nat
  | .passed => 0 | .warning => 1 | .failed => 2

inductive WarnSource where
  | ruleAbsolute (i : Nat)
  | rulePercentage (i : Nat) (bits : Nat)
  | globalAbsolute
  | globalPercentage (bits : Nat)
  deriving Repr, DecidableEq

/-- `GlobSet::matches(..).last()`: index of the last `true`. -/
def lastMatchFrom : Nat → List Bool → Option Nat → Option Nat
  | _, [], acc => acc
  | i, b :: bs, acc => lastMatchFrom (i + 1) bs (if b then some i else acc)

def lastMatch (ms : List Bool) : Option Nat := lastMatchFrom 0 ms none

/-- the rule `check` consults for a path whose match vector is `ms` -/
def selected (rules : List Rule) (ms : List Bool) : Option (Nat × Rule) :=
  match lastMatch ms with
  | none => none
  | some i => match rules[i]? with
    | none => none
    | some r => some (i, r)

/-- `get_limit_for_path_impl` -/
def limitFor (g : Global) (rules : List Rule) (ms : List Bool) : Nat :=
  match selected rules ms with
  | some (_, r) => r.maxLines
  | none => g.maxLines

/-- `get_warn_limit_with_source_impl` -/
def warnPoint (g : Global) (rules : List Rule) (ms : List Bool) (effLimit : Nat) :
    Nat × WarnSource :=
  let global : Nat × WarnSource :=
    match g.warnAt with
    | some w => (w, .globalAbsolute)
    | none => (F64.pct effLimit g.warnThreshold, .globalPercentage g.warnThreshold)
  match selected rules ms with
  | some (i, r) =>
    match r.warnAt with
    | some w => (w, .ruleAbsolute i)
    | none =>
      match r.warnThreshold with
      | some t => (F64.pct r.maxLines t, .rulePercentage i t)
      | none => global
  | none => global

/-- `get_skip_settings_for_path_impl` -/
def skipFor (g : Global) (rules : List Rule) (ms : List Bool) : Bool × Bool :=
  match selected rules ms with
  | some (_, r) => (r.skipComments.getD g.skipComments, r.skipBlank.getD g.skipBlank)
  | none => (g.skipComments, g.skipBlank)

/-- `compute_effective_stats` followed by `LineStats::sloc()` (= the `code` field). -/
def effective (s : Stats) (skipC skipB : Bool) : Nat :=
  s.code + (if skipC then 0 else s.comment) + (if skipB then 0 else s.blank)

/-- the comparison ladder of `Checker::check` -/
def classify (eff limit warn : Nat) : Status :=
  if eff > limit then .failed else if eff ≥ warn then .warning else .passed

structure Verdict where
  status : Status
  eff : Nat
  limit : Nat
  warn : Nat
  source : WarnSource
  skipC : Bool
  skipB : Bool
  rule : Option Nat
  deriving Repr, DecidableEq

/-- `process_file_for_check` after counting: skip settings → effective stats → `check`. -/
def verdict (g : Global) (rules : List Rule) (ms : List Bool) (s : Stats) : Verdict :=
  let (sc, sb) := skipFor g rules ms
  let eff := effective s sc sb
  let limit := limitFor g rules ms
  let (warn, src) := warnPoint g rules ms limit
  { status := classify eff limit warn, eff, limit, warn, source := src,
    skipC := sc, skipB := sb, rule := (selected rules ms).map (·.1) }

/-- what `ThresholdChecker::explain` reports -/
structure Explanation where
  excluded : Bool
  rule : Option Nat
  limit : Nat
  warn : Nat
  source : WarnSource
  skipC : Bool
  skipB : Bool
  deriving Repr, DecidableEq

/-- `ThresholdChecker::explain`; `excluded` = some `content.exclude` pattern matches. -/
def explain (g : Global) (rules : List Rule) (ms : List Bool) (excluded : Bool) : Explanation :=
  let (sc, sb) := skipFor g rules ms
  if excluded then
    { excluded := true, rule := none, limit := 0, warn := 0,
      source := .globalPercentage g.warnThreshold, skipC := sc, skipB := sb }
  else
    let limit := limitFor g rules ms
    let (warn, src) := warnPoint g rules ms limit
    { excluded := false, rule := (selected rules ms).map (·.1), limit, warn, source := src,
      skipC := sc, skipB := sb }

/-- `ThresholdChecker::should_process` -/
def shouldProcess (excluded extFilterEmpty extListed : Bool) (ms : List Bool) : Bool :=
  if excluded then false
  else if extFilterEmpty then true
  else if extListed then true
  else ms.any id

end SlocModel.Threshold
