import SlocModel.Baseline
import SlocModel.Driver.Proto
import SlocModel.Driver.Toml
namespace SlocModel.Driver
open SlocModel.Baseline

def parseStatus (s : String) : Option Status :=
  match s with
  | "passed" => some .passed | "warning" => some .warning | "failed" => some .failed
  | "grandfathered" => some .grandfathered | _ => none

def showStatusB : Status → String
  | .passed => "passed" | .warning => "warning" | .failed => "failed" | .grandfathered => "grandfathered"

def parseKindB (s : String) : Option Kind :=
  match s with
  | "c" => some .content | "f" => some .files | "d" => some .dirs | "o" => some .otherStructure | _ => none

def showKindB : Kind → String
  | .content => "c" | .files => "f" | .dirs => "d" | .otherStructure => "o"

def parseEntriesB : Nat → List String → Option (Base × List String)
  | 0, rest => some ([], rest)
  | n + 1, p :: k :: c :: rest => do
    let key ← decodeStr p
    let cnt ← c.toNat?
    let e : Entry ← match k with
      | "c" => some (.content cnt) | "f" => some (.structure true cnt) | "d" => some (.structure false cnt)
      | _ => none
    let (es, rest') ← parseEntriesB n rest
    some ((key, e) :: es, rest')
  | _, _ => none

def parseResults : Nat → List String → Option (List Res × List String)
  | 0, rest => some ([], rest)
  | n + 1, p :: st :: k :: c :: rest => do
    let r : Res := { path := ← decodeStr p, status := ← parseStatus st, kind := ← parseKindB k, count := ← c.toNat? }
    let (rs, rest') ← parseResults n rest
    some (r :: rs, rest')
  | _, _ => none

def showBase : Option Base → String
  | none => "absent"
  | some b =>
    let items := b.map (fun (e : Key × Entry) =>
      let v := match e.2 with
        | .content n => s!"c{n}"
        | .structure true n => s!"f{n}"
        | .structure false n => s!"d{n}"
      s!"{encodeStr e.1}={v}")
    "{" ++ ",".intercalate (sortStrings items) ++ "}"

def showResults (rs : List Res) : String :=
  let items := rs.map (fun r => s!"{encodeStr r.path}:{showKindB r.kind}:{showStatusB r.status}")
  if items.isEmpty then "-" else ",".intercalate (sortStrings items)

def parseUpdate (s : String) : Option (Option UpdateMode) :=
  match s with
  | "-" => some none | "all" => some (some .all) | "content" => some (some .content)
  | "structure" => some (some .structure) | "new" => some (some .new) | _ => none

def parseRatchet (s : String) : Option (Option RatchetMode) :=
  match s with
  | "-" => some none | "warn" => some (some .warn) | "auto" => some (some .auto)
  | "strict" => some (some .strict) | _ => none

/-- `baseline-step given update ratchet warnOnly wae <disk: absent | n (path kind count)…>
      nres (path status kind count)… neval path…` -/
def handleBaselineStep (args : List String) : Option String :=
  match args with
  | given :: upd :: rat :: wo :: wae :: d :: rest => do
    let f : Flags := { baselineGiven := ← boolOf given, update := ← parseUpdate upd,
                       ratchet := ← parseRatchet rat, warnOnly := ← boolOf wo, wae := ← boolOf wae }
    let (disk, rest) ← (if d = "absent" then some (none, rest) else do
      let (b, rest') ← parseEntriesB (← d.toNat?) rest
      some (some b, rest'))
    match rest with
    | n :: rest => do
      let (rs, rest) ← parseResults (← n.toNat?) rest
      match rest with
      | ne :: rest => do
        let (ev, rest) ← parseStrs (← ne.toNat?) rest
        if !rest.isEmpty then none else
        match run disk rs ev f with
        | .configError => some "config-error"
        | .done rs' disk' ex st =>
          some s!"exit={ex} results={showResults rs'} disk={showBase disk'} stale={showNames st}"
      | [] => none
    | [] => none
  | _ => none

end SlocModel.Driver
