import SlocModel.Counter.Count
import SlocModel.Generated.Languages
import SlocModel.Driver.Proto
namespace SlocModel.Driver
open SlocModel.Counter

def parseKind (s : String) : Option PatternKind :=
  if s = "s" then some .static else if s = "l" then some .luaLongBracket
  else if s = "r" then some .rustRawString else none

def parseMultis : Nat → List String → Option (List MultiLine × List String)
  | 0, rest => some ([], rest)
  | n + 1, a :: b :: nest :: ls :: k :: rest => do
    let m : MultiLine := { start := ← decodeStr a, stop := ← decodeStr b, nesting := ← boolOf nest,
                           atLineStart := ← boolOf ls, kind := ← parseKind k }
    let (ms, rest') ← parseMultis n rest
    some (m :: ms, rest')
  | _, _ => none

/-- `<ns> s… <nm> (start stop nest linestart kind)…` -/
def parseSyntax (args : List String) : Option (Syntax × List String) :=
  match args with
  | ns :: rest => do
    let (singles, rest) ← parseStrs (← ns.toNat?) rest
    match rest with
    | nm :: rest => do
      let (multis, rest) ← parseMultis (← nm.toNat?) rest
      some ({ single := singles, multi := multis }, rest)
    | [] => none
  | [] => none

def classChar : LineClass → Char
  | .code => 'c' | .comment => 'm' | .blank => 'b' | .ignored => 'i'

/-- `count <syntax> <text>` -/
def handleCount (args : List String) : Option String := do
  let (syn, rest) ← parseSyntax args
  match rest with
  | [t] =>
    let src ← decodeStr t
    match classes syn src with
    | none => some "ignored-file"
    | some cs =>
      let s := tally cs
      some s!"stats {s.total} {s.code} {s.comment} {s.blank} {s.ignored} {String.ofList (cs.map classChar)}"
  | _ => none

def showClasses (syn : Syntax) (src : List Char) : String :=
  match classes syn src with
  | none => "ignored-file"
  | some cs => if cs.isEmpty then "empty" else String.ofList (cs.map classChar)

/-- text of `lines` with `ins` inserted before line index `k` (lines joined by `\n`, final newline) -/
def insertLine (lines : List (List Char)) (k : Nat) (ins : List Char) : List Char :=
  let ls := lines.take k ++ [ins] ++ lines.drop k
  ls.foldr (fun l acc => l ++ '\n' :: acc) []

/-- `insert <syntax> <k> <inserted line> <n> <line>…`: classes before and after the insertion -/
def handleInsert (args : List String) : Option String := do
  let (syn, rest) ← parseSyntax args
  match rest with
  | k :: ins :: n :: ls =>
    let (lines, rest') ← parseStrs (← n.toNat?) ls
    if !rest'.isEmpty then none else
    let before := lines.foldr (fun l acc => l ++ '\n' :: acc) []
    let after := insertLine lines (← k.toNat?) (← decodeStr ins)
    some s!"{showClasses syn before} {showClasses syn after}"
  | _ => none

/-- `find-start <syntax> <line>` -/
def handleFindStart (args : List String) : Option String := do
  let (syn, rest) ← parseSyntax args
  match rest with
  | [t] =>
    let line ← decodeStr t
    match findMultiLineStart syn line with
    | none => some "none"
    | some m => some s!"{m.pos} {encodeStr m.entry.start} {encodeStr m.endMarker} {showBool m.entry.nesting}"
  | _ => none

/-- `has-end <line> <end>` -/
def handleHasEnd (args : List String) : Option String :=
  match args with
  | [l, e] => do some (showBool (containsEnd (← decodeStr l) (← decodeStr e)))
  | _ => none

/-- `nesting <line> <start> <end>` -/
def handleNesting (args : List String) : Option String :=
  match args with
  | [l, a, b] => do
    let (o, c) := countMarkers (← decodeStr l) (← decodeStr a) (← decodeStr b)
    some s!"{o} {c}"
  | _ => none

def kindChar : PatternKind → String
  | .static => "s" | .luaLongBracket => "l" | .rustRawString => "r"

def showLanguage (l : Language) : String :=
  let ms := l.syn.multi.map (fun m =>
    s!"{encodeStr m.start}~{encodeStr m.stop}~{showBool m.nesting}~{showBool m.atLineStart}~{kindChar m.kind}")
  s!"{encodeStr l.name}|{",".intercalate (l.exts.map encodeStr)}|{",".intercalate (l.syn.single.map encodeStr)}|{";".intercalate ms}"

/-- `langs`: the generated built-in table, canonical -/
def handleLangs (_ : List String) : Option String :=
  some (" ".intercalate (Generated.builtins.map showLanguage))

end SlocModel.Driver
