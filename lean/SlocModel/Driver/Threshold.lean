import SlocModel.Threshold
import SlocModel.Driver.Proto
namespace SlocModel.Driver
open SlocModel.Threshold

def showStatus : Status → String
  | .passed => "passed" | .warning => "warning" | .failed => "failed"

def showSource : WarnSource → String
  | .ruleAbsolute i => s!"rule-abs:{i}"
  | .rulePercentage i b => s!"rule-pct:{i}:{b}"
  | .globalAbsolute => "global-abs"
  | .globalPercentage b => s!"global-pct:{b}"

def parseRules : Nat → List String → Option (List (Rule × Bool) × List String)
  | 0, rest => some ([], rest)
  | n + 1, mx :: wt :: wa :: sc :: sb :: m :: rest => do
    let r : Rule := { maxLines := ← mx.toNat?, warnThreshold := ← optNat wt, warnAt := ← optNat wa,
                      skipComments := ← optBool sc, skipBlank := ← optBool sb }
    let b ← boolOf m
    let (rs, rest') ← parseRules n rest
    some ((r, b) :: rs, rest')
  | _, _ => none

/-- `verdict gmax gwt gwa gsc gsb excl extEmpty extListed n (rmax rwt rwa rsc rsb m)* total code comment blank ignored` -/
def handleVerdict (args : List String) : Option String :=
  match args with
  | gmax :: gwt :: gwa :: gsc :: gsb :: excl :: ee :: el :: n :: rest => do
    let g : Global := { maxLines := ← gmax.toNat?, warnThreshold := ← gwt.toNat?,
                        warnAt := ← optNat gwa, skipComments := ← boolOf gsc,
                        skipBlank := ← boolOf gsb }
    let excl ← boolOf excl
    let ee ← boolOf ee
    let el ← boolOf el
    let (rs, rest) ← parseRules (← n.toNat?) rest
    match rest with
    | [t, c, m, b, i] =>
      let s : Stats := { total := ← t.toNat?, code := ← c.toNat?, comment := ← m.toNat?,
                         blank := ← b.toNat?, ignored := ← i.toNat? }
      let rules := rs.map (·.1)
      let ms := rs.map (·.2)
      let v := verdict g rules ms s
      let x := explain g rules ms excl
      let sp := shouldProcess excl ee el ms
      some (s!"process={showBool sp} status={showStatus v.status} eff={v.eff} limit={v.limit} " ++
            s!"warn={if v.warn ≤ v.limit then toString v.warn else ">limit"} skip={showBool v.skipC}{showBool v.skipB} " ++
            s!"| x excl={showBool x.excluded} rule={showOptNat x.rule} " ++
            s!"limit={x.limit} warn={x.warn} src={showSource x.source} " ++
            s!"skip={showBool x.skipC}{showBool x.skipB}")
    | _ => none
  | _ => none

/-- `pct limit bits` -/
def handlePct (args : List String) : Option String :=
  match args with
  | [l, b] => do some (toString (F64.pct (← l.toNat?) (← b.toNat?)))
  | _ => none

end SlocModel.Driver
