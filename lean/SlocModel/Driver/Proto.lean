/-!  Line protocol shared by all driver operations: space separated fields; numbers in decimal;
     `-` = absent optional; strings as `.`-separated hexadecimal Unicode scalar values
     (`_` = empty string). -/
namespace SlocModel.Driver

def optNat (s : String) : Option (Option Nat) :=
  if s = "-" then some none else s.toNat?.map some

def boolOf (s : String) : Option Bool :=
  if s = "1" then some true else if s = "0" then some false else none

def optBool (s : String) : Option (Option Bool) :=
  if s = "-" then some none else (boolOf s).map some

def hexDigit (c : Char) : Option Nat :=
  if '0' ≤ c ∧ c ≤ '9' then some (c.toNat - '0'.toNat)
  else if 'a' ≤ c ∧ c ≤ 'f' then some (c.toNat - 'a'.toNat + 10)
  else if 'A' ≤ c ∧ c ≤ 'F' then some (c.toNat - 'A'.toNat + 10)
  else none

def hexNat (s : String) : Option Nat :=
  if s.isEmpty then none else
  s.toList.foldl (fun acc c => match acc, hexDigit c with
    | some a, some d => some (a * 16 + d)
    | _, _ => none) (some 0)

/-- decode a hex-encoded string field -/
def decodeStr (s : String) : Option (List Char) :=
  if s = "_" then some [] else
  (s.splitOn ".").foldr (fun tok acc => match acc, hexNat tok with
    | some cs, some n => some (Char.ofNat n :: cs)
    | _, _ => none) (some [])

def hexOfNat (n : Nat) : String := String.ofList (Nat.toDigits 16 n)

def encodeStr (cs : List Char) : String :=
  if cs.isEmpty then "_" else ".".intercalate (cs.map (fun c => hexOfNat c.toNat))

def parseStrs : Nat → List String → Option (List (List Char) × List String)
  | 0, rest => some ([], rest)
  | n + 1, s :: rest => do
    let cs ← decodeStr s
    let (xs, rest') ← parseStrs n rest
    some (cs :: xs, rest')
  | _, _ => none

def sortStrings (xs : List String) : List String :=
  xs.foldl (fun acc x =>
    let rec ins : List String → List String
      | [] => [x]
      | y :: ys => if x < y then x :: y :: ys else y :: ins ys
    ins acc) []

def showBool (b : Bool) : String := if b then "1" else "0"
def showOptNat : Option Nat → String
  | none => "-"
  | some n => toString n

end SlocModel.Driver
