import SlocModel.Gate
import SlocModel.Generated.Presets
import SlocModel.Driver.Proto
namespace SlocModel.Driver
open SlocModel.Gate

def gateOptInt (s : String) : Option (Option Int) :=
  if s = "-" then some none else s.toInt?.map some

def gateOptStr (s : String) : Option (Option (List Char)) :=
  if s = "-" then some none else (decodeStr s).map some

def showField : Field → String
  | .contentWarnThreshold => "content.warn_threshold"
  | .contentWarnAt => "content.warn_at"
  | .ruleWarnThreshold i => s!"content.rules[{i}].warn_threshold"
  | .ruleWarnAt i => s!"content.rules[{i}].warn_at"
  | .ruleInheritedWarnAt i => s!"content.rules[{i}].inherited_warn_at"
  | .ruleExpires i => s!"content.rules[{i}].expires"
  | .scannerExclude => "scanner.exclude"
  | .contentExclude => "content.exclude"
  | .reportExclude => "stats.report.exclude"
  | .breakdownBy => "stats.report.breakdown_by"
  | .trendSince => "stats.report.trend_since"
  | .sWarnThreshold => "structure.warn_threshold"
  | .sWarnFilesThreshold => "structure.warn_files_threshold"
  | .sWarnDirsThreshold => "structure.warn_dirs_threshold"
  | .sWarnFilesAtNeg => "structure.warn_files_at<0"
  | .sWarnDirsAtNeg => "structure.warn_dirs_at<0"
  | .sWarnFilesAtMax => "structure.warn_files_at>=max"
  | .sWarnDirsAtMax => "structure.warn_dirs_at>=max"
  | .srWarnThreshold i => s!"structure.rules[{i}].warn_threshold"
  | .srWarnFilesThreshold i => s!"structure.rules[{i}].warn_files_threshold"
  | .srWarnDirsThreshold i => s!"structure.rules[{i}].warn_dirs_threshold"
  | .srWarnFilesAtNeg i => s!"structure.rules[{i}].warn_files_at<0"
  | .srWarnDirsAtNeg i => s!"structure.rules[{i}].warn_dirs_at<0"
  | .srWarnFilesAtMax i => s!"structure.rules[{i}].warn_files_at>=max"
  | .srWarnDirsAtMax i => s!"structure.rules[{i}].warn_dirs_at>=max"
  | .srEffFiles i => s!"structure.rules[{i}].effective_warn_files_at"
  | .srEffDirs i => s!"structure.rules[{i}].effective_warn_dirs_at"
  | .srExpires i => s!"structure.rules[{i}].expires"
  | .rulePattern => "content.rules.pattern"
  | .sMaxFiles => "structure.max_files"
  | .sMaxDirs => "structure.max_dirs"
  | .sMaxDepth => "structure.max_depth"
  | .srMaxFiles i => s!"structure.rules[{i}].max_files"
  | .srMaxDirs i => s!"structure.rules[{i}].max_dirs"
  | .srMaxDepth i => s!"structure.rules[{i}].max_depth"
  | .sibling i j => s!"structure.rules[{i}].siblings[{j}]"
  | .mixGlobal => "structure.allow+deny"
  | .mixRule i => s!"structure.rules[{i}].allow+deny"
  | .structPattern => "structure.pattern"

def parseContentRules : Nat → List String → Option (List ContentRule × List String)
  | 0, rest => some ([], rest)
  | n + 1, po :: ml :: wt :: wa :: ex :: rest => do
    let r : ContentRule := { patternOk := ← boolOf po, maxLines := ← ml.toNat?, warnThreshold := ← optNat wt,
                             warnAt := ← optNat wa, expires := ← gateOptStr ex }
    let (rs, rest') ← parseContentRules n rest
    some (r :: rs, rest')
  | _, _ => none

def parseSiblings : Nat → List String → Option (List Sibling × List String)
  | 0, rest => some ([], rest)
  | n + 1, "d" :: me :: k :: rest => do
    let (pats, rest1) ← parseStrs (← k.toNat?) rest
    let (ss, rest2) ← parseSiblings n rest1
    some (.directed (← boolOf me) pats :: ss, rest2)
  | n + 1, "g" :: k :: rest => do
    let (pats, rest1) ← parseStrs (← k.toNat?) rest
    let (ss, rest2) ← parseSiblings n rest1
    some (.group pats :: ss, rest2)
  | _, _ => none

def parseStructRules : Nat → List String → Option (List StructRule × List String)
  | 0, rest => some ([], rest)
  | n + 1, so :: mf :: md :: mdp :: wt :: wft :: wdt :: wfa :: wda :: ha :: hd :: po :: ex :: ns :: rest => do
    let (sibs, rest1) ← parseSiblings (← ns.toNat?) rest
    let r : StructRule := {
      scopeOk := ← boolOf so, maxFiles := ← gateOptInt mf, maxDirs := ← gateOptInt md, maxDepth := ← gateOptInt mdp,
      warnThreshold := ← optNat wt, warnFilesThreshold := ← optNat wft, warnDirsThreshold := ← optNat wdt,
      warnFilesAt := ← gateOptInt wfa, warnDirsAt := ← gateOptInt wda, hasAllow := ← boolOf ha, hasDeny := ← boolOf hd,
      patternsOk := ← boolOf po, expires := ← gateOptStr ex, siblings := sibs }
    let (rs, rest2) ← parseStructRules n rest1
    some (r :: rs, rest2)
  | _, _ => none

def parseGateCfg (args : List String) : Option (Cfg × List String) :=
  match args with
  | wt :: ml :: wa :: se :: ce :: re :: bb :: ts :: smf :: smd :: smdp :: swt :: swft :: swdt :: swfa :: swda ::
      sha :: shd :: spo :: nr :: rest => do
    let (rules, rest1) ← parseContentRules (← nr.toNat?) rest
    match rest1 with
    | nsr :: rest2 => do
      let (srules, rest3) ← parseStructRules (← nsr.toNat?) rest2
      let c : Cfg := {
        warnThreshold := ← wt.toNat?, maxLines := ← ml.toNat?, warnAt := ← optNat wa, rules := rules,
        scannerExcludeOk := ← boolOf se, contentExcludeOk := ← boolOf ce, reportExcludeOk := ← boolOf re,
        breakdownByOk := ← boolOf bb, trendSince := ← gateOptStr ts,
        sMaxFiles := ← gateOptInt smf, sMaxDirs := ← gateOptInt smd, sMaxDepth := ← gateOptInt smdp,
        sWarnThreshold := ← optNat swt, sWarnFilesThreshold := ← optNat swft, sWarnDirsThreshold := ← optNat swdt,
        sWarnFilesAt := ← gateOptInt swfa, sWarnDirsAt := ← gateOptInt swda,
        sHasAllow := ← boolOf sha, sHasDeny := ← boolOf shd, sPatternsOk := ← boolOf spo, srules := srules }
      some (c, rest3)
    | [] => none
  | _ => none

def showOutcome : Outcome → String
  | .proceeds => "proceeds"
  | .rejectedAtLoad f => s!"load:{showField f}"
  | .rejectedAfterFlags f => s!"flags:{showField f}"

/-- `gate <cfg…> <max-lines|-> <warn-threshold bits|-> <max-files|-> <max-dirs|-> <max-depth|->` -/
def handleGate (args : List String) : Option String := do
  let (c, rest) ← parseGateCfg args
  match rest with
  | [fml, fwt, fmf, fmd, fmdp] => do
    let f : Flags := { maxLines := ← optNat fml, warnThreshold := ← optNat fwt, maxFiles := ← gateOptInt fmf,
                       maxDirs := ← gateOptInt fmd, maxDepth := ← gateOptInt fmdp }
    let load := match loadOutcome c with
      | none => "ok"
      | some fld => showField fld
    some s!"load={load} check={showOutcome (checkOutcome c f)}"
  | _ => none

/-! serialisation of a generated preset in the request format (ties the translator to the
    presets the binary really ships) -/

def sOptNat : Option Nat → String
  | none => "-"
  | some n => toString n
def sOptInt : Option Int → String
  | none => "-"
  | some n => toString n
def sOptStr : Option (List Char) → String
  | none => "-"
  | some s => encodeStr s

def sSibling : Sibling → String
  | .directed me req => s!"d {showBool me} {req.length} {" ".intercalate (req.map encodeStr)}"
  | .group ps => s!"g {ps.length} {" ".intercalate (ps.map encodeStr)}"

def sContentRule (r : ContentRule) : String :=
  s!"{showBool r.patternOk} {r.maxLines} {sOptNat r.warnThreshold} {sOptNat r.warnAt} {sOptStr r.expires}"

def sStructRule (r : StructRule) : String :=
  let head := s!"{showBool r.scopeOk} {sOptInt r.maxFiles} {sOptInt r.maxDirs} {sOptInt r.maxDepth} {sOptNat r.warnThreshold} {sOptNat r.warnFilesThreshold} {sOptNat r.warnDirsThreshold} {sOptInt r.warnFilesAt} {sOptInt r.warnDirsAt} {showBool r.hasAllow} {showBool r.hasDeny} {showBool r.patternsOk} {sOptStr r.expires} {r.siblings.length}"
  " ".intercalate (head :: r.siblings.map sSibling)

def sCfg (c : Cfg) : String :=
  let head := s!"{c.warnThreshold} {c.maxLines} {sOptNat c.warnAt} {showBool c.scannerExcludeOk} {showBool c.contentExcludeOk} {showBool c.reportExcludeOk} {showBool c.breakdownByOk} {sOptStr c.trendSince} {sOptInt c.sMaxFiles} {sOptInt c.sMaxDirs} {sOptInt c.sMaxDepth} {sOptNat c.sWarnThreshold} {sOptNat c.sWarnFilesThreshold} {sOptNat c.sWarnDirsThreshold} {sOptInt c.sWarnFilesAt} {sOptInt c.sWarnDirsAt} {showBool c.sHasAllow} {showBool c.sHasDeny} {showBool c.sPatternsOk} {c.rules.length}"
  " ".intercalate ((head :: c.rules.map sContentRule) ++ [toString c.srules.length] ++ c.srules.map sStructRule)

/-- `preset <name>`: the generated preset in request format and the gate's answer -/
def handlePreset (args : List String) : Option String :=
  match args with
  | [name] => do
    let n ← decodeStr name
    match Generated.presets.find? (fun p => p.1 = n) with
    | some (_, c) =>
      let g := match gate c with
        | none => "ok"
        | some f => showField f
      some s!"gate={g} cfg={(sCfg c).replace " " ","}"
    | none => some "unknown-preset"
  | _ => none

/-- `date <string>` -/
def handleDate (args : List String) : Option String :=
  match args with
  | [s] => do some (showBool (dateOk (← decodeStr s)))
  | _ => none

end SlocModel.Driver
