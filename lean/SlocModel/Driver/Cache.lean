import SlocModel.Cache
import SlocModel.Driver.Proto
namespace SlocModel.Driver
open SlocModel.Cache

def parseTable : Nat → List String → Option (List (Nat × Nat) × List String)
  | 0, rest => some ([], rest)
  | n + 1, c :: s :: rest => do
    let (t, rest') ← parseTable n rest
    some ((← c.toNat?, ← s.toNat?) :: t, rest')
  | _, _ => none

def parseOps : List String → Option (List Op)
  | [] => some []
  | "w" :: p :: c :: rest => do some (.write (← p.toNat?) (← c.toNat?) :: (← parseOps rest))
  | "d" :: p :: rest => do some (.delete (← p.toNat?) :: (← parseOps rest))
  | "r" :: p :: q :: rest => do some (.rename (← p.toNat?) (← q.toNat?) :: (← parseOps rest))
  | "t" :: dt :: rest => do some (.tick (← dt.toNat?) :: (← parseOps rest))
  | "run" :: rest => do some (.run :: (← parseOps rest))
  | "drop" :: rest => do some (.dropCache :: (← parseOps rest))
  | _ => none

def showRun (out : List (Path × Stats)) : String :=
  let items := out.map (fun (p : Path × Stats) => s!"{p.1}:{p.2}")
  if items.isEmpty then "-" else ",".intercalate (sortStrings items)

/-- `cache-hist <now0> nc (count size)… ops…` — content id `i` (1-based) has the i-th
    (count, size) pair; answer: the per-file statistics of every `run`, files sorted -/
def handleCacheHist (args : List String) : Option String :=
  match args with
  | now0 :: nc :: rest => do
    let (table, rest) ← parseTable (← nc.toNat?) rest
    let ops ← parseOps rest
    let count : Content → Nat := fun c => ((table[c - 1]?).map (·.1)).getD 0
    let sizeOf : Content → Nat := fun c => ((table[c - 1]?).map (·.2)).getD 0
    let outs := outputs count sizeOf ⟨[], [], ← now0.toNat?⟩ ops
    some (if outs.isEmpty then "-" else " ; ".intercalate (outs.map showRun))
  | _ => none

end SlocModel.Driver
