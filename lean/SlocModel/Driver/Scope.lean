import SlocModel.Scope
import SlocModel.Driver.Proto
namespace SlocModel.Driver
open SlocModel.Scope

def toNats (cs : List Char) : List Nat := cs.map Char.toNat

/-- `scope <n> exclude… <n> extension… <n> rule pattern… <path>`: is the file processed, and which
    content rule governs it — computed from the pattern texts -/
def handleScope (args : List String) : Option String := do
  let ne ← args.head?.bind String.toNat?
  let (excl, r1) ← parseStrs ne args.tail
  let nx ← r1.head?.bind String.toNat?
  let (exts, r2) ← parseStrs nx r1.tail
  let nr ← r2.head?.bind String.toNat?
  let (rules, r3) ← parseStrs nr r2.tail
  match r3 with
  | [p] =>
    let path ← decodeStr p
    let c : Cfg := { exclude := excl.map toNats, extensions := exts.map toNats, rules := rules.map toNats }
    some s!"process={showBool (shouldProcess c (toNats path))} rule={showOptNat (governingRule c (toNats path))}"
  | _ => none

end SlocModel.Driver
