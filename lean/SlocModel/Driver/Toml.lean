import SlocModel.Extends
import SlocModel.Driver.Proto
/-!  Wire format of TOML values (one token, no spaces):
       s<hex>            string            o<tag>:<hex>   other scalar (opaque)
       a[v;v;…]          array             t{<hexkey>=v;…} table
     Output tables are sorted by key (code point order = Rust `String` order). -/
namespace SlocModel.Driver
open SlocModel.Toml SlocModel.Extends

def splitAtChar (c : Char) : List Char → List Char × List Char
  | [] => ([], [])
  | x :: xs => if x = c then ([], xs) else let (a, b) := splitAtChar c xs; (x :: a, b)

def decodeHexChars (cs : List Char) : Option (List Char) := decodeStr (String.ofList cs)

mutual
partial def parseValue : List Char → Option (Value × List Char)
  | 's' :: rest =>
    let tok := rest.takeWhile (fun c => c != ';' && c != ']' && c != '}')
    match decodeHexChars tok with
    | some s => some (.str s, rest.drop tok.length)
    | none => none
  | 'o' :: rest =>
    let tok := rest.takeWhile (fun c => c != ';' && c != ']' && c != '}')
    let (tag, payload) := splitAtChar ':' tok
    match (String.ofList tag).toNat?, decodeHexChars payload with
    | some t, some p => some (.other t p, rest.drop tok.length)
    | _, _ => none
  | 'a' :: '[' :: rest => match parseArr rest with
    | some (xs, rest') => some (.arr xs, rest')
    | none => none
  | 't' :: '{' :: rest => match parseTbl rest with
    | some (fs, rest') => some (.tbl fs, rest')
    | none => none
  | _ => none
partial def parseArr : List Char → Option (Arr × List Char)
  | ']' :: rest => some (.nil, rest)
  | cs => match parseValue cs with
    | some (v, ';' :: rest) => match parseArr rest with
      | some (vs, rest') => some (.cons v vs, rest')
      | none => none
    | some (v, ']' :: rest) => some (.cons v .nil, rest)
    | _ => none
partial def parseTbl : List Char → Option (Tbl × List Char)
  | '}' :: rest => some (.nil, rest)
  | cs =>
    let (k, rest) := splitAtChar '=' cs
    match decodeHexChars k, parseValue rest with
    | some key, some (v, ';' :: rest') => match parseTbl rest' with
      | some (fs, rest'') => some (.cons key v fs, rest'')
      | none => none
    | some key, some (v, '}' :: rest') => some (.cons key v .nil, rest')
    | _, _ => none
end

def parseValueTok (s : String) : Option Value :=
  match parseValue s.toList with
  | some (v, []) => some v
  | _ => none

def keyLt : List Char → List Char → Bool
  | [], [] => false
  | [], _ => true
  | _, [] => false
  | a :: as, b :: bs => if a.toNat < b.toNat then true else if a.toNat > b.toNat then false else keyLt as bs

def insertSorted (k : List Char) (v : String) : List (List Char × String) → List (List Char × String)
  | [] => [(k, v)]
  | (k', v') :: rest => if keyLt k k' then (k, v) :: (k', v') :: rest else (k', v') :: insertSorted k v rest

mutual
partial def showValue : Value → String
  | .str s => "s" ++ encodeStr s
  | .other t p => s!"o{t}:{encodeStr p}"
  | .arr xs => "a[" ++ ";".intercalate (showArr xs) ++ "]"
  | .tbl fs =>
    let entries := (showTbl fs).foldl (fun acc (kv : List Char × String) => insertSorted kv.1 kv.2 acc) []
    "t{" ++ ";".intercalate (entries.map (fun (kv : List Char × String) => encodeStr kv.1 ++ "=" ++ kv.2)) ++ "}"
partial def showArr : Arr → List String
  | .nil => []
  | .cons v vs => showValue v :: showArr vs
partial def showTbl : Tbl → List (List Char × String)
  | .nil => []
  | .cons k v fs => (k, showValue v) :: showTbl fs
end

def showNames (ns : List Name) : String :=
  if ns.isEmpty then "-" else ",".intercalate (ns.map encodeStr)

def showErr : Err → String
  | .fileAccess n => s!"err file-access {encodeStr n}"
  | .tooDeep d chain => s!"err too-deep {d} {showNames chain}"
  | .circular chain => s!"err circular {showNames chain}"
  | .resetPosition => "err reset-position"
  | .unknownPreset n => s!"err unknown-preset {encodeStr n}"
  | .remote => "err remote"
  | .badExtends => "err bad-extends"
  | .outOfFuel => "err out-of-fuel"

def parseFiles : Nat → List String → Option (List (Name × Value) × List String)
  | 0, rest => some ([], rest)
  | n + 1, k :: v :: rest => do
    let key ← decodeStr k
    let value ← parseValueTok v
    let (fs, rest') ← parseFiles n rest
    some ((key, value) :: fs, rest')
  | _, _ => none

/-- `extends <start> <nfiles> (<name> <value>)… <npresets> (<name> <value>)…` -/
def handleExtends (args : List String) : Option String :=
  match args with
  | start :: n :: rest => do
    let (fs, rest) ← parseFiles (← n.toNat?) rest
    match rest with
    | np :: rest => do
      let (presets, rest) ← parseFiles (← np.toNat?) rest
      if !rest.isEmpty then none else
      match resolve fs presets defaultFuel (← decodeStr start) [] 0 with
      | .ok (v, visited) => some s!"ok {showValue v} visited={showNames visited}"
      | .error e => some (showErr e)
    | [] => none
  | _ => none

/-- `merge <base> <child>` -/
def handleMerge (args : List String) : Option String :=
  match args with
  | [a, b] => do some (showValue (merge (← parseValueTok a) (← parseValueTok b)))
  | _ => none

/-- `finish <value>`: validate marker positions then strip (`err reset-position` otherwise) -/
def handleFinish (args : List String) : Option String :=
  match args with
  | [a] => do
    match leafOnly (← parseValueTok a) with
    | .ok v => some s!"ok {showValue v}"
    | .error e => some (showErr e)
  | _ => none

end SlocModel.Driver
