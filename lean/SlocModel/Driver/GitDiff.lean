import SlocModel.GitDiff
import SlocModel.Driver.Proto
namespace SlocModel.Driver
open SlocModel.GitDiff

/-- tree tokens in preorder: `b,<name>,<id>,<x>` `l,<name>,<id>` `c,<name>,<id>` `t,<name>` … `e` -/
partial def parseTree : List String → Option (Tree × List String)
  | [] => some (.nil, [])
  | tok :: rest =>
    if tok = "e" then some (.nil, rest) else
    match tok.splitOn "," with
    | ["b", name, id, x] => do
      let (more, rest') ← parseTree rest
      some (.cons (← decodeStr name) (.blob (← id.toNat?) (← boolOf x)) more, rest')
    | ["l", name, id] => do
      let (more, rest') ← parseTree rest
      some (.cons (← decodeStr name) (.link (← id.toNat?)) more, rest')
    | ["c", name, id] => do
      let (more, rest') ← parseTree rest
      some (.cons (← decodeStr name) (.commit (← id.toNat?)) more, rest')
    | ["t", name] => do
      let (sub, rest1) ← parseTree rest
      let (more, rest2) ← parseTree rest1
      some (.cons (← decodeStr name) (.tree sub) more, rest2)
    | _ => none

def parsePath (s : String) : Option Path :=
  (s.splitOn "/").foldr (fun tok acc => match acc, decodeStr tok with
    | some ns, some n => some (n :: ns)
    | _, _ => none) (some [])

def showPath (p : Path) : String := "/".intercalate (p.map encodeStr)

def dedup (xs : List String) : List String :=
  xs.foldr (fun x acc => if acc.contains x then acc else x :: acc) []

def showPaths (ps : List Path) : String :=
  let s := sortStrings (dedup (ps.map showPath))
  if s.isEmpty then "-none-" else ";".intercalate s

def takeN {α : Type} (f : String → Option α) : Nat → List String → Option (List α × List String)
  | 0, rest => some ([], rest)
  | n + 1, s :: rest => do
    let x ← f s
    let (xs, rest') ← takeN f n rest
    some (x :: xs, rest')
  | _, _ => none

/-- `git-diff <n> base-tokens… <m> target-tokens… <k> existing-paths…` -/
def handleGitDiff (args : List String) : Option String :=
  match args with
  | n :: rest => do
    let (bt, rest) ← takeN some (← n.toNat?) rest
    let (base, left) ← parseTree bt
    if !left.isEmpty then none else
    match rest with
    | m :: rest => do
      let (tt, rest) ← takeN some (← m.toNat?) rest
      let (target, left) ← parseTree tt
      if !left.isEmpty then none else
      match rest with
      | k :: rest => do
        let (ex, rest) ← takeN parsePath (← k.toNat?) rest
        if !rest.isEmpty then none else
        some s!"set={showPaths (changedSet base target (fun p => ex.contains p))}"
      | [] => none
    | [] => none
  | [] => none

def parseIndexEntry (s : String) : Option IndexEntry :=
  match s.splitOn "," with
  | [p, id, k] => do
    let kind ← (match k with
      | "b" => some IndexKind.blob | "l" => some .link | "c" => some .commit | _ => none)
    some { path := ← parsePath p, id := ← id.toNat?, kind := kind }
  | _ => none

/-- `git-staged <n> index-entries(path,id,kind)… <m> head-tokens…` -/
def handleGitStaged (args : List String) : Option String :=
  match args with
  | n :: rest => do
    let (idx, rest) ← takeN parseIndexEntry (← n.toNat?) rest
    match rest with
    | m :: rest => do
      let (ht, rest) ← takeN some (← m.toNat?) rest
      if !rest.isEmpty then none else
      let (head, left) ← parseTree ht
      if !left.isEmpty then none else
      some s!"staged={showPaths (stagedSet idx (flatTree head []))}"
    | [] => none
  | [] => none

/-- `range <string>` -/
def handleRange (args : List String) : Option String :=
  match args with
  | [s] => do
    match parseRange (← decodeStr s) with
    | .ok b t => some s!"ok {encodeStr b} {encodeStr t}"
    | .error => some "error"
  | _ => none

end SlocModel.Driver
