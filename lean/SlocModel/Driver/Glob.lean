import SlocModel.Glob
import SlocModel.Driver.Proto
namespace SlocModel.Driver
open SlocModel.Glob

def showPErr : PErr → String
  | .unclosedClass => "unclosed-class"
  | .invalidRange => "invalid-range"
  | .unopenedAlternates => "unopened-alternates"
  | .unclosedAlternates => "unclosed-alternates"
  | .danglingEscape => "dangling-escape"
  | .unsupported => "unsupported"

/-- `glob <pattern> <path>`: does the pattern match the path (path given as code points, matched as UTF-8 bytes) -/
def handleGlob (args : List String) : Option String :=
  match args with
  | [pat, path] => do
    let p ← decodeStr pat
    let s ← decodeStr path
    match globMatch (p.map Char.toNat) (utf8s (s.map Char.toNat)) with
    | .ok b => some s!"m={showBool b}"
    | .error e => some s!"err={showPErr e}"
  | _ => none

end SlocModel.Driver
