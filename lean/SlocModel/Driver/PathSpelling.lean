import SlocModel.PathSpelling
import SlocModel.Driver.Proto
namespace SlocModel.Driver
open SlocModel.PathSpelling

def splitSlash : List Char → List Char → List (List Char)
  | [], cur => [cur.reverse]
  | c :: cs, cur => if c = '/' then cur.reverse :: splitSlash cs [] else splitSlash cs (c :: cur)

def joinSlash (segs : List (List Char)) : List Char :=
  match segs with
  | [] => []
  | s :: rest => rest.foldl (fun acc x => acc ++ ['/'] ++ x) s

/-- `target <cwd> <spelled>`: the canonical spelling of a scan target -/
def handleTarget (args : List String) : Option String :=
  match args with
  | [cwd, spelled] => do
    let c ← decodeStr cwd
    let s ← decodeStr spelled
    let abs := s.head? = some '/'
    let (a, segs) := canonicalTarget (splitSlash c []) { absolute := abs, segs := splitSlash s [] }
    some (encodeStr ((if a then ['/'] else []) ++ joinSlash segs))
  | [cwd, logical, spelled] => do
    let c ← decodeStr cwd
    let s ← decodeStr spelled
    let cwds ← if logical = "-" then some [splitSlash c []] else do
      let l ← decodeStr logical
      some [splitSlash c [], splitSlash l []]
    let abs := s.head? = some '/'
    let (a, segs) := canonicalTargetL cwds { absolute := abs, segs := splitSlash s [] }
    some (encodeStr ((if a then ['/'] else []) ++ joinSlash segs))
  | _ => none

/-- `targets <cwd> <logical|-> <n> <spelled>…`: the scan targets after reduction and after
    nested targets were dropped -/
def handleTargets (args : List String) : Option String :=
  match args with
  | cwd :: logical :: n :: rest => do
    let c ← decodeStr cwd
    let cwds ← if logical = "-" then some [splitSlash c []] else do
      let l ← decodeStr logical
      some [splitSlash c [], splitSlash l []]
    let (ts, rest') ← parseStrs (← n.toNat?) rest
    if !rest'.isEmpty then none else
    let targets := ts.map (fun s => ({ absolute := s.head? = some '/', segs := splitSlash s [] } : Target))
    let kept := resolveTargets cwds targets
    some (" ".intercalate (kept.map (fun r => encodeStr ((if r.1 then ['/'] else []) ++ joinSlash r.2))))
  | _ => none

/-- `match-key <walked path>`: the key the rule families match and the baseline key -/
def handleMatchKey (args : List String) : Option String :=
  match args with
  | [p] => do
    let s ← decodeStr p
    let segs := splitSlash s []
    some s!"match={encodeStr (joinSlash (normalize segs))} baseline={encodeStr (joinSlash (baselineKey segs))}"
  | [p, below] => do
    let s ← decodeStr p
    let b ← decodeStr below
    let segs := splitSlash s []
    let bsegs := if b.isEmpty then [] else splitSlash b []
    some s!"match={encodeStr (joinSlash (normalize segs))} baseline={encodeStr (joinSlash (baselineKeyAt bsegs segs))}"
  | _ => none

end SlocModel.Driver
