import SlocModel.Uri
import SlocModel.Glob
import SlocModel.Driver.Proto
namespace SlocModel.Driver

/-- `uri <path>`: the SARIF artifact URI of a path (given as code points, encoded over its UTF-8 bytes) -/
def handleUri (args : List String) : Option String :=
  match args with
  | [p] => do
    let s ← decodeStr p
    let bytes := SlocModel.Glob.utf8s (s.map Char.toNat)
    some (encodeStr ((SlocModel.Uri.pathToUri bytes).map Char.ofNat))
  | _ => none

end SlocModel.Driver
