import SlocModel.Report
import SlocModel.Driver.Proto
namespace SlocModel.Driver
open SlocModel.Report

def statusOf (s : String) : Option Status :=
  match s with
  | "p" => some .passed | "w" => some .warning | "f" => some .failed | "g" => some .grandfathered
  | _ => none

def parseReportStatuses : List String → Nat → Option (List Result)
  | [], _ => some []
  | s :: rest, i => do
    let st ← statusOf s
    let more ← parseReportStatuses rest (i + 1)
    some ({ path := (toString i).toList, status := st } :: more)

/-- `summary <status>…` -/
def handleSummary (args : List String) : Option String := do
  let rs ← parseReportStatuses args 0
  let s := foldSummary rs
  some s!"total={s.total} passed={s.passed} warnings={s.warnings} failed={s.failed} grandfathered={s.grandfathered}"

def formatOf (s : String) : Option Format :=
  match s with
  | "json" => some .json | "html" => some .html | "markdown" => some .markdown | "sarif" => some .sarif
  | "text" => some (.text false) | "text-v" => some (.text true)
  | _ => none

/-- `rows <format> <status>…`: the indices of the listed results, in listing order -/
def handleRows (args : List String) : Option String :=
  match args with
  | f :: rest => do
    let fmt ← formatOf f
    let rs ← parseReportStatuses rest 0
    let listed := (rows fmt rs).map (fun r => String.ofList r.path)
    some (if listed.isEmpty then "-none-" else ",".intercalate listed)
  | [] => none

def parseFileStats : Nat → List String → Option (List FileStat × List String)
  | 0, rest => some ([], rest)
  | n + 1, k :: t :: c :: m :: b :: rest => do
    let f : FileStat := { path := [], key := ← decodeStr k, total := ← t.toNat?, code := ← c.toNat?,
                          comment := ← m.toNat?, blank := ← b.toNat? }
    let (fs, rest') ← parseFileStats n rest
    some (f :: fs, rest')
  | _, _ => none

def dedupKeys (ks : List (List Char)) : List (List Char) :=
  ks.foldl (fun acc k => if acc.contains k then acc else acc ++ [k]) []

/-- `breakdown <n> (key total code comment blank)…` -/
def handleBreakdown (args : List String) : Option String :=
  match args with
  | n :: rest => do
    let (fs, rest') ← parseFileStats (← n.toNat?) rest
    if !rest'.isEmpty then none else
    let gs := breakdown groupLe (dedupKeys (fs.map (·.key))) fs
    let t := totals fs
    let rows := gs.map (fun g => s!"{encodeStr g.key}:{g.files}:{g.total}:{g.code}:{g.comment}:{g.blank}")
    some s!"totals={t.files}:{t.total}:{t.code}:{t.comment}:{t.blank} groups={if rows.isEmpty then "-" else ";".intercalate rows}"
  | [] => none

/-- `escape <string>` -/
def handleEscape (args : List String) : Option String :=
  match args with
  | [s] => do some (encodeStr (htmlEscape (← decodeStr s)))
  | _ => none

def parseCustomLangs : Nat → List String → Option (List Custom × List String)
  | 0, rest => some ([], rest)
  | n + 1, name :: k :: rest => do
    let (exts, rest1) ← parseStrs (← k.toNat?) rest
    let (cs, rest2) ← parseCustomLangs n rest1
    some ({ name := ← decodeStr name, exts := exts } :: cs, rest2)
  | _, _ => none

/-- `owner <builtin|-> <ext> <n> (name k ext…)…` -/
def handleOwner (args : List String) : Option String :=
  match args with
  | b :: ext :: n :: rest => do
    let builtin ← (if b = "-" then some none else (decodeStr b).map some)
    let (cs, rest') ← parseCustomLangs (← n.toNat?) rest
    if !rest'.isEmpty then none else
    match owner builtin (← decodeStr ext) cs with
    | some o => some (encodeStr o)
    | none => some "-"
  | _ => none

end SlocModel.Driver
