import SlocModel.Counter.Grammar
import SlocModel.Driver.Counter
/-!  `grammar` op: a C-family program given by its *structure*; the model renders it, decides the
     well-formedness condition of `classify_render`, and classifies the text. -/
namespace SlocModel.Driver
open SlocModel.Counter

/-- a literal body travels as text: backslash + character is an escape, anything else plain -/
def parseItems : List Char → List Item
  | '\\' :: c :: rest => .esc c :: parseItems rest
  | c :: rest => .plain c :: parseItems rest
  | [] => []

def parseToks : Nat → List String → Option (List Tok × List String)
  | 0, rest => some ([], rest)
  | n + 1, "w" :: w :: rest => do
    let (ts, rest') ← parseToks n rest
    some (.word (← decodeStr w) :: ts, rest')
  | n + 1, "l" :: q :: b :: rest => do
    let (ts, rest') ← parseToks n rest
    match ← decodeStr q with
    | [qc] => some (.lit qc (parseItems (← decodeStr b)) :: ts, rest')
    | _ => none
  | _, _ => none

def parseChunks : Nat → List String → Option (List Chunk × List String)
  | 0, rest => some ([], rest)
  | n + 1, "b" :: ws :: rest => do
    let (cs, rest') ← parseChunks n rest
    some (.blank (← decodeStr ws) :: cs, rest')
  | n + 1, "c" :: nt :: rest => do
    let (ts, rest) ← parseToks (← nt.toNat?) rest
    match rest with
    | "n" :: rest => do
      let (cs, rest') ← parseChunks n rest
      some (.code ts none :: cs, rest')
    | "s" :: t :: rest => do
      let (cs, rest') ← parseChunks n rest
      some (.code ts (some (← decodeStr t)) :: cs, rest')
    | _ => none
  | n + 1, "k" :: ws :: t :: rest => do
    let (cs, rest') ← parseChunks n rest
    some (.lineComment (← decodeStr ws) (← decodeStr t) :: cs, rest')
  | n + 1, "o" :: ws :: body :: trail :: rest => do
    let (cs, rest') ← parseChunks n rest
    some (.blockOne (← decodeStr ws) (← decodeStr body) (← decodeStr trail) :: cs, rest')
  | n + 1, "B" :: ws :: body :: nm :: rest => do
    let (mids, rest) ← parseStrs (← nm.toNat?) rest
    match rest with
    | cbody :: trail :: rest => do
      let (cs, rest') ← parseChunks n rest
      some (.block (← decodeStr ws) (← decodeStr body) mids (← decodeStr cbody) (← decodeStr trail) :: cs, rest')
    | _ => none
  | _, _ => none

/-- `grammar <n> <chunk>…` → `<ok> <text> <truth> <classes>` -/
def handleGrammar (args : List String) : Option String :=
  match args with
  | n :: rest => do
    let (p, rest') ← parseChunks (← n.toNat?) rest
    if !rest'.isEmpty then none else
    let text := render p
    some s!"{showBool (p.all Chunk.ok)} {encodeStr text} {String.ofList ((truth p).map classChar)} {showClasses cSyn text}"
  | [] => none

end SlocModel.Driver
