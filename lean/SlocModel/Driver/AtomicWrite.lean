import SlocModel.AtomicWrite
import SlocModel.Driver.Proto
namespace SlocModel.Driver
open SlocModel.AtomicWrite

def parsePoint (s : String) : Option Point :=
  match s with
  | "save.start" => some .start | "save.dir-ready" => some .dirReady | "save.temp-created" => some .tempCreated
  | "save.mid-write" => some .midWrite | "save.written" => some .written | "save.flushed" => some .flushed
  | "save.synced" => some .synced | "save.lock-opened" => some .lockOpened | "save.locked" => some .locked
  | "save.renamed" => some .renamed | "save.unlocked" => some .unlocked | "none" => some .done
  | _ => none

/-- `save-crash <priorExists> <point> <newLen>`: the prior content is `[0]`, the new content
    `1 … newLen`; the answer classifies what is under the target and the temp names -/
def handleSaveCrash (args : List String) : Option String :=
  match args with
  | [pe, pt, n] => do
    let prior : Option Content := if ← boolOf pe then some [0] else none
    let new : Content := (List.range (← n.toNat?)).map (· + 1)
    let d := crashAt prior new (← parsePoint pt) (new.length / 2)
    let t := match d.target with
      | none => "absent"
      | some c => if some c = prior then "prior" else if c = new then "new" else if c.isEmpty then "empty" else "partial"
    let tmp := if pt = "save.written" then "any" else match d.temp with
      | none => "none"
      | some c => if c.isEmpty then "empty" else if c = new then "full" else "partial"
    some s!"target={t} temp={tmp}"
  | _ => none

end SlocModel.Driver
