import SlocModel.Remote
import SlocModel.Driver.Proto
namespace SlocModel.Driver
open SlocModel.Remote

def parsePolicy (s : String) : Option Policy :=
  match s with
  | "normal" => some .normal | "offline" => some .offline | "refresh" => some .forceRefresh | _ => none

def parseServer (s : String) : Option Server :=
  if s = "err" then some .err else (s.toNat?).map .ok

def showCache : Cache → String
  | .absent => "absent"
  | .present c _ => s!"present:{c}"

def parseSteps : Nat → List String → Option (List (Policy × Server × Nat) × List String)
  | 0, rest => some ([], rest)
  | n + 1, p :: s :: dt :: rest => do
    let st := (← parsePolicy p, ← parseServer s, ← dt.toNat?)
    let (ss, rest') ← parseSteps n rest
    some (st :: ss, rest')
  | _, _ => none

def runSteps (hash : Option Hash) (root : Bool) : Cache → List (Policy × Server × Nat) → List String → Nat →
    List String × Cache × Nat
  | c, [], acc, reqs => (acc.reverse, c, reqs)
  | c, (p, s, dt) :: rest, acc, reqs =>
    let o := fetch id p hash (c.age dt) s root
    let r := match o.result with
      | .ok x => s!"ok:{x}"
      | .error .hashMismatch => "err:hash-mismatch"
      | .error .offlineMiss => "err:offline-miss"
      | .error .network => "err:network"
    runSteps hash root o.cache rest (r :: acc) (reqs + o.requests)

/-- `fetch-seq <hash|-> <root> <cache: absent | content age> n (policy server dt)…`
    (contents and hashes are small ids; the hash of content `c` is `c`) -/
def handleFetchSeq (args : List String) : Option String :=
  match args with
  | h :: root :: c :: rest => do
    let hash ← optNat h
    let (cache, rest) ← (if c = "absent" then some (Cache.absent, rest) else
      match rest with
      | age :: rest' => do some (Cache.present (← c.toNat?) (← age.toNat?), rest')
      | [] => none)
    match rest with
    | n :: rest =>
      let (steps, rest') ← parseSteps (← n.toNat?) rest
      if !rest'.isEmpty then none else
      let (rs, c', reqs) := runSteps hash (← boolOf root) cache steps [] 0
      some s!"{" ".intercalate rs} | cache={showCache c'} requests={reqs}"
    | [] => none
  | _ => none

end SlocModel.Driver
