import SlocModel.Trend
import SlocModel.Driver.Proto
namespace SlocModel.Driver
open SlocModel.Trend

def parseEntry (s : String) : Option Entry :=
  match s.splitOn ":" with
  | [ts, f, l, c, m, b] => do
    some { ts := ← ts.toNat?, totals := ⟨← f.toNat?, ← l.toNat?, ← c.toNat?, ← m.toNat?, ← b.toNat?⟩ }
  | _ => none

def parseEntries : Nat → List String → Option (List Entry × List String)
  | 0, rest => some ([], rest)
  | n + 1, s :: rest => do
    let e ← parseEntry s
    let (es, rest') ← parseEntries n rest
    some (e :: es, rest')
  | _, _ => none

def showEntry (e : Entry) : String :=
  s!"{e.ts}:{e.totals.files}:{e.totals.lines}:{e.totals.code}:{e.totals.comment}:{e.totals.blank}"

def showEntries (es : List Entry) : String :=
  if es.isEmpty then "-" else " ".intercalate (es.map showEntry)

def parseCfg : List String → Option (Cfg × List String)
  | a :: b :: c :: d :: rest => do
    some ({ maxEntries := ← optNat a, maxAgeDays := ← optNat b, minIntervalSecs := ← optNat c,
            minCodeDelta := ← optNat d }, rest)
  | _ => none

/-- `trend-step <cfg 4> t1 t2 t3 force dry f l c m b n entries…` -/
def handleTrendStep (args : List String) : Option String := do
  let (cfg, rest) ← parseCfg args
  match rest with
  | t1 :: t2 :: t3 :: force :: dry :: f :: l :: c :: m :: b :: n :: rest =>
    let (h, rest') ← parseEntries (← n.toNat?) rest
    if !rest'.isEmpty then none else
    let tot : Totals := ⟨← f.toNat?, ← l.toNat?, ← c.toNat?, ← m.toNat?, ← b.toNat?⟩
    let (o, h') := snapshot h cfg (← t1.toNat?) (← t2.toNat?) (← t3.toNat?) tot (← boolOf force) (← boolOf dry)
    let os := match o with
      | .recorded => "recorded" | .skipped => "skipped" | .dryRun => "dry-run"
    some s!"{os} | {showEntries h'}"
  | _ => none

/-- `retain <cfg 4> now n entries…` -/
def handleRetain (args : List String) : Option String := do
  let (cfg, rest) ← parseCfg args
  match rest with
  | now :: n :: rest =>
    let (h, rest') ← parseEntries (← n.toNat?) rest
    if !rest'.isEmpty then none else
    let h' := applyRetention h cfg (← now.toNat?)
    some s!"ok should-add={showBool (shouldAdd h cfg (← now.toNat?))} | {showEntries h'}"
  | _ => none

def showDelta (d : Option Delta) (cfg : Cfg) : String :=
  match d with
  | none => "none"
  | some d => s!"delta {d.files} {d.lines} {d.code} {d.comment} {d.blank} prev={d.prevTs} sig={showBool (isSignificant d cfg)}"

/-- `trend-delta <cfg 4> now dur|- f l c m b n entries…` -/
def handleTrendDelta (args : List String) : Option String := do
  let (cfg, rest) ← parseCfg args
  match rest with
  | now :: dur :: f :: l :: c :: m :: b :: n :: rest =>
    let (h, rest') ← parseEntries (← n.toNat?) rest
    if !rest'.isEmpty then none else
    let cur : Totals := ⟨← f.toNat?, ← l.toNat?, ← c.toNat?, ← m.toNat?, ← b.toNat?⟩
    match ← optNat dur with
    | none => some (showDelta (deltaLatest h cur) cfg)
    | some d => some (showDelta (deltaSince h d cur (← now.toNat?)) cfg)
  | _ => none

/-- `duration <text>` -/
def handleDuration (args : List String) : Option String :=
  match args with
  | [t] => do
    match parseDuration (← decodeStr t) with
    | .ok n => some s!"ok {n}"
    | .err .empty => some "err empty"
    | .err .missingUnit => some "err missing-unit"
    | .err .missingNumber => some "err missing-number"
    | .err .badNumber => some "err bad-number"
    | .err .zero => some "err zero"
    | .err .badUnit => some "err bad-unit"
    | .err .tooLarge => some "err too-large"
  | _ => none

end SlocModel.Driver
