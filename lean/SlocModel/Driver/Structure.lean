import SlocModel.Structure
import SlocModel.Placement
import SlocModel.Siblings
import SlocModel.Driver.Proto
namespace SlocModel.Driver
open SlocModel.Structure SlocModel.Placement SlocModel.Siblings

def optInt (s : String) : Option (Option Int) :=
  if s = "-" then some none else s.toInt?.map some

def parseFields : List String → Option (Fields × List String)
  | a :: b :: c :: d :: e :: f :: g :: h :: rest => do
    some ({ maxFiles := ← optInt a, maxDirs := ← optInt b, maxDepth := ← optInt c,
            warnThreshold := ← optNat d, warnFilesAt := ← optInt e, warnDirsAt := ← optInt f,
            warnFilesThreshold := ← optNat g, warnDirsThreshold := ← optNat h }, rest)
  | _ => none

def parseSRules : Nat → List String → Option (List (Rule × Bool) × List String)
  | 0, rest => some ([], rest)
  | n + 1, args => do
    let (f, rest) ← parseFields args
    match rest with
    | rel :: base :: m :: rest =>
      let r : Rule := { fields := f, relativeDepth := ← boolOf rel, baseDepth := ← base.toNat? }
      let (rs, rest') ← parseSRules n rest
      some ((r, ← boolOf m) :: rs, rest')
    | _ => none

def showOptInt : Option Int → String
  | none => "-"
  | some i => toString i

def showFinding (f : Finding) : String :=
  let m := match f.metric with | .files => "files" | .dirs => "dirs" | .depth => "depth"
  let s := match f.severity with | .failed => "failed" | .warning => "warning"
  s!"{m}:{s}:{f.actual}:{f.limit}"

/-- `struct-dir <global 8> n (<fields 8> rel base match)… files dirs depth` -/
def handleStructDir (args : List String) : Option String := do
  let (g, rest) ← parseFields args
  match rest with
  | n :: rest =>
    let (rules, rest) ← parseSRules (← n.toNat?) rest
    match rest with
    | [f, d, dep] =>
      let s : DirStats := { files := ← f.toNat?, dirs := ← d.toNat?, depth := ← dep.toNat? }
      let fs := checkDir g rules s
      let x := explain g rules
      let fstr := if fs.isEmpty then "-" else ",".intercalate (fs.map showFinding)
      some s!"{fstr} | x rule={showOptNat x.rule} mf={showOptInt x.maxFiles} md={showOptInt x.maxDirs} mdepth={showOptInt x.maxDepth} wt={x.warnThreshold}"
    | _ => none
  | [] => none

def parseWalkEntries : Nat → List String → Option (List Entry × List String)
  | 0, rest => some ([], rest)
  | n + 1, id :: par :: dep :: k :: ig :: sx :: cx :: rest => do
    let kind ← (match k with | "f" => some EntryKind.file | "d" => some .dir | "o" => some .other | _ => none)
    let e : Entry := { id := ← id.toNat?, parent := ← optNat par, depth := ← dep.toNat?, kind,
                       ignored := ← boolOf ig, scannerExcluded := ← boolOf sx, countExcluded := ← boolOf cx }
    let (es, rest') ← parseWalkEntries n rest
    some (e :: es, rest')
  | _, _ => none

def insertByKey (k : Nat) (v : String) : List (Nat × String) → List (Nat × String)
  | [] => [(k, v)]
  | (k', v') :: rest => if k < k' then (k, v) :: (k', v') :: rest else (k', v') :: insertByKey k v rest

/-- `walk n (id parent|- depth kind ignored sx cx)…` → `id:files:dirs:depth …` sorted by id -/
def handleWalk (args : List String) : Option String :=
  match args with
  | n :: rest => do
    let (es, rest') ← parseWalkEntries (← n.toNat?) rest
    if !rest'.isEmpty then none else
    let st := walk es
    let items := st.stats.foldl (fun acc (p : Nat × DirStats) =>
      insertByKey p.1 s!"{p.1}:{p.2.files}:{p.2.dirs}:{p.2.depth}" acc) []
    some (if items.isEmpty then "-" else " ".intercalate (items.map (·.2)))
  | [] => none

/-- `base-depth <pattern>` -/
def handleBaseDepth (args : List String) : Option String :=
  match args with
  | [p] => do some (toString (calculateBaseDepth (← decodeStr p)))
  | _ => none

def showOrigin : Origin → String
  | .global => "global"
  | .rule i => s!"rule:{i}"

def parseHits : List String → Option (ListHits × List String)
  | a :: b :: c :: rest => do some ({ ext := ← boolOf a, file := ← boolOf b, pattern := ← boolOf c }, rest)
  | _ => none

def parseFileRules : Nat → List String → Option (List FileRuleBits × List String)
  | 0, rest => some ([], rest)
  | n + 1, a :: b :: rest => do
    let (al, rest) ← parseHits rest
    let (dn, rest) ← parseHits rest
    match rest with
    | e :: f :: rest =>
      let r : FileRuleBits := { scopeMatches := ← boolOf a, hasAllowlist := ← boolOf b, allow := al, deny := dn,
                                hasNaming := ← boolOf e, namingOk := ← boolOf f }
      let (rs, rest') ← parseFileRules n rest
      some (r :: rs, rest')
    | _ => none
  | _, _ => none

/-- `place-file gHasAllow gAllow(3) gDeny(3) n (scope hasAllow allow(3) deny(3) hasNaming namingOk)…` -/
def handlePlaceFile (args : List String) : Option String :=
  match args with
  | a :: rest => do
    let (gal, rest) ← parseHits rest
    let (gdn, rest) ← parseHits rest
    match rest with
    | n :: rest =>
      let g : FileGlobalBits := { hasAllowlist := ← boolOf a, allow := gal, deny := gdn }
      let (rules, rest') ← parseFileRules (← n.toNat?) rest
      if !rest'.isEmpty then none else
      match checkFile g rules with
      | none => some "none"
      | some (.disallowed o) => some s!"disallowed:{showOrigin o}"
      | some (.denied o) => some s!"denied:{showOrigin o}"
      | some (.naming o) => some s!"naming:{showOrigin o}"
    | [] => none
  | _ => none

def parseDirRules : Nat → List String → Option (List DirRuleBits × List String)
  | 0, rest => some ([], rest)
  | n + 1, a :: b :: c :: d :: rest => do
    let r : DirRuleBits := { scopeMatches := ← boolOf a, hasDirAllowlist := ← boolOf b,
                             dirAllowMatch := ← boolOf c, dirDenyMatch := ← boolOf d }
    let (rs, rest') ← parseDirRules n rest
    some (r :: rs, rest')
  | _, _ => none

/-- `place-dir gHasAllow gAllow gDenyPattern gDenyBasename n (scope hasAllow allow deny)…` -/
def handlePlaceDir (args : List String) : Option String :=
  match args with
  | a :: b :: c :: d :: n :: rest => do
    let g : DirGlobalBits := { hasDirAllowlist := ← boolOf a, dirAllowMatch := ← boolOf b,
                               denyPatternMatch := ← boolOf c, denyBasenameMatch := ← boolOf d }
    let (rules, rest') ← parseDirRules (← n.toNat?) rest
    if !rest'.isEmpty then none else
    let fs := checkDirPlacement g rules
    let one := fun (f : DirFinding) => match f with
      | .disallowed o => s!"disallowed:{showOrigin o}"
      | .deniedPattern o => s!"denied:{showOrigin o}"
      | .deniedBasename o => s!"denied:{showOrigin o}"
    some (if fs.isEmpty then "none" else ",".intercalate (sortStrings (fs.map one)))
  | _ => none

def showNameList (xs : List (List Char)) : String :=
  if xs.isEmpty then "-" else ",".intercalate (xs.map encodeStr)

/-- `sib-directed <name> nt templates… nd names…` → missing templates -/
def handleSibDirected (args : List String) : Option String :=
  match args with
  | name :: nt :: rest => do
    let (ts, rest) ← parseStrs (← nt.toNat?) rest
    match rest with
    | nd :: rest =>
      let (dir, rest') ← parseStrs (← nd.toNat?) rest
      if !rest'.isEmpty then none else
      some (showNameList (directedMissing dir (← decodeStr name) ts))
    | [] => none
  | _ => none

/-- `sib-group <name> np patterns… nd names…` → `nomatch` or missing patterns -/
def handleSibGroup (args : List String) : Option String :=
  match args with
  | name :: np :: rest => do
    let (ps, rest) ← parseStrs (← np.toNat?) rest
    match rest with
    | nd :: rest =>
      let (dir, rest') ← parseStrs (← nd.toNat?) rest
      if !rest'.isEmpty then none else
      match groupMissing dir (← decodeStr name) ps with
      | none => some "nomatch"
      | some m => some (showNameList m)
    | [] => none
  | _ => none

end SlocModel.Driver
