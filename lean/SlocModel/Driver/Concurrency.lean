import SlocModel.Concurrency
import SlocModel.Driver.Proto
namespace SlocModel.Driver
open SlocModel.Concurrency

/-- events observed on the real processes: `a<p>` the update lock was acquired, `l<p>` the history
    was loaded, `s<p>` the new file was renamed into place, `x<p>` the process exited.
    A process that exits without having saved took a timeout branch. -/
def applyEvent (s : AS) (ev : String) : Option AS :=
  match ev.toList with
  | c :: ds => do
    let p ← (String.ofList ds).toNat?
    let pr ← s.procs[p]?
    match c with
    | 'a' =>
      -- the previous holder gives the lock back when `snapshot` returns, between its last sync
      -- point and its exit: if it has finished saving, that release has happened
      let s1 := match s.holder with
        | some q => if q ≠ p && (s.procs[q]?.map (·.pc)) = some APC.release then (astep true s q false).getD s else s
        | none => s
      astep true s1 p false
    | 'l' => astep true s p false
    | 's' => astep true s p false
    | 'x' =>
      -- finish whatever is left: a process that never got the lock, or abandoned its save, timed out
      match pr.pc with
      | .wantLock => astep true s p true
      | .load => none
      | .save => (astep true s p true).bind (fun s' => astep true s' p false)
      | .release => astep true s p false
      | .done => some s
    | _ => none
  | [] => none

def showConcEntry (nOld : Nat) (e : Nat) : String := if e < nOld then "old" else s!"e{e - nOld}"

/-- `conc-append <number of old entries> <number of snapshot processes> <event>…` -/
def handleConcAppend (args : List String) : Option String :=
  match args with
  | nOld :: n :: evs => do
    let nOld ← nOld.toNat?
    let n ← n.toNat?
    let init := List.range nOld
    let s0 := ainit init ((List.range n).map (· + nOld))
    let s ← evs.foldlM applyEvent s0
    let file := ",".intercalate (s.file.map (showConcEntry nOld))
    let rec_ := String.ofList (s.procs.map (fun pr => if pr.recorded then '1' else '0'))
    some s!"file={file} recorded={rec_}"
  | _ => none

end SlocModel.Driver
