import SlocModel.Check
import SlocModel.Driver.Threshold
import SlocModel.Driver.Structure
import SlocModel.Driver.Baseline
namespace SlocModel.Driver
open SlocModel.Check

def parseBits (s : String) : Option (List Bool) :=
  if s = "-" then some [] else
  s.toList.foldr (fun c acc => match acc, c with
    | some bs, '1' => some (true :: bs)
    | some bs, '0' => some (false :: bs)
    | _, _ => none) (some [])

def parseTRules : Nat → List String → Option (List Threshold.Rule × List String)
  | 0, rest => some ([], rest)
  | n + 1, mx :: wt :: wa :: sc :: sb :: rest => do
    let r : Threshold.Rule := { maxLines := ← mx.toNat?, warnThreshold := ← optNat wt, warnAt := ← optNat wa,
                                skipComments := ← optBool sc, skipBlank := ← optBool sb }
    let (rs, rest') ← parseTRules n rest
    some (r :: rs, rest')
  | _, _ => none

def parseSRulesPlain : Nat → List String → Option (List Structure.Rule × List String)
  | 0, rest => some ([], rest)
  | n + 1, args => do
    let (f, rest) ← parseFields args
    match rest with
    | rel :: base :: rest =>
      let r : Structure.Rule := { fields := f, relativeDepth := ← boolOf rel, baseDepth := ← base.toNat? }
      let (rs, rest') ← parseSRulesPlain n rest
      some (r :: rs, rest')
    | _ => none

def parseFileIns : Nat → List String → Option (List FileIn × List String)
  | 0, rest => some ([], rest)
  | n + 1, key :: pr :: ce :: ext :: lang :: rd :: ign :: ms :: t :: c :: m :: b :: rest => do
    let f : FileIn := {
      key := ← decodeStr key, pruned := ← boolOf pr, contentExcluded := ← boolOf ce, extAllowed := ← boolOf ext,
      ruleMatches := ← parseBits ms, langKnown := ← boolOf lang, readable := ← boolOf rd,
      ignoredByDirective := ← boolOf ign,
      stats := { total := ← t.toNat?, code := ← c.toNat?, comment := ← m.toNat?, blank := ← b.toNat?, ignored := 0 } }
    let (fs, rest') ← parseFileIns n rest
    some (f :: fs, rest')
  | _, _ => none

def parseDirIns : Nat → List String → Option (List DirIn × List String)
  | 0, rest => some ([], rest)
  | n + 1, key :: ms :: fl :: dr :: dp :: rest => do
    let d : DirIn := { key := ← decodeStr key, scopeMatches := ← parseBits ms,
                       stats := { files := ← fl.toNat?, dirs := ← dr.toNat?, depth := ← dp.toNat? } }
    let (ds, rest') ← parseDirIns n rest
    some (d :: ds, rest')
  | _, _ => none

def showResultsCounted (rs : List Baseline.Res) : String :=
  let items := rs.map (fun r => s!"{encodeStr r.path}:{showKindB r.kind}:{showStatusB r.status}:{r.count}")
  if items.isEmpty then "-" else ",".intercalate (sortStrings items)

/-- `check-run gmax gwt gwa gsc gsb nrules (rule)… structOn sfields(8) nsrules (fields(8) rel base)…
      nfiles (file)… ndirs (dir)… given update ratchet warnOnly wae <absent | n (path kind count)…>` -/
def handleCheckRun (args : List String) : Option String :=
  match args with
  | gmax :: gwt :: gwa :: gsc :: gsb :: nr :: rest => do
    let g : Threshold.Global := { maxLines := ← gmax.toNat?, warnThreshold := ← gwt.toNat?, warnAt := ← optNat gwa,
                                  skipComments := ← boolOf gsc, skipBlank := ← boolOf gsb }
    let (rules, rest) ← parseTRules (← nr.toNat?) rest
    match rest with
    | son :: rest => do
      let (sg, rest) ← parseFields rest
      match rest with
      | nsr :: rest => do
        let (srules, rest) ← parseSRulesPlain (← nsr.toNat?) rest
        match rest with
        | nf :: rest => do
          let (files, rest) ← parseFileIns (← nf.toNat?) rest
          match rest with
          | nd :: rest => do
            let (dirs, rest) ← parseDirIns (← nd.toNat?) rest
            match rest with
            | given :: upd :: rat :: wo :: wae :: d :: rest => do
              let f : Baseline.Flags := { baselineGiven := ← boolOf given, update := ← parseUpdate upd,
                                          ratchet := ← parseRatchet rat, warnOnly := ← boolOf wo, wae := ← boolOf wae }
              let (disk, rest) ← (if d = "absent" then some (none, rest) else do
                let (b, rest') ← parseEntriesB (← d.toNat?) rest
                some (some b, rest'))
              if !rest.isEmpty then none else
              let c : Config := { content := g, rules := rules, structureOn := ← boolOf son, sglobal := sg, srules := srules }
              match checkRun c files dirs [] [] disk f with
              | .configError => some "config-error"
              | .done rs _ ex _ => some s!"exit={ex} results={showResultsCounted rs}"
            | _ => none
          | [] => none
        | [] => none
      | [] => none
    | [] => none
  | _ => none

end SlocModel.Driver
