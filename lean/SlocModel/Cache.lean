/-!
  Model of the SLOC cache: src/cache/mod.rs (`get_if_metadata_matches`, `set`, `is_valid`),
  `process_file_with_cache` / `load_cache` (src/commands/context.rs) and the histories of file
  operations and tool invocations that C12 quantifies over.

  A file is (content id, mtime in whole seconds); its size and its line statistics are functions
  of the content (`sizeOf`, `count` — parameters).  The clock only moves forward and a write
  stamps the file with the current second (the property's premise).
-/
namespace SlocModel.Cache

abbrev Path := Nat
abbrev Content := Nat
abbrev Stats := Nat

structure File where
  content : Content
  mtime : Nat
  deriving DecidableEq, Repr

structure Entry where
  mtime : Nat
  size : Nat
  stats : Stats
  deriving DecidableEq, Repr

abbrev FS := List (Path × File)
abbrev CacheMap := List (Path × Entry)

def lookup {α : Type} (m : List (Path × α)) (p : Path) : Option α :=
  match m with
  | [] => none
  | (k, v) :: rest => if k = p then some v else lookup rest p

def erase {α : Type} : List (Path × α) → Path → List (Path × α)
  | [], _ => []
  | (k, v) :: rest, p => if k = p then erase rest p else (k, v) :: erase rest p
def put {α : Type} (m : List (Path × α)) (p : Path) (v : α) : List (Path × α) := (p, v) :: erase m p

/-- `process_file_with_cache` for one file at clock `now` (repaired: an entry is recorded only
    when the file's mtime lies strictly in the past) -/
def processFile (count sizeOf : Content → Nat) (now : Nat) (cache : CacheMap) (p : Path) (f : File) :
    Stats × CacheMap :=
  match lookup cache p with
  | some e =>
    if e.mtime = f.mtime ∧ e.size = sizeOf f.content then (e.stats, cache)
    else (count f.content, if f.mtime < now then put cache p ⟨f.mtime, sizeOf f.content, count f.content⟩ else cache)
  | none => (count f.content, if f.mtime < now then put cache p ⟨f.mtime, sizeOf f.content, count f.content⟩ else cache)

/-- one invocation over the whole tree: per-file statistics (in tree order) and the saved cache -/
def runAll (count sizeOf : Content → Nat) (now : Nat) : FS → CacheMap → List (Path × Stats) × CacheMap
  | [], cache => ([], cache)
  | (p, f) :: rest, cache =>
    let (s, cache') := processFile count sizeOf now cache p f
    let (out, cache'') := runAll count sizeOf now rest cache'
    ((p, s) :: out, cache'')

/-- the same invocation with the cache disabled -/
def runUncached (count : Content → Nat) (fs : FS) : List (Path × Stats) := fs.map (fun pf => (pf.1, count pf.2.content))

inductive Op where
  | write (p : Path) (c : Content)     -- create or overwrite; mtime := now
  | delete (p : Path)
  | rename (p q : Path)                -- `mv p q`: content and mtime move, q is replaced
  | tick (dt : Nat)                    -- time passes
  | run                                -- check / stats / snapshot with the cache enabled
  | dropCache                          -- cache file corrupt / foreign version / other config hash
  deriving DecidableEq, Repr

structure World where
  fs : FS
  cache : CacheMap
  now : Nat
  deriving Repr

def step (count sizeOf : Content → Nat) (w : World) (op : Op) : World × Option (List (Path × Stats)) :=
  match op with
  | .write p c => ({ w with fs := put w.fs p ⟨c, w.now⟩ }, none)
  | .delete p => ({ w with fs := erase w.fs p }, none)
  | .rename p q =>
    match lookup w.fs p with
    | some f => ({ w with fs := put (erase w.fs p) q f }, none)
    | none => (w, none)
  | .tick dt => ({ w with now := w.now + dt }, none)
  | .dropCache => ({ w with cache := [] }, none)
  | .run =>
    let (out, cache') := runAll count sizeOf w.now w.fs w.cache
    ({ w with cache := cache' }, some out)

/-- outputs of all `run` operations of a history -/
def outputs (count sizeOf : Content → Nat) : World → List Op → List (List (Path × Stats))
  | _, [] => []
  | w, op :: rest =>
    match step count sizeOf w op with
    | (w', some out) => out :: outputs count sizeOf w' rest
    | (w', none) => outputs count sizeOf w' rest

/-- what the same history yields with `--no-sloc-cache` on every invocation -/
def outputsUncached (count sizeOf : Content → Nat) : World → List Op → List (List (Path × Stats))
  | _, [] => []
  | w, op :: rest =>
    match step count sizeOf w op with
    | (w', some _) => runUncached count w.fs :: outputsUncached count sizeOf w' rest
    | (w', none) => outputsUncached count sizeOf w' rest

/-- `load_cache`: any file that does not decode, has another version or another config hash is
    treated as "no cache" — never an error, never trusted -/
def loadCache (decode : List Nat → Option (Nat × Nat × CacheMap)) (version configHash : Nat)
    (bytes : Option (List Nat)) : CacheMap :=
  match bytes with
  | none => []
  | some b =>
    match decode b with
    | some (v, h, m) => if v = version ∧ h = configHash then m else []
    | none => []

end SlocModel.Cache
