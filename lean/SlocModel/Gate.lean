import SlocModel.Basic.F64
import SlocModel.Trend
import SlocModel.Siblings
/-!
  Model of the configuration gate: `validate_config_semantics` (src/config/validation.rs),
  `validate_checkers` (src/commands/context.rs: `ThresholdChecker::new`, `StructureChecker::new`
  with src/checker/structure/validation.rs, the structure scan configuration), the date parser of
  src/config/expires.rs, and the order in which `check` applies them around the CLI overrides
  (src/commands/check/runner.rs, check_args.rs).

  Whether a glob or a regular expression compiles is a parameter bit computed by `globset` /
  `regex`; thresholds are IEEE-754 bit patterns; everything else is data.
-/
namespace SlocModel.Gate

/-! ### `ParsedDate::parse` -/

def isDigit (c : Char) : Bool := '0' ≤ c && c ≤ '9'

def digitsVal : List Char → Nat → Option Nat
  | [], acc => some acc
  | c :: cs, acc => if isDigit c then digitsVal cs (acc * 10 + (c.toNat - '0'.toNat)) else none

/-- `str::parse::<uN>()`: an optional `+`, then at least one ASCII digit, no overflow -/
def parseUnsigned (max : Nat) (s : List Char) : Option Nat :=
  let body := match s with
    | '+' :: rest => rest
    | _ => s
  if body.isEmpty then none
  else match digitsVal body 0 with
    | some v => if v ≤ max then some v else none
    | none => none

/-- `str::split('-')` -/
def splitDash : List Char → List Char → List (List Char)
  | [], cur => [cur.reverse]
  | c :: cs, cur => if c = '-' then cur.reverse :: splitDash cs [] else splitDash cs (c :: cur)

def isLeapYear (y : Nat) : Bool := (y % 4 = 0 && y % 100 ≠ 0) || y % 400 = 0

/-- number of days of month `m` (1–12) in year `y` -/
def daysInMonth (y m : Nat) : Nat :=
  if m = 4 || m = 6 || m = 9 || m = 11 then 30
  else if m = 2 then (if isLeapYear y then 29 else 28)
  else 31

/-- `ParsedDate::parse(s).is_ok()` -/
def dateOk (s : List Char) : Bool :=
  match splitDash s [] with
  | [y, m, d] =>
    match parseUnsigned 65535 y, parseUnsigned 255 m, parseUnsigned 255 d with
    | some yr, some mo, some da => 1 ≤ mo && mo ≤ 12 && 1 ≤ da && da ≤ daysInMonth yr mo
    | _, _, _ => false
  | _ => false

/-! ### the configuration as the gate sees it -/

structure ContentRule where
  patternOk : Bool              -- `content.rules[i].pattern` compiles
  maxLines : Nat
  warnThreshold : Option Nat    -- f64 bits
  warnAt : Option Nat
  expires : Option (List Char)

inductive Sibling where
  | directed (matchEmpty : Bool) (require : List (List Char))
  | group (patterns : List (List Char))

structure StructRule where
  scopeOk : Bool                -- `scope` compiles
  maxFiles : Option Int
  maxDirs : Option Int
  maxDepth : Option Int
  warnThreshold : Option Nat
  warnFilesThreshold : Option Nat
  warnDirsThreshold : Option Nat
  warnFilesAt : Option Int
  warnDirsAt : Option Int
  hasAllow : Bool
  hasDeny : Bool
  patternsOk : Bool             -- allow / deny patterns, naming regex, sibling match globs compile
  expires : Option (List Char)
  siblings : List Sibling

structure Cfg where
  warnThreshold : Nat
  maxLines : Nat
  warnAt : Option Nat
  rules : List ContentRule
  scannerExcludeOk : Bool
  contentExcludeOk : Bool
  reportExcludeOk : Bool        -- every entry of stats.report.exclude is a section name
  breakdownByOk : Bool
  trendSince : Option (List Char)
  sMaxFiles : Option Int
  sMaxDirs : Option Int
  sMaxDepth : Option Int
  sWarnThreshold : Option Nat
  sWarnFilesThreshold : Option Nat
  sWarnDirsThreshold : Option Nat
  sWarnFilesAt : Option Int
  sWarnDirsAt : Option Int
  sHasAllow : Bool
  sHasDeny : Bool
  sPatternsOk : Bool            -- global deny patterns and `count_exclude` compile
  srules : List StructRule

inductive Field where
  | contentWarnThreshold | contentWarnAt
  | ruleWarnThreshold (i : Nat) | ruleWarnAt (i : Nat) | ruleInheritedWarnAt (i : Nat) | ruleExpires (i : Nat)
  | scannerExclude | contentExclude
  | reportExclude | breakdownBy | trendSince
  | sWarnThreshold | sWarnFilesThreshold | sWarnDirsThreshold
  | sWarnFilesAtNeg | sWarnDirsAtNeg | sWarnFilesAtMax | sWarnDirsAtMax
  | srWarnThreshold (i : Nat) | srWarnFilesThreshold (i : Nat) | srWarnDirsThreshold (i : Nat)
  | srWarnFilesAtNeg (i : Nat) | srWarnDirsAtNeg (i : Nat) | srWarnFilesAtMax (i : Nat) | srWarnDirsAtMax (i : Nat)
  | srEffFiles (i : Nat) | srEffDirs (i : Nat) | srExpires (i : Nat)
  | rulePattern | sMaxFiles | sMaxDirs | sMaxDepth
  | srMaxFiles (i : Nat) | srMaxDirs (i : Nat) | srMaxDepth (i : Nat)
  | sibling (i j : Nat) | mixGlobal | mixRule (i : Nat) | structPattern
  deriving DecidableEq, Repr

/-- first error of a sequence of checks -/
def firstErr : List (Option Field) → Option Field
  | [] => none
  | some f :: _ => some f
  | none :: rest => firstErr rest

def need (ok : Bool) (f : Field) : Option Field := if ok then none else some f

def thrOk : Option Nat → Bool
  | none => true
  | some b => F64.inUnit b

def nonNeg : Option Int → Bool
  | none => true
  | some v => 0 ≤ v

/-- `warn_at < max` when both are set and the limit is not `-1` (`max >= 0`) -/
def belowMax (warnAt max : Option Int) : Bool :=
  match warnAt, max with
  | some w, some m => !(0 ≤ m && m ≤ w)
  | _, _ => true

def limitOk : Option Int → Bool
  | none => true
  | some v => -1 ≤ v

/-- an absolute warn point must lie below the line limit -/
def warnBelow (warnAt : Option Nat) (maxLines : Nat) : Bool :=
  match warnAt with
  | some w => w < maxLines
  | none => true

/-- a rule without its own warn point inherits `content.warn_at` -/
def inheritedBelow (rWarnAt rWarnThreshold gWarnAt : Option Nat) (maxLines : Nat) : Bool :=
  match rWarnAt, rWarnThreshold, gWarnAt with
  | none, none, some w => w < maxLines
  | _, _, _ => true

def expiresOk : Option (List Char) → Bool
  | none => true
  | some s => dateOk s

/-! #### `validate_config_semantics` -/

def contentRuleErr (gWarnAt : Option Nat) (i : Nat) (r : ContentRule) : Option Field :=
  firstErr [
    need (thrOk r.warnThreshold) (.ruleWarnThreshold i),
    need (warnBelow r.warnAt r.maxLines) (.ruleWarnAt i),
    need (inheritedBelow r.warnAt r.warnThreshold gWarnAt r.maxLines) (.ruleInheritedWarnAt i),
    need (expiresOk r.expires) (.ruleExpires i)]

def contentRulesErr (gWarnAt : Option Nat) : List ContentRule → Nat → Option Field
  | [], _ => none
  | r :: rest, i =>
    match contentRuleErr gWarnAt i r with
    | some f => some f
    | none => contentRulesErr gWarnAt rest (i + 1)

def durationOk (s : List Char) : Bool :=
  match Trend.parseDuration s with
  | .ok _ => true
  | .err _ => false

def trendSinceOk : Option (List Char) → Bool
  | none => true
  | some s => durationOk s

def structRuleSemErr (c : Cfg) (i : Nat) (r : StructRule) : Option Field :=
  firstErr [
    need (thrOk r.warnThreshold) (.srWarnThreshold i),
    need (thrOk r.warnFilesThreshold) (.srWarnFilesThreshold i),
    need (thrOk r.warnDirsThreshold) (.srWarnDirsThreshold i),
    need (nonNeg r.warnFilesAt) (.srWarnFilesAtNeg i),
    need (nonNeg r.warnDirsAt) (.srWarnDirsAtNeg i),
    need (belowMax r.warnFilesAt r.maxFiles) (.srWarnFilesAtMax i),
    need (belowMax r.warnDirsAt r.maxDirs) (.srWarnDirsAtMax i),
    need (belowMax (r.warnFilesAt <|> c.sWarnFilesAt) (r.maxFiles <|> c.sMaxFiles)) (.srEffFiles i),
    need (belowMax (r.warnDirsAt <|> c.sWarnDirsAt) (r.maxDirs <|> c.sMaxDirs)) (.srEffDirs i),
    need (expiresOk r.expires) (.srExpires i)]

def structRulesSemErr (c : Cfg) : List StructRule → Nat → Option Field
  | [], _ => none
  | r :: rest, i =>
    match structRuleSemErr c i r with
    | some f => some f
    | none => structRulesSemErr c rest (i + 1)

/-- `validate_config_semantics`: the first offending field, in the order of the code -/
def semantics (c : Cfg) : Option Field :=
  firstErr [
    need (F64.inUnit c.warnThreshold) .contentWarnThreshold,
    need (warnBelow c.warnAt c.maxLines) .contentWarnAt,
    contentRulesErr c.warnAt c.rules 0,
    need c.scannerExcludeOk .scannerExclude,
    need c.contentExcludeOk .contentExclude,
    need c.reportExcludeOk .reportExclude,
    need c.breakdownByOk .breakdownBy,
    need (trendSinceOk c.trendSince) .trendSince,
    need (thrOk c.sWarnThreshold) .sWarnThreshold,
    need (thrOk c.sWarnFilesThreshold) .sWarnFilesThreshold,
    need (thrOk c.sWarnDirsThreshold) .sWarnDirsThreshold,
    need (nonNeg c.sWarnFilesAt) .sWarnFilesAtNeg,
    need (nonNeg c.sWarnDirsAt) .sWarnDirsAtNeg,
    need (belowMax c.sWarnFilesAt c.sMaxFiles) .sWarnFilesAtMax,
    need (belowMax c.sWarnDirsAt c.sMaxDirs) .sWarnDirsAtMax,
    structRulesSemErr c c.srules 0]

/-! #### `validate_checkers` -/

/-- `pattern.contains("{stem}")` -/
def hasStem : List Char → Bool
  | [] => false
  | c :: cs => Siblings.stemMarker.isPrefixOf (c :: cs) || hasStem cs

/-- `validate_sibling_rules` for one sibling -/
def siblingOk : Sibling → Bool
  | .directed matchEmpty require =>
    !matchEmpty && !require.isEmpty && require.all (fun p => !p.isEmpty && hasStem p)
  | .group patterns =>
    2 ≤ patterns.length && patterns.all (fun p => !p.isEmpty && hasStem p)

def siblingsErr (i : Nat) : List Sibling → Nat → Option Field
  | [], _ => none
  | s :: rest, j => if siblingOk s then siblingsErr i rest (j + 1) else some (.sibling i j)

def ruleLimitsErr : List StructRule → Nat → Option Field
  | [], _ => none
  | r :: rest, i =>
    match firstErr [need (limitOk r.maxFiles) (.srMaxFiles i), need (limitOk r.maxDirs) (.srMaxDirs i),
        need (limitOk r.maxDepth) (.srMaxDepth i)] with
    | some f => some f
    | none => ruleLimitsErr rest (i + 1)

def ruleSiblingsErr : List StructRule → Nat → Option Field
  | [], _ => none
  | r :: rest, i =>
    match siblingsErr i r.siblings 0 with
    | some f => some f
    | none => ruleSiblingsErr rest (i + 1)

def ruleMixErr : List StructRule → Nat → Option Field
  | [], _ => none
  | r :: rest, i => if r.hasAllow && r.hasDeny then some (.mixRule i) else ruleMixErr rest (i + 1)

/-- `ThresholdChecker::new`, `StructureChecker::new`, the structure scan configuration -/
def checkers (c : Cfg) : Option Field :=
  firstErr [
    need (c.rules.all (·.patternOk)) .rulePattern,
    need c.contentExcludeOk .contentExclude,
    need (limitOk c.sMaxFiles) .sMaxFiles,
    need (limitOk c.sMaxDirs) .sMaxDirs,
    need (limitOk c.sMaxDepth) .sMaxDepth,
    ruleLimitsErr c.srules 0,
    ruleSiblingsErr c.srules 0,
    need (!(c.sHasAllow && c.sHasDeny)) .mixGlobal,
    ruleMixErr c.srules 0,
    need (c.srules.all (fun r => r.scopeOk && r.patternsOk)) .structPattern,
    need c.sPatternsOk .structPattern]

/-- the gate every command applies when it loads a configuration (`load_config`) -/
def gate (c : Cfg) : Option Field :=
  match semantics c with
  | some f => some f
  | none => checkers c

/-! #### `check`: the gate around the command-line overrides -/

structure Flags where
  maxLines : Option Nat
  warnThreshold : Option Nat
  maxFiles : Option Int
  maxDirs : Option Int
  maxDepth : Option Int

def noFlags : Flags :=
  { maxLines := none, warnThreshold := none, maxFiles := none, maxDirs := none, maxDepth := none }

/-- `apply_cli_overrides` -/
def override (c : Cfg) (f : Flags) : Cfg :=
  { c with
    maxLines := f.maxLines.getD c.maxLines
    warnThreshold := f.warnThreshold.getD c.warnThreshold
    sMaxFiles := f.maxFiles <|> c.sMaxFiles
    sMaxDirs := f.maxDirs <|> c.sMaxDirs
    sMaxDepth := f.maxDepth <|> c.sMaxDepth }

inductive Outcome where
  | rejectedAtLoad (f : Field)      -- exit 2
  | rejectedAfterFlags (f : Field)  -- exit 2
  | proceeds                        -- a 0/1 verdict is computed
  deriving DecidableEq, Repr

/-- `run_check_impl` up to the point where files are scanned -/
def checkOutcome (c : Cfg) (f : Flags) : Outcome :=
  match gate c with
  | some fld => .rejectedAtLoad fld
  | none =>
    match gate (override c f) with
    | some fld => .rejectedAfterFlags fld
    | none => .proceeds

/-- `config validate`, `config show`, `stats`, `snapshot`, `explain`: the load-time gate alone -/
def loadOutcome (c : Cfg) : Option Field := gate c

end SlocModel.Gate
