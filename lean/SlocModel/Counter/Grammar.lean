import SlocModel.Counter.Count
/-!
  A lexical grammar of the C family (`//` line comments, non-nesting `/* … */` block comments)
  with the class of every line known by construction: `render` writes the text, `truth` gives
  the ground truth, `Chunk.ok` is the decidable well-formedness condition.  Definitions only —
  the theorem (`classify_render`, every well-formed program is classified as its ground truth)
  is in `Props/C02Grammar.lean`; the driver evaluates these definitions for the correspondence
  with the real counter (`grammar` op).
-/
namespace SlocModel.Counter

/-- the comment syntax of Go, JavaScript, TypeScript, C, C++, Java, Kotlin, Scala and JSX in
    the built-in table -/
def cSyn : Syntax := { single := [['/', '/']], multi := [MultiLine.plain ['/', '*'] ['*', '/']] }

/-- a character a physical line can hold (`lines` splits at LF and drops a CR before it) -/
def lineChar (c : Char) : Bool := c != '\n' && c != '\r'


/-- not a quote character -/
def notQuote (c : Char) : Bool := c != '\'' && c != '"'

/-- one element of a string literal's body -/
inductive Item where
  | plain (c : Char)      -- any character but the literal's own quote and the backslash
  | esc (c : Char)        -- backslash followed by any character
  deriving DecidableEq, Repr

def Item.render : Item → List Char
  | .plain c => [c]
  | .esc c => ['\\', c]

def Item.ok (q : Char) : Item → Bool
  | .plain c => c != q && c != '\\'
  | .esc _ => true

def renderBody (b : List Item) : List Char := b.flatMap Item.render

/-- the delimiter `StringSkipper` records for an opening quote character -/
def delimOf (q : Char) : Delim := if q = '\'' then .single else .double

def isQuote (q : Char) : Bool := q == '\'' || q == '"'


/-- a string literal: opening quote, body, closing quote -/
def renderLit (q : Char) (body : List Item) : List Char := q :: (renderBody body ++ [q])


/-! ### the grammar -/

inductive Tok where
  | word (w : List Char)                    -- code text: no quote, no `/`
  | lit (q : Char) (body : List Item)       -- string or character literal
  deriving DecidableEq, Repr

def Tok.render : Tok → List Char
  | .word w => w
  | .lit q b => renderLit q b

def renderToks (ts : List Tok) : List Char := ts.flatMap Tok.render

def Item.lineOk : Item → Bool
  | .plain c => lineChar c
  | .esc c => lineChar c

def Tok.ok : Tok → Bool
  | .word w => w.all (fun c => notQuote c && c != '/' && lineChar c)
  | .lit q b => isQuote q && b.all (fun it => it.ok q && it.lineOk)

/-- an empty literal must not be followed directly by its own quote character (`""` + `"` would
    be a triple quote) -/
def adjOk : List Tok → Bool
  | [] => true
  | .lit q [] :: rest => (renderToks rest).head? != some q && adjOk rest
  | _ :: rest => adjOk rest

def opener : List Char := ['/', '*']
def closer : List Char := ['*', '/']
def linePrefix : List Char := ['/', '/']

/-- comment text is not directive text -/
def noDirectiveB (line : List Char) : Bool :=
  let t := trim line
  !isSingleLineComment cSyn t ||
    (!containsSub Generated.ignoreEndDirective t && !containsSub Generated.ignoreStartDirective t &&
     !containsSub Generated.ignoreNextPrefix t && !containsSub Generated.ignoreFileDirective t)

def wsOk (ws : List Char) : Bool := ws.all (fun c => isWs c && lineChar c)
def textOk (t : List Char) : Bool := t.all lineChar
def quoteFree (t : List Char) : Bool := t.all (fun c => notQuote c && lineChar c)

inductive Chunk where
  | blank (ws : List Char)
  | code (toks : List Tok) (cmt : Option (List Char))
  | lineComment (ws text : List Char)
  | blockOne (ws body trail : List Char)
  | block (ws body : List Char) (mids : List (List Char)) (cbody trail : List Char)
  deriving Repr

def Chunk.lines : Chunk → List (List Char)
  | .blank ws => [ws]
  | .code toks none => [renderToks toks]
  | .code toks (some t) => [renderToks toks ++ (linePrefix ++ t)]
  | .lineComment ws t => [ws ++ (linePrefix ++ t)]
  | .blockOne ws body trail => [ws ++ (opener ++ (body ++ (closer ++ trail)))]
  | .block ws body mids cbody trail =>
    (ws ++ (opener ++ body)) :: (mids ++ [cbody ++ (closer ++ trail)])

def Chunk.truth : Chunk → List LineClass
  | .blank _ => [.blank]
  | .code _ _ => [.code]
  | .lineComment _ _ => [.comment]
  | .blockOne _ _ _ => [.comment]
  | .block _ _ mids _ _ => .comment :: (mids.map (fun _ => LineClass.comment) ++ [.comment])

def Chunk.ok : Chunk → Bool
  | .blank ws => wsOk ws
  | .code toks cmt =>
    toks.all Tok.ok && adjOk toks && (renderToks toks).any (fun c => !isWs c) &&
      (match cmt with
       | none => true
       | some t => textOk t && !containsSub opener (linePrefix ++ t))
  | .lineComment ws t =>
    wsOk ws && textOk t && !containsSub opener (linePrefix ++ t) &&
      noDirectiveB (ws ++ (linePrefix ++ t))
  | .blockOne ws body trail =>
    wsOk ws && quoteFree body && !containsSub closer body && wsOk trail
  | .block ws body mids cbody trail =>
    wsOk ws && quoteFree body && !containsSub closer body &&
      mids.all (fun m => quoteFree m && !containsSub closer m && noDirectiveB m) &&
      quoteFree cbody && !containsSub closer cbody && wsOk trail &&
      noDirectiveB (cbody ++ (closer ++ trail))

def renderLines (p : List Chunk) : List (List Char) := p.flatMap Chunk.lines
def render (p : List Chunk) : List Char := (renderLines p).flatMap (· ++ ['\n'])
def truth (p : List Chunk) : List LineClass := p.flatMap Chunk.truth


end SlocModel.Counter
