import SlocModel.Counter.Detect
import SlocModel.Generated.Consts
/-!  Model of src/counter/sloc.rs (`SlocCounter::count`, `process_line` and helpers). -/
namespace SlocModel.Counter
open SlocModel

structure LineStats where
  total : Nat := 0
  code : Nat := 0
  comment : Nat := 0
  blank : Nat := 0
  ignored : Nat := 0
  deriving DecidableEq, Repr

inductive CountResult where
  | stats (s : LineStats)
  | ignoredFile
  deriving DecidableEq, Repr

/-- `MultiLineState` -/
inductive MLState where
  | notIn
  | inComment (depth : Nat) (startM endM : List Char) (nesting : Bool)   -- depth ≥ 1
  deriving DecidableEq, Repr

def MLState.isIn : MLState → Bool
  | .notIn => false
  | .inComment .. => true

/-- `MultiLineState::enter` (depth never saturates: a line has fewer than 2^64 markers) -/
def MLState.enter (s : MLState) (startM endM : List Char) (nesting : Bool) : MLState :=
  match s with
  | .notIn => .inComment 1 startM endM nesting
  | .inComment d a b n => .inComment (d + 1) a b n

/-- `MultiLineState::exit` -/
def MLState.exit (s : MLState) : MLState :=
  match s with
  | .notIn => .notIn
  | .inComment d a b n => if d - 1 = 0 then .notIn else .inComment (d - 1) a b n

def iter {α : Type} (f : α → α) : Nat → α → α
  | 0, a => a
  | n + 1, a => iter f n (f a)

/-- `for _ in 0..opens { enter } ; for _ in 0..closes { exit }` -/
def applyNesting (s : MLState) (startM endM : List Char) (opens closes : Nat) : MLState :=
  iter MLState.exit closes (iter (fun s => s.enter startM endM true) opens s)

/-- `update_multi_line_state_inside_comment` -/
def updateInside (line : List Char) (s : MLState) : MLState :=
  match s with
  | .notIn => .notIn
  | .inComment _ startM endM nesting =>
    if nesting then
      let (o, c) := countMarkers line startM endM
      applyNesting s startM endM o c
    else if containsEnd line endM then .notIn else s

/-- `MultiLineMatch::after_start`: what follows the matched start marker (the whole line for
    quote-style blocks whose start and end are the same marker) -/
def StartMatch.afterStart (m : StartMatch) (line : List Char) : List Char :=
  if m.entry.start = m.endMarker then line
  else
    let startLen := match m.dynEnd with
      | some e => if m.entry.kind = .luaLongBracket then e.length + 2 else m.entry.start.length
      | none => m.entry.start.length
    line.drop (m.pos + startLen)

/-- what `process_line` and `track_multi_line_comment_state` do when a block start was found -/
def enterFrom (line : List Char) (m : StartMatch) (s : MLState) : MLState :=
  let startM := m.entry.start
  let endM := m.endMarker
  if m.entry.nesting then
    let (o, c) := countMarkers line startM endM
    applyNesting s startM endM o c
  else if !containsEnd (m.afterStart line) endM then s.enter startM endM false else s

/-- `track_multi_line_comment_state` -/
def trackState (syn : Syntax) (line : List Char) (s : MLState) : MLState :=
  if s.isIn then updateInside line s
  else match findMultiLineStart syn line with
    | some m => enterFrom line m s
    | none => s

def hasDirective (syn : Syntax) (directive trimmed : List Char) : Bool :=
  containsSub directive trimmed && isSingleLineComment syn trimmed

/-- `has_ignore_file_directive` -/
def hasIgnoreFile (syn : Syntax) (line : List Char) : Bool :=
  hasDirective syn Generated.ignoreFileDirective (trim line)

/-- `parse_ignore_next` -/
def parseIgnoreNext (syn : Syntax) (trimmed : List Char) : Option Nat :=
  if !containsSub Generated.ignoreNextPrefix trimmed then none
  else if !isSingleLineComment syn trimmed then none
  else match findSub Generated.ignoreNextPrefix trimmed 0 with
    | none => none
    | some pos =>
      let after := trimmed.drop (pos + Generated.ignoreNextPrefix.length)
      match firstToken after with
      | none => none
      | some tok => parseUsize tok

inductive LineClass where
  | code | comment | blank | ignored
  deriving DecidableEq, Repr

/-- the mutable locals of `count` -/
structure St where
  ml : MLState := .notIn
  ignoreRemaining : Nat := 0
  inIgnoreBlock : Bool := false
  deriving DecidableEq, Repr

/-- the directive branches of `process_line` (only for whole-line line comments):
    ignore-end, ignore-start, ignore-next N, in this order -/
def directiveOf (syn : Syntax) (trimmed : List Char) (st : St) : Option (LineClass × St) :=
  if isSingleLineComment syn trimmed then
    if hasDirective syn Generated.ignoreEndDirective trimmed then
      some (.comment, { st with inIgnoreBlock := false })
    else if hasDirective syn Generated.ignoreStartDirective trimmed then
      some (.comment, { st with inIgnoreBlock := true })
    else match parseIgnoreNext syn trimmed with
      | some n => some (.comment, { st with ignoreRemaining := n })
      | none => none
  else none

/-- the classification ladder of `process_line` below the directive branches -/
def ladder (syn : Syntax) (line : List Char) (st : St) : LineClass × St :=
  if st.inIgnoreBlock then (.ignored, { st with ml := trackState syn line st.ml })
  else if st.ignoreRemaining > 0 then
    (.ignored, { st with ignoreRemaining := st.ignoreRemaining - 1, ml := trackState syn line st.ml })
  else if st.ml.isIn then (.comment, { st with ml := updateInside line st.ml })
  else if (trim line).isEmpty then (.blank, st)
  else match findMultiLineStart syn line with
    | some m => (.comment, { st with ml := enterFrom line m st.ml })
    | none => if isSingleLineComment syn (trim line) then (.comment, st) else (.code, st)

/-- `process_line`: class of the line and the new state -/
def processLine (syn : Syntax) (line : List Char) (st : St) : LineClass × St :=
  match directiveOf syn (trim line) st with
  | some r => r
  | none => ladder syn line st

def LineStats.bump (s : LineStats) : LineClass → LineStats
  | .code => { s with total := s.total + 1, code := s.code + 1 }
  | .comment => { s with total := s.total + 1, comment := s.comment + 1 }
  | .blank => { s with total := s.total + 1, blank := s.blank + 1 }
  | .ignored => { s with total := s.total + 1, ignored := s.ignored + 1 }

/-- the loop of `count` over the lines; `none` = `CountResult::IgnoredFile`.
    Returns the classes in order. -/
def classifyLines (syn : Syntax) : List (List Char) → Nat → St → Option (List LineClass)
  | [], _, _ => some []
  | l :: ls, seen, st =>
    if seen < Generated.directiveScanLines && hasIgnoreFile syn l then none
    else
      let (cls, st') := processLine syn l st
      match classifyLines syn ls (seen + 1) st' with
      | some cs => some (cls :: cs)
      | none => none

/-- per-line classes of a source text, or `none` for an ignored file -/
def classes (syn : Syntax) (src : List Char) : Option (List LineClass) :=
  classifyLines syn (splitLines src) 0 {}

def tally (cs : List LineClass) : LineStats := cs.foldl LineStats.bump {}

/-- `SlocCounter::count` -/
def count (syn : Syntax) (src : List Char) : CountResult :=
  match classes syn src with
  | some cs => .stats (tally cs)
  | none => .ignoredFile

end SlocModel.Counter
