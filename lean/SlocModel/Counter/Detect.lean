import SlocModel.Counter.Text
import SlocModel.Counter.Syntax
/-!
  Model of src/counter/comment.rs.

  Every Rust loop of the shape `while i < chars.len() { …; i += k }` is written as structural
  recursion over the remaining suffix `chars[i..]` with a *skip counter*: consuming `k`
  characters is `skip := k - 1` followed by one step per character.  This keeps the functions
  total, structurally recursive (they reduce in the kernel, so witnesses close by `decide`)
  and free of fuel.  The facts that make this faithful — every `k` is ≥ 1 (the Rust loop
  terminates) and ≤ the remaining length (no index leaves the line) — are theorems in
  `Props/C03.lean`.
-/
namespace SlocModel.Counter

/-- `StringDelimiter` -/
inductive Delim where
  | single | double | tripleSingle | tripleDouble
  deriving DecidableEq, Repr

/-- `StringSkipper`: `in_string` ⇔ `string_delim.is_some()` (the Rust sets them together) -/
abbrev SkState := Option Delim

def tripleOf (c : Char) : Option Delim :=
  if c = '\'' then some .tripleSingle else if c = '"' then some .tripleDouble else none

def singleOf (c : Char) : Option Delim :=
  if c = '\'' then some .single else if c = '"' then some .double else none

def Delim.isTriple : Delim → Bool
  | .tripleSingle | .tripleDouble => true
  | _ => false

def Delim.matchesSingle : Delim → Char → Bool
  | .single, c => c = '\''
  | .double, c => c = '"'
  | _, _ => false

/-- the triple-quote branch of `process_impl`: `Some((state, 3))` when it fires -/
def tripleHit (st : SkState) (c : Char) (rest : List Char) : Option (SkState × Nat) :=
  if c = '"' || c = '\'' then
    match rest with
    | c1 :: c2 :: _ =>
      if c1 = c && c2 = c then
        match tripleOf c with
        | some td =>
          if st.isNone then some (some td, 3)
          else if st = some td then some (none, 3)
          else none
        | none => none
      else none
    | _ => none
  else none

/-- the single-quote branch of `process_impl` -/
def singleStep (st : SkState) (c : Char) (track : Bool) : SkState :=
  if track then
    match singleOf c with
    | some sd =>
      match st with
      | none => some sd
      | some d => if !d.isTriple && d.matchesSingle c then none else st
    | none => st
  else st

/-- `StringSkipper::process_impl(chars, i, track)` with `c = chars[i]`, `rest = chars[i+1..]`.
    Returns the new state and the number of characters consumed. -/
def skStep (st : SkState) (c : Char) (rest : List Char) (track : Bool) : SkState × Nat :=
  -- escape inside a string
  if st.isSome && c = '\\' && !rest.isEmpty then (st, 2) else
  match tripleHit st c rest with
  | some r => r
  | none => (singleStep st c track, 1)

/-! ### Lua long brackets -/

def countLeading (x : Char) : List Char → Nat
  | [] => 0
  | c :: cs => if c = x then countLeading x cs + 1 else 0

/-- `match_lua_long_bracket(chars, pos, require_dash_prefix)` on `chars[pos..]`:
    `(matched_length, level)` -/
def matchLuaLongBracket (cs : List Char) (requireDash : Bool) : Option (Nat × Nat) :=
  let body (cs : List Char) (pre : Nat) : Option (Nat × Nat) :=
    match cs with
    | '[' :: r =>
      let level := countLeading '=' r
      match r.drop level with
      | '[' :: _ => some (pre + 1 + level + 1, level)
      | _ => none
    | _ => none
  if requireDash then
    match cs with
    | '-' :: '-' :: r => body r 2
    | _ => none
  else body cs 0

/-- `lua_long_bracket_end(level)` -/
def luaEnd (level : Nat) : List Char := ']' :: (List.replicate level '=' ++ [']'])

/-- `find_lua_long_bracket_outside_string(chars, true)`: position and level -/
def findLuaGo : Nat → SkState → Nat → List Char → Option (Nat × Nat)
  | _, _, _, [] => none
  | skip + 1, st, i, _ :: rest => findLuaGo skip st (i + 1) rest
  | 0, st, i, c :: rest =>
    match (if st.isNone then matchLuaLongBracket (c :: rest) true else none) with
    | some (_, level) => some (i, level)
    | none =>
      let (st', k) := skStep st c rest true
      findLuaGo (k - 1) st' (i + 1) rest

def findLua (cs : List Char) : Option (Nat × Nat) := findLuaGo 0 none 0 cs

/-! ### Rust raw strings -/

/-- `match_rust_raw_string(chars, pos)` on `chars[pos..]`: `(matched_length, level)` -/
def matchRustRawString (cs : List Char) : Option (Nat × Nat) :=
  match cs with
  | 'r' :: r =>
    let level := countLeading '#' r
    match r.drop level with
    | '"' :: _ => some (1 + level + 1, level)
    | _ => none
  | _ => none

/-- `rust_raw_string_end(level)` -/
def rawEnd (level : Nat) : List Char := '"' :: List.replicate level '#'

/-- the scan `while i < len { if chars[i..].starts_with(end) { return i + end.len() - pos } ; i += 1 }`
    over `cs = chars[i..]`, with `off = i - pos`; falls back to `len - pos` -/
def rawScan (endM : List Char) : List Char → Nat → Nat
  | [], off => off
  | c :: cs, off => if endM.isPrefixOf (c :: cs) then off + endM.length else rawScan endM cs (off + 1)

/-- `try_skip_rust_raw_string(chars, pos)` on `chars[pos..]`: number of characters to skip -/
def trySkipRaw (cs : List Char) : Option Nat :=
  match matchRustRawString cs with
  | some (startLen, level) => some (rawScan (rawEnd level) (cs.drop startLen) startLen)
  | none => none

/-! ### needle search outside strings -/

/-- the "needle is a run of one quote character" test of `find_outside_string` -/
def isMulticharQuote (needle : List Char) : Bool :=
  match needle with
  | first :: _ => needle.length ≥ 2 && (first = '"' || first = '\'') && needle.all (· = first)
  | [] => false

/-- the loop of `find_outside_string`; returns the character index of the match -/
def findOutsideGo (needle : List Char) (skipRaw quoteNeedle : Bool) :
    Nat → SkState → Nat → List Char → Option Nat
  | _, _, _, [] => none
  | skip + 1, st, i, _ :: rest => findOutsideGo needle skipRaw quoteNeedle skip st (i + 1) rest
  | 0, st, i, c :: rest =>
    match (if skipRaw && st.isNone && c = 'r' then trySkipRaw (c :: rest) else none) with
    | some k => findOutsideGo needle skipRaw quoteNeedle (k - 1) st (i + 1) rest
    | none =>
      if st.isNone && needle.isPrefixOf (c :: rest) then some i
      else
        let (st', k) := skStep st c rest (!quoteNeedle)
        findOutsideGo needle skipRaw quoteNeedle (k - 1) st' (i + 1) rest

/-- `find_outside_string(chars, needle, skip_raw_strings)` -/
def findOutside (cs needle : List Char) (skipRaw : Bool) : Option Nat :=
  if needle.isEmpty then none
  else findOutsideGo needle skipRaw (isMulticharQuote needle) 0 none 0 cs

/-- `CommentDetector::contains_multi_line_end` -/
def containsEnd (line endM : List Char) : Bool := (findOutside line endM false).isSome

/-- the loop of `count_markers_outside_string` -/
def countMarkersGo (startM endM : List Char) :
    Nat → SkState → List Char → Nat → Nat → Nat × Nat
  | _, _, [], s, e => (s, e)
  | skip + 1, st, _ :: rest, s, e => countMarkersGo startM endM skip st rest s e
  | 0, st, c :: rest, s, e =>
    match (if st.isNone && c = 'r' then trySkipRaw (c :: rest) else none) with
    | some k => countMarkersGo startM endM (k - 1) st rest s e
    | none =>
      if st.isNone && startM.isPrefixOf (c :: rest) then
        countMarkersGo startM endM (startM.length - 1) st rest (s + 1) e
      else if st.isNone && endM.isPrefixOf (c :: rest) then
        countMarkersGo startM endM (endM.length - 1) st rest s (e + 1)
      else
        let (st', k) := skStep st c rest true
        countMarkersGo startM endM (k - 1) st' rest s e

/-- `CommentDetector::count_nesting_changes` -/
def countMarkers (line startM endM : List Char) : Nat × Nat :=
  if startM.isEmpty || endM.isEmpty then (0, 0)
  else countMarkersGo startM endM 0 none line 0 0

/-! ### block comment start -/

/-- `MultiLineMatch`: index of the table entry, position, dynamic end marker -/
structure StartMatch where
  entry : MultiLine
  pos : Nat
  dynEnd : Option (List Char)
  deriving DecidableEq, Repr

def StartMatch.endMarker (m : StartMatch) : List Char := m.dynEnd.getD m.entry.stop

/-- `CommentDetector::is_single_line_comment` -/
def isSingleLineComment (syn : Syntax) (trimmed : List Char) : Bool :=
  syn.single.any (fun p => p.isPrefixOf trimmed)

/-- candidate of one table entry in `find_multi_line_start` -/
def startCandidate (line : List Char) (skipRaw : Bool) (m : MultiLine) : Option StartMatch :=
  if m.atLineStart then
    if m.start.isPrefixOf (trimStart line) then some ⟨m, leadingWs line, none⟩ else none
  else match m.kind with
    | .luaLongBracket =>
      match findLua line with
      | some (pos, level) => some ⟨m, pos, if level = 0 then none else some (luaEnd level)⟩
      | none => none
    | .rustRawString => none
    | .static =>
      match findOutside line m.start skipRaw with
      | some pos => some ⟨m, pos, none⟩
      | none => none

/-- earliest position wins; the first entry of the table wins ties (`pos < best.position`) -/
def pickBest (best : Option StartMatch) (cand : Option StartMatch) : Option StartMatch :=
  match cand, best with
  | none, b => b
  | some c, none => some c
  | some c, some b => if c.pos < b.pos then some c else some b

/-- `CommentDetector::find_multi_line_start` -/
def findMultiLineStart (syn : Syntax) (line : List Char) : Option StartMatch :=
  let skipRaw := syn.multi.any (fun m => m.kind = .rustRawString)
  syn.multi.foldl (fun best m => pickBest best (startCandidate line skipRaw m)) none

end SlocModel.Counter
