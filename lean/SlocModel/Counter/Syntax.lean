/-!  `CommentSyntax` of src/language/registry.rs -/
namespace SlocModel.Counter

inductive PatternKind where
  | static | luaLongBracket | rustRawString
  deriving DecidableEq, Repr

structure MultiLine where
  start : List Char
  stop : List Char
  nesting : Bool
  atLineStart : Bool
  kind : PatternKind
  deriving DecidableEq, Repr

structure Syntax where
  single : List (List Char)
  multi : List MultiLine
  deriving DecidableEq, Repr

structure Language where
  name : List Char
  exts : List (List Char)
  syn : Syntax
  deriving DecidableEq, Repr

/-- `MultiLineComment::new` -/
def MultiLine.plain (s e : List Char) : MultiLine :=
  { start := s, stop := e, nesting := false, atLineStart := false, kind := .static }

end SlocModel.Counter
