import SlocModel.Counter.Grammar
/-!
  Facts about the text primitives (`trim`, `lines`, `find`) used by the token-level theorems.
-/
namespace SlocModel.Counter

theorem dropWhile_all {α : Type} (p : α → Bool) (l : List α) (h : ∀ x ∈ l, p x = true) :
    l.dropWhile p = [] := by
  induction l with
  | nil => rfl
  | cons a t ih =>
    rw [List.dropWhile_cons, h a (by simp)]
    exact ih (fun x hx => h x (by simp [hx]))

theorem dropWhile_append_stop {α : Type} (p : α → Bool) (ws : List α) (c : α) (t : List α)
    (h : ∀ x ∈ ws, p x = true) (hc : p c = false) :
    (ws ++ c :: t).dropWhile p = c :: t := by
  induction ws with
  | nil => simp [hc]
  | cons a r ih =>
    rw [List.cons_append, List.dropWhile_cons, h a (by simp)]
    exact ih (fun x hx => h x (by simp [hx]))

theorem dropWhile_snoc_stop {α : Type} (p : α → Bool) (a : List α) (c : α) (hc : p c = false) :
    (a ++ [c]).dropWhile p = a.dropWhile p ++ [c] := by
  induction a with
  | nil => simp [hc]
  | cons x r ih =>
    rw [List.cons_append, List.dropWhile_cons, List.dropWhile_cons]
    cases p x <;> simp [ih]

/-- `trim_end` never removes a non-whitespace character in front -/
theorem trimEnd_cons (c : Char) (l : List Char) (hc : isWs c = false) :
    trimEnd (c :: l) = c :: trimEnd l := by
  unfold trimEnd
  rw [List.reverse_cons, dropWhile_snoc_stop isWs _ c hc]
  simp

theorem trim_all_ws (ws : List Char) (h : ∀ c ∈ ws, isWs c = true) : trim ws = [] := by
  unfold trim trimStart
  rw [dropWhile_all isWs ws h]; rfl

/-- whitespace, then a non-whitespace character: `trim` starts at that character -/
theorem trim_ws_cons (ws : List Char) (c : Char) (t : List Char)
    (h : ∀ x ∈ ws, isWs x = true) (hc : isWs c = false) :
    trim (ws ++ c :: t) = c :: trimEnd t := by
  unfold trim trimStart
  rw [dropWhile_append_stop isWs ws c t h hc, trimEnd_cons c t hc]

/-- first character that is not whitespace -/
def firstNonWs : List Char → Option Char
  | [] => none
  | c :: cs => if isWs c then firstNonWs cs else some c

theorem firstNonWs_split (l : List Char) (c : Char) (h : firstNonWs l = some c) :
    ∃ ws t, l = ws ++ c :: t ∧ (∀ x ∈ ws, isWs x = true) ∧ isWs c = false := by
  induction l with
  | nil => cases h
  | cons a r ih =>
    unfold firstNonWs at h
    by_cases ha : isWs a = true
    · rw [if_pos ha] at h
      obtain ⟨ws, t, e, hw, hc⟩ := ih h
      refine ⟨a :: ws, t, by simp [e], ?_, hc⟩
      intro x hx
      rcases List.mem_cons.mp hx with rfl | hx
      · exact ha
      · exact hw x hx
    · rw [if_neg ha] at h
      cases h
      exact ⟨[], r, rfl, by simp, by simpa using ha⟩

theorem firstNonWs_append (a b : List Char) :
    firstNonWs (a ++ b) = (firstNonWs a).orElse (fun _ => firstNonWs b) := by
  induction a with
  | nil => simp [firstNonWs]
  | cons x r ih =>
    simp only [List.cons_append, firstNonWs]
    split
    · exact ih
    · rfl

/-! ### `lines` -/

theorem stripCR_id (r : List Char) (h : ∀ c ∈ r, c ≠ '\r') : stripCR r = r := by
  unfold stripCR
  split
  · rename_i t
    exact absurd rfl (h '\r' (by simp))
  · rfl

theorem splitLinesAux_line (l rest cur : List Char) (h : ∀ c ∈ l, c ≠ '\n') :
    splitLinesAux (l ++ '\n' :: rest) cur =
      (stripCR (l.reverse ++ cur)).reverse :: splitLinesAux rest [] := by
  induction l generalizing cur with
  | nil => simp [splitLinesAux]
  | cons a r ih =>
    have ha : a ≠ '\n' := h a (by simp)
    rw [List.cons_append, splitLinesAux, if_neg ha, ih (a :: cur) (fun x hx => h x (by simp [hx]))]
    simp

/-- a text made of LF-terminated lines without LF / CR splits back into those lines -/
theorem splitLines_join (ls : List (List Char)) (h : ∀ l ∈ ls, ∀ c ∈ l, lineChar c = true) :
    splitLines (ls.flatMap (· ++ ['\n'])) = ls := by
  unfold splitLines
  induction ls with
  | nil => simp [splitLinesAux]
  | cons l r ih =>
    have hl := h l (by simp)
    have hn : ∀ c ∈ l, c ≠ '\n' := by
      intro c hc e; have := hl c hc; subst e; simp [lineChar] at this
    have hr : ∀ c ∈ l.reverse ++ [], c ≠ '\r' := by
      intro c hc e
      have : c ∈ l := by simpa using hc
      have := hl c this; subst e; simp [lineChar] at this
    simp only [List.flatMap_cons, List.append_assoc, List.singleton_append]
    rw [splitLinesAux_line l _ [] hn, stripCR_id _ hr, ih (fun x hx => h x (by simp [hx]))]
    simp

/-! ### `find` -/

theorem findSub_none_shift (n : List Char) (l : List Char) (i j : Nat)
    (h : findSub n l i = none) : findSub n l j = none := by
  induction l generalizing i j with
  | nil =>
    unfold findSub at h ⊢
    split at h
    · cases h
    · rename_i hh; simp [hh]
  | cons c cs ih =>
    unfold findSub at h ⊢
    split at h
    · cases h
    · rename_i hh; simp only [hh]; exact ih _ _ h

theorem isPrefixOf_append_self (n b : List Char) : n.isPrefixOf (n ++ b) = true := by
  induction n with
  | nil => simp [List.isPrefixOf]
  | cons a r ih => simp [ih]

/-- a text that contains the needle: `find` finds something -/
theorem findSub_some_of_occurs (n a b : List Char) (i : Nat) (hn : n ≠ []) :
    (findSub n (a ++ n ++ b) i).isSome = true := by
  induction a generalizing i with
  | nil =>
    cases n with
    | nil => exact absurd rfl hn
    | cons x r =>
      simp only [List.nil_append, List.cons_append]
      unfold findSub
      have := isPrefixOf_append_self (x :: r) b
      simp only [List.cons_append] at this
      simp [this]
  | cons c cs ih =>
    simp only [List.cons_append, List.append_assoc]
    unfold findSub
    split
    · rfl
    · have := ih (i + 1)
      simpa [List.append_assoc] using this

end SlocModel.Counter
