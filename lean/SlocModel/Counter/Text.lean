/-!
  Text primitives of the Rust standard library that the counter relies on, modelled on
  `List Char` (a decoded source file).  Character indices stand for the byte offsets the Rust
  code computes: the map index ↦ byte offset is strictly monotone within one line, so every
  position comparison agrees.
-/
namespace SlocModel.Counter

/-- Unicode `White_Space` — what `char::is_whitespace` (hence `str::trim`,
    `split_whitespace`) tests. -/
def isWs (c : Char) : Bool :=
  let n := c.toNat
  (9 ≤ n && n ≤ 13) || n == 32 || n == 0x85 || n == 0xA0 || n == 0x1680 ||
  (0x2000 ≤ n && n ≤ 0x200A) || n == 0x2028 || n == 0x2029 || n == 0x202F ||
  n == 0x205F || n == 0x3000

def trimStart (cs : List Char) : List Char := cs.dropWhile isWs
def trimEnd (cs : List Char) : List Char := (cs.reverse.dropWhile isWs).reverse
def trim (cs : List Char) : List Char := trimEnd (trimStart cs)

/-- number of leading whitespace characters (`line.len() - trimmed.len()` in char units) -/
def leadingWs : List Char → Nat
  | [] => 0
  | c :: cs => if isWs c then leadingWs cs + 1 else 0

def stripCR (revLine : List Char) : List Char :=
  match revLine with
  | '\r' :: t => t
  | l => l

/-- `str::lines` / `BufRead::lines`: split at `\n`, drop one `\r` before it, no trailing
    empty line; a final line without `\n` keeps a trailing `\r`. -/
def splitLinesAux : List Char → List Char → List (List Char)
  | [], cur => if cur.isEmpty then [] else [cur.reverse]
  | c :: rest, cur =>
    if c = '\n' then (stripCR cur).reverse :: splitLinesAux rest []
    else splitLinesAux rest (c :: cur)

def splitLines (src : List Char) : List (List Char) := splitLinesAux src []

/-- `haystack.find(needle)`: index of the first occurrence -/
def findSub (needle : List Char) : List Char → Nat → Option Nat
  | [], i => if needle.isEmpty then some i else none
  | c :: cs, i => if needle.isPrefixOf (c :: cs) then some i else findSub needle cs (i + 1)

def containsSub (needle hay : List Char) : Bool := (findSub needle hay 0).isSome

/-- `str::split_whitespace().next()` -/
def firstToken (cs : List Char) : Option (List Char) :=
  let t := (trimStart cs).takeWhile (fun c => !isWs c)
  if t.isEmpty then none else some t

def digitVal (c : Char) : Option Nat :=
  if '0' ≤ c ∧ c ≤ '9' then some (c.toNat - '0'.toNat) else none

def parseDigits : List Char → Nat → Option Nat
  | [], acc => some acc
  | c :: cs, acc => match digitVal c with
    | some d => parseDigits cs (acc * 10 + d)
    | none => none

/-- `usize::from_str` on a 64-bit target: optional `+`, at least one ASCII digit, no overflow -/
def parseUsize (cs : List Char) : Option Nat :=
  let ds := match cs with
    | '+' :: t => t
    | l => l
  if ds.isEmpty then none else
  match parseDigits ds 0 with
  | some n => if n < 2 ^ 64 then some n else none
  | none => none

end SlocModel.Counter
