import SlocModel.Counter.Grammar
/-!
  Helper lemmas about the needle search of `CommentDetector` (`find_outside_string`) for the
  token-level theorems of `Props/C02Grammar.lean`:

  * over text without quote characters and without the needle's first character the scan just
    moves on (`go_skip_safe`);
  * a well-formed string literal (opening quote, body of ordinary characters and escapes,
    closing quote) is stepped over as a whole, whatever it contains (`go_skip_literal`);
  * where the needle does not occur at all the search finds nothing, whatever state the string
    tracking is in (`go_none_of_findSub`);
  * over text without quote characters the search is a plain substring search (`go_noquote`).
-/
namespace SlocModel.Counter

theorem findOutsideGo_nil (needle : List Char) (sr qn : Bool) (k : Nat) (st : SkState) (i : Nat) :
    findOutsideGo needle sr qn k st i [] = none := by
  cases k <;> rfl

theorem go_zero (needle : List Char) (sr qn : Bool) (st : SkState) (i : Nat) (c : Char)
    (rest : List Char) :
    findOutsideGo needle sr qn 0 st i (c :: rest) =
      match (if sr && st.isNone && c = 'r' then trySkipRaw (c :: rest) else none) with
      | some k => findOutsideGo needle sr qn (k - 1) st (i + 1) rest
      | none =>
        if st.isNone && needle.isPrefixOf (c :: rest) then some i
        else findOutsideGo needle sr qn ((skStep st c rest (!qn)).2 - 1) (skStep st c rest (!qn)).1
          (i + 1) rest := by
  conv => lhs; unfold findOutsideGo
  rfl

theorem go_succ (needle : List Char) (sr qn : Bool) (k : Nat) (st : SkState) (i : Nat) (c : Char)
    (rest : List Char) :
    findOutsideGo needle sr qn (k + 1) st i (c :: rest) =
      findOutsideGo needle sr qn k st (i + 1) rest := by
  conv => lhs; unfold findOutsideGo

/-- without raw-string skipping: the step when the needle test does not fire -/
theorem go_zero_plain (needle : List Char) (qn : Bool) (st : SkState) (i : Nat) (c : Char)
    (rest : List Char) (hp : (st.isNone && needle.isPrefixOf (c :: rest)) = false) :
    findOutsideGo needle false qn 0 st i (c :: rest) =
      findOutsideGo needle false qn ((skStep st c rest (!qn)).2 - 1) (skStep st c rest (!qn)).1
        (i + 1) rest := by
  rw [go_zero]; simp [hp]

/-- where the needle does not occur the search finds nothing -/
theorem go_none_of_findSub (needle : List Char) (qn : Bool) :
    ∀ (tail : List Char) (k : Nat) (st : SkState) (i j : Nat),
      findSub needle tail j = none → findOutsideGo needle false qn k st i tail = none := by
  intro tail
  induction tail with
  | nil => intro k st i j _; exact findOutsideGo_nil ..
  | cons c cs ih =>
    intro k st i j h
    unfold findSub at h
    split at h
    · cases h
    · rename_i hp
      cases k with
      | succ k => rw [go_succ]; exact ih k st (i + 1) (j + 1) h
      | zero =>
        rw [go_zero_plain _ _ _ _ _ _ (by simp [hp])]
        exact ih _ _ _ _ h

theorem skStep_outside_plain (c : Char) (rest : List Char) (hq : notQuote c = true) :
    skStep none c rest true = (none, 1) := by
  have h1 : c ≠ '\'' := by
    intro e; subst e; simp [notQuote] at hq
  have h2 : c ≠ '"' := by
    intro e; subst e; simp [notQuote] at hq
  simp [skStep, tripleHit, singleStep, singleOf, h1, h2]

/-- one step over a character that is neither a quote nor the needle's first character, outside
    a string -/
theorem go_step_safe (h : Char) (nt : List Char) (c : Char) (rest : List Char) (i : Nat)
    (hq : notQuote c = true) (hh : c ≠ h) :
    findOutsideGo (h :: nt) false false 0 none i (c :: rest) =
      findOutsideGo (h :: nt) false false 0 none (i + 1) rest := by
  have hp : (h :: nt).isPrefixOf (c :: rest) = false := by
    simp [List.isPrefixOf, Ne.symm hh]
  rw [go_zero_plain _ _ _ _ _ _ (by simp [hp])]
  simp [skStep_outside_plain c rest hq]

/-- text without quotes and without the needle's first character is stepped over -/
theorem go_skip_safe (h : Char) (nt : List Char) :
    ∀ (pre rest : List Char) (i : Nat),
      (∀ c ∈ pre, notQuote c = true ∧ c ≠ h) →
      findOutsideGo (h :: nt) false false 0 none i (pre ++ rest) =
        findOutsideGo (h :: nt) false false 0 none (i + pre.length) rest := by
  intro pre
  induction pre with
  | nil => intro rest i _; simp
  | cons c cs ih =>
    intro rest i hs
    have hc := hs c (by simp)
    rw [List.cons_append, go_step_safe h nt c (cs ++ rest) i hc.1 hc.2]
    rw [ih rest (i + 1) (fun x hx => hs x (by simp [hx]))]
    simp only [List.length_cons]
    congr 1; omega

/-- over text without quote characters the search is the plain substring search -/
theorem go_noquote (h : Char) (nt : List Char) :
    ∀ (text : List Char) (i : Nat), (∀ c ∈ text, notQuote c = true) →
      findOutsideGo (h :: nt) false false 0 none i text = findSub (h :: nt) text i := by
  intro text
  induction text with
  | nil => intro i _; simp [findOutsideGo_nil, findSub]
  | cons c cs ih =>
    intro i hs
    unfold findSub
    by_cases hp : (h :: nt).isPrefixOf (c :: cs) = true
    · rw [go_zero]; simp [hp]
    · have hp' : (h :: nt).isPrefixOf (c :: cs) = false := Bool.eq_false_iff.mpr hp
      rw [go_zero_plain _ _ _ _ _ _ (by simp [hp'])]
      simp only [hp', Bool.false_eq_true, if_false, Bool.not_false]
      rw [skStep_outside_plain c cs (hs c (by simp))]
      exact ih (i + 1) (fun x hx => hs x (by simp [hx]))

/-! ### string literals -/

theorem delimOf_props (q : Char) (hq : isQuote q = true) :
    singleOf q = some (delimOf q) ∧ (delimOf q).isTriple = false ∧
      (delimOf q).matchesSingle q = true := by
  simp only [isQuote, Bool.or_eq_true, beq_iff_eq] at hq
  rcases hq with rfl | rfl <;> decide

theorem tripleOf_isTriple (c : Char) (td : Delim) (h : tripleOf c = some td) :
    td.isTriple = true := by
  unfold tripleOf at h
  split at h
  · cases h; rfl
  · split at h
    · cases h; rfl
    · cases h

/-- inside an ordinary (non-triple) literal the triple-quote branch never fires -/
theorem tripleHit_nontriple (d : Delim) (hd : d.isTriple = false) (c : Char) (rest : List Char) :
    tripleHit (some d) c rest = none := by
  unfold tripleHit
  split
  · split
    · split
      · split
        · rename_i td htd
          have := tripleOf_isTriple _ _ htd
          have hne : some d ≠ some td := by
            intro e; cases e; rw [hd] at this; cases this
          simp [hne]
        · rfl
      · rfl
    · rfl
  · rfl

/-- inside a literal opened by `q`: the step over an ordinary body character -/
theorem skStep_inside_plain (q c : Char) (rest : List Char) (hq : isQuote q = true)
    (hc : c ≠ q) (hb : c ≠ '\\') :
    skStep (some (delimOf q)) c rest true = (some (delimOf q), 1) := by
  obtain ⟨_, h2, _⟩ := delimOf_props q hq
  unfold skStep
  rw [tripleHit_nontriple _ h2]
  simp only [hb, decide_false, Bool.and_false, Bool.false_and, Bool.false_eq_true, if_false]
  simp only [isQuote, Bool.or_eq_true, beq_iff_eq] at hq
  unfold singleStep singleOf
  rcases hq with rfl | rfl
  · by_cases h2 : c = '"'
    · subst h2; simp [delimOf, Delim.isTriple, Delim.matchesSingle]
    · simp [hc, h2]
  · by_cases h2 : c = '\''
    · subst h2; simp [delimOf, Delim.isTriple, Delim.matchesSingle]
    · simp [hc, h2]

/-- inside a literal: backslash plus one character is consumed as a pair -/
theorem skStep_inside_esc (d : Delim) (c : Char) (rest : List Char) :
    skStep (some d) '\\' (c :: rest) true = (some d, 2) := by
  simp [skStep]

/-- the closing quote ends the literal -/
theorem skStep_close (q : Char) (rest : List Char) (hq : isQuote q = true) :
    skStep (some (delimOf q)) q rest true = (none, 1) := by
  obtain ⟨h1, h2, h3⟩ := delimOf_props q hq
  have hb : q ≠ '\\' := by
    simp only [isQuote, Bool.or_eq_true, beq_iff_eq] at hq
    rcases hq with rfl | rfl <;> decide
  unfold skStep
  rw [tripleHit_nontriple _ h2]
  simp [hb, singleStep, h1, h2, h3]

/-- the opening quote starts a literal unless it begins a triple quote -/
theorem skStep_open (q : Char) (rest : List Char) (hq : isQuote q = true)
    (hnt : ∀ c1 c2 t, rest = c1 :: c2 :: t → ¬ (c1 = q ∧ c2 = q)) :
    skStep none q rest true = (some (delimOf q), 1) := by
  obtain ⟨h1, _, _⟩ := delimOf_props q hq
  have hth : tripleHit none q rest = none := by
    unfold tripleHit
    split
    · split
      · rename_i c1 c2 t
        have := hnt c1 c2 t rfl
        simp only [Bool.and_eq_true, decide_eq_true_eq]
        rw [if_neg this]
      · rfl
    · rfl
  unfold skStep
  rw [hth]
  simp [singleStep, h1]

/-- from inside a literal: its body and the closing quote are stepped over as a whole -/
theorem go_skip_body (needle : List Char) (q : Char) (hq : isQuote q = true) :
    ∀ (body : List Item) (rest : List Char) (i : Nat), (∀ it ∈ body, it.ok q = true) →
      findOutsideGo needle false false 0 (some (delimOf q)) i (renderBody body ++ q :: rest) =
        findOutsideGo needle false false 0 none (i + (renderBody body).length + 1) rest := by
  intro body
  induction body with
  | nil =>
    intro rest i _
    simp only [renderBody, List.flatMap_nil, List.nil_append, List.length_nil, Nat.add_zero]
    rw [go_zero_plain _ _ _ _ _ _ (by simp)]
    simp [skStep_close q rest hq]
  | cons it b ih =>
    intro rest i hok
    have hit := hok it (by simp)
    have hb := ih rest
    have hrest : ∀ it' ∈ b, it'.ok q = true := fun x hx => hok x (by simp [hx])
    cases it with
    | plain c =>
      simp only [Item.ok, Bool.and_eq_true, bne_iff_ne, ne_eq] at hit
      have : renderBody (Item.plain c :: b) = c :: renderBody b := by simp [renderBody, Item.render]
      rw [this, List.cons_append, go_zero_plain _ _ _ _ _ _ (by simp)]
      simp only [Bool.not_false, skStep_inside_plain q c _ hq hit.1 hit.2]
      rw [hb (i + 1) hrest]
      simp only [List.length_cons]; congr 1; omega
    | esc c =>
      have : renderBody (Item.esc c :: b) = '\\' :: c :: renderBody b := by
        simp [renderBody, Item.render]
      rw [this, List.cons_append, List.cons_append, go_zero_plain _ _ _ _ _ _ (by simp)]
      simp only [Bool.not_false, skStep_inside_esc]
      rw [go_succ, hb (i + 1 + 1) hrest]
      simp only [List.length_cons]; congr 1; omega

/-- **a well-formed string literal is stepped over as a whole, whatever it contains** -/
theorem go_skip_literal (h : Char) (nt : List Char) (q : Char) (hq : isQuote q = true)
    (hh : q ≠ h) (body : List Item) (rest : List Char) (i : Nat)
    (hok : ∀ it ∈ body, it.ok q = true)
    (hadj : body = [] → rest.head? ≠ some q) :
    findOutsideGo (h :: nt) false false 0 none i (renderLit q body ++ rest) =
      findOutsideGo (h :: nt) false false 0 none (i + (renderLit q body).length) rest := by
  have hp : (h :: nt).isPrefixOf (q :: (renderBody body ++ q :: rest)) = false := by
    simp [List.isPrefixOf, Ne.symm hh]
  have hopen : skStep none q (renderBody body ++ q :: rest) true = (some (delimOf q), 1) := by
    apply skStep_open q _ hq
    intro c1 c2 t heq
    cases body with
    | nil =>
      simp only [renderBody, List.flatMap_nil, List.nil_append, List.cons.injEq] at heq
      intro hc
      apply hadj rfl
      rw [heq.2]; simp [hc.2]
    | cons it b =>
      have hit := hok it (by simp)
      cases it with
      | plain c =>
        simp only [Item.ok, Bool.and_eq_true, bne_iff_ne, ne_eq] at hit
        simp only [renderBody, List.flatMap_cons, Item.render, List.cons_append, List.nil_append,
          List.cons.injEq] at heq
        intro hc; exact hit.1 (heq.1.trans hc.1)
      | esc c =>
        simp only [renderBody, List.flatMap_cons, Item.render, List.cons_append, List.nil_append,
          List.cons.injEq] at heq
        intro hc
        simp only [isQuote, Bool.or_eq_true, beq_iff_eq] at hq
        have : q = '\\' := hc.1.symm.trans heq.1.symm
        rcases hq with rfl | rfl <;> cases this
  have hshape : renderLit q body ++ rest = q :: (renderBody body ++ q :: rest) := by
    simp [renderLit]
  rw [hshape, go_zero_plain _ _ _ _ _ _ (by simp [hp])]
  simp only [Bool.not_false, hopen]
  rw [go_skip_body _ q hq body rest (i + 1) hok]
  simp only [renderLit, List.length_cons, List.length_append, List.length_nil]
  congr 1; omega

end SlocModel.Counter
