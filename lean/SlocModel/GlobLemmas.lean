import SlocModel.Glob
/-!
  The executable matcher of `Glob.lean` decides exactly the regular language its token sequence
  denotes (`mF_iff_Lang`), and the pattern shapes the configuration documentation uses mean what
  it says they mean (`glob_literal`, `glob_star_suffix`, `glob_dir_recursive`, `glob_anywhere`,
  `glob_everything`).
-/
namespace SlocModel.Glob

/-- the language of one token, over bytes -/
def tokLang : FTok → List Nat → Prop
  | .lit c, x => x = utf8 c
  | .any, x => ∃ b, b ≠ 10 ∧ x = [b]
  | .star, x => 10 ∉ x
  | .recPre, x => x = [] ∨ ∃ y, 10 ∉ y ∧ x = y ++ [47]
  | .recSuf, x => ∃ y, 10 ∉ y ∧ x = 47 :: y
  | .recMid, x => x = [47] ∨ ∃ y, 10 ∉ y ∧ x = 47 :: (y ++ [47])
  | .cls neg ranges, x => ∃ b, x = [b] ∧ (inRanges b ranges != neg) = true

/-- the language of a token sequence: concatenation -/
inductive Lang : List FTok → List Nat → Prop
  | nil : Lang [] []
  | cons {t ts x y} : tokLang t x → Lang ts y → Lang (t :: ts) (x ++ y)

theorem stripPrefix_iff (p s r : List Nat) : stripPrefix p s = some r ↔ s = p ++ r := by
  induction p generalizing s with
  | nil => simp [stripPrefix, eq_comm]
  | cons a p ih =>
    cases s with
    | nil => simp [stripPrefix]
    | cons b s =>
      simp only [stripPrefix]
      split
      · next h => subst h; simp [ih]
      · next h => simp; intro h'; exact absurd h'.symm h

theorem mem_starSuf (s t : List Nat) : t ∈ starSuf s ↔ ∃ x, s = x ++ t ∧ 10 ∉ x := by
  induction s with
  | nil =>
    simp [starSuf]
    constructor
    · intro h; exact ⟨[], by simp [h], by simp⟩
    · rintro ⟨x, h, _⟩; exact h.2
  | cons b r ih =>
    simp only [starSuf, List.mem_cons]
    constructor
    · rintro (h | h)
      · exact ⟨[], by simp [h], by simp⟩
      · split at h
        · simp at h
        · next hb =>
          obtain ⟨x, hx, hn⟩ := ih.mp h
          exact ⟨b :: x, by simp [hx], by simp [hn]; exact fun e => hb e.symm⟩
    · rintro ⟨x, hx, hn⟩
      cases x with
      | nil => left; simpa using hx.symm
      | cons a x =>
        right
        simp only [List.cons_append, List.cons.injEq] at hx
        obtain ⟨hba, hx⟩ := hx
        subst hba
        simp only [List.mem_cons, not_or] at hn
        have hb : ¬ b = 10 := fun e => hn.1 e.symm
        simp only [hb, if_false]
        exact ih.mpr ⟨x, hx, hn.2⟩

theorem mem_afterSlash (ss : List (List Nat)) (t : List Nat) : t ∈ afterSlash ss ↔ (47 :: t) ∈ ss := by
  unfold afterSlash
  simp only [List.mem_filterMap]
  constructor
  · rintro ⟨a, ha, h⟩
    split at h
    · simp at h; subst h; exact ha
    · simp at h
  · intro h; exact ⟨47 :: t, h, rfl⟩

/-- `step` removes exactly the prefixes in the token's language -/
theorem mem_step (t : FTok) (s r : List Nat) : r ∈ step t s ↔ ∃ x, s = x ++ r ∧ tokLang t x := by
  cases t with
  | lit c =>
    simp only [step, tokLang, Option.mem_toList]
    constructor
    · intro h; exact ⟨utf8 c, (stripPrefix_iff _ _ _).mp h, rfl⟩
    · rintro ⟨x, hs, rfl⟩; exact (stripPrefix_iff _ _ _).mpr hs
  | any =>
    simp only [step, tokLang]
    cases s with
    | nil => simp
    | cons b s =>
      by_cases hb : b = 10
      · simp [hb]; rintro x hx b' hb' rfl; simp at hx; exact hb' hx.1.symm
      · simp [hb]
        constructor
        · intro h; exact ⟨[b], by simp [h], b, hb, rfl⟩
        · rintro ⟨x, hx, b', _, rfl⟩; simp at hx; exact hx.2.symm
  | star =>
    simp only [step, tokLang]; exact mem_starSuf s r
  | recPre =>
    simp only [step, tokLang, List.mem_cons, mem_afterSlash, mem_starSuf]
    constructor
    · rintro (h | ⟨x, hx, hn⟩)
      · exact ⟨[], by simp [h], Or.inl rfl⟩
      · exact ⟨x ++ [47], by simp [hx], Or.inr ⟨x, hn, rfl⟩⟩
    · rintro ⟨x, hx, (rfl | ⟨y, hn, rfl⟩)⟩
      · left; simpa using hx.symm
      · right; exact ⟨y, by simp [hx], hn⟩
  | recSuf =>
    simp only [step, tokLang]
    split
    · next r' =>
      rw [mem_starSuf]
      constructor
      · rintro ⟨x, hx, hn⟩; exact ⟨47 :: x, by simp [hx], x, hn, rfl⟩
      · rintro ⟨x, hx, y, hn, rfl⟩; simp at hx; exact ⟨y, hx, hn⟩
    · next hne =>
      simp
      rintro x hx y _ rfl
      exact hne _ (by simpa using hx)
  | recMid =>
    simp only [step, tokLang]
    split
    · next r' =>
      simp only [List.mem_cons, mem_afterSlash, mem_starSuf]
      constructor
      · rintro (h | ⟨x, hx, hn⟩)
        · exact ⟨[47], by simp [h], Or.inl rfl⟩
        · exact ⟨47 :: (x ++ [47]), by simp [hx], Or.inr ⟨x, hn, rfl⟩⟩
      · rintro ⟨x, hx, (rfl | ⟨y, hn, rfl⟩)⟩
        · left; simpa using hx.symm
        · right; simp at hx; exact ⟨y, by simp [hx], hn⟩
    · next hne =>
      simp only [List.not_mem_nil, false_iff]
      rintro ⟨x, hx, (rfl | ⟨y, _, rfl⟩)⟩
      · exact hne _ (by simpa using hx)
      · exact hne _ (by simpa using hx)
  | cls neg ranges =>
    simp only [step, tokLang]
    cases s with
    | nil => simp
    | cons b s =>
      by_cases hb : (inRanges b ranges != neg) = true
      · simp only [hb, if_true, List.mem_singleton]
        constructor
        · intro h; exact ⟨[b], by simp [h], b, rfl, hb⟩
        · rintro ⟨x, hx, b', rfl, _⟩; simp at hx; exact hx.2.symm
      · simp only [hb]
        simp only [Bool.false_eq_true, if_false, List.not_mem_nil, false_iff]
        rintro ⟨x, hx, b', rfl, hb'⟩
        simp at hx
        rw [hx.1] at hb
        exact hb hb'

/-- the matcher decides the language -/
theorem mF_iff_Lang (ts : List FTok) (s : List Nat) : mF ts s = true ↔ Lang ts s := by
  induction ts generalizing s with
  | nil =>
    simp only [mF, List.isEmpty_iff]
    constructor
    · rintro rfl; exact .nil
    · intro h; cases h; rfl
  | cons t ts ih =>
    simp only [mF, List.any_eq_true]
    constructor
    · rintro ⟨r, hr, hm⟩
      obtain ⟨x, rfl, hx⟩ := (mem_step t s r).mp hr
      exact .cons hx ((ih r).mp hm)
    · intro h
      cases h with
      | cons hx hy => exact ⟨_, (mem_step t _ _).mpr ⟨_, rfl, hx⟩, (ih _).mpr hy⟩

theorem Lang_append {a b : List FTok} {x y : List Nat} (ha : Lang a x) (hb : Lang b y) : Lang (a ++ b) (x ++ y) := by
  induction ha with
  | nil => simpa using hb
  | cons ht _ ih => rw [List.cons_append, List.append_assoc]; exact .cons ht ih

theorem Lang_append_inv {a b : List FTok} {s : List Nat} (h : Lang (a ++ b) s) : ∃ x y, s = x ++ y ∧ Lang a x ∧ Lang b y := by
  induction a generalizing s with
  | nil => exact ⟨[], s, rfl, .nil, h⟩
  | cons t a ih =>
    cases h with
    | cons ht hrest =>
      obtain ⟨x, y, rfl, hx, hy⟩ := ih hrest
      exact ⟨_ ++ x, y, by simp, .cons ht hx, hy⟩

/-- matching a concatenation = splitting the path -/
theorem mF_append (a b : List FTok) (s : List Nat) :
    mF (a ++ b) s = true ↔ ∃ x y, s = x ++ y ∧ mF a x = true ∧ mF b y = true := by
  simp only [mF_iff_Lang]
  constructor
  · exact Lang_append_inv
  · rintro ⟨x, y, rfl, hx, hy⟩; exact Lang_append hx hy

def lits (w : List Nat) : List FTok := w.map .lit

theorem Lang_lits (w : List Nat) (s : List Nat) : Lang (lits w) s ↔ s = utf8s w := by
  induction w generalizing s with
  | nil =>
    simp only [lits, List.map_nil, utf8s, List.flatMap_nil]
    constructor
    · intro h; cases h; rfl
    · rintro rfl; exact .nil
  | cons c w ih =>
    simp only [lits, List.map_cons, utf8s, List.flatMap_cons] at *
    constructor
    · intro h
      cases h with
      | cons ht hr => simp only [tokLang] at ht; rw [ht, (ih _).mp hr]
    · rintro rfl; exact .cons rfl ((ih _).mpr rfl)

end SlocModel.Glob

namespace SlocModel.Glob

/-! ### the parser on the documented pattern shapes -/

/-- not one of `? * [ { } , \` -/
def plain (c : Nat) : Bool := c != 63 && c != 42 && c != 91 && c != 123 && c != 125 && c != 44 && c != 92

def plainStep (s : PS) (c : Nat) : PS := ({ s with prev := s.cur, cur := some c } : PS).push (.lit c)
def plainRun (s : PS) (w : List Nat) : PS := w.foldl plainStep s

theorem parseLoop_plain (w : List Nat) (hw : ∀ c ∈ w, plain c = true) (k : Nat) (s : PS) (rest : List Nat) :
    parseLoop (w.length + k) s (w ++ rest) = parseLoop k (plainRun s w) rest := by
  induction w generalizing s with
  | nil => simp [plainRun]
  | cons c w ih =>
    have hc := hw c (by simp)
    simp only [plain, Bool.and_eq_true, bne_iff_ne, ne_eq] at hc
    obtain ⟨⟨⟨⟨⟨⟨h1, h2⟩, h3⟩, h4⟩, h5⟩, h6⟩, h7⟩ := hc
    have : (c :: w).length + k = (w.length + k) + 1 := by simp; omega
    rw [this, List.cons_append]
    simp only [parseLoop, bump, h1, h2, h3, h4, h5, h6, h7, if_false]
    rw [ih (fun c hc => hw c (by simp [hc]))]
    rfl

theorem plainRun_branches (s : PS) (w : List Nat) (b : List Tok) (bs : List (List Tok)) (h : s.branches = b :: bs) :
    (plainRun s w).branches = ((w.map Tok.lit).reverse ++ b) :: bs ∧ (plainRun s w).altStack = s.altStack := by
  induction w generalizing s b with
  | nil => simp [plainRun, h]
  | cons c w ih =>
    have h' : (plainStep s c).branches = (Tok.lit c :: b) :: bs := by simp [plainStep, PS.push, h]
    have := ih (plainStep s c) (Tok.lit c :: b) h'
    simp only [plainRun, List.foldl_cons] at *
    constructor
    · rw [this.1]; simp
    · rw [this.2]; simp [plainStep, PS.push, h]

theorem plainRun_cur (s : PS) (w : List Nat) (c : Nat) : (plainRun s (w ++ [c])).cur = some c := by
  simp only [plainRun, List.foldl_append, List.foldl_cons, List.foldl_nil]
  simp only [plainStep, PS.push]
  split <;> rfl

/-- a pattern without special characters is the sequence of its literals -/
theorem parse_plain (w : List Nat) (hw : ∀ c ∈ w, plain c = true) : parse w = .ok (w.map Tok.lit) := by
  unfold parse
  have := parseLoop_plain w hw 1 initPS []
  simp only [List.append_nil] at this
  show (match parseLoop (w.length + 1) initPS w with | .error e => _ | .ok s => _) = _
  rw [this]
  simp only [parseLoop]
  have hb := (plainRun_branches initPS w [] [] rfl).1
  simp only [hb, List.append_nil, List.reverse_reverse]

/-- the state in which `parse_star` is entered -/
def starState (s : PS) : PS := { s with prev := s.cur, cur := some 42 }

theorem parseLoop_star (fuel : Nat) (s : PS) (r : List Nat) :
    parseLoop (fuel + 1) s (42 :: r) = parseLoop fuel (parseStar (starState s) r).1 (parseStar (starState s) r).2 := by
  simp only [parseLoop, bump, starState]
  simp only [show (42 : Nat) = 63 ↔ False by decide, if_false, if_true]

theorem parseLoop_nil (fuel : Nat) (s : PS) : parseLoop fuel s [] = .ok s := by
  cases fuel <;> rfl

theorem parseStar_single (s : PS) (w : List Nat) (hw : ∀ c ∈ w, plain c = true) : parseStar s w = (s.push .star, w) := by
  cases w with
  | nil => rfl
  | cons c w =>
    have hc := hw c (by simp)
    simp only [plain, Bool.and_eq_true, bne_iff_ne, ne_eq] at hc
    unfold parseStar
    split
    · next r heq => simp at heq; exact absurd heq.1 hc.1.1.1.1.1.2
    · rfl

/-- `*` followed by literals -/
theorem parse_star_plain (w : List Nat) (hw : ∀ c ∈ w, plain c = true) : parse (42 :: w) = .ok (Tok.star :: w.map Tok.lit) := by
  unfold parse
  show (match parseLoop (w.length + 1 + 1) initPS (42 :: w) with | .error e => _ | .ok s => _) = _
  rw [parseLoop_star, parseStar_single _ w hw]
  have := parseLoop_plain w hw 1 ((starState initPS).push .star) []
  simp only [List.append_nil] at this
  rw [this, parseLoop_nil]
  have hb := (plainRun_branches ((starState initPS).push .star) w [Tok.star] [] rfl).1
  simp only [hb, List.reverse_append, List.reverse_reverse, List.reverse_cons, List.reverse_nil, List.nil_append, List.singleton_append]

theorem parseStar_suffix (s : PS) (b : List Tok) (bs : List (List Tok)) (h1 : s.prev = some 47)
    (h2 : s.branches = (Tok.lit 47 :: b) :: bs) :
    (parseStar s [42]).1.branches = (Tok.recSuf :: b) :: bs ∧ (parseStar s [42]).2 = [] := by
  simp [parseStar, bump, PS.haveTokens, PS.push, h1, h2, isSep]

theorem parseStar_prefix (s : PS) (w : List Nat) (bs : List (List Tok)) (h : s.branches = [] :: bs) :
    (parseStar s (42 :: 47 :: w)).1.branches = [Tok.recPre] :: bs ∧ (parseStar s (42 :: 47 :: w)).1.altStack = s.altStack
      ∧ (parseStar s (42 :: 47 :: w)).2 = w := by
  simp [parseStar, bump, PS.haveTokens, PS.push, h, isSep]

theorem parseStar_alone (s : PS) (bs : List (List Tok)) (h : s.branches = [] :: bs) :
    (parseStar s [42]).1.branches = [Tok.recPre] :: bs ∧ (parseStar s [42]).2 = [] := by
  simp [parseStar, bump, PS.haveTokens, PS.push, h]

/-- `dir/**` -/
theorem parse_dir_recursive (d : List Nat) (hd : ∀ c ∈ d, plain c = true) :
    parse (d ++ [47, 42, 42]) = .ok (d.map Tok.lit ++ [Tok.recSuf]) := by
  unfold parse
  have hw : ∀ c ∈ d ++ [47], plain c = true := by
    intro c hc
    simp only [List.mem_append, List.mem_singleton] at hc
    rcases hc with hc | rfl
    · exact hd c hc
    · decide
  have e1 : d ++ [47, 42, 42] = (d ++ [47]) ++ [42, 42] := by simp
  have e2 : (d ++ [47, 42, 42]).length + 1 = (d ++ [47]).length + 3 := by simp
  rw [e2, e1, parseLoop_plain _ hw, parseLoop_star]
  have hb := (plainRun_branches initPS (d ++ [47]) [] [] rfl).1
  have hcur := plainRun_cur initPS d 47
  have hs := parseStar_suffix (starState (plainRun initPS (d ++ [47])))
    ((d.map Tok.lit).reverse) [] hcur (by simp [starState, hb])
  rw [hs.2, parseLoop_nil]
  simp only [hs.1, List.reverse_cons, List.reverse_reverse]

/-- `**/name` -/
theorem parse_anywhere (w : List Nat) (hw : ∀ c ∈ w, plain c = true) :
    parse ([42, 42, 47] ++ w) = .ok (Tok.recPre :: w.map Tok.lit) := by
  unfold parse
  have e2 : ([42, 42, 47] ++ w).length + 1 = (w.length + 1 + 2) + 1 := by simp
  have e1 : [42, 42, 47] ++ w = 42 :: (42 :: 47 :: w) := rfl
  rw [e2, e1, parseLoop_star]
  have hs := parseStar_prefix (starState initPS) w [] rfl
  rw [hs.2.2]
  have e3 : w.length + 1 + 2 = w.length + 3 := by omega
  have := parseLoop_plain w hw 3 (parseStar (starState initPS) (42 :: 47 :: w)).1 []
  simp only [List.append_nil] at this
  rw [e3, this, parseLoop_nil]
  have hb := (plainRun_branches _ w [Tok.recPre] [] hs.1).1
  simp only [hb, List.reverse_append, List.reverse_reverse, List.reverse_cons, List.reverse_nil, List.nil_append, List.singleton_append]

/-- `**` -/
theorem parse_everything : parse [42, 42] = .ok [Tok.recPre] := by rfl

/-! ### what the documented shapes match -/

def Tok.ofF : FTok → Tok
  | .lit c => .lit c
  | .any => .any
  | .star => .star
  | .recPre => .recPre
  | .recSuf => .recSuf
  | .recMid => .recMid
  | .cls n r => .cls n r

theorem expTok_ofF (f : FTok) : expTok (Tok.ofF f) = [[f]] := by
  cases f <;> simp [Tok.ofF, expTok]

theorem expToks_ofF (fs : List FTok) : expToks (fs.map Tok.ofF) = [fs] := by
  induction fs with
  | nil => simp [expToks]
  | cons f fs ih => simp [expToks, expTok_ofF, ih, cross]

theorem map_lit_eq (w : List Nat) : w.map Tok.lit = (lits w).map Tok.ofF := by
  simp [lits, Tok.ofF]

/-- a pattern without special characters matches exactly itself -/
theorem glob_literal (w : List Nat) (hw : ∀ c ∈ w, plain c = true) (path : List Nat) :
    globMatch w path = .ok (decide (path = utf8s w)) := by
  have hnot : isOnlyRecPre (w.map Tok.lit) = false := by
    cases w with
    | nil => rfl
    | cons c w => cases w <;> rfl
  simp only [globMatch, parse_plain w hw, matchToks, hnot]
  rw [map_lit_eq, expToks_ofF]
  simp only [List.any_cons, List.any_nil, Bool.or_false, Bool.false_eq_true, if_false]
  congr 1
  rw [Bool.eq_iff_iff, mF_iff_Lang, Lang_lits]; simp

/-- `*suffix` (for instance `*.rs`) matches the paths that end with the suffix; the part before it
    may contain `/` (sloc-guard does not set `literal_separator`) but no line feed -/
theorem glob_star_suffix (w : List Nat) (hw : ∀ c ∈ w, plain c = true) (path : List Nat) :
    ∃ b, globMatch (42 :: w) path = .ok b ∧ (b = true ↔ ∃ x, 10 ∉ x ∧ path = x ++ utf8s w) := by
  refine ⟨mF (.star :: lits w) path, ?_, ?_⟩
  · simp only [globMatch, parse_star_plain w hw, matchToks]
    have : Tok.star :: w.map Tok.lit = (FTok.star :: lits w).map Tok.ofF := by simp [lits, Tok.ofF]
    rw [this, expToks_ofF]
    simp [isOnlyRecPre, Tok.ofF]
  · rw [mF_iff_Lang]
    constructor
    · intro h
      cases h with
      | cons ht hr => exact ⟨_, ht, by rw [(Lang_lits _ _).mp hr]⟩
    · rintro ⟨x, hx, rfl⟩
      exact .cons hx ((Lang_lits _ _).mpr rfl)

/-- `dir/**` matches exactly what lies below `dir/` (not `dir` itself) -/
theorem glob_dir_recursive (d : List Nat) (hd : ∀ c ∈ d, plain c = true) (path : List Nat) :
    ∃ b, globMatch (d ++ [47, 42, 42]) path = .ok b ∧ (b = true ↔ ∃ x, 10 ∉ x ∧ path = utf8s d ++ 47 :: x) := by
  refine ⟨mF (lits d ++ [.recSuf]) path, ?_, ?_⟩
  · simp only [globMatch, parse_dir_recursive d hd, matchToks]
    have : d.map Tok.lit ++ [Tok.recSuf] = (lits d ++ [FTok.recSuf]).map Tok.ofF := by simp [lits, Tok.ofF]
    rw [this, expToks_ofF]
    have hnot : isOnlyRecPre ((lits d ++ [FTok.recSuf]).map Tok.ofF) = false := by
      cases d with
      | nil => rfl
      | cons c d => cases d <;> rfl
    rw [hnot]; simp
  · rw [mF_append]
    constructor
    · rintro ⟨x, y, rfl, hx, hy⟩
      rw [mF_iff_Lang, Lang_lits] at hx
      rw [mF_iff_Lang] at hy
      cases hy with
      | cons ht hr =>
        cases hr
        obtain ⟨z, hz, rfl⟩ := ht
        exact ⟨z, hz, by simp [hx]⟩
    · rintro ⟨x, hx, rfl⟩
      refine ⟨utf8s d, 47 :: x, rfl, (mF_iff_Lang _ _).mpr ((Lang_lits _ _).mpr rfl), (mF_iff_Lang _ _).mpr ?_⟩
      have := Lang.cons (t := .recSuf) (ts := []) (x := 47 :: x) (y := []) ⟨x, hx, rfl⟩ .nil
      simpa using this

/-- `**/name` matches `name` at the root and below any directory -/
theorem glob_anywhere (w : List Nat) (hw : ∀ c ∈ w, plain c = true) (hne : w ≠ []) (path : List Nat) :
    ∃ b, globMatch ([42, 42, 47] ++ w) path = .ok b ∧
      (b = true ↔ path = utf8s w ∨ ∃ x, 10 ∉ x ∧ path = x ++ 47 :: utf8s w) := by
  refine ⟨mF (.recPre :: lits w) path, ?_, ?_⟩
  · simp only [globMatch, parse_anywhere w hw, matchToks]
    have : Tok.recPre :: w.map Tok.lit = (FTok.recPre :: lits w).map Tok.ofF := by simp [lits, Tok.ofF]
    rw [this, expToks_ofF]
    have hnot : isOnlyRecPre ((FTok.recPre :: lits w).map Tok.ofF) = false := by
      cases w with
      | nil => exact absurd rfl hne
      | cons c w => rfl
    rw [hnot]; simp
  · rw [mF_iff_Lang]
    constructor
    · intro h
      cases h with
      | cons ht hr =>
        rw [(Lang_lits _ _).mp hr]
        rcases ht with rfl | ⟨y, hy, rfl⟩
        · left; simp
        · right; exact ⟨y, hy, by simp⟩
    · rintro (rfl | ⟨x, hx, rfl⟩)
      · have := Lang.cons (t := .recPre) (x := []) (Or.inl rfl) ((Lang_lits w _).mpr rfl)
        simpa using this
      · have := Lang.cons (t := .recPre) (x := x ++ [47]) (Or.inr ⟨x, hx, rfl⟩) ((Lang_lits w _).mpr rfl)
        simpa using this

/-- `**` matches every path (without a line feed) -/
theorem glob_everything (path : List Nat) : globMatch [42, 42] path = .ok (!path.contains 10) := by
  simp [globMatch, parse_everything, matchToks, isOnlyRecPre]

end SlocModel.Glob

namespace SlocModel.Glob
/-! ### alternation -/

theorem mem_cross (xs ys : List (List FTok)) (f : List FTok) : f ∈ cross xs ys ↔ ∃ x ∈ xs, ∃ y ∈ ys, f = x ++ y := by
  simp only [cross, List.mem_flatMap, List.mem_map]
  constructor
  · rintro ⟨x, hx, y, hy, rfl⟩; exact ⟨x, hx, y, hy, rfl⟩
  · rintro ⟨x, hx, y, hy, rfl⟩; exact ⟨x, hx, y, hy, rfl⟩

theorem mem_expToks_cons (t : Tok) (ts : List Tok) (f : List FTok) :
    f ∈ expToks (t :: ts) ↔ ∃ x ∈ expTok t, ∃ y ∈ expToks ts, f = x ++ y := by
  rw [expToks, mem_cross]

theorem mem_expToks_append (a b : List Tok) (f : List FTok) :
    f ∈ expToks (a ++ b) ↔ ∃ x ∈ expToks a, ∃ y ∈ expToks b, f = x ++ y := by
  induction a generalizing f with
  | nil => simp [expToks]
  | cons t a ih =>
    rw [List.cons_append, mem_expToks_cons]
    constructor
    · rintro ⟨x, hx, y, hy, rfl⟩
      obtain ⟨y1, h1, y2, h2, rfl⟩ := (ih y).mp hy
      exact ⟨x ++ y1, (mem_expToks_cons t a _).mpr ⟨x, hx, y1, h1, rfl⟩, y2, h2, by simp⟩
    · rintro ⟨x, hx, y, hy, rfl⟩
      obtain ⟨x1, h1, x2, h2, rfl⟩ := (mem_expToks_cons t a _).mp hx
      exact ⟨x1, h1, x2 ++ y, (ih _).mpr ⟨x2, h2, y, hy, rfl⟩, by simp⟩

theorem mem_expAlts (bs : List (List Tok)) (h : ∀ b ∈ bs, reEmptyToks b = false) (f : List FTok) :
    f ∈ expAlts bs ↔ ∃ b ∈ bs, f ∈ expToks b := by
  induction bs with
  | nil => simp [expAlts]
  | cons b bs ih =>
    have hb := h b (by simp)
    have ih := ih (fun b' hb' => h b' (by simp [hb']))
    simp only [expAlts, hb, Bool.false_eq_true, if_false, List.mem_append, ih, List.mem_cons, exists_eq_or_imp]

theorem reEmptyAlts_false (bs : List (List Tok)) (hne : bs ≠ []) (h : ∀ b ∈ bs, reEmptyToks b = false) :
    reEmptyAlts bs = false := by
  cases bs with
  | nil => exact absurd rfl hne
  | cons b bs => simp [reEmptyAlts, h b (by simp)]

/-- `{b₁,…,bₙ}` inside a pattern means: one of the patterns obtained by putting a branch in its
    place (branches whose regex is empty are the ones globset drops; they are excluded here) -/
theorem alternation_distributes (pre post : List Tok) (bs : List (List Tok)) (hne : bs ≠ [])
    (h : ∀ b ∈ bs, reEmptyToks b = false) (f : List FTok) :
    f ∈ expToks (pre ++ [Tok.alts bs] ++ post) ↔ ∃ b ∈ bs, f ∈ expToks (pre ++ b ++ post) := by
  have hexp : expTok (Tok.alts bs) = expAlts bs := by simp [expTok, reEmptyAlts_false bs hne h]
  constructor
  · intro hf
    obtain ⟨x, hx, y, hy, rfl⟩ := (mem_expToks_append _ _ _).mp hf
    obtain ⟨p, hp, a, ha, rfl⟩ := (mem_expToks_append _ _ _).mp hx
    obtain ⟨a1, ha1, a2, ha2, rfl⟩ := (mem_expToks_cons _ _ _).mp ha
    simp only [expToks, List.mem_singleton] at ha2
    subst ha2
    rw [hexp] at ha1
    obtain ⟨b, hb, hab⟩ := (mem_expAlts bs h a1).mp ha1
    refine ⟨b, hb, (mem_expToks_append _ _ _).mpr ⟨p ++ a1, (mem_expToks_append _ _ _).mpr ⟨p, hp, a1, hab, rfl⟩, y, hy, by simp⟩⟩
  · rintro ⟨b, hb, hf⟩
    obtain ⟨x, hx, y, hy, rfl⟩ := (mem_expToks_append _ _ _).mp hf
    obtain ⟨p, hp, a, ha, rfl⟩ := (mem_expToks_append _ _ _).mp hx
    refine (mem_expToks_append _ _ _).mpr ⟨p ++ a, (mem_expToks_append _ _ _).mpr ⟨p, hp, a, ?_, rfl⟩, y, hy, rfl⟩
    refine (mem_expToks_cons _ _ _).mpr ⟨a, ?_, [], by simp [expToks], by simp⟩
    rw [hexp]
    exact (mem_expAlts bs h a).mpr ⟨b, hb, ha⟩

/-- … and so does matching -/
theorem alternation_matches (pre post : List Tok) (bs : List (List Tok)) (hne : bs ≠ [])
    (h : ∀ b ∈ bs, reEmptyToks b = false) (path : List Nat) :
    (expToks (pre ++ [Tok.alts bs] ++ post)).any (fun f => mF f path) =
      bs.any (fun b => (expToks (pre ++ b ++ post)).any (fun f => mF f path)) := by
  rw [Bool.eq_iff_iff]
  simp only [List.any_eq_true]
  constructor
  · rintro ⟨f, hf, hm⟩
    obtain ⟨b, hb, hfb⟩ := (alternation_distributes pre post bs hne h f).mp hf
    exact ⟨b, hb, f, hfb, hm⟩
  · rintro ⟨b, hb, f, hfb, hm⟩
    exact ⟨f, (alternation_distributes pre post bs hne h f).mpr ⟨b, hb, hfb⟩, hm⟩

end SlocModel.Glob

namespace SlocModel.Glob
/-! ### instances: the hypotheses above are satisfiable, and the shapes read as documented.
    (Evaluating `globMatch` on literals inside the kernel is avoided on purpose: the parser state
    is a structure threaded through every step and call-by-name reduction duplicates it; concrete
    pattern × path pairs are what the correspondence stream is for.) -/

/-- `*.rs`: exactly the paths ending in `.rs` -/
example (path : List Nat) : ∃ b, globMatch [42, 46, 114, 115] path = .ok b ∧
    (b = true ↔ ∃ x, 10 ∉ x ∧ path = x ++ [46, 114, 115]) := by
  simpa [utf8s, utf8] using glob_star_suffix [46, 114, 115] (by decide) path

/-- `src/**`: exactly what lies below `src/` -/
example (path : List Nat) : ∃ b, globMatch [115, 114, 99, 47, 42, 42] path = .ok b ∧
    (b = true ↔ ∃ x, 10 ∉ x ∧ path = [115, 114, 99, 47] ++ x) := by
  simpa [utf8s, utf8] using glob_dir_recursive [115, 114, 99] (by decide) path

/-- `**/a.rs`: `a.rs` at the root or below any directory, never `xa.rs` -/
example (path : List Nat) : ∃ b, globMatch [42, 42, 47, 97, 46, 114, 115] path = .ok b ∧
    (b = true ↔ path = [97, 46, 114, 115] ∨ ∃ x, 10 ∉ x ∧ path = x ++ [47, 97, 46, 114, 115]) := by
  simpa [utf8s, utf8] using glob_anywhere [97, 46, 114, 115] (by decide) (by decide) path

end SlocModel.Glob
