import SlocModel.Generated.Consts
/-!
  Model of `fetch_remote_config_with_client` (src/config/remote.rs) with its on-disk cache.
  Content is opaque (`Nat` ids); `sha : Content → Hash` is SHA-256 (a parameter); the server is a
  scripted answer; the cache write is the atomic save of C13 (complete or not at all).
-/
namespace SlocModel.Remote
open SlocModel

abbrev Content := Nat
abbrev Hash := Nat

inductive Policy where
  | normal | offline | forceRefresh
  deriving DecidableEq, Repr

/-- the cache entry for one URL: absent, or some content written `age` seconds ago -/
inductive Cache where
  | absent
  | present (c : Content) (age : Nat)
  deriving DecidableEq, Repr

inductive Server where
  | ok (body : Content)
  | err                      -- HTTP error, connection failure or timeout
  deriving DecidableEq, Repr

inductive Err where
  | hashMismatch | offlineMiss | network
  deriving DecidableEq, Repr

structure Outcome where
  result : Except Err Content
  cache : Cache
  requests : Nat
  deriving Repr

/-- `read_from_cache` -/
def readCache (p : Policy) (c : Cache) (rootGiven : Bool) : Option Content :=
  if !rootGiven then none else
  match p, c with
  | .forceRefresh, _ => none
  | _, .absent => none
  | .offline, .present x _ => some x
  | .normal, .present x age => if age < Generated.cacheTtlSecs then some x else none

/-- the network half: fetch, verify before caching, cache -/
def fetchFresh (sha : Content → Hash) (hash : Option Hash) (c : Cache) (s : Server) (rootGiven : Bool) :
    Outcome :=
  match s with
  | .err => { result := .error .network, cache := c, requests := 1 }
  | .ok body =>
    match hash with
    | some h =>
      if sha body = h then
        { result := .ok body, cache := if rootGiven then .present body 0 else c, requests := 1 }
      else { result := .error .hashMismatch, cache := c, requests := 1 }
    | none => { result := .ok body, cache := if rootGiven then .present body 0 else c, requests := 1 }

/-- `fetch_remote_config_with_client` -/
def fetch (sha : Content → Hash) (p : Policy) (hash : Option Hash) (c : Cache) (s : Server)
    (rootGiven : Bool) : Outcome :=
  match readCache p c rootGiven with
  | some cached =>
    match hash with
    | some h =>
      if sha cached = h then { result := .ok cached, cache := c, requests := 0 }
      else if p = .offline then { result := .error .hashMismatch, cache := c, requests := 0 }
      else fetchFresh sha hash c s rootGiven
    | none => { result := .ok cached, cache := c, requests := 0 }
  | none =>
    if p = .offline then { result := .error .offlineMiss, cache := c, requests := 0 }
    else fetchFresh sha hash c s rootGiven

/-- time passes between two fetches -/
def Cache.age (c : Cache) (dt : Nat) : Cache :=
  match c with
  | .absent => .absent
  | .present x a => .present x (a + dt)

/-- a sequence of fetches sharing one cache: (policy, server answer, seconds since the previous fetch) -/
def fetchSeq (sha : Content → Hash) (hash : Option Hash) (rootGiven : Bool) :
    Cache → List (Policy × Server × Nat) → Cache
  | c, [] => c
  | c, (p, s, dt) :: rest => fetchSeq sha hash rootGiven (fetch sha p hash (c.age dt) s rootGiven).cache rest

end SlocModel.Remote
