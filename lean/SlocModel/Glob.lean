/-!
  Model of the glob dialect every rule family of sloc-guard is matched with: `globset::Glob::new`
  with its default options on Unix (`literal_separator = false`, `backslash_escape = true`,
  `empty_alternates = false`, case sensitive), as in globset 0.4.18 (`glob.rs`):

  * `parse` mirrors `Parser::parse` (the token stream, including the `**` placement rules and the
    error kinds);
  * the meaning of a token stream is the regular expression `Tokens::to_regex_with` writes, read as a
    language over the path's bytes: `expand` turns alternations into a list of alternation-free
    token sequences (the union their regex denotes, empty branches dropped as `empty_alternates =
    false` does), and `mF` matches one such sequence;  `.` of the regex does not match a line feed.

  Not modelled: the literal / extension / prefix / suffix *strategies* globset uses instead of the
  regex for some pattern shapes (they agree with the regex on paths without a line feed and without
  a trailing `/`; the correspondence stream keeps to such paths) and character classes with
  non-ASCII members (their regex is a byte class; `parse` answers `unsupported`).
-/
namespace SlocModel.Glob

inductive Tok where
  | lit (c : Nat)
  | any
  | star
  | recPre
  | recSuf
  | recMid
  | cls (neg : Bool) (ranges : List (Nat × Nat))
  | alts (branches : List (List Tok))
  deriving Repr, Inhabited

/-- alternation-free tokens -/
inductive FTok where
  | lit (c : Nat)
  | any
  | star
  | recPre
  | recSuf
  | recMid
  | cls (neg : Bool) (ranges : List (Nat × Nat))
  deriving Repr, DecidableEq, Inhabited

inductive PErr where
  | unclosedClass | invalidRange | unopenedAlternates | unclosedAlternates | danglingEscape
  | unsupported
  deriving Repr, DecidableEq

/-! ### parser -/

structure PS where
  /-- newest branch first; each branch holds its tokens newest first -/
  branches : List (List Tok)
  altStack : List Nat
  prev : Option Nat
  cur : Option Nat
  deriving Inhabited

def isSep (c : Nat) : Bool := c = 47

def PS.push (s : PS) (t : Tok) : PS :=
  match s.branches with
  | b :: bs => { s with branches := (t :: b) :: bs }
  | [] => s

def PS.haveTokens (s : PS) : Bool :=
  match s.branches with
  | b :: _ => !b.isEmpty
  | [] => false

/-- `bump`: the next character becomes current -/
def bump (s : PS) (rest : List Nat) : PS × List Nat :=
  match rest with
  | [] => ({ s with prev := s.cur, cur := none }, [])
  | c :: r => ({ s with prev := s.cur, cur := some c }, r)

/-- the body of `parse_class` after the optional negation; `first`, `inRange` as in the source;
    ranges newest first -/
def classLoop : Nat → PS → List Nat → List (Nat × Nat) → Bool → Bool → Except PErr (PS × List Nat × List (Nat × Nat))
  | 0, _, _, _, _, _ => .error .unclosedClass
  | fuel + 1, s, rest, ranges, first, inRange =>
    match rest with
    | [] => .error .unclosedClass
    | c :: r =>
      let s := (bump s rest).1
      if c = 93 then            -- ']'
        if first then classLoop fuel s r ((93, 93) :: ranges) false inRange
        else .ok (s, r, if inRange then (45, 45) :: ranges else ranges)
      else if c = 45 then       -- '-'
        if first then classLoop fuel s r ((45, 45) :: ranges) false inRange
        else if inRange then
          match ranges with
          | (lo, _) :: more => if 45 < lo then .error .invalidRange else classLoop fuel s r ((lo, 45) :: more) false false
          | [] => .error .unsupported
        else classLoop fuel s r ranges false true
      else
        if inRange then
          match ranges with
          | (lo, _) :: more => if c < lo then .error .invalidRange else classLoop fuel s r ((lo, c) :: more) false false
          | [] => .error .unsupported
        else classLoop fuel s r ((c, c) :: ranges) false false

def parseClass (s : PS) (rest : List Nat) : Except PErr (PS × List Nat) :=
  let (neg, s, rest) :=
    match rest with
    | c :: r => if c = 33 || c = 94 then (true, (bump s rest).1, r) else (false, s, rest)
    | [] => (false, s, rest)
  match classLoop (rest.length + 1) s rest [] true false with
  | .error e => .error e
  | .ok (s, rest, ranges) =>
    if ranges.all (fun (lo, hi) => lo < 128 && hi < 128) then .ok (s.push (.cls neg ranges.reverse), rest)
    else .error .unsupported

/-- `parse_star`, entered with the first `*` current -/
def parseStar (s : PS) (rest : List Nat) : PS × List Nat :=
  let prev := s.prev
  match rest with
  | 42 :: r =>
    let s := (bump s rest).1
    let rest := r
    if !s.haveTokens then
      match rest with
      | c :: _ =>
        if !isSep c then ((s.push .star).push .star, rest)
        else let (s, rest) := bump (s.push .recPre) rest; (s, rest)
      | [] => let (s, rest) := bump (s.push .recPre) rest; (s, rest)
    else
      let prevSep := match prev with | some p => isSep p | none => false
      if !prevSep && (s.branches.length ≤ 1 || (prev ≠ some 44 && prev ≠ some 123)) then
        ((s.push .star).push .star, rest)
      else
        let decide3 : Option (Bool × PS × List Nat) :=
          match rest with
          | [] => some (true, (bump s rest).1, [])
          | c :: r =>
            if (c = 44 || c = 125) && s.branches.length ≥ 2 then some (true, s, rest)
            else if isSep c then some (false, (bump s rest).1, r)
            else none
        match decide3 with
        | none => ((s.push .star).push .star, rest)
        | some (isSuffix, s, rest) =>
          match s.branches with
          | (last :: b) :: bs =>
            let s' := { s with branches := b :: bs }
            match last with
            | .recPre => (s'.push .recPre, rest)
            | .recSuf => (s'.push .recSuf, rest)
            | _ => (s'.push (if isSuffix then .recSuf else .recMid), rest)
          | _ => (s, rest)
  | _ => (s.push .star, rest)

def popAlternate (s : PS) : Except PErr PS :=
  match s.altStack with
  | [] => .error .unopenedAlternates
  | start :: stack =>
    let n := s.branches.length
    let drained := (s.branches.take (n - start)).reverse.map List.reverse
    let s := { s with altStack := stack, branches := s.branches.drop (n - start) }
    .ok (s.push (.alts drained))

def parseLoop : Nat → PS → List Nat → Except PErr PS
  | 0, s, _ => .ok s
  | fuel + 1, s, rest =>
    match rest with
    | [] => .ok s
    | c :: r =>
      let s := (bump s rest).1
      if c = 63 then parseLoop fuel (s.push .any) r
      else if c = 42 then
        let (s, r) := parseStar s r
        parseLoop fuel s r
      else if c = 91 then
        match parseClass s r with
        | .error e => .error e
        | .ok (s, r) => parseLoop fuel s r
      else if c = 123 then
        parseLoop fuel { s with altStack := s.branches.length :: s.altStack, branches := [] :: s.branches } r
      else if c = 125 then
        match popAlternate s with
        | .error e => .error e
        | .ok s => parseLoop fuel s r
      else if c = 44 then
        if s.altStack.isEmpty then parseLoop fuel (s.push (.lit 44)) r
        else parseLoop fuel { s with branches := [] :: s.branches } r
      else if c = 92 then
        match r with
        | [] => .error .danglingEscape
        | e :: r' => parseLoop fuel ((bump s r).1.push (.lit e)) r'
      else parseLoop fuel (s.push (.lit c)) r

def initPS : PS := { branches := [[]], altStack := [], prev := none, cur := none }

def parse (pat : List Nat) : Except PErr (List Tok) :=
  match parseLoop (pat.length + 1) initPS pat with
  | .error e => .error e
  | .ok s =>
    match s.branches with
    | [b] => .ok b.reverse
    | _ => .error .unclosedAlternates

/-! ### meaning -/

mutual
/-- the regex text of this token sequence is empty -/
def reEmptyToks : List Tok → Bool
  | [] => true
  | t :: ts => reEmptyTok t && reEmptyToks ts
def reEmptyTok : Tok → Bool
  | .alts bs => reEmptyAlts bs
  | _ => false
def reEmptyAlts : List (List Tok) → Bool
  | [] => true
  | b :: bs => reEmptyToks b && reEmptyAlts bs
end

def cross (xs ys : List (List FTok)) : List (List FTok) :=
  xs.flatMap (fun x => ys.map (fun y => x ++ y))

mutual
def expToks : List Tok → List (List FTok)
  | [] => [[]]
  | t :: ts => cross (expTok t) (expToks ts)
def expTok : Tok → List (List FTok)
  | .lit c => [[.lit c]]
  | .any => [[.any]]
  | .star => [[.star]]
  | .recPre => [[.recPre]]
  | .recSuf => [[.recSuf]]
  | .recMid => [[.recMid]]
  | .cls n r => [[.cls n r]]
  | .alts bs => if reEmptyAlts bs then [[]] else expAlts bs
def expAlts : List (List Tok) → List (List FTok)
  | [] => []
  | b :: bs => (if reEmptyToks b then [] else expToks b) ++ expAlts bs
end

/-- UTF-8 encoding of one code point -/
def utf8 (c : Nat) : List Nat :=
  if c < 0x80 then [c]
  else if c < 0x800 then [0xC0 + c / 64, 0x80 + c % 64]
  else if c < 0x10000 then [0xE0 + c / 4096, 0x80 + c / 64 % 64, 0x80 + c % 64]
  else [0xF0 + c / 262144, 0x80 + c / 4096 % 64, 0x80 + c / 64 % 64, 0x80 + c % 64]

def utf8s (cs : List Nat) : List Nat := cs.flatMap utf8

def stripPrefix : List Nat → List Nat → Option (List Nat)
  | [], s => some s
  | _ :: _, [] => none
  | p :: ps, b :: bs => if p = b then stripPrefix ps bs else none

/-- what remains after `.*`: every suffix reachable over bytes other than a line feed -/
def starSuf : List Nat → List (List Nat)
  | [] => [[]]
  | b :: r => (b :: r) :: (if b = 10 then [] else starSuf r)

def afterSlash (ss : List (List Nat)) : List (List Nat) :=
  ss.filterMap (fun t => match t with | 47 :: t' => some t' | _ => none)

def inRanges (b : Nat) (ranges : List (Nat × Nat)) : Bool := ranges.any (fun (lo, hi) => lo ≤ b && b ≤ hi)

/-- the inputs that may remain after one token has matched a prefix of `s` -/
def step (t : FTok) (s : List Nat) : List (List Nat) :=
  match t with
  | .lit c => (stripPrefix (utf8 c) s).toList
  | .any => match s with | b :: r => if b = 10 then [] else [r] | [] => []
  | .star => starSuf s
  | .recPre => s :: afterSlash (starSuf s)               -- (?:/?|.*/)
  | .recSuf => match s with | 47 :: r => starSuf r | _ => []         -- /.*
  | .recMid => match s with | 47 :: r => r :: afterSlash (starSuf r) | _ => []   -- (?:/|/.*/)
  | .cls neg ranges => match s with | b :: r => if inRanges b ranges != neg then [r] else [] | [] => []

def mF : List FTok → List Nat → Bool
  | [], s => s.isEmpty
  | t :: ts, s => (step t s).any (fun s' => mF ts s')

def isOnlyRecPre : List Tok → Bool
  | [.recPre] => true
  | _ => false

/-- does the token stream match the path's bytes -/
def matchToks (toks : List Tok) (path : List Nat) : Bool :=
  if isOnlyRecPre toks then !path.contains 10
  else (expToks toks).any (fun f => mF f path)

/-- `Glob::new(pat)?.compile_matcher().is_match(path)`; `pat` as code points, `path` as bytes -/
def globMatch (pat : List Nat) (path : List Nat) : Except PErr Bool :=
  match parse pat with
  | .error e => .error e
  | .ok toks => .ok (matchToks toks path)

end SlocModel.Glob
