import SlocModel.Uri
namespace SlocModel.Uri

theorem hexVal_hexDigit (n : Nat) (h : n < 16) : hexVal (hexDigit n) = some n := by
  unfold hexDigit
  split
  · unfold hexVal
    have h1 : (48 ≤ 48 + n && 48 + n ≤ 57) = true := by
      simp only [Bool.and_eq_true, decide_eq_true_eq]; omega
    rw [if_pos h1]; congr 1; omega
  · unfold hexVal
    have h1 : ¬ ((48 ≤ 55 + n && 55 + n ≤ 57) = true) := by
      simp only [Bool.and_eq_true, decide_eq_true_eq]; omega
    have h2 : (65 ≤ 55 + n && 55 + n ≤ 70) = true := by
      simp only [Bool.and_eq_true, decide_eq_true_eq]; omega
    rw [if_neg h1, if_pos h2]; congr 1; omega

theorem unreserved_ne_percent (b : Nat) (h : unreserved b = true) : b ≠ 37 := by
  intro e; subst e; simp [unreserved] at h

theorem decode_cons_ne (c : Nat) (hc : c ≠ 37) (rest : List Nat) :
    decode (c :: rest) = (decode rest).map (c :: ·) := by
  conv => lhs; unfold decode
  split
  · next heq => cases heq
  · next heq => simp only [List.cons.injEq] at heq; exact absurd heq.1 hc
  · next heq => simp only [List.cons.injEq] at heq; exact absurd heq.1 hc
  · next c' rest' _ _ _ heq =>
    simp only [List.cons.injEq] at heq
    obtain ⟨rfl, rfl⟩ := heq
    cases decode rest <;> rfl

theorem decode_percent (h l a b : Nat) (rest r : List Nat) (ha : hexVal h = some a)
    (hb : hexVal l = some b) (hr : decode rest = some r) :
    decode (37 :: h :: l :: rest) = some ((a * 16 + b) :: r) := by
  conv => lhs; unfold decode
  simp only [ha, hb, hr]

/-- decoding the encoding of one byte in front of a decodable tail -/
theorem decode_encodeByte (b : Nat) (hb : b < 256) (rest r : List Nat) (hr : decode rest = some r) :
    decode (encodeByte b ++ rest) = some (b :: r) := by
  unfold encodeByte
  by_cases hu : unreserved b = true
  · simp only [hu, if_true, List.singleton_append]
    rw [decode_cons_ne b (unreserved_ne_percent b hu), hr]; rfl
  · simp only [hu, Bool.false_eq_true, if_false, List.cons_append, List.nil_append]
    have h1 := hexVal_hexDigit (b / 16) (by omega)
    have h2 := hexVal_hexDigit (b % 16) (by omega)
    rw [decode_percent _ _ _ _ rest r h1 h2 hr]
    simp only [Option.some.injEq, List.cons.injEq, and_true]
    omega

/-- a consumer that percent-decodes the URI gets the path's bytes back, so two different paths
    never share a URI -/
theorem decode_pathToUri (bs : List Nat) (h : ∀ b ∈ bs, b < 256) : decode (pathToUri bs) = some bs := by
  induction bs with
  | nil => rfl
  | cons b bs ih =>
    have := decode_encodeByte b (h b (by simp)) (pathToUri bs) bs (ih (fun x hx => h x (by simp [hx])))
    simpa [pathToUri] using this

theorem pathToUri_injective (a b : List Nat) (ha : ∀ x ∈ a, x < 256) (hb : ∀ x ∈ b, x < 256)
    (h : pathToUri a = pathToUri b) : a = b := by
  have h1 := decode_pathToUri a ha
  rw [h, decode_pathToUri b hb] at h1
  exact (Option.some.inj h1).symm

/-- the URI consists of unreserved characters, `/`, and `%` — nothing a URI parser treats specially
    (`?`, `#`, space, `:` …) survives unencoded -/
theorem pathToUri_chars (bs : List Nat) (h : ∀ b ∈ bs, b < 256) :
    ∀ c ∈ pathToUri bs, unreserved c = true ∨ c = 37 := by
  intro c hc
  simp only [pathToUri, List.mem_flatMap] at hc
  obtain ⟨b, hb, hcb⟩ := hc
  unfold encodeByte at hcb
  by_cases hu : unreserved b = true
  · simp only [hu, if_true, List.mem_singleton] at hcb; subst hcb; exact Or.inl hu
  · simp only [hu, Bool.false_eq_true, if_false, List.mem_cons, List.not_mem_nil, or_false] at hcb
    have hb256 := h b hb
    rcases hcb with rfl | rfl | rfl
    · exact Or.inr rfl
    · left; unfold hexDigit unreserved; split <;> simp <;> omega
    · left; unfold hexDigit unreserved; split <;> simp <;> omega

example : pathToUri [97, 32, 98, 47, 195, 169, 35] = [97, 37, 50, 48, 98, 47, 37, 67, 51, 37, 65, 57, 37, 50, 51] := by decide

end SlocModel.Uri
