import SlocModel.Basic.F64
import SlocModel.Generated.Consts
/-!
  Model of src/checker/structure/mod.rs (`StructureChecker::{resolve_limits, check, explain}`),
  src/checker/structure/builder.rs (`calculate_base_depth`) and the directory-count fold of
  src/scanner/directory.rs (`StructureScanState::{process_file, process_directory}`).

  Glob matching is a parameter: each rule comes with the bit "its scope matches this directory".
  Limits are `i64` in the configuration (−1 = unlimited); thresholds are f64 bit patterns.
-/
namespace SlocModel.Structure
open SlocModel

/-- the per-rule / global limit fields (`CompiledStructureRule`, `StructureChecker`) -/
structure Fields where
  maxFiles : Option Int
  maxDirs : Option Int
  maxDepth : Option Int
  warnThreshold : Option Nat
  warnFilesAt : Option Int
  warnDirsAt : Option Int
  warnFilesThreshold : Option Nat
  warnDirsThreshold : Option Nat
  deriving DecidableEq, Repr

structure Rule where
  fields : Fields
  relativeDepth : Bool
  baseDepth : Nat
  deriving DecidableEq, Repr

/-- `StructureLimits` -/
structure Limits where
  fields : Fields
  relativeDepth : Bool
  baseDepth : Nat
  rule : Option Nat          -- index of the rule that supplied them (for `explain`)
  deriving DecidableEq, Repr

def orElse {α : Type} (a b : Option α) : Option α :=
  match a with
  | some x => some x
  | none => b

/-- `rule.field.or(global.field)` for every field -/
def inherit (r g : Fields) : Fields :=
  { maxFiles := orElse r.maxFiles g.maxFiles, maxDirs := orElse r.maxDirs g.maxDirs,
    maxDepth := orElse r.maxDepth g.maxDepth, warnThreshold := orElse r.warnThreshold g.warnThreshold,
    warnFilesAt := orElse r.warnFilesAt g.warnFilesAt, warnDirsAt := orElse r.warnDirsAt g.warnDirsAt,
    warnFilesThreshold := orElse r.warnFilesThreshold g.warnFilesThreshold,
    warnDirsThreshold := orElse r.warnDirsThreshold g.warnDirsThreshold }

/-- index and value of the last rule whose scope matches (`rules.iter().rev().find(..)`) -/
def lastMatching : List (Rule × Bool) → Nat → Option (Nat × Rule) → Option (Nat × Rule)
  | [], _, acc => acc
  | (r, m) :: rest, i, acc => lastMatching rest (i + 1) (if m then some (i, r) else acc)

/-- `resolve_limits` -/
def resolveLimits (g : Fields) (rules : List (Rule × Bool)) : Limits :=
  match lastMatching rules 0 none with
  | some (i, r) => { fields := inherit r.fields g, relativeDepth := r.relativeDepth,
                     baseDepth := r.baseDepth, rule := some i }
  | none => { fields := g, relativeDepth := false, baseDepth := 0, rule := none }

/-- `limit as usize` / `abs as usize` for a 64-bit target -/
def asUsize (i : Int) : Nat := if i < 0 then (2 ^ 64 - i.natAbs) % 2 ^ 64 else i.toNat % 2 ^ 64

/-- `((limit as f64) * t).ceil() as usize` for an `i64` limit ≥ 0 -/
def pctOf (limit : Int) (bits : Nat) : Nat := F64.pct limit.toNat bits

/-- `calculate_warn_limit`: absolute → per-metric percentage → rule/global percentage → 0.8 -/
def warnLimit (limit : Int) (abs : Option Int) (pct g : Option Nat) : Nat :=
  match abs with
  | some a => asUsize a
  | none =>
    match pct with
    | some p => pctOf limit p
    | none =>
      match g with
      | some t => pctOf limit t
      | none => pctOf limit Generated.defaultStructWarnBits

inductive Severity where
  | failed | warning
  deriving DecidableEq, Repr

inductive Metric where
  | files | dirs | depth
  deriving DecidableEq, Repr

structure Finding where
  metric : Metric
  severity : Severity
  actual : Nat
  limit : Nat
  deriving DecidableEq, Repr

/-- smallest count that warns: "at or above an absolute warn count, above the rounded-up
    percentage of the limit" (repaired: the absolute branch used to be exclusive too) -/
def warnFrom (limit : Int) (abs : Option Int) (pct g : Option Nat) : Nat :=
  match abs with
  | some a => asUsize a
  | none => warnLimit limit none pct g + 1

/-- one count metric (files or sub-directories) of one directory -/
def checkCount (m : Metric) (actual : Nat) (limit : Option Int) (abs : Option Int)
    (pct g : Option Nat) : Option Finding :=
  match limit with
  | none => none
  | some l =>
    if l = Generated.unlimited then none
    else
      let lim := asUsize l
      if actual > lim then some ⟨m, .failed, actual, lim⟩
      else if actual ≥ warnFrom l abs pct g then some ⟨m, .warning, actual, lim⟩
      else none

def effectiveDepth (l : Limits) (depth : Nat) : Nat :=
  if l.relativeDepth then depth - l.baseDepth else depth

/-- the depth metric: warn point is the percentage only, exclusive -/
def checkDepth (l : Limits) (depth : Nat) : Option Finding :=
  match l.fields.maxDepth with
  | none => none
  | some lim =>
    if lim = Generated.unlimited then none
    else
      let limU := asUsize lim
      let w := pctOf lim (l.fields.warnThreshold.getD Generated.defaultStructWarnBits)
      let eff := effectiveDepth l depth
      if eff > limU then some ⟨.depth, .failed, eff, limU⟩
      else if eff > w then some ⟨.depth, .warning, eff, limU⟩
      else none

structure DirStats where
  files : Nat
  dirs : Nat
  depth : Nat
  deriving DecidableEq, Repr

/-- the body of the `for (path, stats) in dir_stats` loop of `check` -/
def checkDir (g : Fields) (rules : List (Rule × Bool)) (s : DirStats) : List Finding :=
  let l := resolveLimits g rules
  let f := l.fields
  (checkCount .files s.files f.maxFiles f.warnFilesAt f.warnFilesThreshold f.warnThreshold).toList ++
  (checkCount .dirs s.dirs f.maxDirs f.warnDirsAt f.warnDirsThreshold f.warnThreshold).toList ++
  (checkDepth l s.depth).toList

/-- what `explain` reports for a directory -/
structure Explanation where
  rule : Option Nat
  maxFiles : Option Int
  maxDirs : Option Int
  maxDepth : Option Int
  warnThreshold : Nat
  deriving DecidableEq, Repr

def explain (g : Fields) (rules : List (Rule × Bool)) : Explanation :=
  let l := resolveLimits g rules
  { rule := l.rule, maxFiles := l.fields.maxFiles, maxDirs := l.fields.maxDirs,
    maxDepth := l.fields.maxDepth,
    warnThreshold := l.fields.warnThreshold.getD Generated.defaultStructWarnBits }

/-- `calculate_base_depth`: path components before the first one holding `* ? [ {` -/
def isGlobMeta (c : Char) : Bool := c = '*' || c = '?' || c = '[' || c = '{'

def splitComponents : List Char → List Char → List (List Char)
  | [], cur => [cur.reverse]
  | c :: cs, cur => if c = '/' || c = '\\' then cur.reverse :: splitComponents cs [] else splitComponents cs (c :: cur)

def baseDepthOf : List (List Char) → Nat
  | [] => 0
  | comp :: rest =>
    if comp.isEmpty then baseDepthOf rest
    else if comp.any isGlobMeta then 0
    else baseDepthOf rest + 1

def calculateBaseDepth (pattern : List Char) : Nat := baseDepthOf (splitComponents pattern [])

/-! ### the directory-count fold of the unified scanner -/

inductive EntryKind where
  | file | dir | other        -- `other`: symlink, FIFO, socket … (neither `is_file` nor `is_dir`)
  deriving DecidableEq, Repr

/-- one entry yielded by a depth-first walk, parent before children -/
structure Entry where
  id : Nat
  parent : Option Nat        -- `none` for a scan root
  depth : Nat
  kind : EntryKind
  ignored : Bool             -- removed by ignore files (.gitignore …): never yielded, subtree pruned
  scannerExcluded : Bool     -- `is_scanner_excluded(path, is_dir)`
  countExcluded : Bool       -- `is_count_excluded(path)`
  deriving DecidableEq, Repr

structure ScanState where
  stats : List (Nat × DirStats)       -- directory id ↦ stats (insertion order)
  pruned : List Nat                   -- directories whose subtree the walker does not enter
  deriving DecidableEq, Repr

def getStats (st : List (Nat × DirStats)) (d : Nat) : Option DirStats :=
  match st with
  | [] => none
  | (k, v) :: rest => if k = d then some v else getStats rest d

def setStats (st : List (Nat × DirStats)) (d : Nat) (v : DirStats) : List (Nat × DirStats) :=
  match st with
  | [] => [(d, v)]
  | (k, w) :: rest => if k = d then (k, v) :: rest else (k, w) :: setStats rest d v

/-- `entry(parent).or_insert_with(DirStats { depth: depth - 1 })` then bump a counter -/
def bump (st : List (Nat × DirStats)) (parent childDepth : Nat) (isFile : Bool) : List (Nat × DirStats) :=
  let cur := (getStats st parent).getD { files := 0, dirs := 0, depth := childDepth - 1 }
  setStats st parent (if isFile then { cur with files := cur.files + 1 } else { cur with dirs := cur.dirs + 1 })

/-- `entry(path).or_insert_with(DirStats { depth, .. })` for the directory itself -/
def ensureDir (st : List (Nat × DirStats)) (id depth : Nat) : List (Nat × DirStats) :=
  match getStats st id with
  | some _ => st
  | none => setStats st id { files := 0, dirs := 0, depth := depth }

def step (s : ScanState) (e : Entry) : ScanState :=
  -- not yielded at all: below a pruned directory, or ignored
  let hidden := e.ignored || (match e.parent with
    | some p => s.pruned.contains p
    | none => false)
  if hidden then (if e.kind = .dir then { s with pruned := e.id :: s.pruned } else s)
  else match e.kind with
    | .other => s
    | .file =>
      if e.scannerExcluded then s
      else if e.countExcluded then s
      else match e.parent with
        | some p => { s with stats := bump s.stats p e.depth true }
        | none => s
    | .dir =>
      if e.scannerExcluded then { s with pruned := e.id :: s.pruned }
      else
        let st1 := ensureDir s.stats e.id e.depth
        let st2 := if e.depth > 0 && !e.countExcluded then
            (match e.parent with
             | some p => bump st1 p e.depth false
             | none => st1)
          else st1
        { s with stats := st2 }

def walk (es : List Entry) : ScanState := es.foldl step { stats := [], pruned := [] }

end SlocModel.Structure
