import SlocModel.Scope
import SlocModel.Props.C05
/-!
  Scope and rule selection from pattern texts: what `content.exclude`, `content.extensions` and the
  rule patterns mean for a path, whichever way the walk spelled it.
-/
namespace SlocModel.Scope
open SlocModel.Glob

/-- a file matched by `content.exclude` is never processed, whatever else matches -/
theorem excluded_never_processed (c : Cfg) (p e : List Nat) (he : e ∈ c.exclude)
    (hm : globIs e (normalizeForMatching p) = true) : shouldProcess c p = false := by
  unfold shouldProcess
  have : c.exclude.any (fun e => globIs e (normalizeForMatching p)) = true :=
    List.any_eq_true.mpr ⟨e, he, hm⟩
  simp [this]

/-- exactly which files are processed -/
theorem shouldProcess_iff (c : Cfg) (p : List Nat) :
    shouldProcess c p = true ↔
      (∀ e ∈ c.exclude, globIs e (normalizeForMatching p) = false) ∧
      (c.extensions = [] ∨ (∃ x, extension p = some x ∧ x ∈ c.extensions) ∨
        ∃ r ∈ c.rules, globIs r (normalizeForMatching p) = true) := by
  unfold shouldProcess
  by_cases hx : c.exclude.any (fun e => globIs e (normalizeForMatching p)) = true
  · simp only [hx, if_true, Bool.false_eq_true, false_iff]
    intro h
    obtain ⟨e, he, hm⟩ := List.any_eq_true.mp hx
    rw [h.1 e he] at hm; cases hm
  · have hall : ∀ e ∈ c.exclude, globIs e (normalizeForMatching p) = false := by
      intro e he
      cases hm : globIs e (normalizeForMatching p) with
      | false => rfl
      | true => exact absurd (List.any_eq_true.mpr ⟨e, he, hm⟩) hx
    simp only [hx, Bool.false_eq_true, if_false]
    by_cases hempty : c.extensions = []
    · simp only [hempty, List.isEmpty_nil, if_true, true_iff]
      exact ⟨hall, Or.inl trivial⟩
    · have hne : c.extensions.isEmpty = false := by
        cases h : c.extensions with
        | nil => exact absurd h hempty
        | cons _ _ => rfl
      simp only [hne, Bool.false_eq_true, if_false]
      cases hext : extension p with
      | none =>
        simp only [Bool.false_eq_true, if_false, List.any_eq_true]
        constructor
        · rintro ⟨r, hr, hm⟩; exact ⟨hall, Or.inr (Or.inr ⟨r, hr, hm⟩)⟩
        · rintro ⟨_, h | ⟨x, hx', _⟩ | ⟨r, hr, hm⟩⟩
          · exact absurd h hempty
          · cases hx'
          · exact ⟨r, hr, hm⟩
      | some x =>
        by_cases hin : x ∈ c.extensions
        · have : c.extensions.contains x = true := by simpa using hin
          simp only [this, if_true, true_iff]
          exact ⟨hall, Or.inr (Or.inl ⟨x, rfl, hin⟩)⟩
        · have : c.extensions.contains x = false := by simpa using hin
          simp only [this, Bool.false_eq_true, if_false, List.any_eq_true]
          constructor
          · rintro ⟨r, hr, hm⟩; exact ⟨hall, Or.inr (Or.inr ⟨r, hr, hm⟩)⟩
          · rintro ⟨_, h | ⟨y, hy, hyin⟩ | ⟨r, hr, hm⟩⟩
            · exact absurd h hempty
            · cases hy; exact absurd hyin hin
            · exact ⟨r, hr, hm⟩

/-- the governing rule is the last rule, in file order, whose pattern matches -/
theorem governingRule_is_last (c : Cfg) (p : List Nat) (i : Nat) :
    governingRule c p = some i ↔
      (∃ r, c.rules[i]? = some r ∧ globIs r (normalizeForMatching p) = true) ∧
      ∀ j r, i < j → c.rules[j]? = some r → globIs r (normalizeForMatching p) = false := by
  unfold governingRule
  rw [SlocModel.Props.C05.last_match_wins]
  simp only [List.getElem?_map]
  constructor
  · rintro ⟨hi, hlater⟩
    refine ⟨?_, ?_⟩
    · cases hr : c.rules[i]? with
      | none => simp [hr] at hi
      | some r => exact ⟨r, rfl, by simpa [hr] using hi⟩
    · intro j r hij hr
      have := hlater j hij
      simp only [hr, Option.map_some, ne_eq, Option.some.injEq] at this
      cases h : globIs r (normalizeForMatching p) with
      | false => rfl
      | true => exact absurd h this
  · rintro ⟨⟨r, hr, hm⟩, hlater⟩
    refine ⟨by simp [hr, hm], ?_⟩
    intro j hij
    cases hr' : c.rules[j]? with
    | none => simp
    | some r' => simp [hlater j r' hij hr']

/-! ### spelling: `./x` and `x` -/

/-- `./x` is normalised like `x` (for an `x` that does not itself begin with `./`) -/
theorem normalize_dot_slash (p : List Nat) (h : stripDot p = p) :
    normalizeForMatching (46 :: 47 :: p) = normalizeForMatching p := by
  unfold normalizeForMatching
  rw [h]
  rfl

theorem splitOn_dot_slash (p : List Nat) : splitOn 47 (46 :: 47 :: p) [] = [46] :: splitOn 47 p [] := by
  simp [splitOn]

theorem extension_dot_slash (p : List Nat) : extension (46 :: 47 :: p) = extension p := by
  unfold extension fileName
  rw [splitOn_dot_slash]
  simp

/-- a file is in scope, and governed by the same rule, whether the walk names it `x` or `./x` -/
theorem spelling_independent (c : Cfg) (p : List Nat) (h : stripDot p = p) :
    shouldProcess c (46 :: 47 :: p) = shouldProcess c p ∧
    governingRule c (46 :: 47 :: p) = governingRule c p := by
  unfold shouldProcess governingRule
  rw [normalize_dot_slash p h, extension_dot_slash]
  exact ⟨rfl, rfl⟩

/-- the hypothesis of `spelling_independent` holds for every project-relative path that does not
    itself start with `./` -/
example : stripDot [115, 114, 99, 47, 97, 46, 114, 115] = [115, 114, 99, 47, 97, 46, 114, 115] := by decide

end SlocModel.Scope
