/-!
  Model of `StructureChecker::check_siblings` (src/checker/structure/mod.rs): directed sibling
  requirements and sibling groups, with `derive_sibling_path` and `extract_stem_from_pattern`.
  A directory is the list of the file names it holds; rule scope / file glob matches are
  parameter bits.  Templates are plain names (no path separators).
-/
namespace SlocModel.Siblings

def stemMarker : List Char := ['{', 's', 't', 'e', 'm', '}']

/-- `str::split("{stem}")`, by structural recursion with a skip counter -/
def splitGo : Nat → List Char → List Char → List (List Char)
  | _, [], cur => [cur.reverse]
  | skip + 1, _ :: cs, cur => splitGo skip cs cur
  | 0, c :: cs, cur =>
    if stemMarker.isPrefixOf (c :: cs) then cur.reverse :: splitGo (stemMarker.length - 1) cs []
    else splitGo 0 cs (c :: cur)

def splitOnMarker (s : List Char) : List (List Char) := splitGo 0 s []

/-- `template.replace("{stem}", stem)` -/
def replaceStem (template stem : List Char) : List Char :=
  match splitOnMarker template with
  | [] => []
  | p :: ps => ps.foldl (fun acc part => acc ++ stem ++ part) p

def isSuffixOf (suf s : List Char) : Bool := suf.reverse.isPrefixOf s.reverse

/-- `extract_stem_from_pattern` -/
def extractStem (fileName pattern : List Char) : Option (List Char) :=
  match splitOnMarker pattern with
  | [pre, suf] =>
    if !pre.isPrefixOf fileName then none
    else if !isSuffixOf suf fileName then none
    else
      let s := pre.length
      let e := fileName.length - suf.length
      if s ≥ e then none else some ((fileName.drop s).take (e - s))
  | _ => none

/-- `Path::file_stem`: the name up to its last dot, a leading dot not counting -/
def fileStem (name : List Char) : List Char :=
  match name with
  | [] => []
  | first :: rest =>
    let r := rest.reverse
    match r.dropWhile (· ≠ '.') with
    | [] => name                                   -- no dot after the first character
    | _ :: beforeRev => first :: beforeRev.reverse   -- drop the dot and what follows it

/-- directed rule: for a file the rule applies to, the templates whose companion is missing -/
def directedMissing (dir : List (List Char)) (fileName : List Char) (templates : List (List Char)) :
    List (List Char) :=
  templates.filter (fun t => !dir.contains (replaceStem t (fileStem fileName)))

def missingFor (dir : List (List Char)) (patterns : List (List Char)) (stem : List Char) :
    List (List Char) :=
  patterns.filter (fun p => !dir.contains (replaceStem p stem))

/-- first minimum by key (`Iterator::min_by_key`) -/
def minByKey {α : Type} (key : α → Nat) : List α → Option α
  | [] => none
  | x :: xs => match minByKey key xs with
    | none => some x
    | some y => if key x ≤ key y then some x else some y

/-- group rule: `none` = the file matches no pattern of the group; `some missing` otherwise
    (a finding is raised iff `missing` is non-empty) -/
def groupMissing (dir : List (List Char)) (fileName : List Char) (patterns : List (List Char)) :
    Option (List (List Char)) :=
  let stems := patterns.filterMap (extractStem fileName)
  match minByKey (fun s => (missingFor dir patterns s).length) stems with
  | none => none
  | some best => some (missingFor dir patterns best)

end SlocModel.Siblings
