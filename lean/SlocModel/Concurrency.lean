/-!
  Models of the persisted-state protocols of src/state.rs under concurrency.

  **File protocol** (`atomic_write_with_lock`, the loaders with `SharedLockGuard`): processes
  open, lock, read, create a temporary file, rename it over the name and unlock; a schedule picks
  which process takes its next step, and a blocked lock attempt may time out.

  **Append protocol** (`snapshot`, auto-snapshot): load, append, save, with (repaired) or without
  (as found) the update lock held across the three; the file protocol's guarantees (a load sees a
  complete content, a save replaces the content atomically) make load and save atomic steps here.
-/
namespace SlocModel.Concurrency

abbrev Pid := Nat
abbrev Content := List Nat

/-! ### the file protocol -/

structure Inode where
  content : Content
  shared : List Pid          -- holders of a shared lock
  excl : Option Pid          -- holder of the exclusive lock
  deriving DecidableEq, Repr

inductive Role where
  | reader
  | writer (content : Content)
  deriving DecidableEq, Repr

/-- program counters: a reader goes open → lockS → read → done; a writer goes
    mkTemp → openL → lockX → rename → unlock → done -/
inductive PC where
  | rOpen | rLock | rRead
  | wTemp | wOpen | wLock | wRename | wUnlock
  | done
  deriving DecidableEq, Repr

structure Proc where
  role : Role
  pc : PC
  handle : Option Nat        -- inode opened (for reading, or for locking)
  temp : Option Nat          -- the writer's temporary inode
  locked : Bool              -- holds the lock it asked for on `handle`
  result : Option Content    -- what a reader read
  saved : Bool               -- a writer renamed its file into place
  deriving DecidableEq, Repr

structure FS where
  inodes : List Inode
  name : Option Nat          -- the inode the state file's name refers to
  procs : List Proc
  deriving DecidableEq, Repr

def startOf (r : Role) : Proc :=
  { role := r, pc := (match r with | .reader => .rOpen | .writer _ => .wTemp), handle := none, temp := none,
    locked := false, result := none, saved := false }

def setInode (is : List Inode) (i : Nat) (v : Inode) : List Inode := is.set i v
def setProc (ps : List Proc) (p : Pid) (v : Proc) : List Proc := ps.set p v

/-- one step of process `p`; `timeout` only matters for a lock attempt that cannot succeed.
    `none`: the process cannot move (finished, or waiting for a lock without timing out). -/
def fstep (s : FS) (p : Pid) (timeout : Bool) : Option FS :=
  match s.procs[p]? with
  | none => none
  | some pr =>
    match pr.pc with
    | .done => none
    | .rOpen =>
      match s.name with
      | none => some { s with procs := setProc s.procs p { pr with pc := .done, result := none } }   -- no file: default
      | some i => some { s with procs := setProc s.procs p { pr with pc := .rLock, handle := some i } }
    | .rLock =>
      match pr.handle.bind (fun i => (s.inodes[i]?).map (fun n => (i, n))) with
      | none => none
      | some (i, n) =>
        if n.excl.isNone then
          some { s with inodes := setInode s.inodes i { n with shared := p :: n.shared },
                        procs := setProc s.procs p { pr with pc := .rRead, locked := true } }
        else if timeout then
          some { s with procs := setProc s.procs p { pr with pc := .rRead, locked := false } }   -- warn, read anyway
        else none
    | .rRead =>
      match pr.handle.bind (fun i => (s.inodes[i]?).map (fun n => (i, n))) with
      | none => none
      | some (i, n) =>
        some { s with inodes := setInode s.inodes i { n with shared := n.shared.filter (· ≠ p) },
                      procs := setProc s.procs p { pr with pc := .done, locked := false, result := some n.content } }
    | .wTemp =>
      match pr.role with
      | .writer c =>
        some { s with inodes := s.inodes ++ [{ content := c, shared := [], excl := none }],
                      procs := setProc s.procs p { pr with pc := .wOpen, temp := some s.inodes.length } }
      | .reader => none
    | .wOpen => some { s with procs := setProc s.procs p { pr with pc := .wLock, handle := s.name } }
    | .wLock =>
      match pr.handle with
      | none => some { s with procs := setProc s.procs p { pr with pc := .wRename } }      -- nothing to lock yet
      | some i =>
        match s.inodes[i]? with
        | none => none
        | some n =>
          if n.excl.isNone && n.shared.isEmpty then
            some { s with inodes := setInode s.inodes i { n with excl := some p },
                          procs := setProc s.procs p { pr with pc := .wRename, locked := true } }
          else if timeout then
            some { s with procs := setProc s.procs p { pr with pc := .done } }               -- save skipped
          else none
    | .wRename =>
      some { s with name := pr.temp, procs := setProc s.procs p { pr with pc := .wUnlock, saved := true } }
    | .wUnlock =>
      match pr.handle with
      | none => some { s with procs := setProc s.procs p { pr with pc := .done, locked := false } }
      | some i =>
        match s.inodes[i]? with
        | none => none
        | some n =>
          some { s with inodes := setInode s.inodes i { n with excl := if pr.locked then none else n.excl },
                        procs := setProc s.procs p { pr with pc := .done, locked := false } }

/-- run a schedule; a step that is not enabled is skipped -/
def frun (s : FS) : List (Pid × Bool) → FS
  | [] => s
  | (p, t) :: rest => frun ((fstep s p t).getD s) rest

def finit (initial : Option Content) (roles : List Role) : FS :=
  { inodes := (match initial with | some c => [{ content := c, shared := [], excl := none }] | none => []),
    name := initial.map (fun _ => 0),
    procs := roles.map startOf }

/-- the content the name refers to -/
def current (s : FS) : Option Content := s.name.bind (fun i => (s.inodes[i]?).map (·.content))

/-! ### the append protocol -/

inductive APC where
  | wantLock | load | save | release | done
  deriving DecidableEq, Repr

structure AProc where
  entry : Nat
  pc : APC
  loaded : Content
  recorded : Bool          -- prints "Snapshot recorded"
  deriving DecidableEq, Repr

structure AS where
  file : Content
  holder : Option Pid      -- the update lock
  procs : List AProc
  deriving DecidableEq, Repr

/-- `withLock = true` is the repaired `snapshot`; `false` the one found (no lock across the cycle).
    `saveSkips`: the save is abandoned after a write-lock timeout. -/
def astep (withLock : Bool) (s : AS) (p : Pid) (timeout : Bool) : Option AS :=
  match s.procs[p]? with
  | none => none
  | some pr =>
    match pr.pc with
    | .done => none
    | .wantLock =>
      if !withLock then some { s with procs := s.procs.set p { pr with pc := .load } }
      else if s.holder.isNone then some { s with holder := some p, procs := s.procs.set p { pr with pc := .load } }
      else if timeout then some { s with procs := s.procs.set p { pr with pc := .done } }     -- skipped, not recorded
      else none
    | .load => some { s with procs := s.procs.set p { pr with pc := .save, loaded := s.file } }
    | .save =>
      if timeout then some { s with procs := s.procs.set p { pr with pc := .release } }       -- save skipped, not recorded
      else some { s with file := pr.loaded ++ [pr.entry], procs := s.procs.set p { pr with pc := .release, recorded := true } }
    | .release =>
      some { s with holder := (if withLock && s.holder = some p then none else s.holder),
                    procs := s.procs.set p { pr with pc := .done } }

def arun (withLock : Bool) (s : AS) : List (Pid × Bool) → AS
  | [] => s
  | (p, t) :: rest => arun withLock ((astep withLock s p t).getD s) rest

def ainit (initial : Content) (entries : List Nat) : AS :=
  { file := initial, holder := none,
    procs := entries.map (fun e => { entry := e, pc := .wantLock, loaded := [], recorded := false }) }

end SlocModel.Concurrency
