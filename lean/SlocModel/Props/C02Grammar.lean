import SlocModel.Props.C02
import SlocModel.Counter.Grammar
import SlocModel.Counter.ScanLemmas
import SlocModel.Counter.TextLemmas
/-!
  C02, tier B — **classification agrees with the lexical ground truth**, as a theorem.

  A program of the C family (`//` line comments, non-nesting `/* … */` block comments; the
  syntax of C, C++, Java, JavaScript, TypeScript, Go, C#, … in the built-in table) is a list of
  *chunks*: blank lines, code lines (words and string / character literals with escapes,
  optionally followed by a line comment), whole-line line comments, one-line block comments and
  multi-line block comments.  `render` writes the text, `truth` is the class of every line by
  construction.  `classify_render` proves, for **every** well-formed program of any length,
  that the counter model classifies every line as the ground truth says — in particular that
  comment markers inside string literals (`"/* // */"`), quote characters and escapes inside
  literals, and quote characters in line comments change nothing on that or any later line.

  The side conditions are exactly the hazards that `Props/C02.lean` refutes on the code as it is
  (and `known_findings.json` lists): no quote character inside block-comment text, no block
  opener behind a line-comment prefix.  Directive text is excluded from comment text (directives
  have their own theorems in `Props/C02.lean`).
-/
namespace SlocModel.Props.C02
open SlocModel SlocModel.Counter

/-! ### the needle search over tokens -/

theorem isWs_props (c : Char) (h : isWs c = true) : notQuote c = true ∧ c ≠ '/' := by
  constructor
  · unfold notQuote
    simp only [Bool.and_eq_true, bne_iff_ne, ne_eq]
    constructor <;> (intro e; subst e; revert h; decide)
  · intro e; subst e; revert h; decide

theorem renderLit_lineOk (q : Char) (b : List Item) : (renderLit q b).head? = some q := rfl

/-- tokens are stepped over by the search for a marker that starts with `/` -/
theorem go_skip_toks (nt : List Char) :
    ∀ (ts : List Tok) (tail : List Char) (i : Nat),
      ts.all Tok.ok = true → adjOk ts = true →
      (∀ q, isQuote q = true → tail.head? ≠ some q) →
      findOutsideGo ('/' :: nt) false false 0 none i (renderToks ts ++ tail) =
        findOutsideGo ('/' :: nt) false false 0 none (i + (renderToks ts).length) tail := by
  intro ts
  induction ts with
  | nil => intro tail i _ _ _; simp [renderToks]
  | cons t r ih =>
    intro tail i hok hadj htail
    simp only [List.all_cons, Bool.and_eq_true] at hok
    have hr : renderToks (t :: r) = t.render ++ renderToks r := by simp [renderToks]
    rw [hr, List.append_assoc]
    cases t with
    | word w =>
      have hw : ∀ c ∈ w, notQuote c = true ∧ c ≠ '/' := by
        intro c hc
        have := List.all_eq_true.mp hok.1 c hc
        simp only [Bool.and_eq_true, bne_iff_ne, ne_eq] at this
        exact ⟨this.1.1, this.1.2⟩
      have hadj' : adjOk r = true := by simpa [adjOk] using hadj
      rw [Tok.render, go_skip_safe '/' nt w _ i hw, ih tail _ hok.2 hadj' htail]
      simp only [List.length_append]; congr 1; omega
    | lit q b =>
      have hq : isQuote q = true := by
        have := hok.1; simp only [Tok.ok, Bool.and_eq_true] at this; exact this.1
      have hb : ∀ it ∈ b, it.ok q = true := by
        intro it hit
        have := hok.1; simp only [Tok.ok, Bool.and_eq_true] at this
        have := List.all_eq_true.mp this.2 it hit
        simp only [Bool.and_eq_true] at this; exact this.1
      have hqs : q ≠ '/' := by
        simp only [isQuote, Bool.or_eq_true, beq_iff_eq] at hq
        rcases hq with rfl | rfl <;> decide
      have hadj' : adjOk r = true := by
        cases b with
        | nil => simp only [adjOk, Bool.and_eq_true] at hadj; exact hadj.2
        | cons _ _ => simpa [adjOk] using hadj
      have hnext : b = [] → (renderToks r ++ tail).head? ≠ some q := by
        intro hbn; subst hbn
        simp only [adjOk, Bool.and_eq_true, bne_iff_ne, ne_eq] at hadj
        cases hrr : renderToks r with
        | nil => simpa using htail q hq
        | cons x xs =>
          have := hadj.1; rw [hrr] at this
          simpa using this
      rw [Tok.render, go_skip_literal '/' nt q hq hqs b _ i hb hnext, ih tail _ hok.2 hadj' htail]
      simp only [List.length_append]; congr 1; omega

theorem cSyn_start (line : List Char) :
    findMultiLineStart cSyn line =
      (findOutsideGo opener false false 0 none 0 line).map
        (fun pos => (⟨MultiLine.plain opener closer, pos, none⟩ : StartMatch)) := by
  simp only [findMultiLineStart, cSyn, MultiLine.plain, List.any_cons, List.any_nil,
    List.foldl_cons, List.foldl_nil, startCandidate, findOutside, opener, closer]
  cases h : findOutsideGo ['/', '*'] false false 0 none 0 line <;>
    simp [h, pickBest, isMulticharQuote, List.isEmpty]

theorem cSyn_end (line : List Char) :
    containsEnd line closer = (findOutsideGo closer false false 0 none 0 line).isSome := by
  simp [containsEnd, findOutside, closer, isMulticharQuote, List.isEmpty]

theorem cSyn_single (t : List Char) :
    isSingleLineComment cSyn t = linePrefix.isPrefixOf t := by
  simp [isSingleLineComment, cSyn, linePrefix]

/-! ### single lines -/

def st0 : St := {}
def stIn : St := { ml := .inComment 1 opener closer false }

theorem counting_st0 : Counting st0 := ⟨rfl, rfl⟩
theorem counting_stIn : Counting stIn := ⟨rfl, rfl⟩

theorem noDirectiveB_spec (line : List Char) (h : noDirectiveB line = true) :
    NoDirective cSyn line ∧ hasIgnoreFile cSyn line = false := by
  unfold noDirectiveB at h
  simp only [Bool.or_eq_true, Bool.not_eq_true', Bool.and_eq_true] at h
  rcases h with h | ⟨⟨⟨h1, h2⟩, h3⟩, h4⟩
  · exact ⟨Or.inl h, by simp [hasIgnoreFile, hasDirective, h]⟩
  · refine ⟨Or.inr ⟨by simp [hasDirective, h1], by simp [hasDirective, h2], ?_⟩,
      by simp [hasIgnoreFile, hasDirective, h4]⟩
    simp [parseIgnoreNext, h3]

theorem wsOk_ws (ws : List Char) (h : wsOk ws = true) : ∀ c ∈ ws, isWs c = true := by
  intro c hc
  have := List.all_eq_true.mp h c hc
  simp only [Bool.and_eq_true] at this; exact this.1

theorem blank_line (ws : List Char) (h : wsOk ws = true) :
    processLine cSyn ws st0 = (.blank, st0) ∧ hasIgnoreFile cSyn ws = false := by
  have ht := trim_all_ws ws (wsOk_ws ws h)
  refine ⟨blank_is_blank cSyn ws st0 counting_st0 rfl ht, ?_⟩
  apply ignore_file_needs_comment
  rw [ht]; rfl

/-- a line whose first non-blank character is not `/` and on which no block comment starts is
    code -/
theorem code_of_first (line : List Char) (c : Char) (hf : firstNonWs line = some c) (hc : c ≠ '/')
    (hstart : findOutsideGo opener false false 0 none 0 line = none) :
    processLine cSyn line st0 = (.code, st0) ∧ hasIgnoreFile cSyn line = false := by
  obtain ⟨ws, t, e, hws, hcw⟩ := firstNonWs_split line c hf
  have htrim : trim line = c :: trimEnd t := by rw [e]; exact trim_ws_cons ws c t hws hcw
  have hlc : isSingleLineComment cSyn (trim line) = false := by
    rw [cSyn_single, htrim]; simp [linePrefix, List.isPrefixOf, Ne.symm hc]
  have hms : findMultiLineStart cSyn line = none := by rw [cSyn_start, hstart]; rfl
  exact ⟨plain_is_code cSyn line st0 counting_st0 rfl (by rw [htrim]; rfl) hms hlc,
    ignore_file_needs_comment cSyn line hlc⟩

theorem firstNonWs_mem (l : List Char) (c : Char) (h : firstNonWs l = some c) : c ∈ l := by
  obtain ⟨ws, t, e, _, _⟩ := firstNonWs_split l c h
  rw [e]; simp

theorem firstNonWs_of_any (l : List Char) (h : l.any (fun c => !isWs c) = true) :
    ∃ c, firstNonWs l = some c := by
  induction l with
  | nil => simp at h
  | cons a r ih =>
    unfold firstNonWs
    by_cases ha : isWs a = true
    · simp only [ha, if_true]
      apply ih
      simpa [ha] using h
    · exact ⟨a, by simp [ha]⟩

theorem isQuote_not_ws (q : Char) (hq : isQuote q = true) : isWs q = false ∧ q ≠ '/' := by
  simp only [isQuote, Bool.or_eq_true, beq_iff_eq] at hq
  rcases hq with rfl | rfl <;> decide

/-- the first non-blank character of a token sequence is never `/` -/
theorem firstNonWs_toks (ts : List Tok) (hok : ts.all Tok.ok = true) (c : Char)
    (h : firstNonWs (renderToks ts) = some c) : c ≠ '/' := by
  induction ts with
  | nil => simp [renderToks, firstNonWs] at h
  | cons t r ih =>
    simp only [List.all_cons, Bool.and_eq_true] at hok
    have hr : renderToks (t :: r) = t.render ++ renderToks r := by simp [renderToks]
    rw [hr, firstNonWs_append] at h
    cases hft : firstNonWs t.render with
    | none => rw [hft] at h; exact ih hok.2 h
    | some x =>
      rw [hft] at h
      simp only [Option.orElse_some, Option.some.injEq] at h
      subst h
      cases t with
      | word w =>
        have hm := firstNonWs_mem _ _ hft
        have := List.all_eq_true.mp hok.1 x hm
        simp only [Bool.and_eq_true, bne_iff_ne, ne_eq] at this
        exact this.1.2
      | lit q b =>
        have hq : isQuote q = true := by
          have := hok.1; simp only [Tok.ok, Bool.and_eq_true] at this; exact this.1
        have hqq := isQuote_not_ws q hq
        simp only [Tok.render, renderLit, firstNonWs, hqq.1, Bool.false_eq_true, if_false,
          Option.some.injEq] at hft
        subst hft; exact hqq.2

theorem code_line (toks : List Tok) (tail : List Char)
    (hok : toks.all Tok.ok = true) (hadj : adjOk toks = true)
    (hany : (renderToks toks).any (fun c => !isWs c) = true)
    (htail : tail = [] ∨ ∃ t, tail = linePrefix ++ t)
    (hno : containsSub opener tail = false) :
    processLine cSyn (renderToks toks ++ tail) st0 = (.code, st0) ∧
      hasIgnoreFile cSyn (renderToks toks ++ tail) = false := by
  obtain ⟨c, hc⟩ := firstNonWs_of_any _ hany
  have hc' : firstNonWs (renderToks toks ++ tail) = some c := by
    rw [firstNonWs_append, hc]; rfl
  apply code_of_first _ c hc' (firstNonWs_toks toks hok c hc)
  have hq : ∀ q, isQuote q = true → tail.head? ≠ some q := by
    intro q hq
    rcases htail with rfl | ⟨t, rfl⟩
    · simp
    · simp only [linePrefix, List.cons_append, List.head?_cons, ne_eq, Option.some.injEq]
      exact fun e => (isQuote_not_ws q hq).2 e.symm
  have := go_skip_toks ['*'] toks tail 0 hok hadj hq
  rw [opener, this]
  apply go_none_of_findSub _ _ _ _ _ _ 0
  simpa [containsSub, opener] using hno

/-- the lexical facts about a whole-line line comment `ws // text` whose text holds no block
    opener: no block comment starts on it, and it begins with the line-comment prefix -/
theorem lineComment_facts (ws t : List Char) (hws : wsOk ws = true)
    (hno : containsSub opener (linePrefix ++ t) = false) :
    findMultiLineStart cSyn (ws ++ (linePrefix ++ t)) = none ∧
      (trim (ws ++ (linePrefix ++ t))).isEmpty = false ∧
      isSingleLineComment cSyn (trim (ws ++ (linePrefix ++ t))) = true := by
  have hw := wsOk_ws ws hws
  have htrim : trim (ws ++ (linePrefix ++ t)) = '/' :: '/' :: trimEnd t := by
    simp only [linePrefix, List.cons_append, List.nil_append]
    rw [trim_ws_cons ws '/' _ hw (by decide), trimEnd_cons '/' t (by decide)]
  refine ⟨?_, by rw [htrim]; rfl, by rw [cSyn_single, htrim]; rfl⟩
  rw [cSyn_start, opener,
    go_skip_safe '/' ['*'] ws _ 0 (fun c hc => isWs_props c (hw c hc))]
  rw [go_none_of_findSub _ _ _ _ _ _ 0 (by simpa [containsSub, opener] using hno)]
  rfl

theorem lineComment_line (ws t : List Char) (hws : wsOk ws = true)
    (hno : containsSub opener (linePrefix ++ t) = false)
    (hnd : noDirectiveB (ws ++ (linePrefix ++ t)) = true) :
    processLine cSyn (ws ++ (linePrefix ++ t)) st0 = (.comment, st0) ∧
      hasIgnoreFile cSyn (ws ++ (linePrefix ++ t)) = false := by
  obtain ⟨hnd1, hnd2⟩ := noDirectiveB_spec _ hnd
  obtain ⟨h1, h2, h3⟩ := lineComment_facts ws t hws hno
  exact ⟨line_comment_is_comment cSyn _ st0 counting_st0 rfl hnd1 h2 h1 h3, hnd2⟩

/-! ### block comments -/

theorem quoteFree_spec (t : List Char) (h : quoteFree t = true) : ∀ c ∈ t, notQuote c = true := by
  intro c hc
  have := List.all_eq_true.mp h c hc
  simp only [Bool.and_eq_true] at this; exact this.1

/-- over text without quote characters the end search is the plain substring search -/
theorem containsEnd_quoteFree (t : List Char) (h : ∀ c ∈ t, notQuote c = true) :
    containsEnd t closer = containsSub closer t := by
  rw [cSyn_end, closer, go_noquote '*' ['/'] t 0 h]; rfl

def openMatch (ws : List Char) : StartMatch := ⟨MultiLine.plain opener closer, ws.length, none⟩

theorem opener_found (ws rest : List Char) (hws : wsOk ws = true) :
    findMultiLineStart cSyn (ws ++ (opener ++ rest)) = some (openMatch ws) := by
  have hw := wsOk_ws ws hws
  rw [cSyn_start, opener, go_skip_safe '/' ['*'] ws _ 0 (fun c hc => isWs_props c (hw c hc)),
    List.cons_append, go_zero]
  simp [List.isPrefixOf, openMatch, opener]

/-- the line that opens a block comment: a comment; the comment stays open exactly when the end
    marker does not follow on the same line -/
theorem opener_line (ws rest : List Char) (hws : wsOk ws = true)
    (hq : ∀ c ∈ rest, notQuote c = true) :
    processLine cSyn (ws ++ (opener ++ rest)) st0 =
        (.comment, if containsSub closer rest then st0 else stIn) ∧
      hasIgnoreFile cSyn (ws ++ (opener ++ rest)) = false := by
  have hw := wsOk_ws ws hws
  have htrim : trim (ws ++ (opener ++ rest)) = '/' :: '*' :: trimEnd rest := by
    simp only [opener, List.cons_append, List.nil_append]
    rw [trim_ws_cons ws '/' _ hw (by decide), trimEnd_cons '*' rest (by decide)]
  have hlc : isSingleLineComment cSyn (trim (ws ++ (opener ++ rest))) = false := by
    rw [cSyn_single, htrim]; rfl
  refine ⟨?_, ignore_file_needs_comment cSyn _ hlc⟩
  rw [processLine_noDirective cSyn _ st0 (Or.inl hlc)]
  unfold ladder
  have hfound := opener_found ws rest hws
  have hshape : ws ++ (opener ++ rest) = ws ++ (openMatch ws).entry.start ++ rest := by
    simp [openMatch, MultiLine.plain]
  have henter := enter_iff_no_end_after_start (openMatch ws) ws rest rfl rfl
    (by simp [openMatch, MultiLine.plain, opener, closer]) rfl
  rw [← hshape] at henter
  simp only [st0, htrim, hfound, henter]
  have : (openMatch ws).entry.stop = closer := rfl
  rw [this, containsEnd_quoteFree rest hq]
  cases containsSub closer rest <;> simp [stIn, MLState.isIn, openMatch, MultiLine.plain]

/-- a line inside a block comment: a comment; the comment ends exactly when the line holds the
    end marker -/
theorem inside_line (line : List Char) (hq : ∀ c ∈ line, notQuote c = true)
    (hnd : noDirectiveB line = true) :
    processLine cSyn line stIn = (.comment, if containsSub closer line then st0 else stIn) ∧
      hasIgnoreFile cSyn line = false := by
  obtain ⟨hnd1, hnd2⟩ := noDirectiveB_spec _ hnd
  refine ⟨?_, hnd2⟩
  rw [processLine_noDirective cSyn _ stIn hnd1]
  unfold ladder
  simp only [stIn, updateInside, MLState.isIn, containsEnd_quoteFree line hq]
  cases containsSub closer line <;> simp [st0]

/-! ### programs -/

theorem classify_cons (l : List Char) (ls : List (List Char)) (seen : Nat) (st st' : St)
    (cls : LineClass) (hp : processLine cSyn l st = (cls, st'))
    (hi : hasIgnoreFile cSyn l = false) :
    classifyLines cSyn (l :: ls) seen st =
      (classifyLines cSyn ls (seen + 1) st').map (cls :: ·) := by
  conv => lhs; unfold classifyLines
  simp only [hi, Bool.and_false, Bool.false_eq_true, if_false, hp]
  cases classifyLines cSyn ls (seen + 1) st' <;> rfl

/-- the lines between the opening and the closing line of a block comment -/
theorem mids_run (mids : List (List Char))
    (hok : mids.all (fun m => quoteFree m && !containsSub closer m && noDirectiveB m) = true)
    (rest : List (List Char)) (seen : Nat) :
    classifyLines cSyn (mids ++ rest) seen stIn =
      (classifyLines cSyn rest (seen + mids.length) stIn).map
        (mids.map (fun _ => LineClass.comment) ++ ·) := by
  induction mids generalizing seen with
  | nil => simp
  | cons m r ih =>
    simp only [List.all_cons, Bool.and_eq_true, Bool.not_eq_true'] at hok
    obtain ⟨⟨⟨hq, hc⟩, hnd⟩, hr⟩ := hok
    obtain ⟨h1, h2⟩ := inside_line m (quoteFree_spec m hq) hnd
    rw [hc] at h1
    rw [List.cons_append, classify_cons m _ seen stIn stIn .comment (by simpa using h1) h2,
      ih (by simpa using hr)]
    have : seen + 1 + r.length = seen + (m :: r).length := by simp only [List.length_cons]; omega
    rw [this]
    cases classifyLines cSyn rest (seen + (m :: r).length) stIn <;> simp

theorem findSub_closer_after (a b : List Char) : containsSub closer (a ++ (closer ++ b)) = true := by
  have := findSub_some_of_occurs closer a b 0 (by decide)
  simpa [containsSub, List.append_assoc] using this

/-- every chunk is classified as its ground truth and leaves the counter in its initial state -/
theorem chunk_run (c : Chunk) (hok : c.ok = true) (rest : List (List Char)) (seen : Nat) :
    classifyLines cSyn (c.lines ++ rest) seen st0 =
      (classifyLines cSyn rest (seen + c.lines.length) st0).map (c.truth ++ ·) := by
  cases c with
  | blank ws =>
    obtain ⟨h1, h2⟩ := blank_line ws hok
    simp only [Chunk.lines, Chunk.truth, List.cons_append, List.nil_append, List.length_cons,
      List.length_nil]
    rw [classify_cons ws _ seen st0 st0 .blank h1 h2]
  | code toks cmt =>
    simp only [Chunk.ok, Bool.and_eq_true] at hok
    obtain ⟨⟨⟨h1, h2⟩, h3⟩, h4⟩ := hok
    cases cmt with
    | none =>
      have := code_line toks [] h1 h2 h3 (Or.inl rfl) (by decide)
      simp only [List.append_nil] at this
      simp only [Chunk.lines, Chunk.truth, List.cons_append, List.nil_append, List.length_cons,
        List.length_nil]
      rw [classify_cons _ _ seen st0 st0 .code this.1 this.2]
    | some t =>
      simp only [Bool.and_eq_true, Bool.not_eq_true'] at h4
      have := code_line toks (linePrefix ++ t) h1 h2 h3 (Or.inr ⟨t, rfl⟩) h4.2
      simp only [Chunk.lines, Chunk.truth, List.cons_append, List.nil_append, List.length_cons,
        List.length_nil]
      rw [classify_cons _ _ seen st0 st0 .code this.1 this.2]
  | lineComment ws t =>
    simp only [Chunk.ok, Bool.and_eq_true, Bool.not_eq_true'] at hok
    obtain ⟨⟨⟨h1, _⟩, h3⟩, h4⟩ := hok
    have := lineComment_line ws t h1 h3 h4
    simp only [Chunk.lines, Chunk.truth, List.cons_append, List.nil_append, List.length_cons,
      List.length_nil]
    rw [classify_cons _ _ seen st0 st0 .comment this.1 this.2]
  | blockOne ws body trail =>
    simp only [Chunk.ok, Bool.and_eq_true, Bool.not_eq_true'] at hok
    obtain ⟨⟨⟨h1, h2⟩, _⟩, h4⟩ := hok
    have hq : ∀ c ∈ body ++ (closer ++ trail), notQuote c = true := by
      intro c hc
      simp only [List.mem_append] at hc
      rcases hc with hc | hc | hc
      · exact quoteFree_spec body h2 c hc
      · simp only [closer, List.mem_cons, List.not_mem_nil, or_false] at hc
        rcases hc with rfl | rfl <;> decide
      · exact (isWs_props c (wsOk_ws trail h4 c hc)).1
    have := opener_line ws (body ++ (closer ++ trail)) h1 hq
    rw [findSub_closer_after] at this
    simp only [Chunk.lines, Chunk.truth, List.cons_append, List.nil_append, List.length_cons,
      List.length_nil]
    rw [classify_cons _ _ seen st0 st0 .comment (by simpa using this.1) this.2]
  | block ws body mids cbody trail =>
    simp only [Chunk.ok, Bool.and_eq_true, Bool.not_eq_true'] at hok
    obtain ⟨⟨⟨⟨⟨⟨⟨h1, h2⟩, h3⟩, h4⟩, h5⟩, _⟩, h7⟩, h8⟩ := hok
    have hopen := opener_line ws body h1 (quoteFree_spec body h2)
    rw [h3] at hopen
    have hq : ∀ c ∈ cbody ++ (closer ++ trail), notQuote c = true := by
      intro c hc
      simp only [List.mem_append] at hc
      rcases hc with hc | hc | hc
      · exact quoteFree_spec cbody h5 c hc
      · simp only [closer, List.mem_cons, List.not_mem_nil, or_false] at hc
        rcases hc with rfl | rfl <;> decide
      · exact (isWs_props c (wsOk_ws trail h7 c hc)).1
    have hclose := inside_line (cbody ++ (closer ++ trail)) hq h8
    rw [findSub_closer_after] at hclose
    simp only [Chunk.lines, Chunk.truth, List.cons_append, List.append_assoc, List.length_cons,
      List.length_append, List.length_nil, List.nil_append]
    rw [classify_cons _ _ seen st0 stIn .comment (by simpa using hopen.1) hopen.2,
      mids_run mids h4,
      classify_cons _ _ _ stIn st0 .comment (by simpa using hclose.1) hclose.2]
    have : seen + 1 + mids.length + 1 = seen + (mids.length + (0 + 1) + 1) := by omega
    rw [this]
    cases classifyLines cSyn rest (seen + (mids.length + (0 + 1) + 1)) st0 <;> simp

theorem program_run (p : List Chunk) (hok : ∀ c ∈ p, c.ok = true) (seen : Nat) :
    classifyLines cSyn (renderLines p) seen st0 = some (truth p) := by
  induction p generalizing seen with
  | nil => simp [renderLines, truth, classifyLines]
  | cons c r ih =>
    have hr : renderLines (c :: r) = c.lines ++ renderLines r := by simp [renderLines]
    have ht : truth (c :: r) = c.truth ++ truth r := by simp [truth]
    rw [hr, ht, chunk_run c (hok c (by simp)), ih (fun x hx => hok x (by simp [hx]))]
    rfl

/-! ### from the text back to the lines -/

theorem all_and_left {α : Type} (l : List α) (p q : α → Bool)
    (h : l.all (fun c => p c && q c) = true) : ∀ c ∈ l, q c = true := by
  intro c hc
  have := List.all_eq_true.mp h c hc
  simp only [Bool.and_eq_true] at this; exact this.2

theorem wsOk_line (ws : List Char) (h : wsOk ws = true) : ∀ c ∈ ws, lineChar c = true :=
  all_and_left ws _ _ h

theorem quoteFree_line (t : List Char) (h : quoteFree t = true) : ∀ c ∈ t, lineChar c = true :=
  all_and_left t _ _ h

theorem textOk_line (t : List Char) (h : textOk t = true) : ∀ c ∈ t, lineChar c = true :=
  fun c hc => List.all_eq_true.mp h c hc

theorem body_line (q : Char) (b : List Item)
    (h : b.all (fun it => it.ok q && it.lineOk) = true) :
    ∀ c ∈ renderBody b, lineChar c = true := by
  intro c hc
  simp only [renderBody, List.mem_flatMap] at hc
  obtain ⟨it, hit, hc⟩ := hc
  have := all_and_left b _ _ h it hit
  cases it with
  | plain x =>
    simp only [Item.render, List.mem_cons, List.not_mem_nil, or_false] at hc
    subst hc; exact this
  | esc x =>
    simp only [Item.render, List.mem_cons, List.not_mem_nil, or_false] at hc
    rcases hc with rfl | rfl
    · decide
    · exact this

theorem toks_line (ts : List Tok) (h : ts.all Tok.ok = true) :
    ∀ c ∈ renderToks ts, lineChar c = true := by
  intro c hc
  simp only [renderToks, List.mem_flatMap] at hc
  obtain ⟨t, ht, hc⟩ := hc
  have hok := List.all_eq_true.mp h t ht
  cases t with
  | word w =>
    exact all_and_left w _ _ hok c hc
  | lit q b =>
    simp only [Tok.ok, Bool.and_eq_true] at hok
    have hq : lineChar q = true := by
      have := hok.1
      simp only [isQuote, Bool.or_eq_true, beq_iff_eq] at this
      rcases this with rfl | rfl <;> decide
    simp only [Tok.render, renderLit, List.mem_cons, List.mem_append, List.not_mem_nil,
      or_false] at hc
    rcases hc with rfl | hc | rfl
    · exact hq
    · exact body_line q b hok.2 c hc
    · exact hq

theorem marker_line : (∀ c ∈ opener, lineChar c = true) ∧ (∀ c ∈ closer, lineChar c = true) ∧
    (∀ c ∈ linePrefix, lineChar c = true) := by decide

theorem chunk_lines_ok (c : Chunk) (hok : c.ok = true) :
    ∀ l ∈ c.lines, ∀ ch ∈ l, lineChar ch = true := by
  obtain ⟨mo, mc, mp⟩ := marker_line
  cases c with
  | blank ws =>
    intro l hl ch hch
    simp only [Chunk.lines, List.mem_cons, List.not_mem_nil, or_false] at hl
    rw [hl] at hch; exact wsOk_line ws hok ch hch
  | code toks cmt =>
    simp only [Chunk.ok, Bool.and_eq_true] at hok
    obtain ⟨⟨⟨h1, _⟩, _⟩, h4⟩ := hok
    intro l hl ch hch
    cases cmt with
    | none =>
      simp only [Chunk.lines, List.mem_cons, List.not_mem_nil, or_false] at hl
      subst hl; exact toks_line toks h1 ch hch
    | some t =>
      simp only [Bool.and_eq_true] at h4
      simp only [Chunk.lines, List.mem_cons, List.not_mem_nil, or_false] at hl
      subst hl
      simp only [List.mem_append] at hch
      rcases hch with h | h | h
      · exact toks_line toks h1 ch h
      · exact mp ch h
      · exact textOk_line t h4.1 ch h
  | lineComment ws t =>
    simp only [Chunk.ok, Bool.and_eq_true] at hok
    obtain ⟨⟨⟨h1, h2⟩, _⟩, _⟩ := hok
    intro l hl ch hch
    simp only [Chunk.lines, List.mem_cons, List.not_mem_nil, or_false] at hl
    subst hl
    simp only [List.mem_append] at hch
    rcases hch with h | h | h
    · exact wsOk_line ws h1 ch h
    · exact mp ch h
    · exact textOk_line t h2 ch h
  | blockOne ws body trail =>
    simp only [Chunk.ok, Bool.and_eq_true] at hok
    obtain ⟨⟨⟨h1, h2⟩, _⟩, h4⟩ := hok
    intro l hl ch hch
    simp only [Chunk.lines, List.mem_cons, List.not_mem_nil, or_false] at hl
    subst hl
    simp only [List.mem_append] at hch
    rcases hch with h | h | h | h | h
    · exact wsOk_line ws h1 ch h
    · exact mo ch h
    · exact quoteFree_line body h2 ch h
    · exact mc ch h
    · exact wsOk_line trail h4 ch h
  | block ws body mids cbody trail =>
    simp only [Chunk.ok, Bool.and_eq_true] at hok
    obtain ⟨⟨⟨⟨⟨⟨⟨h1, h2⟩, _⟩, h4⟩, h5⟩, _⟩, h7⟩, _⟩ := hok
    intro l hl ch hch
    simp only [Chunk.lines, List.mem_cons, List.mem_append, List.not_mem_nil, or_false] at hl
    rcases hl with rfl | hl | rfl
    · simp only [List.mem_append] at hch
      rcases hch with h | h | h
      · exact wsOk_line ws h1 ch h
      · exact mo ch h
      · exact quoteFree_line body h2 ch h
    · have := List.all_eq_true.mp h4 l hl
      simp only [Bool.and_eq_true] at this
      exact quoteFree_line l this.1.1 ch hch
    · simp only [List.mem_append] at hch
      rcases hch with h | h | h
      · exact quoteFree_line cbody h5 ch h
      · exact mc ch h
      · exact wsOk_line trail h7 ch h

/-- **C02, token level.**  For every well-formed program of the C family — any number of
    chunks, any literals, any comment text within the side conditions — the counter classifies
    every physical line as the lexical ground truth says. -/
theorem classify_render (p : List Chunk) (hok : ∀ c ∈ p, c.ok = true) :
    AgreesWithTruth cSyn (render p) (truth p) := by
  unfold AgreesWithTruth classes render
  rw [splitLines_join]
  · exact program_run p hok 0
  · intro l hl
    simp only [renderLines, List.mem_flatMap] at hl
    obtain ⟨c, hc, hl⟩ := hl
    exact chunk_lines_ok c (hok c hc) l hl

/-- the counters that `SlocCounter::count` reports are the tallies of the ground truth -/
theorem count_render (p : List Chunk) (hok : ∀ c ∈ p, c.ok = true) :
    count cSyn (render p) = .stats (tally (truth p)) := by
  have := classify_render p hok
  unfold AgreesWithTruth at this
  simp [count, this]

/-- the built-in languages whose comment syntax is exactly the one of the theorem (regenerated
    from the registry of the tree under check on every run) -/
theorem cFamily_builtins :
    (Generated.builtins.filter (fun l => l.syn == cSyn)).map (·.name) =
      ["Go".toList, "JavaScript".toList, "TypeScript".toList, "C".toList, "C++".toList,
       "Java".toList, "Kotlin".toList, "Scala".toList, "JSX".toList] := by decide

/-! ### non-vacuity: a program that meets every hypothesis and uses every construct -/

def sample : List Chunk :=
  [ .lineComment [] " it's a \"header\"".toList,
    .blank [' ', '\t'],
    .code [.word "int x = ".toList, .lit '"' [.plain '/', .plain '*', .esc '"', .plain '\''],
           .word ";".toList] none,
    .code [.word "char c = ".toList, .lit '\'' [.esc '\''], .word "; s = ".toList, .lit '"' [],
           .word " ".toList]
      (some " don't /".toList),
    .blockOne [' '] " one line // ".toList [' '],
    .block [] "* doc".toList [" * mid // x".toList, []] " ".toList [],
    .code [.word "return 0;".toList] none ]

example : ∀ c ∈ sample, c.ok = true := by decide

example : truth sample =
    [.comment, .blank, .code, .code, .comment, .comment, .comment, .comment, .comment, .code] := by
  decide

/-- the theorem's conclusion on the sample, checked independently by evaluation -/
example : classes cSyn (render sample) = some (truth sample) := by decide

end SlocModel.Props.C02
