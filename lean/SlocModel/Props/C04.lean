import SlocModel.Props.C02
import SlocModel.Props.C03
/-!
  C04 — Comments and blank lines never change the code count.
  Insertion / deletion of a line is a statement about the fold of `processLine` over the line
  list: if the inserted line leaves the per-file state untouched, every other line keeps its class.
-/
namespace SlocModel.Props.C04
open SlocModel SlocModel.Counter SlocModel.Props.C02

/-- the fold of `count` without the ignore-file test: classes and final state -/
def run (syn : Syntax) : List (List Char) → St → List LineClass × St
  | [], st => ([], st)
  | l :: ls, st =>
    let (c, st') := processLine syn l st
    let (cs, st'') := run syn ls st'
    (c :: cs, st'')

theorem run_append (syn : Syntax) (a b : List (List Char)) (st : St) :
    run syn (a ++ b) st =
      ((run syn a st).1 ++ (run syn b (run syn a st).2).1, (run syn b (run syn a st).2).2) := by
  induction a generalizing st with
  | nil => simp [run]
  | cons l ls ih => simp [run, ih]

/-- when no line carries an ignore-file directive, `count`'s loop is `run` -/
theorem classifyLines_eq_run (syn : Syntax) (ls : List (List Char)) (seen : Nat) (st : St)
    (h : ∀ l ∈ ls, hasIgnoreFile syn l = false) :
    classifyLines syn ls seen st = some (run syn ls st).1 := by
  induction ls generalizing seen st with
  | nil => simp [classifyLines, run]
  | cons l ls ih =>
    simp only [classifyLines, h l List.mem_cons_self, Bool.and_false, Bool.false_eq_true, if_false]
    rw [ih _ _ (fun x hx => h x (List.mem_cons_of_mem _ hx))]
    simp [run]

def codeCount (cs : List LineClass) : Nat := (cs.filter (· = .code)).length

/-- Inserting a line that leaves the state untouched changes no other line's class. -/
theorem insert_state_neutral (syn : Syntax) (pre post : List (List Char)) (l : List Char)
    (st : St) (hneutral : (processLine syn l (run syn pre st).2).2 = (run syn pre st).2) :
    (run syn (pre ++ l :: post) st).1 =
      (run syn pre st).1 ++ (processLine syn l (run syn pre st).2).1 :: (run syn post (run syn pre st).2).1 ∧
    (run syn (pre ++ post) st).1 = (run syn pre st).1 ++ (run syn post (run syn pre st).2).1 := by
  constructor
  · rw [run_append]; simp only [run]; rw [hneutral]
  · rw [run_append]

theorem codeCount_append (a b : List LineClass) : codeCount (a ++ b) = codeCount a + codeCount b := by
  simp [codeCount]

/-- **blank lines**: inserting (or deleting) a whitespace-only line anywhere outside a block
    comment and outside ignore regions leaves every other line's class, hence the code count,
    unchanged — for every syntax and every file without an ignore-file directive -/
theorem blank_insert_invariant (syn : Syntax) (pre post : List (List Char)) (l : List Char)
    (hfile : ∀ x ∈ pre ++ l :: post, hasIgnoreFile syn x = false)
    (hc : Counting (run syn pre {}).2) (hml : (run syn pre {}).2.ml.isIn = false)
    (hb : trim l = []) :
    ∃ before after,
      classifyLines syn (pre ++ post) 0 {} = some before ∧
      classifyLines syn (pre ++ l :: post) 0 {} = some after ∧
      after = before.take pre.length ++ .blank :: before.drop pre.length ∧
      codeCount after = codeCount before := by
  have hproc := blank_is_blank syn l _ hc hml hb
  have hn : (processLine syn l (run syn pre {}).2).2 = (run syn pre {}).2 := by rw [hproc]
  obtain ⟨h1, h2⟩ := insert_state_neutral syn pre post l {} hn
  have hfile2 : ∀ x ∈ pre ++ post, hasIgnoreFile syn x = false := by
    intro x hx
    apply hfile
    simp only [List.mem_append, List.mem_cons] at hx ⊢
    rcases hx with hx | hx
    · exact Or.inl hx
    · exact Or.inr (Or.inr hx)
  have hlen : (run syn pre {}).1.length = pre.length := by
    have := SlocModel.Props.C03.classifyLines_length syn pre 0 {} _ (classifyLines_eq_run syn pre 0 {} (by
      intro x hx; apply hfile; simp [hx]))
    exact this
  refine ⟨_, _, classifyLines_eq_run syn _ 0 {} hfile2, classifyLines_eq_run syn _ 0 {} hfile, ?_, ?_⟩
  · rw [h1, h2, hproc]
    simp [hlen]
  · rw [h1, h2, hproc]
    simp [codeCount]

/-- **comment lines (partial)**: the same for a whole-line line comment `ws ++ prefix ++ text`
    *provided no block-comment start is found on it* and it is not a directive.  The text may
    contain quotes, escapes, closers, anything else. -/
theorem comment_insert_invariant_partial (syn : Syntax) (pre post : List (List Char))
    (l : List Char)
    (hfile : ∀ x ∈ pre ++ l :: post, hasIgnoreFile syn x = false)
    (hc : Counting (run syn pre {}).2) (hml : (run syn pre {}).2.ml.isIn = false)
    (hne : (trim l).isEmpty = false) (hlc : isSingleLineComment syn (trim l) = true)
    (hnd : NoDirective syn l) (hNoOpener : findMultiLineStart syn l = none) :
    ∃ before after,
      classifyLines syn (pre ++ post) 0 {} = some before ∧
      classifyLines syn (pre ++ l :: post) 0 {} = some after ∧
      after = before.take pre.length ++ .comment :: before.drop pre.length ∧
      codeCount after = codeCount before := by
  have hproc := line_comment_is_comment syn l _ hc hml hnd hne hNoOpener hlc
  have hn : (processLine syn l (run syn pre {}).2).2 = (run syn pre {}).2 := by rw [hproc]
  obtain ⟨h1, h2⟩ := insert_state_neutral syn pre post l {} hn
  have hfile2 : ∀ x ∈ pre ++ post, hasIgnoreFile syn x = false := by
    intro x hx
    apply hfile
    simp only [List.mem_append, List.mem_cons] at hx ⊢
    rcases hx with hx | hx
    · exact Or.inl hx
    · exact Or.inr (Or.inr hx)
  have hlen : (run syn pre {}).1.length = pre.length :=
    SlocModel.Props.C03.classifyLines_length syn pre 0 {} _ (classifyLines_eq_run syn pre 0 {} (by
      intro x hx; apply hfile; simp [hx]))
  refine ⟨_, _, classifyLines_eq_run syn _ 0 {} hfile2, classifyLines_eq_run syn _ 0 {} hfile, ?_, ?_⟩
  · rw [h1, h2, hproc]
    simp [hlen]
  · rw [h1, h2, hproc]
    simp [codeCount]

/-- The unrestricted statement ("whatever text follows the comment prefix, including …
    block-comment openers") is false of the pinned code: inserting `// see src/*.rs` between two
    Rust functions turns the second one into a comment and lowers the code count. -/
theorem c04_opener_in_comment_fails :
    let pre := ["fn a() {}".toList]
    let post := ["fn b() {}".toList]
    let l := "// see src/*.rs".toList
    classifyLines rustSyn (pre ++ post) 0 {} = some [.code, .code] ∧
    classifyLines rustSyn (pre ++ l :: post) 0 {} = some [.code, .comment, .comment] := by
  decide

/-- non-vacuity: a quote-laden comment body satisfies the hypotheses of the partial theorem -/
example : findMultiLineStart rustSyn "// don't \"quote\" */ ]] it's".toList = none ∧
    isSingleLineComment rustSyn (trim "// don't \"quote\" */ ]] it's".toList) = true := by decide

end SlocModel.Props.C04
