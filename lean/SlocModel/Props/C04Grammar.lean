import SlocModel.Props.C04
import SlocModel.Props.C02Grammar
/-!
  C04 for the C family, with a purely lexical hypothesis.

  `comment_insert_invariant_partial` asks that no block-comment start is *found* on the inserted
  comment line.  For the C family (`//`, `/* */`) the scan lemmas turn that into a condition on
  the text alone: the line `ws // text` may hold anything — quote characters, escapes, closers,
  line prefixes — as long as `// text` does not contain the opener `/*` (the known finding
  `opener-in-line-comment`, refuted by `c04_opener_in_comment_fails`) and is not a directive.
  The surrounding file is arbitrary.
-/
namespace SlocModel.Props.C04
open SlocModel SlocModel.Counter SlocModel.Props.C02

/-- **comment lines, C family**: inserting or deleting a whole-line line comment whose text does
    not contain `/*`, anywhere outside a block comment and outside ignore regions of any file,
    changes no other line's class and not the code count -/
theorem comment_insert_cfamily (pre post : List (List Char)) (ws t : List Char)
    (hfile : ∀ x ∈ pre ++ post, hasIgnoreFile cSyn x = false)
    (hc : Counting (run cSyn pre {}).2) (hml : (run cSyn pre {}).2.ml.isIn = false)
    (hws : wsOk ws = true)
    (hno : containsSub opener (linePrefix ++ t) = false)
    (hnd : noDirectiveB (ws ++ (linePrefix ++ t)) = true) :
    ∃ before after,
      classifyLines cSyn (pre ++ post) 0 {} = some before ∧
      classifyLines cSyn (pre ++ (ws ++ (linePrefix ++ t)) :: post) 0 {} = some after ∧
      after = before.take pre.length ++ .comment :: before.drop pre.length ∧
      codeCount after = codeCount before := by
  obtain ⟨hnd1, hnd2⟩ := noDirectiveB_spec _ hnd
  obtain ⟨h1, h2, h3⟩ := lineComment_facts ws t hws hno
  apply comment_insert_invariant_partial cSyn pre post _ _ hc hml h2 h3 hnd1 h1
  intro x hx
  simp only [List.mem_append, List.mem_cons] at hx
  rcases hx with hx | rfl | hx
  · exact hfile x (by simp [hx])
  · exact hnd2
  · exact hfile x (by simp [hx])

/-- non-vacuity: a comment full of quotes, closers and prefixes meets the lexical hypotheses -/
example : wsOk [' ', '\t'] = true ∧
    containsSub opener (linePrefix ++ " don't \"q\" */ // it's * /".toList) = false ∧
    noDirectiveB ([' ', '\t'] ++ (linePrefix ++ " don't \"q\" */ // it's * /".toList)) = true := by
  decide

end SlocModel.Props.C04
