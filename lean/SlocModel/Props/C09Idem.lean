import SlocModel.Props.C09
import SlocModel.Props.C11
/-!
  C09 — "updating again without project changes — with or without the existing baseline loaded —
  yields the same baseline".

  A second run on the unchanged project sees the same results except that the baseline has turned
  some `failed` into `grandfathered`.  `update` looks at a result's path, kind, count and at
  whether it is violating (failed *or* grandfathered) — never at which of the two it is.
-/
namespace SlocModel.Props.C09
open SlocModel SlocModel.Baseline

/-- what `apply` does to one result -/
def applyOne (b : Base) (r : Res) : Res :=
  if r.status = .failed && r.kind.recordable && b.contains r.path
  then { r with status := .grandfathered } else r

theorem apply_eq_map (rs : List Res) (b : Base) : apply rs b = rs.map (applyOne b) := rfl

theorem applyOne_fields (b : Base) (r : Res) :
    (applyOne b r).path = r.path ∧ (applyOne b r).kind = r.kind ∧ (applyOne b r).count = r.count ∧
      (applyOne b r).violating = r.violating := by
  unfold applyOne
  split
  · rename_i h
    simp only [Bool.and_eq_true, decide_eq_true_eq] at h
    simp [Res.violating, h.1.1]
  · simp

/-- one step of an update does not see whether a violation is grandfathered -/
theorem updateStep_applyOne (mode : UpdateMode) (b acc : Base) (r : Res) :
    updateStep mode acc (applyOne b r) = updateStep mode acc r := by
  obtain ⟨h1, h2, h3, h4⟩ := applyOne_fields b r
  unfold updateStep includes entryOf
  rw [h1, h2, h3, h4]

/-- **an update does not depend on which violations the loaded baseline grandfathers** -/
theorem update_ignores_grandfathering (mode : UpdateMode) (rs : List Res) (b : Base)
    (existing : Option Base) : update mode (apply rs b) existing = update mode rs existing := by
  unfold update
  rw [apply_eq_map]
  generalize updateStart mode (existing.getD []) = acc
  induction rs generalizing acc with
  | nil => rfl
  | cons r rest ih =>
    simp only [List.map_cons, List.foldl_cons, updateStep_applyOne]
    exact ih _

/-- **`--update-baseline` twice**: on the unchanged project a second whole update gives the first
    one's baseline, whether the existing baseline is loaded (its entries grandfather the results
    and are the `existing` argument) or not -/
theorem update_all_idempotent (rs : List Res) (first : Option Base) :
    let b1 := update .all rs first
    update .all (apply rs b1) (some b1) = b1 ∧ update .all rs none = b1 := by
  intro b1
  have hstart : ∀ e : Option Base, update .all rs e = update .all rs none := by
    intro e; unfold update; simp [updateStart]
  constructor
  · rw [update_ignores_grandfathering, hstart (some b1), ← hstart first]
  · rw [← hstart first]


/-- an add-only update records every violating recordable result, or finds its path recorded -/
theorem foldl_new_records (rs : List Res) (acc : Base) (r : Res) (hr : r ∈ rs)
    (hv : r.violating = true) (hk : r.kind ≠ .otherStructure) :
    (rs.foldl (updateStep .new) acc).contains r.path = true := by
  induction rs generalizing acc with
  | nil => cases hr
  | cons x xs ih =>
    simp only [List.foldl_cons]
    rcases List.mem_cons.mp hr with h | h
    · subst h
      apply foldl_updateStep_keeps
      unfold updateStep
      by_cases hc : acc.contains r.path = true
      · split
        · split
          · exact set_contains_other _ _ _ _ hc
          · exact hc
        · exact hc
      · simp only [hv, includes, hc, Bool.not_false, Bool.and_self, if_true]
        cases hkind : r.kind <;> simp_all [entryOf, set_contains]
    · exact ih _ h

/-- once every violating result's path is recorded, an add-only update changes nothing -/
theorem foldl_new_fixed (rs : List Res) (acc : Base)
    (h : ∀ r ∈ rs, r.violating = true → r.kind ≠ .otherStructure → acc.contains r.path = true) :
    rs.foldl (updateStep .new) acc = acc := by
  induction rs with
  | nil => rfl
  | cons x xs ih =>
    have hstep : updateStep .new acc x = acc := by
      unfold updateStep
      by_cases hv : x.violating = true
      · by_cases hk : x.kind = .otherStructure
        · simp [hv, entryOf, hk]
        · have := h x (by simp) hv hk
          simp [hv, includes, this]
      · simp [hv]
    simp only [List.foldl_cons, hstep]
    exact ih (fun r hr => h r (by simp [hr]))

/-- **`--update-baseline new` twice**: the second add-only update of the unchanged project, with
    the first one's baseline loaded, changes nothing -/
theorem update_new_idempotent (rs : List Res) (b0 : Base) :
    let b1 := update .new rs (some b0)
    update .new (apply rs b1) (some b1) = b1 := by
  intro b1
  rw [update_ignores_grandfathering]
  show rs.foldl (updateStep .new) (updateStart .new ((some b1).getD [])) = b1
  simp only [updateStart, Option.getD_some]
  apply foldl_new_fixed
  intro r hr hv hk
  exact foldl_new_records rs _ r hr hv hk

/-- **an update is never cut short**: with `--update-baseline` fail-fast is off, so every file
    is processed and an `all` update records every violating recordable result of the project
    state, whatever the flag or the configuration says about fail-fast -/
theorem update_run_records_everything (ff : Bool) (f : Flags) (m : UpdateMode)
    (hu : f.update = some m) (files : List Res) (mask : List Bool)
    (hlen : mask.length = files.length)
    (hadm : effectiveFailFast ff f = false → mask.all id = true)
    (r : Res) (hr : r ∈ files) (hv : r.violating = true) (hk : r.kind ≠ .otherStructure)
    (existing : Option Base) :
    (update .all (processed files mask) existing).contains r.path = true := by
  have hoff : effectiveFailFast ff f = false := by simp [effectiveFailFast, hu]
  have hall := hadm hoff
  have hp : processed files mask = files :=
    SlocModel.Props.C11.no_ff_deterministic files mask hlen hall
  rw [hp]
  exact update_all_records files existing r hr hv hk

end SlocModel.Props.C09
