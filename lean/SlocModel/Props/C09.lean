import SlocModel.Baseline
/-!
  C09 — Baseline round trip and non-masking: grandfathering never hides a new violation.
  (Statements about `SlocModel.Baseline`, the model of the repaired pipeline; the three
  defects the harness reproduced on the pinned code are recorded as `fixed` findings.)
-/
namespace SlocModel.Props.C09
open SlocModel SlocModel.Baseline

/-! ### non-masking -/

theorem apply_status (rs : List Res) (b : Base) (r : Res) (hr : r ∈ rs) :
    (if r.status = .failed && r.kind.recordable && b.contains r.path
      then { r with status := .grandfathered } else r) ∈ apply rs b := by
  unfold apply; exact List.mem_map.mpr ⟨r, hr, rfl⟩

/-- a failed result whose path is not recorded stays failed through the whole pipeline … -/
theorem unrecorded_stays_failed (disk : Option Base) (rs : List Res) (ev : List Key) (f : Flags)
    (r : Res) (hr : r ∈ rs) (hf : r.status = .failed)
    (hnot : ∀ b, disk = some b → b.contains r.path = false)
    (rs' : List Res) (d' : Option Base) (e : Int) (st : List Key)
    (hrun : run disk rs ev f = .done rs' d' e st) : r ∈ rs' := by
  obtain ⟨h1, _, _, _⟩ := run_done disk rs ev f rs' d' e st hrun
  subst h1
  unfold grandfather loadedOf
  by_cases hg : f.baselineGiven = true
  · simp only [hg, if_true]
    cases hd : disk with
    | none => simpa using hr
    | some b =>
      simp only
      have := apply_status rs b r hr
      simpa [hf, hnot b hd] using this
  · simp only [hg]; simpa using hr

/-- … and makes the run exit 1 whatever the other flags, unless `--warn-only` -/
theorem non_masking (disk : Option Base) (rs : List Res) (ev : List Key) (f : Flags)
    (r : Res) (hr : r ∈ rs) (hf : r.status = .failed)
    (hnot : ∀ b, disk = some b → b.contains r.path = false) (hwo : f.warnOnly = false)
    (rs' : List Res) (d' : Option Base) (e : Int) (st : List Key)
    (hrun : run disk rs ev f = .done rs' d' e st) :
    r ∈ rs' ∧ e = Generated.exitThreshold := by
  have hmem := unrecorded_stays_failed disk rs ev f r hr hf hnot rs' d' e st hrun
  refine ⟨hmem, ?_⟩
  obtain ⟨_, _, h3, _⟩ := run_done disk rs ev f rs' d' e st hrun
  rw [h3]
  unfold exitCode
  have hany : rs'.any (fun (x : Res) => decide (x.status = Status.failed)) = true :=
    List.any_eq_true.mpr ⟨r, hmem, by simp [hf]⟩
  simp [hwo, hany]

/-! ### what an update records -/

theorem set_contains (b : Base) (k : Key) (e : Entry) : (b.set k e).contains k = true := by
  simp [Base.set, Base.contains]

theorem set_contains_other (b : Base) (k k' : Key) (e : Entry) (h : b.contains k' = true) :
    (b.set k e).contains k' = true := by
  simp only [Base.set, Base.contains, Base.remove, List.any_append, List.any_filter] at *
  by_cases hk : k' = k
  · subst hk; simp
  · obtain ⟨x, hx, hxe⟩ := List.any_eq_true.mp h
    simp only [decide_eq_true_eq] at hxe
    simp only [Bool.or_eq_true]
    left
    exact List.any_eq_true.mpr ⟨x, hx, by simp [hxe, hk]⟩

theorem updateStep_keeps (mode : UpdateMode) (acc : Base) (r : Res) (k : Key)
    (h : acc.contains k = true) : (updateStep mode acc r).contains k = true := by
  unfold updateStep
  split
  · split
    · exact set_contains_other _ _ _ _ h
    · exact h
  · exact h

theorem foldl_updateStep_keeps (mode : UpdateMode) (rs : List Res) (acc : Base) (k : Key)
    (h : acc.contains k = true) : (rs.foldl (updateStep mode) acc).contains k = true := by
  induction rs generalizing acc with
  | nil => exact h
  | cons r rs ih => exact ih _ (updateStep_keeps mode acc r k h)

/-- every violating (failed *or* grandfathered) baselinable result is recorded by an `all`
    update — which is what makes updating twice idempotent -/
theorem update_all_records (rs : List Res) (existing : Option Base) (r : Res) (hr : r ∈ rs)
    (hv : r.violating = true) (hk : r.kind ≠ .otherStructure) :
    (update .all rs existing).contains r.path = true := by
  unfold update
  generalize updateStart .all (existing.getD []) = acc
  induction rs generalizing acc with
  | nil => cases hr
  | cons x xs ih =>
    simp only [List.foldl_cons]
    rcases List.mem_cons.mp hr with h | h
    · subst h
      apply foldl_updateStep_keeps
      unfold updateStep
      simp only [hv, includes, Bool.and_self, if_true]
      cases hkind : r.kind <;> simp_all [entryOf, set_contains]
    · exact ih h _

/-- `--update-baseline new` never drops an entry of the baseline it loaded -/
theorem new_mode_superset (rs : List Res) (existing : Base) (k : Key)
    (h : existing.contains k = true) : (update .new rs (some existing)).contains k = true := by
  unfold update
  exact foldl_updateStep_keeps .new rs _ k (by simpa [updateStart] using h)

/-- the content / structure modes start from the loaded entries of the *other* kind … -/
theorem partial_modes_keep_other_kind (rs : List Res) (existing : Base) (k : Key) (e : Entry)
    (hmem : (k, e) ∈ existing) :
    (e.isStructure = true → (update .content rs (some existing)).contains k = true) ∧
    (e.isStructure = false → (update .structure rs (some existing)).contains k = true) := by
  constructor
  · intro hs
    unfold update
    apply foldl_updateStep_keeps
    simp only [updateStart, Option.getD_some, Base.contains]
    exact List.any_eq_true.mpr ⟨(k, e), List.mem_filter.mpr ⟨hmem, hs⟩, by simp⟩
  · intro hs
    unfold update
    apply foldl_updateStep_keeps
    simp only [updateStart, Option.getD_some, Base.contains]
    exact List.any_eq_true.mpr ⟨(k, e), List.mem_filter.mpr ⟨hmem, by simp [hs]⟩, by simp⟩

/-- **a violation of a kind the baseline cannot record is never grandfathered**, whatever
    entries the baseline holds — in particular not by the entry of another violation on the same
    path (a denied file whose line-count violation is recorded) -/
theorem other_kind_never_masked (rs : List Res) (b : Base) (r : Res) (hr : r ∈ rs)
    (hk : r.kind = .otherStructure) : r ∈ apply rs b := by
  have := apply_status rs b r hr
  simpa [hk, Kind.recordable] using this

/-- … and it makes the run exit 1, whatever the baseline and the other flags (unless
    `--warn-only`) -/
theorem other_kind_exits_one (disk : Option Base) (rs : List Res) (ev : List Key) (f : Flags)
    (r : Res) (hr : r ∈ rs) (hf : r.status = .failed) (hk : r.kind = .otherStructure)
    (hwo : f.warnOnly = false)
    (rs' : List Res) (d' : Option Base) (e : Int) (st : List Key)
    (hrun : run disk rs ev f = .done rs' d' e st) : e = Generated.exitThreshold := by
  obtain ⟨h1, _, h3, _⟩ := run_done disk rs ev f rs' d' e st hrun
  have hmem : r ∈ rs' := by
    subst h1
    unfold grandfather
    cases loadedOf disk f with
    | none => exact hr
    | some b => exact other_kind_never_masked rs b r hr hk
  rw [h3]
  unfold exitCode
  have : rs'.any (fun x => decide (x.status = .failed)) = true :=
    List.any_eq_true.mpr ⟨r, hmem, by simp [hf]⟩
  simp [hwo, this]

/-! ### round trip -/

/-- after `--update-baseline` on a fresh file, a baseline check of the unchanged state
    grandfathers every recorded line-count, file-count and subdirectory-count violation -/
theorem round_trip_fresh (rs : List Res) (r : Res) (hr : r ∈ rs) (hf : r.status = .failed)
    (hk : r.kind ≠ .otherStructure) :
    { r with status := .grandfathered } ∈ apply rs (update .all rs none) := by
  have hc := update_all_records rs none r hr (by simp [Res.violating, hf]) hk
  have hrec : r.kind.recordable = true := by cases hkk : r.kind <;> simp_all [Kind.recordable]
  have := apply_status rs (update .all rs none) r hr
  simpa [hf, hc, hrec] using this

/-- … and then exits 0 unless a violation of another kind, or a warning under
    warnings-as-errors, remains -/
theorem round_trip_exit (rs : List Res) (wae : Bool)
    (hother : ∀ r ∈ rs, r.status = .failed → r.kind ≠ .otherStructure)
    (hwarn : wae = true → ∀ r ∈ rs, r.status ≠ .warning) :
    exitCode (apply rs (update .all rs none)) false wae false = Generated.exitSuccess := by
  unfold exitCode
  have hnofail : (apply rs (update .all rs none)).any (fun x => decide (x.status = .failed)) = false := by
    rw [List.any_eq_false]
    intro x hx
    unfold apply at hx
    obtain ⟨r, hr, hxr⟩ := List.mem_map.mp hx
    subst hxr
    by_cases hf : r.status = .failed
    · have hc := update_all_records rs none r hr (by simp [Res.violating, hf]) (hother r hr hf)
      have hrec : r.kind.recordable = true := by
        have := hother r hr hf
        cases hkk : r.kind <;> simp_all [Kind.recordable]
      simp [hf, hc, hrec]
    · simp [hf]
  have hnowarn : (wae && (apply rs (update .all rs none)).any (fun x => decide (x.status = .warning))) = false := by
    cases wae with
    | false => rfl
    | true =>
      simp only [Bool.true_and]
      rw [List.any_eq_false]
      intro x hx
      unfold apply at hx
      obtain ⟨r, hr, hxr⟩ := List.mem_map.mp hx
      subst hxr
      have := hwarn rfl r hr
      split <;> simp [this]
  simp [hnofail, hnowarn]

/-! ### non-vacuity and the remaining known finding -/

def exRs : List Res :=
  [⟨['a'], .failed, .content, 12⟩, ⟨['b'], .passed, .content, 3⟩, ⟨['s'], .failed, .files, 4⟩,
   ⟨['d'], .failed, .otherStructure, 1⟩]

/-- updating again with the written baseline loaded yields the same baseline (idempotent) -/
example :
    let b1 := update .all exRs none
    update .all (apply exRs b1) (some b1) = b1 := by decide

/-- `--update-baseline new` **without `--baseline`** does not even load the default file it
    is about to overwrite: existing entries are dropped (known finding, see known_findings.json) -/
theorem c09_new_mode_without_flag_drops :
    let disk : Base := [(['o', 'l', 'd'], .content 9)]
    let f : Flags := ⟨false, some .new, none, false, false⟩
    (match run (some disk) exRs [] f with
     | .done _ (some d) _ _ => d.contains ['o', 'l', 'd']
     | _ => true) = false := by decide

end SlocModel.Props.C09
