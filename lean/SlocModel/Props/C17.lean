import SlocModel.Gate
import SlocModel.Generated.Presets
/-!
  C17 — Configuration gate: invalid settings exit 2, never enforced, never a crash.

  `InDomain` is the documented domain written declaratively (per field, per rule); `gate` is the
  code's sequence of checks with its early returns.  The theorems say that the two coincide, that
  a rejection names a setting that really is outside the domain, that `check` never computes a
  verdict from a configuration outside the domain — also after the command-line overrides — and
  that `config validate` (and every other command) accepts exactly what `check` accepts.
-/
namespace SlocModel.Props.C17
open SlocModel SlocModel.Gate

/-! ### the documented domain -/

/-- a content rule inside the domain: threshold within [0,1], warn point below the rule's limit
    (its own, or the inherited absolute one), a valid date, a pattern that compiles -/
def contentRuleOk (gWarnAt : Option Nat) (r : ContentRule) : Bool :=
  thrOk r.warnThreshold && warnBelow r.warnAt r.maxLines &&
  inheritedBelow r.warnAt r.warnThreshold gWarnAt r.maxLines && expiresOk r.expires

/-- a structure rule inside the domain -/
def structRuleOk (c : Cfg) (r : StructRule) : Bool :=
  thrOk r.warnThreshold && thrOk r.warnFilesThreshold && thrOk r.warnDirsThreshold &&
  nonNeg r.warnFilesAt && nonNeg r.warnDirsAt &&
  belowMax r.warnFilesAt r.maxFiles && belowMax r.warnDirsAt r.maxDirs &&
  belowMax (r.warnFilesAt <|> c.sWarnFilesAt) (r.maxFiles <|> c.sMaxFiles) &&
  belowMax (r.warnDirsAt <|> c.sWarnDirsAt) (r.maxDirs <|> c.sMaxDirs) &&
  expiresOk r.expires

def structRuleBuildOk (r : StructRule) : Bool :=
  limitOk r.maxFiles && limitOk r.maxDirs && limitOk r.maxDepth &&
  r.siblings.all siblingOk && !(r.hasAllow && r.hasDeny) && r.scopeOk && r.patternsOk

structure InDomain (c : Cfg) : Prop where
  threshold : F64.inUnit c.warnThreshold = true
  warnAt : warnBelow c.warnAt c.maxLines = true
  rules : ∀ r ∈ c.rules, contentRuleOk c.warnAt r = true ∧ r.patternOk = true
  globs : c.scannerExcludeOk = true ∧ c.contentExcludeOk = true ∧ c.sPatternsOk = true
  stats : c.reportExcludeOk = true ∧ c.breakdownByOk = true ∧ trendSinceOk c.trendSince = true
  sThresholds : thrOk c.sWarnThreshold = true ∧ thrOk c.sWarnFilesThreshold = true ∧
    thrOk c.sWarnDirsThreshold = true
  sWarnPoints : nonNeg c.sWarnFilesAt = true ∧ nonNeg c.sWarnDirsAt = true ∧
    belowMax c.sWarnFilesAt c.sMaxFiles = true ∧ belowMax c.sWarnDirsAt c.sMaxDirs = true
  sLimits : limitOk c.sMaxFiles = true ∧ limitOk c.sMaxDirs = true ∧ limitOk c.sMaxDepth = true
  sNoMix : (c.sHasAllow && c.sHasDeny) = false
  srules : ∀ r ∈ c.srules, structRuleOk c r = true ∧ structRuleBuildOk r = true

/-! ### helper facts about the sequential checks -/

theorem firstErr_nil : firstErr [] = none := rfl

theorem firstErr_cons_none (x : Option Field) (xs : List (Option Field)) :
    firstErr (x :: xs) = none ↔ x = none ∧ firstErr xs = none := by
  cases x <;> simp [firstErr]

theorem need_none (ok : Bool) (f : Field) : need ok f = none ↔ ok = true := by
  cases ok <;> simp [need]

theorem contentRuleErr_none (gw : Option Nat) (i : Nat) (r : ContentRule) :
    contentRuleErr gw i r = none ↔ contentRuleOk gw r = true := by
  simp only [contentRuleErr, firstErr_cons_none, firstErr_nil, need_none, contentRuleOk,
    Bool.and_eq_true, and_true, and_assoc]

theorem contentRulesErr_none (gw : Option Nat) : ∀ (rs : List ContentRule) (k : Nat),
    contentRulesErr gw rs k = none ↔ ∀ r ∈ rs, contentRuleOk gw r = true
  | [], _ => by simp [contentRulesErr]
  | r :: rest, k => by
    simp only [contentRulesErr, List.mem_cons, forall_eq_or_imp]
    cases h : contentRuleErr gw k r with
    | some f =>
      have : ¬ contentRuleOk gw r = true := fun h' => by
        rw [(contentRuleErr_none gw k r).2 h'] at h; cases h
      simp [this]
    | none =>
      simp [(contentRuleErr_none gw k r).1 h, contentRulesErr_none gw rest (k + 1)]

theorem structRuleSemErr_none (c : Cfg) (i : Nat) (r : StructRule) :
    structRuleSemErr c i r = none ↔ structRuleOk c r = true := by
  simp only [structRuleSemErr, firstErr_cons_none, firstErr_nil, need_none, structRuleOk,
    Bool.and_eq_true, and_true, and_assoc]

theorem structRulesSemErr_none (c : Cfg) : ∀ (rs : List StructRule) (k : Nat),
    structRulesSemErr c rs k = none ↔ ∀ r ∈ rs, structRuleOk c r = true
  | [], _ => by simp [structRulesSemErr]
  | r :: rest, k => by
    simp only [structRulesSemErr, List.mem_cons, forall_eq_or_imp]
    cases h : structRuleSemErr c k r with
    | some f =>
      have : ¬ structRuleOk c r = true := fun h' => by
        rw [(structRuleSemErr_none c k r).2 h'] at h; cases h
      simp [this]
    | none =>
      simp [(structRuleSemErr_none c k r).1 h, structRulesSemErr_none c rest (k + 1)]

theorem ruleLimitsErr_none : ∀ (rs : List StructRule) (k : Nat),
    ruleLimitsErr rs k = none ↔
      ∀ r ∈ rs, limitOk r.maxFiles = true ∧ limitOk r.maxDirs = true ∧ limitOk r.maxDepth = true
  | [], _ => by simp [ruleLimitsErr]
  | r :: rest, k => by
    simp only [ruleLimitsErr, List.mem_cons, forall_eq_or_imp]
    cases h : firstErr [need (limitOk r.maxFiles) (.srMaxFiles k), need (limitOk r.maxDirs) (.srMaxDirs k),
        need (limitOk r.maxDepth) (.srMaxDepth k)] with
    | some f =>
      have : ¬ (limitOk r.maxFiles = true ∧ limitOk r.maxDirs = true ∧ limitOk r.maxDepth = true) := by
        intro h'
        have : firstErr [need (limitOk r.maxFiles) (.srMaxFiles k), need (limitOk r.maxDirs) (.srMaxDirs k),
            need (limitOk r.maxDepth) (.srMaxDepth k)] = none := by
          simpa only [firstErr_cons_none, firstErr_nil, need_none, and_true] using h'
        rw [this] at h; cases h
      simp [this]
    | none =>
      have h' : limitOk r.maxFiles = true ∧ limitOk r.maxDirs = true ∧ limitOk r.maxDepth = true := by
        simpa only [firstErr_cons_none, firstErr_nil, need_none, and_true] using h
      simp [h', ruleLimitsErr_none rest (k + 1)]

theorem siblingsErr_none (i : Nat) : ∀ (ss : List Sibling) (j : Nat),
    siblingsErr i ss j = none ↔ ss.all siblingOk = true
  | [], _ => by simp [siblingsErr]
  | s :: rest, j => by
    simp only [siblingsErr, List.all_cons, Bool.and_eq_true]
    cases h : siblingOk s with
    | true => simp [siblingsErr_none i rest (j + 1)]
    | false => simp

theorem ruleSiblingsErr_none : ∀ (rs : List StructRule) (k : Nat),
    ruleSiblingsErr rs k = none ↔ ∀ r ∈ rs, r.siblings.all siblingOk = true
  | [], _ => by simp [ruleSiblingsErr]
  | r :: rest, k => by
    simp only [ruleSiblingsErr, List.mem_cons, forall_eq_or_imp]
    cases h : siblingsErr k r.siblings 0 with
    | some f =>
      have : ¬ r.siblings.all siblingOk = true := fun h' => by
        rw [(siblingsErr_none k r.siblings 0).2 h'] at h; cases h
      simp [this]
    | none => simp [(siblingsErr_none k r.siblings 0).1 h, ruleSiblingsErr_none rest (k + 1)]

theorem ruleMixErr_none : ∀ (rs : List StructRule) (k : Nat),
    ruleMixErr rs k = none ↔ ∀ r ∈ rs, (r.hasAllow && r.hasDeny) = false
  | [], _ => by simp [ruleMixErr]
  | r :: rest, k => by
    simp only [ruleMixErr, List.mem_cons, forall_eq_or_imp]
    cases h : (r.hasAllow && r.hasDeny) with
    | true => simp
    | false => simp [ruleMixErr_none rest (k + 1)]

/-! ### the gate accepts exactly the documented domain -/

theorem semantics_none (c : Cfg) :
    semantics c = none ↔
      (F64.inUnit c.warnThreshold = true ∧ warnBelow c.warnAt c.maxLines = true ∧
       (∀ r ∈ c.rules, contentRuleOk c.warnAt r = true) ∧
       c.scannerExcludeOk = true ∧ c.contentExcludeOk = true ∧ c.reportExcludeOk = true ∧
       c.breakdownByOk = true ∧ trendSinceOk c.trendSince = true ∧
       thrOk c.sWarnThreshold = true ∧ thrOk c.sWarnFilesThreshold = true ∧
       thrOk c.sWarnDirsThreshold = true ∧ nonNeg c.sWarnFilesAt = true ∧
       nonNeg c.sWarnDirsAt = true ∧ belowMax c.sWarnFilesAt c.sMaxFiles = true ∧
       belowMax c.sWarnDirsAt c.sMaxDirs = true ∧ ∀ r ∈ c.srules, structRuleOk c r = true) := by
  simp only [semantics, firstErr_cons_none, firstErr_nil, need_none, contentRulesErr_none,
    structRulesSemErr_none, and_true]

theorem checkers_none (c : Cfg) :
    checkers c = none ↔
      ((∀ r ∈ c.rules, r.patternOk = true) ∧ c.contentExcludeOk = true ∧
       limitOk c.sMaxFiles = true ∧ limitOk c.sMaxDirs = true ∧ limitOk c.sMaxDepth = true ∧
       (∀ r ∈ c.srules, limitOk r.maxFiles = true ∧ limitOk r.maxDirs = true ∧ limitOk r.maxDepth = true) ∧
       (∀ r ∈ c.srules, r.siblings.all siblingOk = true) ∧
       (c.sHasAllow && c.sHasDeny) = false ∧
       (∀ r ∈ c.srules, (r.hasAllow && r.hasDeny) = false) ∧
       (∀ r ∈ c.srules, r.scopeOk = true ∧ r.patternsOk = true) ∧ c.sPatternsOk = true) := by
  simp only [checkers, firstErr_cons_none, firstErr_nil, need_none, ruleLimitsErr_none,
    ruleSiblingsErr_none, ruleMixErr_none, List.all_eq_true, Bool.and_eq_true, Bool.not_eq_true',
    and_true]

/-- **the gate accepts exactly the documented domain** -/
theorem gate_ok_iff_inDomain (c : Cfg) : gate c = none ↔ InDomain c := by
  unfold gate
  constructor
  · intro h
    cases hs : semantics c with
    | some f => rw [hs] at h; cases h
    | none =>
      rw [hs] at h
      obtain ⟨a1, a2, a3, a4, a5, a6, a7, a8, a9, a10, a11, a12, a13, a14, a15, a16⟩ :=
        (semantics_none c).1 hs
      obtain ⟨b1, _, b3, b4, b5, b6, b7, b8, b9, b10, b11⟩ := (checkers_none c).1 h
      exact {
        threshold := a1, warnAt := a2,
        rules := fun r hr => ⟨a3 r hr, b1 r hr⟩,
        globs := ⟨a4, a5, b11⟩, stats := ⟨a6, a7, a8⟩, sThresholds := ⟨a9, a10, a11⟩,
        sWarnPoints := ⟨a12, a13, a14, a15⟩, sLimits := ⟨b3, b4, b5⟩, sNoMix := b8,
        srules := fun r hr => by
          refine ⟨a16 r hr, ?_⟩
          simp only [structRuleBuildOk, Bool.and_eq_true, Bool.not_eq_true']
          exact ⟨⟨⟨⟨⟨⟨(b6 r hr).1, (b6 r hr).2.1⟩, (b6 r hr).2.2⟩, b7 r hr⟩, b9 r hr⟩, (b10 r hr).1⟩, (b10 r hr).2⟩ }
  · intro d
    have hs : semantics c = none := (semantics_none c).2
      ⟨d.threshold, d.warnAt, fun r hr => (d.rules r hr).1, d.globs.1, d.globs.2.1, d.stats.1,
       d.stats.2.1, d.stats.2.2, d.sThresholds.1, d.sThresholds.2.1, d.sThresholds.2.2,
       d.sWarnPoints.1, d.sWarnPoints.2.1, d.sWarnPoints.2.2.1, d.sWarnPoints.2.2.2,
       fun r hr => (d.srules r hr).1⟩
    rw [hs]
    refine (checkers_none c).2 ⟨fun r hr => (d.rules r hr).2, d.globs.2.1, d.sLimits.1, d.sLimits.2.1,
      d.sLimits.2.2, ?_, ?_, d.sNoMix, ?_, ?_, d.globs.2.2⟩
    all_goals
      intro r hr
      have hb := (d.srules r hr).2
      simp only [structRuleBuildOk, Bool.and_eq_true, Bool.not_eq_true'] at hb
    · exact ⟨hb.1.1.1.1.1.1, hb.1.1.1.1.1.2, hb.1.1.1.1.2⟩
    · exact hb.1.1.1.2
    · exact hb.1.1.2
    · exact ⟨hb.1.2, hb.2⟩

/-! ### `check` never reaches a verdict outside the domain, flags included -/

/-- whenever `check` goes on to scan and judge files, both the file's configuration and the
    configuration after `--max-lines`, `--warn-threshold`, `--max-files`, `--max-dirs`,
    `--max-depth` are inside the domain -/
theorem proceeds_only_inDomain (c : Cfg) (f : Flags) (h : checkOutcome c f = .proceeds) :
    InDomain c ∧ InDomain (override c f) := by
  unfold checkOutcome at h
  cases h1 : gate c with
  | some x => rw [h1] at h; cases h
  | none =>
    rw [h1] at h
    cases h2 : gate (override c f) with
    | some x => rw [h2] at h; cases h
    | none => exact ⟨(gate_ok_iff_inDomain c).1 h1, (gate_ok_iff_inDomain _).1 h2⟩

/-- the converse: a configuration outside the domain (before or after the flags) is rejected -/
theorem invalid_is_rejected (c : Cfg) (f : Flags) (h : ¬ InDomain c ∨ ¬ InDomain (override c f)) :
    checkOutcome c f ≠ .proceeds := by
  intro hp
  have := proceeds_only_inDomain c f hp
  rcases h with h | h
  · exact h this.1
  · exact h this.2

theorem override_noFlags (c : Cfg) : override c noFlags = c := by
  cases c; simp [override, noFlags]

/-- `config validate` (the load-time gate) accepts exactly the files `check` accepts -/
theorem validate_agrees_with_check (c : Cfg) :
    loadOutcome c = none ↔ checkOutcome c noFlags = .proceeds := by
  unfold loadOutcome checkOutcome
  rw [override_noFlags]
  cases gate c <;> simp

/-- a rejection names a setting that is outside the domain: the named check fails -/
theorem rejection_is_justified (c : Cfg) (f : Field) (h : gate c = some f) : ¬ InDomain c := by
  intro d
  rw [(gate_ok_iff_inDomain c).2 d] at h
  cases h

/-! ### a rejection names a setting that is really outside the domain -/

/-- what it means for the named setting to be at fault -/
def Offends (c : Cfg) : Field → Prop
  | .contentWarnThreshold => F64.inUnit c.warnThreshold = false
  | .contentWarnAt => warnBelow c.warnAt c.maxLines = false
  | .ruleWarnThreshold i => ∃ r, c.rules[i]? = some r ∧ thrOk r.warnThreshold = false
  | .ruleWarnAt i => ∃ r, c.rules[i]? = some r ∧ warnBelow r.warnAt r.maxLines = false
  | .ruleInheritedWarnAt i => ∃ r, c.rules[i]? = some r ∧ inheritedBelow r.warnAt r.warnThreshold c.warnAt r.maxLines = false
  | .ruleExpires i => ∃ r, c.rules[i]? = some r ∧ expiresOk r.expires = false
  | .scannerExclude => c.scannerExcludeOk = false
  | .contentExclude => c.contentExcludeOk = false
  | .reportExclude => c.reportExcludeOk = false
  | .breakdownBy => c.breakdownByOk = false
  | .trendSince => trendSinceOk c.trendSince = false
  | .sWarnThreshold => thrOk c.sWarnThreshold = false
  | .sWarnFilesThreshold => thrOk c.sWarnFilesThreshold = false
  | .sWarnDirsThreshold => thrOk c.sWarnDirsThreshold = false
  | .sWarnFilesAtNeg => nonNeg c.sWarnFilesAt = false
  | .sWarnDirsAtNeg => nonNeg c.sWarnDirsAt = false
  | .sWarnFilesAtMax => belowMax c.sWarnFilesAt c.sMaxFiles = false
  | .sWarnDirsAtMax => belowMax c.sWarnDirsAt c.sMaxDirs = false
  | .srWarnThreshold i => ∃ r, c.srules[i]? = some r ∧ thrOk r.warnThreshold = false
  | .srWarnFilesThreshold i => ∃ r, c.srules[i]? = some r ∧ thrOk r.warnFilesThreshold = false
  | .srWarnDirsThreshold i => ∃ r, c.srules[i]? = some r ∧ thrOk r.warnDirsThreshold = false
  | .srWarnFilesAtNeg i => ∃ r, c.srules[i]? = some r ∧ nonNeg r.warnFilesAt = false
  | .srWarnDirsAtNeg i => ∃ r, c.srules[i]? = some r ∧ nonNeg r.warnDirsAt = false
  | .srWarnFilesAtMax i => ∃ r, c.srules[i]? = some r ∧ belowMax r.warnFilesAt r.maxFiles = false
  | .srWarnDirsAtMax i => ∃ r, c.srules[i]? = some r ∧ belowMax r.warnDirsAt r.maxDirs = false
  | .srEffFiles i => ∃ r, c.srules[i]? = some r ∧
      belowMax (r.warnFilesAt <|> c.sWarnFilesAt) (r.maxFiles <|> c.sMaxFiles) = false
  | .srEffDirs i => ∃ r, c.srules[i]? = some r ∧
      belowMax (r.warnDirsAt <|> c.sWarnDirsAt) (r.maxDirs <|> c.sMaxDirs) = false
  | .srExpires i => ∃ r, c.srules[i]? = some r ∧ expiresOk r.expires = false
  | .rulePattern => ∃ r ∈ c.rules, r.patternOk = false
  | .sMaxFiles => limitOk c.sMaxFiles = false
  | .sMaxDirs => limitOk c.sMaxDirs = false
  | .sMaxDepth => limitOk c.sMaxDepth = false
  | .srMaxFiles i => ∃ r, c.srules[i]? = some r ∧ limitOk r.maxFiles = false
  | .srMaxDirs i => ∃ r, c.srules[i]? = some r ∧ limitOk r.maxDirs = false
  | .srMaxDepth i => ∃ r, c.srules[i]? = some r ∧ limitOk r.maxDepth = false
  | .sibling i j => ∃ r s, c.srules[i]? = some r ∧ r.siblings[j]? = some s ∧ siblingOk s = false
  | .mixGlobal => (c.sHasAllow && c.sHasDeny) = true
  | .mixRule i => ∃ r, c.srules[i]? = some r ∧ (r.hasAllow && r.hasDeny) = true
  | .structPattern => (∃ r ∈ c.srules, (r.scopeOk && r.patternsOk) = false) ∨ c.sPatternsOk = false

theorem need_some (ok : Bool) (f g : Field) (h : need ok f = some g) : g = f ∧ ok = false := by
  cases ok <;> simp_all [need]

theorem firstErr_some : ∀ (l : List (Option Field)) (f : Field), firstErr l = some f → some f ∈ l
  | [], _, h => by simp [firstErr] at h
  | none :: rest, f, h => by
    simp only [firstErr] at h
    exact List.mem_cons_of_mem _ (firstErr_some rest f h)
  | some g :: rest, f, h => by
    simp only [firstErr, Option.some.injEq] at h
    simp [h]

theorem contentRulesErr_some (gw : Option Nat) : ∀ (rs : List ContentRule) (k : Nat) (f : Field),
    contentRulesErr gw rs k = some f → ∃ j r, rs[j]? = some r ∧ contentRuleErr gw (k + j) r = some f
  | [], _, _, h => by simp [contentRulesErr] at h
  | r :: rest, k, f, h => by
    simp only [contentRulesErr] at h
    cases hr : contentRuleErr gw k r with
    | some g => rw [hr] at h; cases h; exact ⟨0, r, by simp, by simpa using hr⟩
    | none =>
      rw [hr] at h
      obtain ⟨j, x, hx, hf⟩ := contentRulesErr_some gw rest (k + 1) f h
      exact ⟨j + 1, x, by simpa using hx, by rw [← hf]; congr 1; omega⟩

theorem structRulesSemErr_some (c : Cfg) : ∀ (rs : List StructRule) (k : Nat) (f : Field),
    structRulesSemErr c rs k = some f → ∃ j r, rs[j]? = some r ∧ structRuleSemErr c (k + j) r = some f
  | [], _, _, h => by simp [structRulesSemErr] at h
  | r :: rest, k, f, h => by
    simp only [structRulesSemErr] at h
    cases hr : structRuleSemErr c k r with
    | some g => rw [hr] at h; cases h; exact ⟨0, r, by simp, by simpa using hr⟩
    | none =>
      rw [hr] at h
      obtain ⟨j, x, hx, hf⟩ := structRulesSemErr_some c rest (k + 1) f h
      exact ⟨j + 1, x, by simpa using hx, by rw [← hf]; congr 1; omega⟩

theorem ruleLimitsErr_some : ∀ (rs : List StructRule) (k : Nat) (f : Field),
    ruleLimitsErr rs k = some f → ∃ j r, rs[j]? = some r ∧
      firstErr [need (limitOk r.maxFiles) (.srMaxFiles (k + j)), need (limitOk r.maxDirs) (.srMaxDirs (k + j)),
        need (limitOk r.maxDepth) (.srMaxDepth (k + j))] = some f
  | [], _, _, h => by simp [ruleLimitsErr] at h
  | r :: rest, k, f, h => by
    simp only [ruleLimitsErr] at h
    cases hr : firstErr [need (limitOk r.maxFiles) (.srMaxFiles k), need (limitOk r.maxDirs) (.srMaxDirs k),
        need (limitOk r.maxDepth) (.srMaxDepth k)] with
    | some g => rw [hr] at h; cases h; exact ⟨0, r, by simp, by simpa using hr⟩
    | none =>
      rw [hr] at h
      obtain ⟨j, x, hx, hf⟩ := ruleLimitsErr_some rest (k + 1) f h
      refine ⟨j + 1, x, by simpa using hx, ?_⟩
      have e : k + 1 + j = k + (j + 1) := by omega
      rw [e] at hf; exact hf

theorem siblingsErr_some (i : Nat) : ∀ (ss : List Sibling) (j : Nat) (f : Field),
    siblingsErr i ss j = some f → ∃ m s, ss[m]? = some s ∧ siblingOk s = false ∧ f = .sibling i (j + m)
  | [], _, _, h => by simp [siblingsErr] at h
  | s :: rest, j, f, h => by
    simp only [siblingsErr] at h
    cases hs : siblingOk s with
    | false => simp only [hs, Bool.false_eq_true, if_false, Option.some.injEq] at h; exact ⟨0, s, by simp, hs, h.symm⟩
    | true =>
      simp only [hs, if_true] at h
      obtain ⟨m, x, hx, hok, hf⟩ := siblingsErr_some i rest (j + 1) f h
      exact ⟨m + 1, x, by simpa using hx, hok, by rw [hf]; congr 1; omega⟩

theorem ruleSiblingsErr_some : ∀ (rs : List StructRule) (k : Nat) (f : Field),
    ruleSiblingsErr rs k = some f → ∃ j r m s, rs[j]? = some r ∧ r.siblings[m]? = some s ∧
      siblingOk s = false ∧ f = .sibling (k + j) m
  | [], _, _, h => by simp [ruleSiblingsErr] at h
  | r :: rest, k, f, h => by
    simp only [ruleSiblingsErr] at h
    cases hr : siblingsErr k r.siblings 0 with
    | some g =>
      rw [hr] at h; cases h
      obtain ⟨m, s, hs, hok, hf⟩ := siblingsErr_some k r.siblings 0 _ hr
      exact ⟨0, r, m, s, by simp, hs, hok, by simpa using hf⟩
    | none =>
      rw [hr] at h
      obtain ⟨j, x, m, s, hx, hs, hok, hf⟩ := ruleSiblingsErr_some rest (k + 1) f h
      exact ⟨j + 1, x, m, s, by simpa using hx, hs, hok, by rw [hf]; congr 1; omega⟩

theorem ruleMixErr_some : ∀ (rs : List StructRule) (k : Nat) (f : Field),
    ruleMixErr rs k = some f → ∃ j r, rs[j]? = some r ∧ (r.hasAllow && r.hasDeny) = true ∧ f = .mixRule (k + j)
  | [], _, _, h => by simp [ruleMixErr] at h
  | r :: rest, k, f, h => by
    simp only [ruleMixErr] at h
    cases hm : (r.hasAllow && r.hasDeny) with
    | true => simp only [hm, if_true, Option.some.injEq] at h; exact ⟨0, r, by simp, hm, h.symm⟩
    | false =>
      simp only [hm, Bool.false_eq_true, if_false] at h
      obtain ⟨j, x, hx, hok, hf⟩ := ruleMixErr_some rest (k + 1) f h
      exact ⟨j + 1, x, by simpa using hx, hok, by rw [hf]; congr 1; omega⟩

/-- **the diagnostic names a setting that is at fault**: whatever field the gate names, that
    field's own condition fails (for a rule field: of the rule with that index) -/
theorem rejection_names_offender (c : Cfg) (f : Field) (h : gate c = some f) : Offends c f := by
  unfold gate at h
  cases hs : semantics c with
  | some g =>
    rw [hs] at h; cases h
    have hm := firstErr_some _ _ hs
    simp only [semantics, List.mem_cons, List.mem_nil_iff, or_false] at hm
    rcases hm with hm | hm | hm | hm | hm | hm | hm | hm | hm | hm | hm | hm | hm | hm | hm | hm
    all_goals (first
      | (obtain ⟨rfl, hb⟩ := need_some _ _ _ hm.symm; simpa [Offends] using hb)
      | skip)
    · -- content rules
      obtain ⟨j, r, hr, hf⟩ := contentRulesErr_some c.warnAt c.rules 0 _ hm.symm
      have hm2 := firstErr_some _ _ hf
      simp only [contentRuleErr, List.mem_cons, List.mem_nil_iff, or_false, Nat.zero_add] at hm2
      rcases hm2 with hm2 | hm2 | hm2 | hm2 <;>
        (obtain ⟨rfl, hb⟩ := need_some _ _ _ hm2.symm; exact ⟨r, hr, hb⟩)
    · -- structure rules
      obtain ⟨j, r, hr, hf⟩ := structRulesSemErr_some c c.srules 0 _ hm.symm
      have hm2 := firstErr_some _ _ hf
      simp only [structRuleSemErr, List.mem_cons, List.mem_nil_iff, or_false, Nat.zero_add] at hm2
      rcases hm2 with hm2 | hm2 | hm2 | hm2 | hm2 | hm2 | hm2 | hm2 | hm2 | hm2 <;>
        (obtain ⟨rfl, hb⟩ := need_some _ _ _ hm2.symm; exact ⟨r, hr, hb⟩)
  | none =>
    rw [hs] at h
    have hm := firstErr_some _ _ h
    simp only [checkers, List.mem_cons, List.mem_nil_iff, or_false] at hm
    rcases hm with hm | hm | hm | hm | hm | hm | hm | hm | hm | hm | hm
    · obtain ⟨rfl, hb⟩ := need_some _ _ _ hm.symm
      simp only [List.all_eq_false] at hb
      obtain ⟨r, hr, hp⟩ := hb
      exact ⟨r, hr, by simpa using hp⟩
    · obtain ⟨rfl, hb⟩ := need_some _ _ _ hm.symm; exact hb
    · obtain ⟨rfl, hb⟩ := need_some _ _ _ hm.symm; exact hb
    · obtain ⟨rfl, hb⟩ := need_some _ _ _ hm.symm; exact hb
    · obtain ⟨rfl, hb⟩ := need_some _ _ _ hm.symm; exact hb
    · obtain ⟨j, r, hr, hf⟩ := ruleLimitsErr_some c.srules 0 _ hm.symm
      have hm2 := firstErr_some _ _ hf
      simp only [List.mem_cons, List.mem_nil_iff, or_false, Nat.zero_add] at hm2
      rcases hm2 with hm2 | hm2 | hm2 <;>
        (obtain ⟨rfl, hb⟩ := need_some _ _ _ hm2.symm; exact ⟨r, hr, hb⟩)
    · obtain ⟨j, r, m, s, hr, hsb, hok, rfl⟩ := ruleSiblingsErr_some c.srules 0 _ hm.symm
      exact ⟨r, s, by simpa using hr, hsb, hok⟩
    · obtain ⟨rfl, hb⟩ := need_some _ _ _ hm.symm
      simpa [Offends] using hb
    · obtain ⟨j, r, hr, hmix, rfl⟩ := ruleMixErr_some c.srules 0 _ hm.symm
      exact ⟨r, by simpa using hr, hmix⟩
    · obtain ⟨rfl, hb⟩ := need_some _ _ _ hm.symm
      simp only [List.all_eq_false] at hb
      obtain ⟨r, hr, hp⟩ := hb
      exact Or.inl ⟨r, hr, by simpa using hp⟩
    · obtain ⟨rfl, hb⟩ := need_some _ _ _ hm.symm
      exact Or.inr hb

/-! ### thresholds: what "within [0, 1]" means on IEEE-754 values -/

/-- the range test rejects NaN, both infinities and every negative number except `-0.0`, and
    accepts a finite non-negative value iff it is at most 1.0 -/
theorem threshold_range (bits : Nat) :
    F64.inUnit bits = true ↔
      ∃ neg u, F64.decode bits = .fin neg u ∧ (if neg then u = 0 else u ≤ F64.one) := by
  unfold F64.inUnit
  cases F64.decode bits with
  | nan => simp
  | inf n => simp
  | fin neg u => cases neg <;> simp

example : F64.inUnit 0x7FF8000000000000 = false := by decide +kernel          -- NaN
example : F64.inUnit 0x7FF0000000000000 = false := by decide +kernel          -- +inf
example : F64.inUnit 0xC00C000000000000 = false := by decide +kernel          -- -3.5
example : F64.inUnit 0x401E000000000000 = false := by decide +kernel          -- 7.5
example : F64.inUnit 0x3FF0000000000000 = true := by decide +kernel           -- 1.0
example : F64.inUnit 0x3FF0000000000001 = false := by decide +kernel          -- the next double after 1.0
example : F64.inUnit 0x8000000000000000 = true := by decide +kernel           -- -0.0

/-! ### dates -/

example : dateOk "2026-12-31".toList = true := by decide +kernel
example : dateOk "junk".toList = false := by decide +kernel
example : dateOk "2025-13-01".toList = false := by decide +kernel
example : dateOk "2025-00-10".toList = false := by decide +kernel
example : dateOk "2025-1-1".toList = true := by decide +kernel
example : dateOk "99999-01-01".toList = false := by decide +kernel
example : dateOk "2025-01-01-".toList = false := by decide +kernel

example : dateOk "2024-02-29".toList = true := by decide +kernel
example : dateOk "2023-02-29".toList = false := by decide +kernel
example : dateOk "2100-02-29".toList = false := by decide +kernel
example : dateOk "2000-02-29".toList = true := by decide +kernel
example : dateOk "2025-04-31".toList = false := by decide +kernel
example : dateOk "2025-02-30".toList = false := by decide +kernel

theorem daysInMonth_le (y m : Nat) : 28 ≤ daysInMonth y m ∧ daysInMonth y m ≤ 31 := by
  unfold daysInMonth
  split
  · omega
  · split
    · split <;> omega
    · omega

/-- an accepted date has three `-`-separated numeric parts naming a day that exists: month 1–12
    and day 1 … the length of that month in that year (29 February only in leap years) -/
theorem dateOk_shape (s : List Char) (h : dateOk s = true) :
    ∃ y m d yv mv dv, splitDash s [] = [y, m, d] ∧ parseUnsigned 65535 y = some yv ∧
      parseUnsigned 255 m = some mv ∧ parseUnsigned 255 d = some dv ∧
      1 ≤ mv ∧ mv ≤ 12 ∧ 1 ≤ dv ∧ dv ≤ daysInMonth yv mv := by
  unfold dateOk at h
  split at h
  · rename_i y m d hs
    split at h
    · rename_i yv mv dv hy hm hd
      simp only [Bool.and_eq_true, decide_eq_true_eq] at h
      exact ⟨y, m, d, yv, mv, dv, hs, hy, hm, hd, h.1.1.1, h.1.1.2, h.1.2, h.2⟩
    · cases h
  · cases h

/-! ### non-vacuity: a configuration inside the domain, and single-field mutations outside it -/

def exRule : ContentRule :=
  { patternOk := true, maxLines := 1000, warnThreshold := some 0x3FE0000000000000, warnAt := none,
    expires := some "2030-01-01".toList }
def exSRule : StructRule :=
  { scopeOk := true, maxFiles := some 30, maxDirs := none, maxDepth := some (-1), warnThreshold := none,
    warnFilesThreshold := none, warnDirsThreshold := none, warnFilesAt := some 25, warnDirsAt := none,
    hasAllow := true, hasDeny := false, patternsOk := true, expires := none,
    siblings := [.directed false ["{stem}.test.ts".toList], .group ["{stem}.c".toList, "{stem}.h".toList]] }
def exCfg : Cfg :=
  { warnThreshold := 0x3FECCCCCCCCCCCCD, maxLines := 600, warnAt := some 500, rules := [exRule],
    scannerExcludeOk := true, contentExcludeOk := true, reportExcludeOk := true, breakdownByOk := true,
    trendSince := some "7d".toList, sMaxFiles := some 50, sMaxDirs := some 10, sMaxDepth := none,
    sWarnThreshold := some 0x3FE999999999999A, sWarnFilesThreshold := none, sWarnDirsThreshold := none,
    sWarnFilesAt := some 40, sWarnDirsAt := none, sHasAllow := false, sHasDeny := true,
    sPatternsOk := true, srules := [exSRule] }

example : gate exCfg = none := by decide +kernel
example : checkOutcome exCfg noFlags = .proceeds := by decide +kernel
/-- `--warn-threshold 7.5` -/
example : checkOutcome exCfg { noFlags with warnThreshold := some 0x401E000000000000 } =
    .rejectedAfterFlags .contentWarnThreshold := by decide +kernel
/-- `--max-lines 400` against `warn_at = 500` -/
example : checkOutcome exCfg { noFlags with maxLines := some 400 } = .rejectedAfterFlags .contentWarnAt := by
  decide +kernel
/-- `--max-files 20` against the rule-inherited warn point is caught per rule -/
example : checkOutcome exCfg { noFlags with maxFiles := some 30 } = .rejectedAfterFlags .sWarnFilesAtMax := by
  decide +kernel
example : gate { exCfg with rules := [{ exRule with warnThreshold := some 0xC00C000000000000 }] } =
    some (.ruleWarnThreshold 0) := by decide +kernel
example : gate { exCfg with rules := [{ exRule with expires := some "junk".toList }] } =
    some (.ruleExpires 0) := by decide +kernel
example : gate { exCfg with rules := [{ exRule with maxLines := 300, warnThreshold := none }] } =
    some (.ruleInheritedWarnAt 0) := by decide +kernel
example : gate { exCfg with sMaxFiles := some (-5) } = some .sMaxFiles := by decide +kernel
example : gate { exCfg with srules := [{ exSRule with maxFiles := none, warnFilesAt := some 60 }] } =
    some (.srEffFiles 0) := by decide +kernel
example : gate { exCfg with srules := [{ exSRule with siblings := [.group ["{stem}.c".toList]] }] } =
    some (.sibling 0 0) := by decide +kernel
example : gate { exCfg with srules := [{ exSRule with hasDeny := true }] } = some (.mixRule 0) := by decide +kernel

/-! ### every built-in preset passes the gate (regenerated from src/config/presets.rs) -/

theorem presets_pass : ∀ p ∈ Generated.presets, gate p.2 = none := by decide +kernel

end SlocModel.Props.C17
