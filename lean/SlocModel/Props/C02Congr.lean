import SlocModel.Props.C02Grammar
/-!
  C02, tier B — the same theorem for syntaxes that differ from the C family only in *additional*
  line-comment prefixes that begin with `//` (`///` in C# and Dart): the counter cannot tell them
  apart, so `classify_render` carries over.
-/
namespace SlocModel.Props.C02
open SlocModel SlocModel.Counter

section congr
set_option linter.unusedSectionVars false
variable (s1 s2 : Syntax) (hm : s1.multi = s2.multi)
  (hs : ∀ t, isSingleLineComment s1 t = isSingleLineComment s2 t)
include hm hs

theorem findMultiLineStart_congr (line : List Char) :
    findMultiLineStart s1 line = findMultiLineStart s2 line := by
  unfold findMultiLineStart; rw [hm]

theorem trackState_congr (line : List Char) (st : MLState) :
    trackState s1 line st = trackState s2 line st := by
  unfold trackState; rw [findMultiLineStart_congr s1 s2 hm hs]

theorem hasDirective_congr (d t : List Char) : hasDirective s1 d t = hasDirective s2 d t := by
  unfold hasDirective; rw [hs]

theorem parseIgnoreNext_congr (t : List Char) : parseIgnoreNext s1 t = parseIgnoreNext s2 t := by
  unfold parseIgnoreNext; rw [hs]

theorem directiveOf_congr (t : List Char) (st : St) : directiveOf s1 t st = directiveOf s2 t st := by
  unfold directiveOf
  rw [hs, hasDirective_congr s1 s2 hm hs, hasDirective_congr s1 s2 hm hs,
    parseIgnoreNext_congr s1 s2 hm hs]

theorem ladder_congr (line : List Char) (st : St) : ladder s1 line st = ladder s2 line st := by
  unfold ladder
  rw [trackState_congr s1 s2 hm hs, findMultiLineStart_congr s1 s2 hm hs, hs]

theorem processLine_congr (line : List Char) (st : St) :
    processLine s1 line st = processLine s2 line st := by
  unfold processLine
  rw [directiveOf_congr s1 s2 hm hs, ladder_congr s1 s2 hm hs]

theorem classifyLines_congr (ls : List (List Char)) (seen : Nat) (st : St) :
    classifyLines s1 ls seen st = classifyLines s2 ls seen st := by
  induction ls generalizing seen st with
  | nil => simp [classifyLines]
  | cons l r ih =>
    unfold classifyLines
    have hi : hasIgnoreFile s1 l = hasIgnoreFile s2 l := by
      unfold hasIgnoreFile; exact hasDirective_congr s1 s2 hm hs _ _
    rw [hi, processLine_congr s1 s2 hm hs]
    simp only [ih]

/-- two syntaxes with the same block markers and the same notion of "starts with a line-comment
    prefix" are indistinguishable to the counter -/
theorem classes_congr (src : List Char) : classes s1 src = classes s2 src := by
  unfold classes; exact classifyLines_congr s1 s2 hm hs _ _ _

end congr

/-- C# and Dart: `//` and `///` line comments, `/* */` blocks -/
def docSyn : Syntax :=
  { single := [['/', '/'], ['/', '/', '/']], multi := [MultiLine.plain ['/', '*'] ['*', '/']] }

theorem prefix3_imp_prefix2 (t : List Char) (h : ['/', '/', '/'].isPrefixOf t = true) :
    ['/', '/'].isPrefixOf t = true := by
  match t, h with
  | [], h => simp [List.isPrefixOf] at h
  | [_], h => simp [List.isPrefixOf] at h
  | [_, _], h => simp [List.isPrefixOf] at h
  | a :: b :: c :: r, h =>
    simp only [List.isPrefixOf, Bool.and_eq_true] at h ⊢
    exact ⟨h.1, h.2.1, trivial⟩

theorem docSyn_single (t : List Char) :
    isSingleLineComment docSyn t = isSingleLineComment cSyn t := by
  simp only [isSingleLineComment, docSyn, cSyn, List.any_cons, List.any_nil, Bool.or_false]
  cases h3 : ['/', '/', '/'].isPrefixOf t with
  | false => simp
  | true => simp [prefix3_imp_prefix2 t h3]

/-- **C02, token level, for C# and Dart**: the programs of the C-family grammar are classified
    as their ground truth under the `//` + `///` syntax as well -/
theorem classify_render_doc (p : List Chunk) (hok : ∀ c ∈ p, c.ok = true) :
    AgreesWithTruth docSyn (render p) (truth p) := by
  unfold AgreesWithTruth
  rw [classes_congr docSyn cSyn rfl docSyn_single]
  exact classify_render p hok

/-- the built-in languages with that syntax (regenerated table) -/
theorem docFamily_builtins :
    (Generated.builtins.filter (fun l => l.syn == docSyn)).map (·.name) =
      ["Dart".toList, "C#".toList] := by decide

end SlocModel.Props.C02
