import SlocModel.Props.C02Grammar
/-!
  C02, token level — `ignore-next N` in the C-family grammar: a directive line (a whole-line line
  comment that parses to `N`) followed by `N` single-line chunks of any kind.  The directive is a
  comment, exactly the next `N` lines are ignored — code, blank, comment or block comment alike —
  and the line after them is classified as if the directive were not there.
-/
namespace SlocModel.Props.C02
open SlocModel SlocModel.Counter

/-- chunks that are one physical line and leave the counter's state untouched -/
def _root_.SlocModel.Counter.Chunk.isSingle : Chunk → Bool
  | .block .. => false
  | _ => true

/-- the one line of a single-line chunk -/
def _root_.SlocModel.Counter.Chunk.line : Chunk → List Char
  | .blank ws => ws
  | .code toks none => renderToks toks
  | .code toks (some t) => renderToks toks ++ (linePrefix ++ t)
  | .lineComment ws t => ws ++ (linePrefix ++ t)
  | .blockOne ws body trail => ws ++ (opener ++ (body ++ (closer ++ trail)))
  | .block ws body _ _ _ => ws ++ (opener ++ body)

theorem single_lines (c : Chunk) (h : c.isSingle = true) : c.lines = [c.line] := by
  cases c with
  | code toks cmt => cases cmt <;> rfl
  | block => simp [Chunk.isSingle] at h
  | _ => rfl

/-- a single-line chunk is not a directive and, counted from the initial state, leaves the state
    untouched -/
theorem single_facts (c : Chunk) (hs : c.isSingle = true) (hok : c.ok = true) :
    NoDirective cSyn c.line ∧ hasIgnoreFile cSyn c.line = false ∧
      trackState cSyn c.line .notIn = .notIn := by
  -- from `chunk_run` on the one-line program: the state after the line is the initial one
  have hrun : ∃ cls, processLine cSyn c.line st0 = (cls, st0) ∧ hasIgnoreFile cSyn c.line = false ∧
      NoDirective cSyn c.line ∧
      ((trim c.line).isEmpty = false ∨ findMultiLineStart cSyn c.line = none) := by
    cases c with
    | blank ws =>
      obtain ⟨h1, h2⟩ := blank_line ws hok
      have ht := trim_all_ws ws (wsOk_ws ws hok)
      refine ⟨_, h1, h2, Or.inl (by rw [Chunk.line, ht]; rfl), Or.inr ?_⟩
      rw [Chunk.line, cSyn_start, opener]
      have := go_skip_safe '/' ['*'] ws [] 0 (fun c hc => isWs_props c (wsOk_ws ws hok c hc))
      rw [List.append_nil] at this
      rw [this, findOutsideGo_nil]; rfl
    | code toks cmt =>
      simp only [Chunk.ok, Bool.and_eq_true] at hok
      obtain ⟨⟨⟨h1, h2⟩, h3⟩, h4⟩ := hok
      obtain ⟨c0, hc0⟩ := firstNonWs_of_any _ h3
      have hne0 := firstNonWs_toks toks h1 c0 hc0
      cases cmt with
      | none =>
        have := code_line toks [] h1 h2 h3 (Or.inl rfl) (by decide)
        simp only [List.append_nil] at this
        obtain ⟨ws, t, e, hws, hcw⟩ := firstNonWs_split _ c0 hc0
        have htrim : trim (renderToks toks) = c0 :: trimEnd t := by
          rw [e]; exact trim_ws_cons ws c0 t hws hcw
        have hlc : isSingleLineComment cSyn (trim (renderToks toks)) = false := by
          rw [cSyn_single, htrim]; simp [linePrefix, List.isPrefixOf, Ne.symm hne0]
        exact ⟨_, this.1, this.2, Or.inl hlc, Or.inl (by rw [Chunk.line, htrim]; rfl)⟩
      | some t =>
        simp only [Bool.and_eq_true, Bool.not_eq_true'] at h4
        have := code_line toks (linePrefix ++ t) h1 h2 h3 (Or.inr ⟨t, rfl⟩) h4.2
        have hc' : firstNonWs (renderToks toks ++ (linePrefix ++ t)) = some c0 := by
          rw [firstNonWs_append, hc0]; rfl
        obtain ⟨ws, t', e, hws, hcw⟩ := firstNonWs_split _ c0 hc'
        have htrim : trim (renderToks toks ++ (linePrefix ++ t)) = c0 :: trimEnd t' := by
          rw [e]; exact trim_ws_cons ws c0 t' hws hcw
        have hlc : isSingleLineComment cSyn (trim (renderToks toks ++ (linePrefix ++ t))) = false := by
          rw [cSyn_single, htrim]; simp [linePrefix, List.isPrefixOf, Ne.symm hne0]
        exact ⟨_, this.1, this.2, Or.inl hlc, Or.inl (by rw [Chunk.line, htrim]; rfl)⟩
    | lineComment ws t =>
      simp only [Chunk.ok, Bool.and_eq_true, Bool.not_eq_true'] at hok
      obtain ⟨⟨⟨h1, _⟩, h3⟩, h4⟩ := hok
      have := lineComment_line ws t h1 h3 h4
      obtain ⟨f1, f2, _⟩ := lineComment_facts ws t h1 h3
      exact ⟨_, this.1, this.2, (noDirectiveB_spec _ h4).1, Or.inl f2⟩
    | blockOne ws body trail =>
      simp only [Chunk.ok, Bool.and_eq_true, Bool.not_eq_true'] at hok
      obtain ⟨⟨⟨h1, h2⟩, _⟩, h4⟩ := hok
      have hq : ∀ c ∈ body ++ (closer ++ trail), notQuote c = true := by
        intro c hc
        simp only [List.mem_append] at hc
        rcases hc with hc | hc | hc
        · exact quoteFree_spec body h2 c hc
        · simp only [closer, List.mem_cons, List.not_mem_nil, or_false] at hc
          rcases hc with rfl | rfl <;> decide
        · exact (isWs_props c (wsOk_ws trail h4 c hc)).1
      have := opener_line ws (body ++ (closer ++ trail)) h1 hq
      rw [findSub_closer_after] at this
      have hw := wsOk_ws ws h1
      have htrim : trim (ws ++ (opener ++ (body ++ (closer ++ trail)))) =
          '/' :: '*' :: trimEnd (body ++ (closer ++ trail)) := by
        simp only [opener, List.cons_append, List.nil_append]
        rw [trim_ws_cons ws '/' _ hw (by decide), trimEnd_cons '*' _ (by decide)]
      have hlc : isSingleLineComment cSyn (trim (ws ++ (opener ++ (body ++ (closer ++ trail))))) = false := by
        rw [cSyn_single, htrim]; rfl
      have h1' : processLine cSyn (Chunk.blockOne ws body trail).line st0 = (.comment, st0) := by
        simpa [Chunk.line] using this.1
      exact ⟨_, h1', this.2, Or.inl hlc, Or.inl (by rw [Chunk.line, htrim]; rfl)⟩
    | block => simp [Chunk.isSingle] at hs
  obtain ⟨cls, hp, hi, hnd, hne⟩ := hrun
  refine ⟨hnd, hi, ?_⟩
  have := track_state_commutes cSyn c.line st0 counting_st0 hnd hne
  rw [hp] at this
  exact this.symm


/-! ### programs with `ignore-next` -/

inductive IChunk where
  | plain (c : Chunk)
  /-- a directive line, the number it parses to, the single-line chunks it removes -/
  | ignoreNext (dir : List Char) (n : Nat) (victims : List Chunk)
  deriving Repr

def dirOk (dir : List Char) (n : Nat) : Bool :=
  dir.all lineChar && isSingleLineComment cSyn (trim dir) &&
    !containsSub Generated.ignoreEndDirective (trim dir) &&
    !containsSub Generated.ignoreStartDirective (trim dir) &&
    !containsSub Generated.ignoreFileDirective (trim dir) &&
    parseIgnoreNext cSyn (trim dir) == some n

def IChunk.lines : IChunk → List (List Char)
  | .plain c => c.lines
  | .ignoreNext dir _ vs => dir :: vs.map Chunk.line

def IChunk.truth : IChunk → List LineClass
  | .plain c => c.truth
  | .ignoreNext _ _ vs => .comment :: vs.map (fun _ => LineClass.ignored)

def IChunk.ok : IChunk → Bool
  | .plain c => c.ok
  | .ignoreNext dir n vs => dirOk dir n && vs.length == n && vs.all (fun v => v.isSingle && v.ok)

def irenderLines (p : List IChunk) : List (List Char) := p.flatMap IChunk.lines
def irender (p : List IChunk) : List Char := (irenderLines p).flatMap (· ++ ['\n'])
def itruth (p : List IChunk) : List LineClass := p.flatMap IChunk.truth

/-- the directive line: a comment that arms `ignore-next n` -/
theorem directive_line (dir : List Char) (n : Nat) (h : dirOk dir n = true) :
    processLine cSyn dir st0 = (.comment, { st0 with ignoreRemaining := n }) ∧
      hasIgnoreFile cSyn dir = false := by
  simp only [dirOk, Bool.and_eq_true, Bool.not_eq_true', beq_iff_eq] at h
  obtain ⟨⟨⟨⟨⟨_, h2⟩, h3⟩, h4⟩, h5⟩, h6⟩ := h
  constructor
  · unfold processLine directiveOf
    simp [h2, hasDirective, h3, h4, h6]
  · simp [hasIgnoreFile, hasDirective, h5]

/-- the removed lines: each is `ignored`, whatever it is, and consumes one of the pending count -/
theorem victims_run (vs : List Chunk) (hok : vs.all (fun v => v.isSingle && v.ok) = true)
    (rest : List (List Char)) (seen : Nat) :
    classifyLines cSyn (vs.map Chunk.line ++ rest) seen { st0 with ignoreRemaining := vs.length } =
      (classifyLines cSyn rest (seen + vs.length) st0).map
        (vs.map (fun _ => LineClass.ignored) ++ ·) := by
  induction vs generalizing seen with
  | nil => simp [st0]
  | cons v r ih =>
    simp only [List.all_cons, Bool.and_eq_true] at hok
    obtain ⟨⟨hs, hv⟩, hr⟩ := hok
    obtain ⟨hnd, hi, htr⟩ := single_facts v hs hv
    have hstep := ignore_next_step cSyn v.line { st0 with ignoreRemaining := r.length + 1 } r.length
      rfl rfl hnd
    have hp : processLine cSyn v.line { st0 with ignoreRemaining := (v :: r).length } =
        (.ignored, { st0 with ignoreRemaining := r.length }) := by
      simp only [List.length_cons]
      obtain ⟨a, b, c, d⟩ := hstep
      have hst : (processLine cSyn v.line { st0 with ignoreRemaining := r.length + 1 }).2 =
          { st0 with ignoreRemaining := r.length } := by
        cases hx : (processLine cSyn v.line { st0 with ignoreRemaining := r.length + 1 }).2 with
        | mk ml ir ib =>
          rw [hx] at b c d
          simp only at b c d
          simp only [st0] at d htr ⊢
          rw [htr] at d
          simp [b, c, d]
      exact Prod.ext a hst
    simp only [List.map_cons, List.cons_append]
    rw [classify_cons v.line _ seen _ _ .ignored hp hi, ih hr]
    have : seen + 1 + r.length = seen + (v :: r).length := by simp only [List.length_cons]; omega
    rw [this]
    cases classifyLines cSyn rest (seen + (v :: r).length) st0 <;> simp

theorem ichunk_run (c : IChunk) (hok : c.ok = true) (rest : List (List Char)) (seen : Nat) :
    classifyLines cSyn (c.lines ++ rest) seen st0 =
      (classifyLines cSyn rest (seen + c.lines.length) st0).map (c.truth ++ ·) := by
  cases c with
  | plain c => exact chunk_run c hok rest seen
  | ignoreNext dir n vs =>
    simp only [IChunk.ok, Bool.and_eq_true, beq_iff_eq] at hok
    obtain ⟨⟨hd, hlen⟩, hvs⟩ := hok
    obtain ⟨hp, hi⟩ := directive_line dir n hd
    subst hlen
    simp only [IChunk.lines, IChunk.truth, List.cons_append, List.length_cons, List.length_map]
    rw [classify_cons dir _ seen st0 _ .comment hp hi, victims_run vs hvs]
    have : seen + 1 + vs.length = seen + (vs.length + 1) := by omega
    rw [this]
    cases classifyLines cSyn rest (seen + (vs.length + 1)) st0 <;> simp

theorem iprogram_run (p : List IChunk) (hok : ∀ c ∈ p, c.ok = true) (seen : Nat) :
    classifyLines cSyn (irenderLines p) seen st0 = some (itruth p) := by
  induction p generalizing seen with
  | nil => simp [irenderLines, itruth, classifyLines]
  | cons c r ih =>
    have hr : irenderLines (c :: r) = c.lines ++ irenderLines r := by simp [irenderLines]
    have ht : itruth (c :: r) = c.truth ++ itruth r := by simp [itruth]
    rw [hr, ht, ichunk_run c (hok c (by simp)), ih (fun x hx => hok x (by simp [hx]))]
    rfl

theorem single_line_ok (v : Chunk) (hs : v.isSingle = true) (hv : v.ok = true) :
    ∀ ch ∈ v.line, lineChar ch = true := by
  have := chunk_lines_ok v hv v.line (by rw [single_lines v hs]; simp)
  exact this

/-- **C02, token level, with `ignore-next`**: the directive line is a comment, exactly the next
    `N` lines are ignored whatever they are, and every other line keeps its ground-truth class -/
theorem classify_render_ignore (p : List IChunk) (hok : ∀ c ∈ p, c.ok = true) :
    AgreesWithTruth cSyn (irender p) (itruth p) := by
  unfold AgreesWithTruth classes irender
  rw [splitLines_join]
  · exact iprogram_run p hok 0
  · intro l hl
    simp only [irenderLines, List.mem_flatMap] at hl
    obtain ⟨c, hc, hl⟩ := hl
    have hcok := hok c hc
    cases c with
    | plain c => exact chunk_lines_ok c hcok l hl
    | ignoreNext dir n vs =>
      simp only [IChunk.ok, Bool.and_eq_true, beq_iff_eq] at hcok
      obtain ⟨⟨hd, _⟩, hvs⟩ := hcok
      simp only [IChunk.lines, List.mem_cons, List.mem_map] at hl
      rcases hl with rfl | ⟨v, hv, rfl⟩
      · simp only [dirOk, Bool.and_eq_true] at hd
        exact fun ch hch => List.all_eq_true.mp hd.1.1.1.1.1 ch hch
      · have := List.all_eq_true.mp hvs v hv
        simp only [Bool.and_eq_true] at this
        exact single_line_ok v this.1 this.2

/-! non-vacuity: a directive that removes a code line, a blank line, a comment and a one-line
    block comment; the line after them is code again -/
def isample : List IChunk :=
  [ .plain (.code [.word "int a;".toList] none),
    .ignoreNext "  // sloc-guard:ignore-next 4 generated".toList 4
      [ .code [.word "int b = ".toList, .lit '"' [.plain '/', .plain '*']] (some " x".toList),
        .blank [' '],
        .lineComment [] " it's".toList,
        .blockOne [] " c ".toList [] ],
    .plain (.code [.word "int z;".toList] none) ]

example : ∀ c ∈ isample, c.ok = true := by decide
example : itruth isample = [.code, .comment, .ignored, .ignored, .ignored, .ignored, .code] := by decide
example : classes cSyn (irender isample) = some (itruth isample) := by decide

end SlocModel.Props.C02
