import SlocModel.Props.C20
/-!
  C20 — the line totals of the HTML check report (fix e7a81eb): the summary cards are the sums
  over the *file* rows; the synthetic statistics of a structure finding (a number of entries kept
  in `code` / `total`) contribute nothing.
-/
namespace SlocModel.Report

/-- what `HtmlFormatter::format` sees of one result -/
structure CheckRow where
  isStructure : Bool
  total : Nat
  code : Nat
  comment : Nat
  blank : Nat
  deriving DecidableEq, Repr

/-- `AggregateStats::accumulate` over the results that are not structure findings -/
def htmlAggregate (rs : List CheckRow) : Nat × Nat × Nat × Nat :=
  rs.foldl (fun a r => if r.isStructure then a
    else (a.1 + r.total, a.2.1 + r.code, a.2.2.1 + r.comment, a.2.2.2 + r.blank)) (0, 0, 0, 0)

def sumBy (f : CheckRow → Nat) (rs : List CheckRow) : Nat := rs.foldl (fun a r => a + f r) 0

theorem foldl_agg (rs : List CheckRow) (a : Nat × Nat × Nat × Nat) :
    rs.foldl (fun a r => if r.isStructure then a
      else (a.1 + r.total, a.2.1 + r.code, a.2.2.1 + r.comment, a.2.2.2 + r.blank)) a =
    (a.1 + sumBy (·.total) (rs.filter (!·.isStructure)),
     a.2.1 + sumBy (·.code) (rs.filter (!·.isStructure)),
     a.2.2.1 + sumBy (·.comment) (rs.filter (!·.isStructure)),
     a.2.2.2 + sumBy (·.blank) (rs.filter (!·.isStructure))) := by
  have hs : ∀ (f : CheckRow → Nat) (l : List CheckRow) (n : Nat),
      l.foldl (fun a r => a + f r) n = n + sumBy f l := by
    intro f l
    induction l with
    | nil => intro n; simp [sumBy]
    | cons x xs ih =>
      intro n
      simp only [List.foldl_cons, sumBy]
      rw [ih (n + f x), ih (0 + f x)]
      omega
  induction rs generalizing a with
  | nil => simp [sumBy]
  | cons r rest ih =>
    simp only [List.foldl_cons]
    rw [ih]
    cases hstruct : r.isStructure with
    | true => simp [hstruct]
    | false =>
      simp only [hstruct, Bool.false_eq_true, if_false, List.filter_cons, Bool.not_false, if_true]
      simp only [sumBy, List.foldl_cons]
      rw [hs (·.total) _ (0 + r.total), hs (·.code) _ (0 + r.code), hs (·.comment) _ (0 + r.comment),
        hs (·.blank) _ (0 + r.blank)]
      simp only [sumBy]
      refine Prod.ext ?_ (Prod.ext ?_ (Prod.ext ?_ ?_)) <;> simp <;> omega

/-- **the HTML totals are the sums over the file rows** -/
theorem htmlAggregate_file_sums (rs : List CheckRow) :
    htmlAggregate rs =
      (sumBy (·.total) (rs.filter (!·.isStructure)), sumBy (·.code) (rs.filter (!·.isStructure)),
       sumBy (·.comment) (rs.filter (!·.isStructure)), sumBy (·.blank) (rs.filter (!·.isStructure))) := by
  unfold htmlAggregate
  rw [foldl_agg]
  simp

/-- a structure finding changes no line total, whatever it carries -/
theorem htmlAggregate_structure_inert (rs : List CheckRow) (r : CheckRow) (h : r.isStructure = true) :
    htmlAggregate (rs ++ [r]) = htmlAggregate rs := by
  rw [htmlAggregate_file_sums, htmlAggregate_file_sums]
  simp [List.filter_append, h]

example : htmlAggregate [⟨false, 1, 1, 0, 0⟩, ⟨true, 3, 3, 0, 0⟩, ⟨false, 2, 1, 1, 0⟩] = (3, 2, 1, 0) := by
  decide

end SlocModel.Report
