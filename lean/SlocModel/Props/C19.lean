import SlocModel.GitDiffLemmas
/-!
  C19 — Diff and staged modes check exactly what git says changed.

  Statements about `SlocModel.GitDiff` (src/git/diff.rs, check_git_diff.rs).  The specification is
  the *flat view* of a commit: the list of (path, blob id) of its regular files.  Trees are
  arbitrary (any depth, any number of entries, any kinds); the only hypothesis is git's own
  invariant that names are unique within one tree (`wfTree`).
-/
namespace SlocModel.Props.C19
open SlocModel SlocModel.GitDiff

/-- `--diff A..B`, additions and modifications: the recursive comparison with its object-id
    short-circuit and its entry-kind cases reports exactly the regular files of B that A does not
    have with the same content — at any depth, below added, replaced or type-changed directories -/
theorem diff_changed_exact (base target : Tree) (hb : wfTree base = true) (ht : wfTree target = true)
    (p : Path) :
    p ∈ (compareTrees base target).changed ↔
      ChangedSpec (flatTree base []) (flatTree target []) p := by
  have h := (cmpEntries_spec target base [] { changed := [], deleted := [] } ht hb p).1
  simp only [compareTrees]
  rw [h]; simp

/-- deletion candidates: exactly the regular files of A that are no regular file of B -/
theorem diff_deleted_exact (base target : Tree) (hb : wfTree base = true) (ht : wfTree target = true)
    (p : Path) :
    p ∈ (compareTrees base target).deleted ↔
      DeletedSpec (flatTree base []) (flatTree target []) p := by
  have h := (cmpEntries_spec target base [] { changed := [], deleted := [] } ht hb p).2
  simp only [compareTrees, List.mem_append]
  rw [h, ← deleted_total base target hb ht [] p]; simp

/-- the set handed to the filter: changed files, and deleted ones that are still regular files in
    the work tree -/
theorem diff_set_exact (base target : Tree) (hb : wfTree base = true) (ht : wfTree target = true)
    (onDisk : Path → Bool) (p : Path) :
    p ∈ changedSet base target onDisk ↔
      ChangedSpec (flatTree base []) (flatTree target []) p ∨
      (DeletedSpec (flatTree base []) (flatTree target []) p ∧ onDisk p = true) := by
  simp only [changedSet, List.mem_append, List.mem_filter,
    diff_changed_exact base target hb ht p, diff_deleted_exact base target hb ht p]

mutual
/-- a well-formed commit names every regular file once -/
theorem flatNode_functional : ∀ (n : Node) (q : Path) (p : Path) (i j : Nat), wfNode n = true →
    (p, i) ∈ flatNode n q → (p, j) ∈ flatNode n q → i = j
  | .blob _ _, _, _, _, _, _, hi, hj => by
    simp [flatNode] at hi hj; rw [hi.2, hj.2]
  | .link _, _, _, _, _, _, hi, _ => by simp [flatNode] at hi
  | .commit _, _, _, _, _, _, hi, _ => by simp [flatNode] at hi
  | .tree t, q, p, i, j, hw, hi, hj => by
    simp only [wfNode] at hw
    simp only [flatNode] at hi hj
    exact flatTree_functional t q p i j hw hi hj
theorem flatTree_functional : ∀ (t : Tree) (pre : Path) (p : Path) (i j : Nat), wfTree t = true →
    (p, i) ∈ flatTree t pre → (p, j) ∈ flatTree t pre → i = j
  | .nil, _, _, _, _, _, hi, _ => by simp [flatTree] at hi
  | .cons name n rest, pre, p, i, j, hw, hi, hj => by
    have hw' := hw
    simp only [wfTree, Bool.and_eq_true, Bool.not_eq_true'] at hw'
    simp only [flatTree, List.mem_append] at hi hj
    rcases hi with hi | hi <;> rcases hj with hj | hj
    · exact flatNode_functional n _ p i j hw'.1.2 hi hj
    · exfalso
      obtain ⟨nm, n', hm, hx⟩ := (flatTree_mem rest pre _).1 hj
      have e : name = nm := name_unique pre name nm n n' (p, i) (p, j) hi hx rfl
      have := (hasName_iff rest nm).2 ⟨n', hm⟩
      rw [e] at hw'
      simp [this] at hw'
    · exfalso
      obtain ⟨nm, n', hm, hx⟩ := (flatTree_mem rest pre _).1 hi
      have e : name = nm := name_unique pre name nm n n' (p, j) (p, i) hj hx rfl
      have := (hasName_iff rest nm).2 ⟨n', hm⟩
      rw [e] at hw'
      simp [this] at hw'
    · exact flatTree_functional rest pre p i j hw'.2 hi hj
end

/-- a file with the same committed content in A and B is never in the set -/
theorem unchanged_never_reported (base target : Tree) (hb : wfTree base = true)
    (ht : wfTree target = true) (onDisk : Path → Bool) (p : Path) (id : Nat)
    (h1 : (p, id) ∈ flatTree base []) (h2 : (p, id) ∈ flatTree target []) :
    p ∉ changedSet base target onDisk := by
  rw [diff_set_exact base target hb ht]
  rintro (⟨id', h3, h4⟩ | ⟨⟨_, h3⟩, _⟩)
  · have := flatTree_functional target [] p id id' ht h2 h3
    subst this; exact h4 h1
  · exact h3 ⟨id, h2⟩

/-- a path that neither commit has as a regular file is never in the set -/
theorem foreign_never_reported (base target : Tree) (hb : wfTree base = true)
    (ht : wfTree target = true) (onDisk : Path → Bool) (p : Path)
    (h1 : ∀ id, (p, id) ∉ flatTree base []) (h2 : ∀ id, (p, id) ∉ flatTree target []) :
    p ∉ changedSet base target onDisk := by
  rw [diff_set_exact base target hb ht]
  rintro (⟨id', h3, _⟩ | ⟨⟨⟨id', h3⟩, _⟩, _⟩)
  · exact h2 id' h3
  · exact h1 id' h3

/-- equal subtrees are skipped without being read, soundly: nothing below them differs -/
theorem short_circuit_sound (s t : Tree) (pre : Path) (h : treeEq s t = true) :
    flatTree s pre = flatTree t pre := treeEq_flat s t pre h

/-! non-vacuity and the type-change cases by computation (names unique, mixed kinds) -/

def exBase : Tree :=
  .cons "l".toList (.link 5) (.cons "d".toList (.tree (.cons "x".toList (.blob 1 false) .nil))
    (.cons "f".toList (.blob 7 false) (.cons "g".toList (.blob 8 false) .nil)))
def exTarget : Tree :=
  .cons "l".toList (.tree (.cons "in".toList (.blob 9 false) .nil))
    (.cons "d".toList (.blob 4 true) (.cons "f".toList (.link 7) (.cons "g".toList (.blob 8 true) .nil)))

example : wfTree exBase = true ∧ wfTree exTarget = true := by decide
/-- link → directory: the files below it are new; directory → file: the file is new and the files
    below are deletion candidates; file → link with the same id: a deletion candidate; a mode-only
    change is no content change -/
example : (compareTrees exBase exTarget).changed = [["l".toList, "in".toList], ["d".toList]] ∧
    (compareTrees exBase exTarget).deleted = [["d".toList, "x".toList], ["f".toList]] := by decide

/-! ### `--staged` -/

/-- exactly the regular-file index entries that HEAD does not have with the same content -/
theorem staged_exact (index : List IndexEntry) (head : List (Path × Nat)) (p : Path) :
    p ∈ stagedSet index head ↔
      ∃ e ∈ index, e.path = p ∧ e.kind = .blob ∧ (e.path, e.id) ∉ head := by
  simp only [stagedSet, List.mem_map, List.mem_filter, Bool.and_eq_true, decide_eq_true_eq,
    Bool.not_eq_true', List.any_eq_false]
  constructor
  · rintro ⟨e, ⟨he, hk, hn⟩, hp⟩
    refine ⟨e, he, hp, hk, ?_⟩
    intro hm
    have := hn _ hm
    simp at this
  · rintro ⟨e, he, hp, hk, hn⟩
    refine ⟨e, ⟨he, hk, ?_⟩, hp⟩
    intro x hx
    simp only [not_and]
    intro h1 h2
    apply hn
    have : x = (e.path, e.id) := by cases x; simp_all
    rw [← this]; exact hx

/-- a repository without commits: every regular file of the index is staged -/
theorem staged_no_commits (index : List IndexEntry) (p : Path) :
    p ∈ stagedSet index [] ↔ ∃ e ∈ index, e.path = p ∧ e.kind = .blob := by
  rw [staged_exact]; simp

/-- an unchanged symbolic link or submodule entry never makes anything staged -/
theorem staged_ignores_links (index : List IndexEntry) (head : List (Path × Nat)) (p : Path)
    (h : ∀ e ∈ index, e.path = p → e.kind ≠ .blob) : p ∉ stagedSet index head := by
  rw [staged_exact]
  rintro ⟨e, he, hp, hk, _⟩
  exact h e he hp hk

/-! ### range spellings -/

theorem range_empty : parseRange [] = .error := by decide

theorem range_no_base (t : List Char) : parseRange ('.' :: '.' :: t) = .error := by
  simp [parseRange, findDotDot]

theorem findDotDot_append : ∀ (a b : List Char) (i : Nat), '.' ∉ a →
    findDotDot (a ++ '.' :: '.' :: b) i = some (i + a.length)
  | [], b, i, _ => by simp [findDotDot]
  | [c], b, i, h => by
    simp only [List.mem_singleton] at h
    have hc : c ≠ '.' := fun e => h e.symm
    simp [findDotDot, hc]
  | c :: d :: rest, b, i, h => by
    simp only [List.mem_cons, not_or] at h
    have hc : c ≠ '.' := fun e => h.1 e.symm
    have ih := findDotDot_append (d :: rest) b (i + 1) (by simp [h.2.1, h.2.2])
    simp only [List.cons_append] at ih ⊢
    simp only [findDotDot, hc, decide_false, Bool.false_and, Bool.false_eq_true, if_false, ih]
    simp; omega

theorem findDotDot_none : ∀ (a : List Char) (i : Nat), '.' ∉ a → findDotDot a i = none
  | [], _, _ => by simp [findDotDot]
  | [_], _, _ => by simp [findDotDot]
  | c :: d :: rest, i, h => by
    simp only [List.mem_cons, not_or] at h
    have hc : c ≠ '.' := fun e => h.1 e.symm
    have ih := findDotDot_none (d :: rest) (i + 1) (by simp [h.2.1, h.2.2])
    simp [findDotDot, hc, ih]

/-- `ref` means `ref..HEAD` -/
theorem range_single (a : List Char) (h : a ≠ []) (hd : '.' ∉ a) :
    parseRange a = .ok a "HEAD".toList := by
  cases a with
  | nil => exact absurd rfl h
  | cons c rest => simp [parseRange, findDotDot_none (c :: rest) 0 hd]

/-- `base..target`, and `base..` meaning `base..HEAD` -/
theorem range_split (a b : List Char) (h : a ≠ []) (hd : '.' ∉ a) :
    parseRange (a ++ '.' :: '.' :: b) = .ok a (if b.isEmpty then "HEAD".toList else b) := by
  cases a with
  | nil => exact absurd rfl h
  | cons c rest =>
    have hf := findDotDot_append (c :: rest) b 0 hd
    simp only [List.cons_append] at hf
    simp only [parseRange, List.cons_append, List.isEmpty_cons, Bool.false_eq_true, if_false, hf]
    simp

/-- `findDotDot` returns the position of the **first** `..` -/
theorem findDotDot_some : ∀ (s : List Char) (i k : Nat), findDotDot s i = some k →
    ∃ j, k = i + j ∧ s[j]? = some '.' ∧ s[j + 1]? = some '.' ∧
      ∀ m, m < j → ¬ (s[m]? = some '.' ∧ s[m + 1]? = some '.')
  | [], _, _, h => by simp [findDotDot] at h
  | [_], _, _, h => by simp [findDotDot] at h
  | a :: b :: rest, i, k, h => by
    simp only [findDotDot] at h
    by_cases hab : (a = '.' && b = '.') = true
    · simp only [hab, if_true, Option.some.injEq] at h
      simp only [Bool.and_eq_true, decide_eq_true_eq] at hab
      exact ⟨0, by omega, by simp [hab.1], by simp [hab.2], by intro m hm; omega⟩
    · simp only [hab, Bool.false_eq_true, if_false] at h
      obtain ⟨j, hk, h1, h2, h3⟩ := findDotDot_some (b :: rest) (i + 1) k h
      refine ⟨j + 1, by omega, by simpa using h1, by simpa using h2, ?_⟩
      intro m hm
      cases m with
      | zero =>
        simp only [List.getElem?_cons_zero, Option.some.injEq, Nat.zero_add, List.getElem?_cons_succ]
        intro hc
        apply hab
        simp [hc.1, hc.2]
      | succ m' =>
        have := h3 m' (by omega)
        simpa using this

theorem findDotDot_none_iff : ∀ (s : List Char) (i : Nat), findDotDot s i = none ↔
    ∀ m, ¬ (s[m]? = some '.' ∧ s[m + 1]? = some '.')
  | [], _ => by simp [findDotDot]
  | [a], _ => by
    simp only [findDotDot, true_iff]
    intro m
    cases m <;> simp
  | a :: b :: rest, i => by
    simp only [findDotDot]
    by_cases hab : (a = '.' && b = '.') = true
    · simp only [hab, if_true, reduceCtorEq, false_iff]
      simp only [Bool.and_eq_true, decide_eq_true_eq] at hab
      intro hall
      exact hall 0 ⟨by simp [hab.1], by simp [hab.2]⟩
    · simp only [hab, Bool.false_eq_true, if_false]
      rw [findDotDot_none_iff (b :: rest) (i + 1)]
      constructor
      · intro h m
        cases m with
        | zero =>
          simp only [List.getElem?_cons_zero, Option.some.injEq, Nat.zero_add, List.getElem?_cons_succ]
          intro hc; apply hab; simp [hc.1, hc.2]
        | succ m' => simpa using h m'
      · intro h m
        simpa using h (m + 1)

/-- **every spelling**: the range is split at the first `..`; what precedes it is the base
    (empty: an error), what follows the target (empty: `HEAD`); without `..` the whole text is
    the base and the target is `HEAD` -/
theorem range_general (s : List Char) (hs : s ≠ []) :
    (∀ j, s[j]? = some '.' → s[j + 1]? = some '.' →
        (∀ m, m < j → ¬ (s[m]? = some '.' ∧ s[m + 1]? = some '.')) →
        parseRange s = (if j = 0 then .error
          else .ok (s.take j) (if (s.drop (j + 2)).isEmpty then "HEAD".toList else s.drop (j + 2)))) ∧
    ((∀ m, ¬ (s[m]? = some '.' ∧ s[m + 1]? = some '.')) → parseRange s = .ok s "HEAD".toList) := by
  have hne : s.isEmpty = false := by cases s <;> simp_all
  constructor
  · intro j h1 h2 h3
    cases hf : findDotDot s 0 with
    | none =>
      exact absurd ⟨h1, h2⟩ ((findDotDot_none_iff s 0).1 hf j)
    | some k =>
      obtain ⟨j', hk, g1, g2, g3⟩ := findDotDot_some s 0 k hf
      have hjj : j' = j := by
        rcases Nat.lt_trichotomy j' j with hlt | heq | hgt
        · exact absurd ⟨g1, g2⟩ (h3 j' hlt)
        · exact heq
        · exact absurd ⟨h1, h2⟩ (g3 j hgt)
      have hkj : k = j := by omega
      subst hkj
      simp only [parseRange, hne, Bool.false_eq_true, if_false, hf]
      by_cases hj0 : k = 0
      · subst hj0; simp
      · have : (s.take k).isEmpty = false := by
          cases s with
          | nil => simp at hs
          | cons c cs => cases k with
            | zero => exact absurd rfl hj0
            | succ k' => simp
        simp [this, hj0]
  · intro h
    have hf := (findDotDot_none_iff s 0).2 h
    simp [parseRange, hne, hf]

example : parseRange "main..feature".toList = .ok "main".toList "feature".toList := by decide
example : parseRange "v1.0..".toList = .ok "v1.0".toList "HEAD".toList := by decide
example : parseRange "..feature".toList = .error := by decide

/-! ### the filter -/

/-- files outside the set are never evaluated, every evaluated file was scanned, and the order of
    the scan is kept -/
theorem filter_exact (files set : List Path) (f : Path) :
    f ∈ filterFiles files set ↔ f ∈ files ∧ f ∈ set := by
  simp [filterFiles]

theorem filter_sublist (files set : List Path) : (filterFiles files set).Sublist files := by
  simp [filterFiles]

/-- the status of a kept file does not depend on the filter: evaluation is per file -/
theorem filter_status_same {σ : Type} (eval : Path → σ) (files set : List Path) :
    (filterFiles files set).map (fun f => (f, eval f)) =
      (files.map (fun f => (f, eval f))).filter (fun r => set.contains r.1) := by
  simp [filterFiles, List.filter_map, Function.comp_def]

end SlocModel.Props.C19
