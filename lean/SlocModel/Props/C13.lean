import SlocModel.AtomicWrite
/-!
  C13 — State files survive a crash at any point of a save.
-/
namespace SlocModel.Props.C13
open SlocModel.AtomicWrite

/-- **crash safety**: whatever the prior state of the target (absent, valid, valid and large),
    whatever the new content, at every point of the protocol and after every number of bytes
    written, the file under the target name is either unchanged (or still absent) or the complete
    new content — never empty, truncated or partial. -/
theorem crash_safe (prior : Option Content) (new : Content) (p : Point) (k : Nat) :
    (crashAt prior new p k).target = prior ∨ (crashAt prior new p k).target = some new := by
  cases p <;> simp [crashAt]

/-- a partially written temp file is never visible under the target name: whenever the temp file
    exists the target still holds the prior state -/
theorem temp_never_target (prior : Option Content) (new : Content) (p : Point) (k : Nat)
    (c : Content) (h : (crashAt prior new p k).temp = some c) :
    (crashAt prior new p k).target = prior := by
  cases p <;> simp_all [crashAt]

/-- once the rename has happened nothing of the old protocol state is left -/
theorem after_rename_complete (prior : Option Content) (new : Content) (p : Point) (k : Nat)
    (h : Point.index .renamed ≤ p.index) :
    crashAt prior new p k = { target := some new, temp := none } := by
  cases p <;> simp_all [crashAt, Point.index]

/-- the next invocation loads the file without error and without discarding recorded entries:
    if the prior content (when present) and the new content both decode, every loader returns the
    prior entries, the new entries, or — exactly when the file was and still is absent — what it
    returns for an absent file -/
theorem next_load_strict {α : Type} (parse : Content → Option α) (prior : Option Content)
    (new : Content) (p : Point) (k : Nat) (xn : α) (hn : parse new = some xn)
    (hp : ∀ c, prior = some c → ∃ x, parse c = some x) :
    loadStrict parse (crashAt prior new p k) = loadStrict parse { target := prior, temp := none } ∨
    loadStrict parse (crashAt prior new p k) = .entries xn := by
  rcases crash_safe prior new p k with h | h
  · left; simp [loadStrict, h]
  · right; simp [loadStrict, h, hn]

theorem next_load_lenient {α : Type} (parse : Content → Option α) (prior : Option Content)
    (new : Content) (p : Point) (k : Nat) (xn : α) (hn : parse new = some xn) :
    loadLenient parse (crashAt prior new p k) = loadLenient parse { target := prior, temp := none } ∨
    loadLenient parse (crashAt prior new p k) = .entries xn := by
  rcases crash_safe prior new p k with h | h
  · left; simp [loadLenient, h]
  · right; simp [loadLenient, h, hn]

/-- every point is covered (the enumeration the harness replays on the real binary) -/
theorem all_points_listed (p : Point) : p ∈ allPoints := by cases p <;> simp [allPoints]

/-! non-vacuity: an absent target stays absent until the rename, then holds the whole new content -/
example : (crashAt none [1, 2, 3, 4] .lockOpened 0).target = none := rfl
example : (crashAt none [1, 2, 3, 4] .midWrite 2) = { target := none, temp := some [1, 2] } := rfl
example : (crashAt (some [9]) [1, 2, 3, 4] .renamed 0).target = some [1, 2, 3, 4] := rfl

end SlocModel.Props.C13
