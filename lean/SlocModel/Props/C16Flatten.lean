import SlocModel.Props.C16
/-!
  C16 — "a hand-flattened single file is equivalent to the chain".

  The canonical flattening of a chain is its effective configuration written out as one file
  (what `config show` prints).  These theorems prove that loading that file alone gives the same
  configuration back: a value without reset markers passes the position check and is left
  unchanged by stripping, and every successful resolution yields such a value.
-/
namespace SlocModel.Props.C16
open SlocModel SlocModel.Toml SlocModel.Extends

mutual
theorem noMarker_valid : ∀ v : Value, noMarker v = true → validReset v = true
  | .str _, _ => by simp [validReset]
  | .other _ _, _ => by simp [validReset]
  | .tbl fs, h => by
    simp only [noMarker] at h
    simp only [validReset]
    exact noMarkerTbl_valid fs h
  | .arr xs, h => by
    simp only [noMarker] at h
    simp only [validReset]
    exact noMarkerArr_validHead xs h
theorem noMarkerArr_validHead : ∀ xs : Arr, noMarkerArr xs = true → validResetHead xs = true
  | .nil, _ => by simp [validResetHead]
  | .cons v rest, h => by
    simp only [noMarkerArr, Bool.and_eq_true, Bool.not_eq_true'] at h
    simp only [validResetHead, Bool.and_eq_true]
    exact ⟨noMarker_valid v h.1.2, noMarkerArr_validTail rest h.2⟩
theorem noMarkerArr_validTail : ∀ xs : Arr, noMarkerArr xs = true → validResetTail xs = true
  | .nil, _ => by simp [validResetTail]
  | .cons v rest, h => by
    simp only [noMarkerArr, Bool.and_eq_true, Bool.not_eq_true'] at h
    simp only [validResetTail, Bool.and_eq_true, Bool.not_eq_true']
    exact ⟨⟨h.1.1, noMarker_valid v h.1.2⟩, noMarkerArr_validTail rest h.2⟩
theorem noMarkerTbl_valid : ∀ fs : Tbl, noMarkerTbl fs = true → validResetTbl fs = true
  | .nil, _ => by simp [validResetTbl]
  | .cons _ v fs, h => by
    simp only [noMarkerTbl, Bool.and_eq_true] at h
    simp only [validResetTbl, Bool.and_eq_true]
    exact ⟨noMarker_valid v h.1, noMarkerTbl_valid fs h.2⟩
end

mutual
theorem noMarker_strip : ∀ v : Value, noMarker v = true → strip v = v
  | .str _, _ => by simp [strip]
  | .other _ _, _ => by simp [strip]
  | .tbl fs, h => by
    simp only [noMarker] at h
    simp only [strip]
    rw [noMarkerTbl_strip fs h]
  | .arr xs, h => by
    simp only [noMarker] at h
    simp only [strip]
    rw [noMarkerArr_stripHead xs h]
theorem noMarkerArr_stripHead : ∀ xs : Arr, noMarkerArr xs = true → stripHead xs = xs
  | .nil, _ => by simp [stripHead]
  | .cons v rest, h => by
    simp only [noMarkerArr, Bool.and_eq_true, Bool.not_eq_true'] at h
    simp only [stripHead, h.1.1, Bool.false_eq_true, if_false]
    rw [noMarker_strip v h.1.2, noMarkerArr_stripArr rest h.2]
theorem noMarkerArr_stripArr : ∀ xs : Arr, noMarkerArr xs = true → stripArr xs = xs
  | .nil, _ => by simp [stripArr]
  | .cons v rest, h => by
    simp only [noMarkerArr, Bool.and_eq_true, Bool.not_eq_true'] at h
    simp only [stripArr]
    rw [noMarker_strip v h.1.2, noMarkerArr_stripArr rest h.2]
theorem noMarkerTbl_strip : ∀ fs : Tbl, noMarkerTbl fs = true → stripTbl fs = fs
  | .nil, _ => by simp [stripTbl]
  | .cons _ v fs, h => by
    simp only [noMarkerTbl, Bool.and_eq_true] at h
    simp only [stripTbl]
    rw [noMarker_strip v h.1, noMarkerTbl_strip fs h.2]
end

/-- a marker-free value is a fixed point of the single-file load -/
theorem marker_free_loads_unchanged (r : Value) (h : noMarker r = true) : leafOnly r = .ok r := by
  unfold leafOnly
  rw [noMarker_valid r h, noMarker_strip r h]; rfl

theorem wrapFinish_ok (v r : Value) (vis vis' : List Name) (h : wrapFinish v vis = .ok (r, vis')) :
    finish v = .ok r := by
  unfold wrapFinish at h
  cases hf : finish v with
  | ok x => rw [hf] at h; injection h with h; injection h with h1 _; rw [h1]
  | error e => rw [hf] at h; cases h

/-- every successful resolution yields a marker-free value -/
theorem resolve_ok_noMarker (fs presets : List (Name × Value)) (fuel : Nat) (name : Name)
    (vis : List Name) (depth : Nat) (r : Value) (vis' : List Name)
    (h : resolve fs presets fuel name vis depth = .ok (r, vis')) : noMarker r = true := by
  cases fuel with
  | zero => simp [resolve] at h
  | succ fuel =>
    unfold resolve at h
    split at h
    · cases h
    · split at h
      · cases h
      · split at h
        · cases h
        · split at h
          · cases h
          · split at h
            · exact finish_ok_noMarker _ _ (wrapFinish_ok _ _ _ _ h)
            · split at h
              · split at h
                · cases h
                · exact finish_ok_noMarker _ _ (wrapFinish_ok _ _ _ _ h)
              · split at h
                · cases h
                · split at h
                  · cases h
                  · exact finish_ok_noMarker _ _ (wrapFinish_ok _ _ _ _ h)

/-- **the flattened file is equivalent to the chain**: the effective configuration of any chain
    (local files and presets, any depth), written out as a single file and loaded alone, is that
    same configuration -/
theorem flattened_equivalent (fs presets : List (Name × Value)) (fuel : Nat) (name : Name)
    (vis : List Name) (depth : Nat) (r : Value) (vis' : List Name)
    (h : resolve fs presets fuel name vis depth = .ok (r, vis')) : leafOnly r = .ok r :=
  marker_free_loads_unchanged r (resolve_ok_noMarker fs presets fuel name vis depth r vis' h)

/-- non-vacuity: the example chain of `Props/C16.lean` resolves, and its result loads unchanged -/
example : ∃ p, resolve exFs [] defaultFuel ['l'] [] 0 = .ok p ∧ leafOnly p.1 = .ok p.1 := by
  have h : ∃ p, resolve exFs [] defaultFuel ['l'] [] 0 = .ok p := ⟨_, rfl⟩
  obtain ⟨p, hp⟩ := h
  exact ⟨p, hp, flattened_equivalent exFs [] defaultFuel ['l'] [] 0 p.1 p.2 hp⟩

end SlocModel.Props.C16
