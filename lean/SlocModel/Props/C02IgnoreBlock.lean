import SlocModel.Props.C02Ignore
/-!
  C02, token level — `ignore-start` / `ignore-end` in the C-family grammar: the two directive
  lines are comments, exactly the enclosed single-line chunks are ignored.
-/
namespace SlocModel.Props.C02
open SlocModel SlocModel.Counter

def stBlock : St := { st0 with inIgnoreBlock := true }

/-- a whole-line line comment carrying `ignore-start` (and not `ignore-end`) -/
def startOk (l : List Char) : Bool :=
  l.all lineChar && isSingleLineComment cSyn (trim l) &&
    !containsSub Generated.ignoreEndDirective (trim l) &&
    containsSub Generated.ignoreStartDirective (trim l) &&
    !containsSub Generated.ignoreFileDirective (trim l)

/-- a whole-line line comment carrying `ignore-end` -/
def endOk (l : List Char) : Bool :=
  l.all lineChar && isSingleLineComment cSyn (trim l) &&
    containsSub Generated.ignoreEndDirective (trim l) &&
    !containsSub Generated.ignoreFileDirective (trim l)

theorem start_line (l : List Char) (h : startOk l = true) :
    processLine cSyn l st0 = (.comment, stBlock) ∧ hasIgnoreFile cSyn l = false := by
  simp only [startOk, Bool.and_eq_true, Bool.not_eq_true'] at h
  obtain ⟨⟨⟨⟨_, h2⟩, h3⟩, h4⟩, h5⟩ := h
  constructor
  · have := (ignore_start_end cSyn l st0 h2).2 (by simp [hasDirective, h3]) (by simp [hasDirective, h4, h2])
    simpa [stBlock] using this
  · simp [hasIgnoreFile, hasDirective, h5]

theorem end_line (l : List Char) (h : endOk l = true) :
    processLine cSyn l stBlock = (.comment, st0) ∧ hasIgnoreFile cSyn l = false := by
  simp only [endOk, Bool.and_eq_true, Bool.not_eq_true'] at h
  obtain ⟨⟨⟨_, h2⟩, h3⟩, h5⟩ := h
  constructor
  · have := (ignore_start_end cSyn l stBlock h2).1 (by simp [hasDirective, h3, h2])
    simpa [stBlock, st0] using this
  · simp [hasIgnoreFile, hasDirective, h5]

/-- the enclosed lines: each is `ignored`, the region stays open -/
theorem enclosed_run (vs : List Chunk) (hok : vs.all (fun v => v.isSingle && v.ok) = true)
    (rest : List (List Char)) (seen : Nat) :
    classifyLines cSyn (vs.map Chunk.line ++ rest) seen stBlock =
      (classifyLines cSyn rest (seen + vs.length) stBlock).map
        (vs.map (fun _ => LineClass.ignored) ++ ·) := by
  induction vs generalizing seen with
  | nil => simp
  | cons v r ih =>
    simp only [List.all_cons, Bool.and_eq_true] at hok
    obtain ⟨⟨hs, hv⟩, hr⟩ := hok
    obtain ⟨hnd, hi, htr⟩ := single_facts v hs hv
    have hp : processLine cSyn v.line stBlock = (.ignored, stBlock) := by
      rw [processLine_noDirective cSyn v.line stBlock hnd]
      unfold ladder
      have hb : stBlock.inIgnoreBlock = true := rfl
      have hm : stBlock.ml = .notIn := rfl
      simp only [hb, if_true, hm, htr]
      rfl
    simp only [List.map_cons, List.cons_append]
    rw [classify_cons v.line _ seen _ _ .ignored hp hi, ih hr]
    have : seen + 1 + r.length = seen + (v :: r).length := by simp only [List.length_cons]; omega
    rw [this]
    cases classifyLines cSyn rest (seen + (v :: r).length) stBlock <;> simp

/-- **`ignore-start … ignore-end`**: the directive lines are comments, exactly the enclosed lines
    are ignored, and the counter is back in its initial state behind the region -/
theorem ignore_region_run (s e : List Char) (vs : List Chunk) (hs : startOk s = true)
    (he : endOk e = true) (hvs : vs.all (fun v => v.isSingle && v.ok) = true)
    (rest : List (List Char)) (seen : Nat) :
    classifyLines cSyn (s :: (vs.map Chunk.line ++ e :: rest)) seen st0 =
      (classifyLines cSyn rest (seen + (vs.length + 2)) st0).map
        ((LineClass.comment :: (vs.map (fun _ => LineClass.ignored) ++ [LineClass.comment])) ++ ·) := by
  obtain ⟨hp1, hi1⟩ := start_line s hs
  obtain ⟨hp2, hi2⟩ := end_line e he
  rw [classify_cons s _ seen st0 stBlock .comment hp1 hi1, enclosed_run vs hvs,
    classify_cons e _ _ stBlock st0 .comment hp2 hi2]
  have : seen + 1 + vs.length + 1 = seen + (vs.length + 2) := by omega
  rw [this]
  cases classifyLines cSyn rest (seen + (vs.length + 2)) st0 <;> simp

/-- non-vacuity, checked by evaluation as well -/
example :
    let s := "// sloc-guard:ignore-start".toList
    let e := "  // sloc-guard:ignore-end".toList
    let vs : List Chunk := [.code [.word "int b;".toList] none, .blank [], .lineComment [] " x".toList]
    startOk s = true ∧ endOk e = true ∧ vs.all (fun v => v.isSingle && v.ok) = true ∧
    classifyLines cSyn (s :: (vs.map Chunk.line ++ e :: ["int z;".toList])) 0 st0 =
      some [.comment, .ignored, .ignored, .ignored, .comment, .code] := by decide

end SlocModel.Props.C02
