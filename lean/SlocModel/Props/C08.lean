import SlocModel.PathSpelling
/-!
  C08 — Verdicts do not depend on how paths are spelled.

  Every rule family matches `normalize (walked root rel)`, and baselines are keyed by
  `baselineKey (walked root rel)`.  The theorems say that these keys are the project-relative path
  whatever spelling of the target was typed.
-/
namespace SlocModel.Props.C08
open SlocModel SlocModel.PathSpelling

/-- a project-relative path: no empty and no `.` segment -/
def Plain (segs : List Seg) : Prop := ∀ s ∈ segs, s ≠ [] ∧ s ≠ dot

theorem clean_plain (segs : List Seg) (h : Plain segs) : clean segs = segs := by
  unfold clean
  apply List.filter_eq_self.2
  intro s hs
  have := h s hs
  simp [this.1, this.2]

theorem clean_idem (segs : List Seg) : clean (clean segs) = clean segs := by
  unfold clean; simp [List.filter_filter]

theorem clean_append (a b : List Seg) : clean (a ++ b) = clean a ++ clean b := by
  unfold clean; simp

theorem stripPrefix_append : ∀ (p rest : List Seg), stripPrefix p (p ++ rest) = some rest
  | [], _ => rfl
  | x :: xs, rest => by simp [stripPrefix, stripPrefix_append xs rest]

/-- **relative spellings**: two relative spellings with the same components after removing `.`
    segments and redundant separators (`src`, `./src`, `src/`, `./src/.`, `src//`) denote the same
    canonical target -/
theorem relative_spellings_agree (cwd : List Seg) (a b : List Seg) (h : clean a = clean b) :
    canonicalTarget cwd ⟨false, a⟩ = canonicalTarget cwd ⟨false, b⟩ := by
  simp [canonicalTarget, h]

/-- **absolute spelling**: the absolute path of a target below the working directory denotes the
    same canonical target as its relative spelling -/
theorem absolute_spelling_agrees (cwd rel : List Seg) :
    canonicalTarget cwd ⟨true, cwd ++ rel⟩ = canonicalTarget cwd ⟨false, rel⟩ := by
  simp [canonicalTarget, clean_append, stripPrefix_append]

/-- with one spelling of the working directory the extended function is the old one -/
theorem canonicalTargetL_single (cwd : List Seg) (t : Target) :
    canonicalTargetL [cwd] t = canonicalTarget cwd t := by
  unfold canonicalTargetL canonicalTarget stripAny
  split
  · cases stripPrefix (clean cwd) (clean t.segs) <;> simp [stripAny]
  · rfl

/-- **the shell's spelling of a symlinked working directory**: an absolute target below the
    logical working directory is reduced to the same project-relative target as the relative
    spelling, whenever the physical spelling is not itself a prefix of it -/
theorem logical_spelling_agrees (phys logical rel : List Seg)
    (hnot : stripPrefix (clean phys) (clean (logical ++ rel)) = none) :
    canonicalTargetL [phys, logical] ⟨true, logical ++ rel⟩ =
      canonicalTargetL [phys, logical] ⟨false, rel⟩ := by
  unfold canonicalTargetL stripAny stripAny
  simp only [if_true, hnot, Bool.false_eq_true, if_false]
  rw [clean_append, stripPrefix_append]

/-- … and when the physical spelling is a prefix, it is the physical spelling that is removed
    (the kernel's answer comes first) -/
theorem physical_spelling_first (phys logical rel : List Seg) :
    canonicalTargetL [phys, logical] ⟨true, phys ++ rel⟩ =
      canonicalTargetL [phys, logical] ⟨false, rel⟩ := by
  unfold canonicalTargetL stripAny
  simp only [if_true, Bool.false_eq_true, if_false]
  rw [clean_append, stripPrefix_append]

/-- the canonical target of a plain relative path is that path; of the project root it is `.` -/
theorem canonical_of_plain (cwd t : List Seg) (h : Plain t) :
    canonicalTarget cwd ⟨false, t⟩ = (false, orDot t) := by
  simp [canonicalTarget, clean_plain t h]

theorem canonical_root_spellings (cwd : List Seg) :
    canonicalTarget cwd ⟨false, []⟩ = (false, [dot]) ∧
    canonicalTarget cwd ⟨false, [dot]⟩ = (false, [dot]) ∧
    canonicalTarget cwd ⟨false, [dot, []]⟩ = (false, [dot]) ∧
    canonicalTarget cwd ⟨true, cwd⟩ = (false, [dot]) := by
  refine ⟨by simp [canonicalTarget, clean, orDot], by simp [canonicalTarget, clean, orDot, dot],
    by simp [canonicalTarget, clean, orDot, dot], ?_⟩
  have := absolute_spelling_agrees cwd []
  simp only [List.append_nil] at this
  rw [this]; simp [canonicalTarget, clean, orDot]

/-- **the matching key is the project-relative path**: for a plain target `t` and a plain entry
    `rel` below it, every rule family sees `t ++ rel`, whether the walk started at `.` (whole
    project) or at `t` -/
theorem match_key_is_project_relative (t rel : List Seg) (ht : Plain t) :
    normalize (walked (orDot t) rel) = t ++ rel := by
  unfold walked orDot
  cases t with
  | nil => simp [normalize]
  | cons s rest =>
    have := (ht s (by simp)).2
    simp [normalize, this]

/-- the whole-project run and a sub-directory run agree on the key of every common path -/
theorem project_and_subdir_keys_agree (t rel : List Seg) (ht : Plain t) (hr : Plain rel) :
    normalize (walked [dot] (t ++ rel)) = normalize (walked (orDot t) rel) := by
  rw [match_key_is_project_relative t rel ht]
  simp [walked, normalize]

/-- hence any verdict computed from the matching key is the same under all spellings -/
theorem verdict_spelling_invariant {σ : Type} (verdict : List Seg → σ) (cwd : List Seg)
    (a b : Target) (h : canonicalTarget cwd a = canonicalTarget cwd b) (rel : List Seg) :
    verdict (normalize (walked (canonicalTarget cwd a).2 rel)) =
      verdict (normalize (walked (canonicalTarget cwd b).2 rel)) := by
  rw [h]

/-- **baseline keys**: an entry written while checking the whole project is found when a
    sub-directory is checked (`rel` non-empty: a file or directory below the target) -/
theorem baseline_keys_agree (t rel : List Seg) (ht : Plain t) (hr : Plain rel) (hne : rel ≠ []) :
    baselineKey (walked [dot] (t ++ rel)) = baselineKey (walked (orDot t) rel) := by
  unfold walked orDot
  cases t with
  | nil =>
    simp
  | cons s rest =>
    have hs := (ht s (by simp)).2
    cases rel with
    | nil => exact absurd rfl hne
    | cons r rs =>
      cases rest with
      | nil => simp [baselineKey, hs]
      | cons x xs => simp [baselineKey, hs]

/-- a baseline file written before the repair (keys with `./`) is read as if written after it -/
theorem old_baseline_keys_normalise (p : List Seg) (hp : Plain p) (hne : p ≠ []) :
    baselineKey (dot :: p) = p ∧ baselineKey p = p := by
  cases p with
  | nil => exact absurd rfl hne
  | cons s rest =>
    have hs := (hp s (by simp)).2
    constructor
    · simp [baselineKey]
    · cases rest with
      | nil => simp [baselineKey]
      | cons x xs => simp [baselineKey, hs]

/-! non-vacuity -/

example : canonicalTarget ["work".toList, "proj".toList] ⟨false, [dot, "src".toList, []]⟩ = (false, ["src".toList]) := by
  decide
example : canonicalTarget ["work".toList, "proj".toList] ⟨true, [[], "work".toList, "proj".toList, "src".toList]⟩ =
    (false, ["src".toList]) := by decide
example : canonicalTarget ["work".toList, "proj".toList] ⟨true, [[], "other".toList]⟩ = (true, ["other".toList]) := by
  decide
example : normalize (walked [dot] ["src".toList, "a.rs".toList]) = ["src".toList, "a.rs".toList] := by decide
example : Plain ["src".toList, "a.rs".toList] := by
  intro s hs; simp at hs; rcases hs with rfl | rfl <;> decide

end SlocModel.Props.C08
