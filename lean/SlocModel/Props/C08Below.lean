import SlocModel.Props.C08
namespace SlocModel.PathSpelling

/-- at the project root nothing changes -/
theorem baselineKeyAt_root (walked : List Seg) : baselineKeyAt [] walked = baselineKey walked := rfl

/-- **a run started below the project root records project-relative keys**: a file walked as
    `./rel` from the directory `below` gets the key the whole-project run gives it as
    `./below/rel` -/
theorem subdir_run_keys_agree (below rel : List Seg) (hb : below ≠ []) (hr : rel ≠ [])
    (hp : SlocModel.Props.C08.Plain rel) :
    baselineKeyAt below (walked [dot] rel) = baselineKey (walked [dot] (below ++ rel)) := by
  have h1 : baselineKey (walked [dot] rel) = rel := by
    cases rel with
    | nil => exact absurd rfl hr
    | cons a r => simp [walked, baselineKey]
  have h2 : baselineKey (walked [dot] (below ++ rel)) = below ++ rel := by
    cases below with
    | nil => exact absurd rfl hb
    | cons a r => simp [walked, baselineKey]
  unfold baselineKeyAt
  have hne : below.isEmpty = false := by cases below <;> simp_all
  rw [h1, h2]
  simp only [hne, Bool.false_eq_true, if_false]
  split
  · rename_i h
    -- `rel = [.]` is no walked entry
    exfalso
    rw [h] at hp
    exact (hp dot (by simp)).2 rfl
  · rfl

end SlocModel.PathSpelling
