import SlocModel.Baseline
/-!
  C10 — Ratchet only ever shrinks the baseline, and only for violations really resolved.
-/
namespace SlocModel.Props.C10
open SlocModel SlocModel.Baseline

/-- stale ⇒ recorded, evaluated in this run, and no result at that path still violates -/
theorem stale_sound (b : Base) (rs : List Res) (ev : List Key) (k : Key) (h : k ∈ stale b rs ev) :
    k ∈ b.keys ∧ ev.contains k = true ∧ ∀ r ∈ rs, r.path = k → r.violating = false := by
  unfold stale at h
  obtain ⟨hk, hp⟩ := List.mem_filter.mp h
  simp only [Bool.and_eq_true, Bool.not_eq_true'] at hp
  refine ⟨hk, hp.1, ?_⟩
  intro r hr hpath
  have := List.any_eq_false.mp hp.2 r hr
  simpa [hpath] using this

/-- entries for paths that were not evaluated in this run are never stale — whatever narrowed
    the evaluated set (`--files`, `--diff`, `--staged`, a fail-fast short-circuit, sub-path roots) -/
theorem unevaluated_never_stale (b : Base) (rs : List Res) (ev : List Key) (k : Key)
    (h : ev.contains k = false) : k ∉ stale b rs ev := by
  intro hk
  have := (stale_sound b rs ev k hk).2.1
  rw [h] at this; cases this

/-- a still-violating (failed or grandfathered) path is never stale -/
theorem violating_never_stale (b : Base) (rs : List Res) (ev : List Key) (r : Res)
    (hr : r ∈ rs) (hv : r.violating = true) : r.path ∉ stale b rs ev := by
  intro hk
  have := (stale_sound b rs ev r.path hk).2.2 r hr rfl
  rw [hv] at this; cases this

/-- unevaluated entries never cause a strict failure: with only unevaluated or violating
    entries the ratchet contributes nothing to the exit code -/
theorem strict_needs_real_stale (disk : Option Base) (rs : List Res) (ev : List Key) (f : Flags)
    (rs' : List Res) (d' : Option Base) (e : Int) (st : List Key)
    (hrun : run disk rs ev f = .done rs' d' e st)
    (hnone : ∀ b, loadedOf disk f = some b →
      ∀ k ∈ b.keys, ev.contains k = false ∨ ∃ r ∈ rs', r.path = k ∧ r.violating = true) :
    st = [] ∧ e = exitCode rs' f.warnOnly f.wae false := by
  obtain ⟨_, h2, h3, _⟩ := run_done disk rs ev f rs' d' e st hrun
  have hst : st = [] := by
    rw [h2]
    unfold staleOf
    cases hr : f.ratchet with
    | none => rfl
    | some m =>
      cases hl : loadedOf disk f with
      | none => rfl
      | some b =>
        simp only
        apply List.eq_nil_iff_forall_not_mem.mpr
        intro k hk
        have hs := stale_sound b rs' ev k hk
        rcases hnone b hl k hs.1 with h | ⟨r, hr', hp, hv⟩
        · rw [h] at hs; exact absurd hs.2.1 (by simp)
        · have := hs.2.2 r hr' hp; rw [hv] at this; cases this
  refine ⟨hst, ?_⟩
  rw [h3, hst]; simp

theorem filter_sub (b : Base) (p : Key × Entry → Bool) : ∀ x ∈ b.filter p, x ∈ b :=
  fun _ hx => (List.mem_filter.mp hx).1

/-- no run adds or rewrites an entry without `--update-baseline`: the file afterwards is a
    sub-list of the file before (same entries, same values), in every ratchet mode -/
theorem ratchet_subset (disk : Option Base) (rs : List Res) (ev : List Key) (f : Flags)
    (hu : f.update = none)
    (rs' : List Res) (d' : Option Base) (e : Int) (st : List Key)
    (hrun : run disk rs ev f = .done rs' d' e st) :
    (d' = disk) ∨ (∃ b b', disk = some b ∧ d' = some b' ∧ f.ratchet = some .auto ∧
        f.baselineGiven = true ∧ (∀ x ∈ b', x ∈ b) ∧
        (∀ x ∈ b, x ∉ b' → x.1 ∈ st)) := by
  obtain ⟨_, _, _, h4⟩ := run_done disk rs ev f rs' d' e st hrun
  rw [h4]
  unfold afterUpdate afterRatchet
  simp only [hu]
  cases hr : f.ratchet with
  | none => left; rfl
  | some m =>
    cases hl : loadedOf disk f with
    | none => left; cases m <;> rfl
    | some b =>
      cases m with
      | warn => left; rfl
      | strict => left; rfl
      | auto =>
        simp only
        split
        · left; rfl
        · right
          unfold loadedOf at hl
          split at hl
          · rename_i hg
            refine ⟨b, _, hl, rfl, by simp, hg, filter_sub b _, ?_⟩
            intro x hx hnx
            cases hc : st.contains x.1 with
            | true => simpa using hc
            | false =>
              exfalso; apply hnx
              exact List.mem_filter.mpr ⟨hx, by simpa using hc⟩
          · cases hl

/-- warn and strict never write the baseline -/
theorem warn_strict_no_write (disk : Option Base) (rs : List Res) (ev : List Key) (f : Flags)
    (hu : f.update = none) (hm : f.ratchet ≠ some .auto)
    (rs' : List Res) (d' : Option Base) (e : Int) (st : List Key)
    (hrun : run disk rs ev f = .done rs' d' e st) : d' = disk := by
  rcases ratchet_subset disk rs ev f hu rs' d' e st hrun with h | ⟨_, _, _, _, h, _⟩
  · exact h
  · exact absurd h hm

theorem stale_of_filtered (b : Base) (rs : List Res) (ev : List Key) :
    stale (b.filter (fun e => !(stale b rs ev).contains e.1)) rs ev = [] := by
  apply List.eq_nil_iff_forall_not_mem.mpr
  intro k hk
  have hs := stale_sound _ rs ev k hk
  -- k is a key of the filtered baseline, so it was not stale before …
  obtain ⟨x, hx, hxk⟩ := List.mem_map.mp hs.1
  obtain ⟨hxb, hxn⟩ := List.mem_filter.mp hx
  -- … but it satisfies the staleness condition w.r.t. b as well
  have : k ∈ stale b rs ev := by
    unfold stale
    refine List.mem_filter.mpr ⟨List.mem_map.mpr ⟨x, hxb, hxk⟩, ?_⟩
    simp only [Bool.and_eq_true, Bool.not_eq_true']
    refine ⟨hs.2.1, ?_⟩
    apply List.any_eq_false.mpr
    intro r hr
    by_cases hp : r.path = k
    · simp [hp, hs.2.2 r hr hp]
    · simp [hp]
  rw [← hxk] at this
  simp [this] at hxn

/-- after an auto tightening a rerun on the same state (same results, same evaluated set)
    finds nothing stale -/
theorem auto_then_clean (b : Base) (rs : List Res) (ev : List Key) (f : Flags)
    (hg : f.baselineGiven = true) (ha : f.ratchet = some .auto) (hu : f.update = none)
    (rs1 : List Res) (d1 : Option Base) (e1 : Int) (st1 : List Key)
    (h1 : run (some b) rs ev f = .done rs1 d1 e1 st1)
    (hsame : ∀ b', d1 = some b' → grandfather (some b') rs = rs1)
    (rs2 : List Res) (d2 : Option Base) (e2 : Int) (st2 : List Key)
    (h2 : run d1 rs ev f = .done rs2 d2 e2 st2) : st2 = [] := by
  obtain ⟨hr1, hs1, _, hd1⟩ := run_done (some b) rs ev f rs1 d1 e1 st1 h1
  obtain ⟨hr2, hs2, _, _⟩ := run_done d1 rs ev f rs2 d2 e2 st2 h2
  simp only [loadedOf, hg, if_true] at hr1 hs1 hd1 hr2 hs2
  simp only [afterUpdate, hu, afterRatchet, ha] at hd1
  simp only [staleOf, ha] at hs1
  by_cases hempty : st1.isEmpty = true
  · -- nothing was stale: the file is unchanged and the rerun sees the same thing
    simp only [hempty, if_true] at hd1
    subst hd1
    rw [hs2]
    simp only [staleOf, ha]
    rw [hr2, ← hr1, ← hs1]
    simpa using hempty
  · simp only [hempty] at hd1
    subst hd1
    rw [hs2]
    simp only [staleOf, ha]
    have hrs : rs2 = rs1 := by rw [hr2]; exact hsame _ rfl
    rw [hrs, hs1]
    exact stale_of_filtered b rs1 ev

/-! ### non-vacuity -/
def exBase : Base := [(['a'], .content 12), (['b'], .content 9), (['s'], .structure true 4)]
def exRs : List Res := [⟨['c'], .passed, .content, 3⟩]

/-- `--ratchet auto --files c`: only `c` was evaluated, nothing is removed -/
example : (match run (some exBase) exRs [['c']] ⟨true, none, some .auto, false, false⟩ with
    | .done _ d _ st => decide (d = some exBase) && decide (st = [])
    | _ => false) = true := by decide
/-- a full scan in which `b` now passes removes exactly `b` -/
example : (match run (some exBase) [⟨['a'], .failed, .content, 12⟩, ⟨['b'], .passed, .content, 2⟩,
      ⟨['s'], .failed, .files, 4⟩] [['a'], ['b'], ['s']] ⟨true, none, some .auto, false, false⟩ with
    | .done _ d _ st => decide (d = some [(['a'], .content 12), (['s'], .structure true 4)]) && decide (st = [['b']])
    | _ => false) = true := by decide

end SlocModel.Props.C10
