import SlocModel.Baseline
/-!
  C11 — Fail-fast and parallelism never change the verdict.

  A fail-fast run under any number of workers and any processing order is summarised by the
  set of files that were processed.  `admissible` characterises the sets a run can produce
  (files are skipped only after some processed file set the flag); theorems quantify over all
  admissible sets, hence over every schedule.
-/
namespace SlocModel.Props.C11
open SlocModel SlocModel.Baseline

/-- processing fewer files can only remove results -/
theorem processed_sub (files : List Res) (mask : List Bool) : ∀ r ∈ processed files mask, r ∈ files := by
  intro r hr
  unfold processed at hr
  obtain ⟨p, hp, hpr⟩ := List.mem_filterMap.mp hr
  split at hpr
  · injection hpr with hpr; subst hpr; exact (List.of_mem_zip hp).1
  · cases hpr

theorem processed_all (files : List Res) (mask : List Bool) (hlen : mask.length = files.length)
    (hall : mask.all id = true) : processed files mask = files := by
  induction files generalizing mask with
  | nil => cases mask <;> simp [processed]
  | cons x xs ih =>
    cases mask with
    | nil => simp at hlen
    | cons m ms =>
      simp only [List.all_cons, Bool.and_eq_true, id] at hall
      simp only [List.length_cons] at hlen
      have := ih ms (by omega) hall.2
      simp only [processed, List.zip_cons_cons, List.filterMap_cons, hall.1, if_true] at *
      rw [this]

theorem apply_failed_iff (rs : List Res) (b : Base) :
    (apply rs b).any (fun x => decide (x.status = .failed)) =
      rs.any (fun x => decide (x.status = .failed) && !(x.kind.recordable && b.contains x.path)) := by
  unfold apply
  rw [List.any_map]
  congr 1
  funext x
  by_cases hf : x.status = .failed <;> by_cases hc : b.contains x.path = true <;>
    cases hk : x.kind.recordable <;> simp [hf, hc, hk]

/-- does the (grandfathered) result list contain an un-grandfathered failure? -/
def hasFailure (loaded : Option Base) (rs : List Res) : Bool :=
  (grandfather loaded rs).any (fun x => decide (x.status = .failed))

theorem hasFailure_iff_trigger (loaded : Option Base) (rs : List Res) :
    hasFailure loaded rs = rs.any (triggers loaded) := by
  unfold hasFailure grandfather triggers
  cases loaded with
  | none => simp
  | some b => simp only; rw [apply_failed_iff]

/-- **the verdict does not depend on the schedule**: for every admissible processed set, the
    run finds an un-grandfathered failure among the processed files iff the full run does -/
theorem failure_independent_of_schedule (loaded : Option Base) (files : List Res)
    (mask : List Bool) (h : admissible loaded files mask = true) :
    hasFailure loaded (processed files mask) = hasFailure loaded files := by
  rw [hasFailure_iff_trigger, hasFailure_iff_trigger]
  unfold admissible at h
  simp only [Bool.and_eq_true, decide_eq_true_eq, Bool.or_eq_true] at h
  obtain ⟨hlen, hcase⟩ := h
  rcases hcase with hall | htrig
  · rw [processed_all files mask hlen hall]
  · -- some processed file triggers: both sides are true
    obtain ⟨p, hp, hpt⟩ := List.any_eq_true.mp htrig
    simp only [Bool.and_eq_true] at hpt
    have h1 : (processed files mask).any (triggers loaded) = true := by
      apply List.any_eq_true.mpr
      refine ⟨p.1, ?_, hpt.2⟩
      unfold processed
      exact List.mem_filterMap.mpr ⟨p, hp, by simp [hpt.1]⟩
    have h2 : files.any (triggers loaded) = true :=
      List.any_eq_true.mpr ⟨p.1, (List.of_mem_zip hp).1, hpt.2⟩
    rw [h1, h2]

/-- without fail-fast every file is processed: the result list is the input list, in input
    order, for every thread count (rayon's `collect` preserves order) -/
theorem no_ff_deterministic (files : List Res) (mask : List Bool)
    (hlen : mask.length = files.length) (hall : mask.all id = true) :
    processed files mask = files := processed_all files mask hlen hall

/-- fail-fast never turns a failing run into a passing one, in particular not when the first
    failure met is one the baseline grandfathers: a grandfathered failure does not trigger -/
theorem grandfathered_does_not_trigger (b : Base) (r : Res) (h : b.contains r.path = true)
    (hk : r.kind = .content) : triggers (some b) r = false := by
  simp [triggers, h, hk, Kind.recordable]

/-- exit code (warnings aside) is the same with and without fail-fast for every schedule -/
theorem exit_independent (loaded : Option Base) (files : List Res) (mask : List Bool)
    (h : admissible loaded files mask = true) (warnOnly rf : Bool) :
    exitCode (grandfather loaded (processed files mask)) warnOnly false rf =
    exitCode (grandfather loaded files) warnOnly false rf := by
  have := failure_independent_of_schedule loaded files mask h
  unfold hasFailure at this
  unfold exitCode
  simp [this]

/-! ### admissible sets are exactly what schedules produce -/

/-- the sequential schedule for an input order: process until the first trigger, inclusive -/
def seqMask (loaded : Option Base) : List Res → List Bool
  | [] => []
  | r :: rs => true :: (if triggers loaded r then rs.map (fun _ => false) else seqMask loaded rs)

theorem seqMask_length (loaded : Option Base) (files : List Res) :
    (seqMask loaded files).length = files.length := by
  induction files with
  | nil => rfl
  | cons r rs ih => simp only [seqMask]; split <;> simp [ih]

/-- every one-worker schedule yields an admissible set -/
theorem seq_admissible (loaded : Option Base) (files : List Res) :
    admissible loaded files (seqMask loaded files) = true := by
  unfold admissible
  simp only [seqMask_length, decide_true, Bool.true_and, Bool.or_eq_true]
  induction files with
  | nil => left; rfl
  | cons r rs ih =>
    simp only [seqMask]
    by_cases ht : triggers loaded r = true
    · right; simp [ht]
    · simp only [ht, Bool.false_eq_true, if_false]
      rcases ih with h | h
      · left; simpa using h
      · right; simp only [List.zip_cons_cons, List.any_cons]; simp [h]

/-- Parallel workers: a trace is a list of events; worker steps are "load flag", "process
    file i", "store flag".  Abstractly: a file is skipped only if, when its worker loaded the
    flag, the flag was already set — and the flag is only ever set after a triggering file
    was processed.  `ParRun` captures exactly that. -/
inductive ParRun (loaded : Option Base) : List Res → Bool → List Bool → Prop where
  | nil (flag : Bool) : ParRun loaded [] flag []
  /-- the worker saw the flag unset (or read it before it was set): the file is processed;
      afterwards the flag may be set if this or an earlier processed file triggers -/
  | proc (r : Res) (rs : List Res) (flag flag' : Bool) (ms : List Bool) :
      (flag' = true → flag = true ∨ triggers loaded r = true) →
      ParRun loaded rs flag' ms → ParRun loaded (r :: rs) flag (true :: ms)
  /-- the worker saw the flag set: the file is skipped -/
  | skip (r : Res) (rs : List Res) (ms : List Bool) :
      ParRun loaded rs true ms → ParRun loaded (r :: rs) true (false :: ms)

theorem parRun_length {loaded : Option Base} {files : List Res} {flag : Bool} {mask : List Bool}
    (h : ParRun loaded files flag mask) : mask.length = files.length := by
  induction h with
  | nil => rfl
  | proc _ _ _ _ _ _ _ ih => simp [ih]
  | skip _ _ _ _ ih => simp [ih]

theorem parRun_inv {loaded : Option Base} {files : List Res} {flag : Bool} {mask : List Bool}
    (h : ParRun loaded files flag mask) :
    mask.all id = true ∨ flag = true ∨ (files.zip mask).any (fun p => p.2 && triggers loaded p.1) = true := by
  induction h with
  | nil => left; rfl
  | proc r rs flag flag' ms hflag _ ih =>
    rcases ih with h | h | h
    · left; simpa using h
    · rcases hflag h with h' | h'
      · right; left; exact h'
      · right; right; simp [h']
    · right; right; simp only [List.zip_cons_cons, List.any_cons]; simp [h]
  | skip r rs ms _ ih =>
    right; left; rfl

/-- every interleaving of any number of workers (flag initially unset) yields an admissible set -/
theorem par_admissible (loaded : Option Base) (files : List Res) (mask : List Bool)
    (h : ParRun loaded files false mask) : admissible loaded files mask = true := by
  unfold admissible
  simp only [parRun_length h, decide_true, Bool.true_and, Bool.or_eq_true]
  rcases parRun_inv h with h1 | h1 | h1
  · left; exact h1
  · cases h1
  · right; exact h1

/-! ### non-vacuity: the grandfathered-first scenario -/
def exBase : Base := [(['a'], .content 12)]
def exFiles : List Res := [⟨['a'], .failed, .content, 12⟩, ⟨['b'], .failed, .content, 9⟩]

/-- `a` is grandfathered and met first: it does not stop the run, `b` is still processed -/
example : seqMask (some exBase) exFiles = [true, true] := by decide
example : exitCode (grandfather (some exBase) (processed exFiles (seqMask (some exBase) exFiles)))
    false false false = 1 := by decide
/-- stopping after `a` is *not* admissible -/
example : admissible (some exBase) exFiles [true, false] = false := by decide

end SlocModel.Props.C11
