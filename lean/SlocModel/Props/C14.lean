import SlocModel.Concurrency
/-!
  C14 — Concurrent invocations neither corrupt nor lose persisted state.

  Statements about `SlocModel.Concurrency`, for **every schedule** (any interleaving of the
  processes' steps, any number of processes, lock attempts timing out at any moment).
-/
namespace SlocModel.Props.C14
open SlocModel SlocModel.Concurrency

theorem get_set {α : Type} (l : List α) (p q : Nat) (v x : α) (h : (l.set p v)[q]? = some x) :
    (q = p ∧ x = v) ∨ (q ≠ p ∧ l[q]? = some x) := by
  by_cases e : p = q
  · subst e
    left
    rw [List.getElem?_set_self'] at h
    cases hl : l[p]? with
    | none => simp [hl] at h
    | some y => simp [hl] at h; exact ⟨rfl, h.symm⟩
  · right
    rw [List.getElem?_set_ne e] at h
    exact ⟨fun e' => e e'.symm, h⟩

/-! ### the append protocol with the update lock: no recorded snapshot is ever lost -/

def inCS (pc : APC) : Prop := pc = .load ∨ pc = .save ∨ pc = .release

/-- the invariant of the repaired protocol -/
def AInv (init : Content) (s : AS) : Prop :=
  ∃ recs : List Nat, s.file = init ++ recs ∧
    (∀ (p : Pid) (pr : AProc), s.procs[p]? = some pr → pr.recorded = true → pr.entry ∈ recs) ∧
    (∀ (p : Pid) (pr : AProc), s.procs[p]? = some pr → (inCS pr.pc ↔ s.holder = some p)) ∧
    (∀ (p : Pid) (pr : AProc), s.procs[p]? = some pr → pr.pc = APC.save → pr.loaded = s.file)

theorem ainv_init (init : Content) (entries : List Nat) : AInv init (ainit init entries) := by
  refine ⟨[], by simp [ainit], ?_, ?_, ?_⟩
  · intro p pr h
    simp only [ainit, List.getElem?_map] at h
    cases he : entries[p]? with
    | none => simp [he] at h
    | some e => simp [he] at h; subst h; simp
  · intro p pr h
    simp only [ainit, List.getElem?_map] at h
    cases he : entries[p]? with
    | none => simp [he] at h
    | some e => simp [he] at h; subst h; simp [inCS, ainit]
  · intro p pr h
    simp only [ainit, List.getElem?_map] at h
    cases he : entries[p]? with
    | none => simp [he] at h
    | some e => simp [he] at h; subst h; simp

theorem ainv_step (init : Content) (s s' : AS) (p : Pid) (t : Bool) (hi : AInv init s)
    (h : astep true s p t = some s') : AInv init s' := by
  obtain ⟨recs, hf, hrec, hcs, hld⟩ := hi
  unfold astep at h
  cases hp : s.procs[p]? with
  | none => simp [hp] at h
  | some pr =>
    simp only [hp] at h
    have hcsp := hcs p pr hp
    cases hpc : pr.pc with
    | done => simp [hpc] at h
    | wantLock =>
      simp only [hpc, Bool.not_true, Bool.false_eq_true, if_false] at h
      by_cases hh : s.holder.isNone = true
      · simp only [hh, if_true, Option.some.injEq] at h
        subst h
        have hnone : s.holder = none := by cases hx : s.holder <;> simp_all
        refine ⟨recs, hf, ?_, ?_, ?_⟩
        · intro q x hq hr
          rcases get_set _ _ _ _ _ hq with ⟨_, rfl⟩ | ⟨_, hq'⟩
          · exact hrec p pr hp hr
          · exact hrec q x hq' hr
        · intro q x hq
          rcases get_set _ _ _ _ _ hq with ⟨rfl, rfl⟩ | ⟨hne, hq'⟩
          · simp [inCS]
          · have := hcs q x hq'
            rw [hnone] at this
            simp only [reduceCtorEq, iff_false] at this
            constructor
            · intro hx; exact absurd hx this
            · intro hx; simp only [Option.some.injEq] at hx; exact absurd hx.symm hne
        · intro q x hq hs
          rcases get_set _ _ _ _ _ hq with ⟨_, rfl⟩ | ⟨_, hq'⟩
          · simp at hs
          · exact hld q x hq' hs
      · simp only [hh, Bool.false_eq_true, if_false] at h
        cases t with
        | false => simp at h
        | true =>
          simp only [if_true, Option.some.injEq] at h
          subst h
          refine ⟨recs, hf, ?_, ?_, ?_⟩
          · intro q x hq hr
            rcases get_set _ _ _ _ _ hq with ⟨_, rfl⟩ | ⟨_, hq'⟩
            · exact hrec p pr hp hr
            · exact hrec q x hq' hr
          · intro q x hq
            rcases get_set _ _ _ _ _ hq with ⟨rfl, rfl⟩ | ⟨_, hq'⟩
            · have : ¬ inCS pr.pc := by simp [inCS, hpc]
              have h2 : ¬ s.holder = some q := fun e => this (hcsp.2 e)
              simp [inCS, h2]
            · exact hcs q x hq'
          · intro q x hq hs
            rcases get_set _ _ _ _ _ hq with ⟨_, rfl⟩ | ⟨_, hq'⟩
            · simp at hs
            · exact hld q x hq' hs
    | load =>
      simp only [hpc, Option.some.injEq] at h
      subst h
      have hhold : s.holder = some p := hcsp.1 (by simp [inCS, hpc])
      refine ⟨recs, hf, ?_, ?_, ?_⟩
      · intro q x hq hr
        rcases get_set _ _ _ _ _ hq with ⟨_, rfl⟩ | ⟨_, hq'⟩
        · exact hrec p pr hp hr
        · exact hrec q x hq' hr
      · intro q x hq
        rcases get_set _ _ _ _ _ hq with ⟨rfl, rfl⟩ | ⟨_, hq'⟩
        · simp [inCS, hhold]
        · exact hcs q x hq'
      · intro q x hq hs
        rcases get_set _ _ _ _ _ hq with ⟨_, rfl⟩ | ⟨_, hq'⟩
        · rfl
        · exact hld q x hq' hs
    | save =>
      have hhold : s.holder = some p := hcsp.1 (by simp [inCS, hpc])
      have hloaded : pr.loaded = s.file := hld p pr hp hpc
      simp only [hpc] at h
      cases t with
      | true =>
        simp only [if_true, Option.some.injEq] at h
        subst h
        refine ⟨recs, hf, ?_, ?_, ?_⟩
        · intro q x hq hr
          rcases get_set _ _ _ _ _ hq with ⟨_, rfl⟩ | ⟨_, hq'⟩
          · exact hrec p pr hp hr
          · exact hrec q x hq' hr
        · intro q x hq
          rcases get_set _ _ _ _ _ hq with ⟨rfl, rfl⟩ | ⟨_, hq'⟩
          · simp [inCS, hhold]
          · exact hcs q x hq'
        · intro q x hq hs
          rcases get_set _ _ _ _ _ hq with ⟨_, rfl⟩ | ⟨_, hq'⟩
          · simp at hs
          · exact hld q x hq' hs
      | false =>
        simp only [Bool.false_eq_true, if_false, Option.some.injEq] at h
        subst h
        refine ⟨recs ++ [pr.entry], by simp [hloaded, hf], ?_, ?_, ?_⟩
        · intro q x hq hr
          rcases get_set _ _ _ _ _ hq with ⟨_, rfl⟩ | ⟨_, hq'⟩
          · simp
          · exact List.mem_append_left _ (hrec q x hq' hr)
        · intro q x hq
          rcases get_set _ _ _ _ _ hq with ⟨rfl, rfl⟩ | ⟨_, hq'⟩
          · simp [inCS, hhold]
          · exact hcs q x hq'
        · intro q x hq hs
          rcases get_set _ _ _ _ _ hq with ⟨_, rfl⟩ | ⟨hne, hq'⟩
          · simp at hs
          · -- another process in `save` would hold the lock too
            have := (hcs q x hq').1 (by simp [inCS, hs])
            rw [hhold] at this
            simp only [Option.some.injEq] at this
            exact absurd this.symm hne
    | release =>
      have hhold : s.holder = some p := hcsp.1 (by simp [inCS, hpc])
      simp only [hpc, Bool.true_and, Option.some.injEq] at h
      subst h
      refine ⟨recs, hf, ?_, ?_, ?_⟩
      · intro q x hq hr
        rcases get_set _ _ _ _ _ hq with ⟨_, rfl⟩ | ⟨_, hq'⟩
        · exact hrec p pr hp hr
        · exact hrec q x hq' hr
      · intro q x hq
        simp only [hhold, decide_true, if_true]
        rcases get_set _ _ _ _ _ hq with ⟨rfl, rfl⟩ | ⟨hne, hq'⟩
        · simp [inCS]
        · have := hcs q x hq'
          rw [hhold] at this
          simp only [Option.some.injEq] at this
          constructor
          · intro hx; exact absurd (this.1 hx).symm hne
          · intro hx; cases hx
      · intro q x hq hs
        rcases get_set _ _ _ _ _ hq with ⟨_, rfl⟩ | ⟨_, hq'⟩
        · simp at hs
        · exact hld q x hq' hs

theorem ainv_run (init : Content) (s : AS) (sched : List (Pid × Bool)) (hi : AInv init s) :
    AInv init (arun true s sched) := by
  induction sched generalizing s with
  | nil => exact hi
  | cons x rest ih =>
    obtain ⟨p, t⟩ := x
    simp only [arun]
    cases h : astep true s p t with
    | none => simpa [h] using ih s hi
    | some s' => simpa [h] using ih s' (ainv_step init s s' p t hi h)

/-- **no recorded snapshot is lost**: for every number of concurrent snapshots, every
    interleaving and every pattern of lock timeouts, each snapshot that reported "recorded" is in
    the history afterwards, and nothing that was there before is gone -/
theorem no_recorded_snapshot_lost (init : Content) (entries : List Nat) (sched : List (Pid × Bool))
    (pr : AProc) (hm : pr ∈ (arun true (ainit init entries) sched).procs) (hr : pr.recorded = true) :
    pr.entry ∈ (arun true (ainit init entries) sched).file ∧
      init <+: (arun true (ainit init entries) sched).file := by
  obtain ⟨recs, hf, hrec, _, _⟩ := ainv_run init _ sched (ainv_init init entries)
  obtain ⟨p, hp⟩ := List.mem_iff_getElem?.1 hm
  rw [hf]
  exact ⟨List.mem_append_right _ (hrec p pr hp hr), List.prefix_append _ _⟩

/-- mutual exclusion: at most one process is between acquiring and releasing the update lock -/
theorem update_lock_excludes (init : Content) (entries : List Nat) (sched : List (Pid × Bool))
    (p q : Pid) (x y : AProc)
    (hp : (arun true (ainit init entries) sched).procs[p]? = some x)
    (hq : (arun true (ainit init entries) sched).procs[q]? = some y)
    (hx : inCS x.pc) (hy : inCS y.pc) : p = q := by
  obtain ⟨_, _, _, hcs, _⟩ := ainv_run init _ sched (ainv_init init entries)
  have h1 := (hcs p x hp).1 hx
  have h2 := (hcs q y hq).1 hy
  rw [h1] at h2
  exact Option.some.inj h2

/-- **without the lock an entry is lost** (the protocol as found): two snapshots load the same
    history, each writes back what it loaded plus its own entry, both report "recorded" -/
theorem lost_update_without_lock :
    ∃ sched : List (Pid × Bool), ∃ pr ∈ (arun false (ainit [] [1, 2]) sched).procs,
      pr.recorded = true ∧ pr.entry ∉ (arun false (ainit [] [1, 2]) sched).file := by
  refine ⟨[(0, false), (0, false), (1, false), (1, false), (0, false), (1, false), (0, false), (1, false)],
    { entry := 1, pc := .done, loaded := [], recorded := true }, by decide, by decide, by decide⟩

/-- non-vacuity: under the lock the same schedule serialises the two snapshots -/
example : (arun true (ainit [] [1, 2])
    [(0, false), (0, false), (1, false), (1, false), (0, false), (1, false), (0, false), (1, false),
     (1, false), (1, false), (1, false)]).file = [1, 2] := by decide

/-! ### the file protocol: reads are never torn, the file is always some writer's content -/

/-- everything that can legitimately be in the state file -/
def allowed (initial : Option Content) (roles : List Role) : List Content :=
  initial.toList ++ roles.filterMap (fun r => match r with | .writer c => some c | .reader => none)

/-- what the invariant says about one process: what it read and what it writes are allowed
    contents, its temporary file exists, and it has one from `wOpen` to `wRename` -/
def ProcOk (al : List Content) (n : Nat) (pr : Proc) : Prop :=
  (∀ c, pr.result = some c → c ∈ al) ∧ (∀ c, pr.role = .writer c → c ∈ al) ∧
  (∀ t, pr.temp = some t → t < n) ∧
  (pr.pc = .wOpen ∨ pr.pc = .wLock ∨ pr.pc = .wRename → pr.temp.isSome = true)

def FInv (al : List Content) (s : FS) : Prop :=
  (∀ n ∈ s.inodes, n.content ∈ al) ∧
  (∀ pr ∈ s.procs, ProcOk al s.inodes.length pr) ∧
  (∀ i, s.name = some i → i < s.inodes.length)

theorem ProcOk.mono {al : List Content} {n m : Nat} {pr : Proc} (h : n ≤ m) (hp : ProcOk al n pr) :
    ProcOk al m pr :=
  ⟨hp.1, hp.2.1, fun t ht => Nat.lt_of_lt_of_le (hp.2.2.1 t ht) h, hp.2.2.2⟩

theorem mem_set {α : Type} (l : List α) (i : Nat) (v x : α) (h : x ∈ l.set i v) : x = v ∨ x ∈ l := by
  rcases List.mem_or_eq_of_mem_set h with h | h
  · exact Or.inr h
  · exact Or.inl h

theorem procs_set (procs : List Proc) (p : Pid) (v : Proc) (Q : Proc → Prop)
    (hall : ∀ x ∈ procs, Q x) (hv : Q v) : ∀ x ∈ setProc procs p v, Q x := by
  intro x hx
  rcases mem_set _ _ _ _ hx with rfl | hx
  · exact hv
  · exact hall x hx

theorem inodes_set (al : List Content) (is : List Inode) (i : Nat) (n v : Inode)
    (hin : ∀ m ∈ is, m.content ∈ al) (hn : is[i]? = some n) (hv : v.content = n.content) :
    ∀ m ∈ setInode is i v, m.content ∈ al := by
  intro m hm
  rcases mem_set _ _ _ _ hm with rfl | hm
  · rw [hv]; exact hin n (List.mem_of_getElem? hn)
  · exact hin m hm

theorem finv_init (initial : Option Content) (roles : List Role) :
    FInv (allowed initial roles) (finit initial roles) := by
  refine ⟨?_, ?_, ?_⟩
  · intro n hn
    cases initial with
    | none => simp [finit] at hn
    | some c => simp [finit] at hn; subst hn; simp [allowed]
  · intro pr hpr
    simp only [finit, List.mem_map] at hpr
    obtain ⟨r, hr, rfl⟩ := hpr
    refine ⟨by simp [startOf], ?_, by simp [startOf], ?_⟩
    · intro c hc
      simp only [startOf] at hc
      subst hc
      simp only [allowed, List.mem_append, List.mem_filterMap]
      exact Or.inr ⟨_, hr, rfl⟩
    · cases r <;> simp [startOf]
  · intro i hi
    cases initial with
    | none => simp [finit] at hi
    | some c => simp [finit] at hi; subst hi; simp [finit]

theorem handle_inode (s : FS) (pr : Proc) (i : Nat) (n : Inode)
    (hb : pr.handle.bind (fun i => (s.inodes[i]?).map (fun n => (i, n))) = some (i, n)) :
    s.inodes[i]? = some n := by
  cases hh : pr.handle with
  | none => simp [hh] at hb
  | some j =>
    simp only [hh, Option.bind_some, Option.map_eq_some_iff] at hb
    obtain ⟨m, hm, e⟩ := hb
    cases e; exact hm

theorem finv_step (al : List Content) (s s' : FS) (p : Pid) (t : Bool) (hi : FInv al s)
    (h : fstep s p t = some s') : FInv al s' := by
  obtain ⟨hin, hprocs, hname⟩ := hi
  unfold fstep at h
  cases hp : s.procs[p]? with
  | none => simp [hp] at h
  | some pr =>
    have hprm : pr ∈ s.procs := List.mem_of_getElem? hp
    obtain ⟨r1, r2, r3, r4⟩ := hprocs pr hprm
    simp only [hp] at h
    cases hpc : pr.pc with
    | done => simp [hpc] at h
    | rOpen =>
      simp only [hpc] at h
      cases hn : s.name with
      | none =>
        simp only [hn, Option.some.injEq] at h; subst h
        exact ⟨hin, procs_set _ _ _ _ hprocs ⟨by simp, r2, r3, by simp⟩, by simpa [hn] using hname⟩
      | some i =>
        simp only [hn, Option.some.injEq] at h; subst h
        exact ⟨hin, procs_set _ _ _ _ hprocs ⟨r1, r2, r3, by simp⟩, by simpa [hn] using hname⟩
    | rLock =>
      simp only [hpc] at h
      cases hb : pr.handle.bind (fun i => (s.inodes[i]?).map (fun n => (i, n))) with
      | none => simp [hb] at h
      | some x =>
        obtain ⟨i, n⟩ := x
        have hn := handle_inode s pr i n hb
        simp only [hb] at h
        split at h
        · simp only [Option.some.injEq] at h; subst h
          refine ⟨inodes_set al _ i n _ hin hn rfl, ?_, ?_⟩
          · simp only [setInode, List.length_set]
            exact procs_set _ _ _ _ hprocs ⟨r1, r2, r3, by simp⟩
          · intro j hj; simpa [setInode] using hname j hj
        · split at h
          · simp only [Option.some.injEq] at h; subst h
            exact ⟨hin, procs_set _ _ _ _ hprocs ⟨r1, r2, r3, by simp⟩, hname⟩
          · cases h
    | rRead =>
      simp only [hpc] at h
      cases hb : pr.handle.bind (fun i => (s.inodes[i]?).map (fun n => (i, n))) with
      | none => simp [hb] at h
      | some x =>
        obtain ⟨i, n⟩ := x
        have hn := handle_inode s pr i n hb
        simp only [hb, Option.some.injEq] at h; subst h
        refine ⟨inodes_set al _ i n _ hin hn rfl, ?_, ?_⟩
        · simp only [setInode, List.length_set]
          refine procs_set _ _ _ _ hprocs ⟨?_, r2, r3, by simp⟩
          intro c hc
          simp only [Option.some.injEq] at hc
          subst hc
          exact hin n (List.mem_of_getElem? hn)
        · intro j hj; simpa [setInode] using hname j hj
    | wTemp =>
      simp only [hpc] at h
      cases hr : pr.role with
      | reader => simp [hr] at h
      | writer c =>
        simp only [hr, Option.some.injEq] at h; subst h
        refine ⟨?_, ?_, ?_⟩
        · intro n hn
          rcases List.mem_append.1 hn with hn | hn
          · exact hin n hn
          · simp at hn; subst hn; exact r2 c hr
        · simp only [List.length_append, List.length_singleton]
          refine procs_set _ _ _ _ (fun x hx => (hprocs x hx).mono (Nat.le_succ _)) ⟨r1, ?_, ?_, by simp⟩
          · intro c' hc'; cases hc'; exact r2 c hr
          · intro t' ht'; simp at ht'; omega
        · intro j hj; have := hname j hj; simp; omega
    | wOpen =>
      simp only [hpc, Option.some.injEq] at h; subst h
      exact ⟨hin, procs_set _ _ _ _ hprocs ⟨r1, r2, r3, fun _ => r4 (Or.inl hpc)⟩, hname⟩
    | wLock =>
      simp only [hpc] at h
      cases hh : pr.handle with
      | none =>
        simp only [hh, Option.some.injEq] at h; subst h
        exact ⟨hin, procs_set _ _ _ _ hprocs ⟨r1, r2, r3, fun _ => r4 (Or.inr (Or.inl hpc))⟩, hname⟩
      | some i =>
        simp only [hh] at h
        cases hn : s.inodes[i]? with
        | none => simp [hn] at h
        | some n =>
          simp only [hn] at h
          split at h
          · simp only [Option.some.injEq] at h; subst h
            refine ⟨inodes_set al _ i n _ hin hn rfl, ?_, ?_⟩
            · simp only [setInode, List.length_set]
              exact procs_set _ _ _ _ hprocs ⟨r1, r2, r3, fun _ => r4 (Or.inr (Or.inl hpc))⟩
            · intro j hj; simpa [setInode] using hname j hj
          · split at h
            · simp only [Option.some.injEq] at h; subst h
              exact ⟨hin, procs_set _ _ _ _ hprocs ⟨r1, r2, r3, by simp⟩, hname⟩
            · cases h
    | wRename =>
      simp only [hpc, Option.some.injEq] at h; subst h
      exact ⟨hin, procs_set _ _ _ _ hprocs ⟨r1, r2, r3, by simp⟩, fun j hj => r3 j hj⟩
    | wUnlock =>
      simp only [hpc] at h
      cases hh : pr.handle with
      | none =>
        simp only [hh, Option.some.injEq] at h; subst h
        exact ⟨hin, procs_set _ _ _ _ hprocs ⟨r1, r2, r3, by simp⟩, hname⟩
      | some i =>
        simp only [hh] at h
        cases hn : s.inodes[i]? with
        | none => simp [hn] at h
        | some n =>
          simp only [hn, Option.some.injEq] at h; subst h
          refine ⟨inodes_set al _ i n _ hin hn rfl, ?_, ?_⟩
          · simp only [setInode, List.length_set]
            exact procs_set _ _ _ _ hprocs ⟨r1, r2, r3, by simp⟩
          · intro j hj; simpa [setInode] using hname j hj

theorem finv_run (al : List Content) (s : FS) (sched : List (Pid × Bool)) (hi : FInv al s) :
    FInv al (frun s sched) := by
  induction sched generalizing s with
  | nil => exact hi
  | cons x rest ih =>
    obtain ⟨p, t⟩ := x
    simp only [frun]
    cases h : fstep s p t with
    | none => simpa [h] using ih s hi
    | some s' => simpa [h] using ih s' (finv_step al s s' p t hi h)

/-- **no torn or empty read**: under every interleaving of any readers and writers, whatever a
    reader reads is the initial content or the complete content of one writer -/
theorem reads_are_complete (initial : Option Content) (roles : List Role) (sched : List (Pid × Bool))
    (pr : Proc) (hm : pr ∈ (frun (finit initial roles) sched).procs) (c : Content)
    (hr : pr.result = some c) : c ∈ allowed initial roles :=
  ((finv_run _ _ sched (finv_init initial roles)).2.1 pr hm).1 c hr

/-- **the file is always one writer's content**: at every moment the name refers to the initial
    content or to the complete content of one of the writers -/
theorem file_is_some_writers (initial : Option Content) (roles : List Role) (sched : List (Pid × Bool))
    (c : Content) (hc : current (frun (finit initial roles) sched) = some c) : c ∈ allowed initial roles := by
  obtain ⟨hin, _, hname⟩ := finv_run _ _ sched (finv_init initial roles)
  unfold current at hc
  cases hn : (frun (finit initial roles) sched).name with
  | none => simp [hn] at hc
  | some i =>
    simp only [hn, Option.bind_some, Option.map_eq_some_iff] at hc
    obtain ⟨n, hn', rfl⟩ := hc
    exact hin n (List.mem_of_getElem? hn')

/-- one step never makes the name dangle or disappear -/
theorem name_stays (al : List Content) (s s' : FS) (p : Pid) (t : Bool) (hi : FInv al s)
    (h : fstep s p t = some s') (hn : s.name.isSome = true) : s'.name.isSome = true := by
  obtain ⟨_, hprocs, _⟩ := hi
  unfold fstep at h
  cases hp : s.procs[p]? with
  | none => simp [hp] at h
  | some pr =>
    have r4 := (hprocs pr (List.mem_of_getElem? hp)).2.2.2
    simp only [hp] at h
    cases hpc : pr.pc <;> simp only [hpc] at h
    · split at h <;> (simp only [Option.some.injEq] at h; subst h; simpa using hn)
    · split at h
      · cases h
      · split at h
        · simp only [Option.some.injEq] at h; subst h; exact hn
        · split at h
          · simp only [Option.some.injEq] at h; subst h; exact hn
          · cases h
    · split at h
      · cases h
      · simp only [Option.some.injEq] at h; subst h; exact hn
    · split at h
      · simp only [Option.some.injEq] at h; subst h; exact hn
      · cases h
    · simp only [Option.some.injEq] at h; subst h; exact hn
    · split at h
      · simp only [Option.some.injEq] at h; subst h; exact hn
      · split at h
        · cases h
        · split at h
          · simp only [Option.some.injEq] at h; subst h; exact hn
          · split at h
            · simp only [Option.some.injEq] at h; subst h; exact hn
            · cases h
    · simp only [Option.some.injEq] at h; subst h
      exact r4 (Or.inr (Or.inr hpc))
    · split at h
      · simp only [Option.some.injEq] at h; subst h; exact hn
      · split at h
        · cases h
        · simp only [Option.some.injEq] at h; subst h; exact hn
    · cases h

/-- a state file that exists never disappears under its name, whatever the interleaving (the
    placeholder window of the original save protocol, repaired under C13, is gone) -/
theorem file_never_vanishes (c0 : Content) (roles : List Role) (sched : List (Pid × Bool)) :
    (current (frun (finit (some c0) roles) sched)).isSome = true := by
  have key : ∀ (s : FS) (sched : List (Pid × Bool)), FInv (allowed (some c0) roles) s → s.name.isSome = true →
      (frun s sched).name.isSome = true := by
    intro s sched
    induction sched generalizing s with
    | nil => intro _ h; exact h
    | cons x rest ih =>
      intro hi hn
      obtain ⟨p, t⟩ := x
      simp only [frun]
      cases h : fstep s p t with
      | none => simpa [h] using ih s hi hn
      | some s' => simpa [h] using ih s' (finv_step _ s s' p t hi h) (name_stays _ s s' p t hi h hn)
  have hname := key _ sched (finv_init (some c0) roles) (by simp [finit])
  obtain ⟨_, _, hvalid⟩ := finv_run _ _ sched (finv_init (some c0) roles)
  unfold current
  cases hn : (frun (finit (some c0) roles) sched).name with
  | none => simp [hn] at hname
  | some i =>
    have hlt := hvalid i hn
    simp only [Option.bind_some, Option.isSome_map]
    rw [List.getElem?_eq_getElem hlt]; rfl

/-! ### lock discipline: who holds what, and nothing is held by a finished process -/

/-- the lock fields of the inodes and the processes' own view agree -/
def LockInv (s : FS) : Prop :=
  (∀ (i : Nat) (n : Inode), s.inodes[i]? = some n → ∀ p ∈ n.shared,
      ∃ pr, s.procs[p]? = some pr ∧ pr.pc = .rRead ∧ pr.locked = true ∧ pr.handle = some i) ∧
  (∀ (i : Nat) (n : Inode), s.inodes[i]? = some n → ∀ p, n.excl = some p →
      ∃ pr, s.procs[p]? = some pr ∧ (pr.pc = .wRename ∨ pr.pc = .wUnlock) ∧ pr.locked = true ∧ pr.handle = some i) ∧
  (∀ (i : Nat) (n : Inode), s.inodes[i]? = some n → n.excl.isSome = true → n.shared = []) ∧
  (∀ (p : Pid) (pr : Proc), s.procs[p]? = some pr → (pr.pc = .wRename ∨ pr.pc = .wUnlock) → pr.locked = true →
      ∀ i, pr.handle = some i → ∃ n, s.inodes[i]? = some n ∧ n.excl = some p)

theorem lockinv_init (initial : Option Content) (roles : List Role) : LockInv (finit initial roles) := by
  refine ⟨?_, ?_, ?_, ?_⟩
  · intro i n hn p hp
    cases initial with
    | none => simp [finit] at hn
    | some c =>
      simp only [finit] at hn
      cases i with
      | zero => simp at hn; subst hn; simp at hp
      | succ j => simp at hn
  · intro i n hn p hp
    cases initial with
    | none => simp [finit] at hn
    | some c =>
      simp only [finit] at hn
      cases i with
      | zero => simp at hn; subst hn; simp at hp
      | succ j => simp at hn
  · intro i n hn _
    cases initial with
    | none => simp [finit] at hn
    | some c =>
      simp only [finit] at hn
      cases i with
      | zero => simp at hn; subst hn; rfl
      | succ j => simp at hn
  · intro p pr hp hpc
    simp only [finit, List.getElem?_map] at hp
    cases hr : roles[p]? with
    | none => simp [hr] at hp
    | some r =>
      simp [hr] at hp; subst hp
      cases r <;> simp [startOf] at hpc

/-- a process that is at neither `rRead`, `wRename` nor `wUnlock` holds no lock -/
theorem holds_nothing (s : FS) (hi : LockInv s) (p : Pid) (pr : Proc) (hp : s.procs[p]? = some pr)
    (h1 : pr.pc ≠ .rRead) (h2 : pr.pc ≠ .wRename) (h3 : pr.pc ≠ .wUnlock) :
    ∀ (i : Nat) (n : Inode), s.inodes[i]? = some n → p ∉ n.shared ∧ n.excl ≠ some p := by
  intro i n hn
  obtain ⟨l1, l2, _, _⟩ := hi
  constructor
  · intro hm
    obtain ⟨pr', hp', hpc, _, _⟩ := l1 i n hn p hm
    rw [hp] at hp'; cases hp'; exact h1 hpc
  · intro he
    obtain ⟨pr', hp', hpc, _, _⟩ := l2 i n hn p he
    rw [hp] at hp'; cases hp'
    rcases hpc with hpc | hpc
    · exact h2 hpc
    · exact h3 hpc

/-- outside the three lock-holding program points a process's `locked` flag is off -/
def FlagInv (s : FS) : Prop :=
  ∀ (p : Pid) (pr : Proc), s.procs[p]? = some pr →
    pr.pc ≠ .rRead → pr.pc ≠ .wRename → pr.pc ≠ .wUnlock → pr.locked = false

theorem get_set_self {α : Type} (l : List α) (p : Nat) (v x : α) (hx : l[p]? = some x) :
    (l.set p v)[p]? = some v := by
  rw [List.getElem?_set_self']; simp [hx]

/-- replacing the record of a process that holds nothing by one that claims nothing keeps the
    lock invariant (the inodes are untouched) -/
theorem lockinv_procs_only (s : FS) (hi : LockInv s) (p : Pid) (pr v : Proc) (hp : s.procs[p]? = some pr)
    (h1 : pr.pc ≠ .rRead) (h2 : pr.pc ≠ .wRename) (h3 : pr.pc ≠ .wUnlock)
    (hv : ¬ ((v.pc = .wRename ∨ v.pc = .wUnlock) ∧ v.locked = true))
    (nm : Option Nat) :
    LockInv { s with name := nm, procs := setProc s.procs p v } := by
  have hn := holds_nothing s hi p pr hp h1 h2 h3
  obtain ⟨l1, l2, l3, l4⟩ := hi
  refine ⟨?_, ?_, l3, ?_⟩
  · intro i n hin q hq
    obtain ⟨pr', hp', a, b, c⟩ := l1 i n hin q hq
    have hne : q ≠ p := fun e => (hn i n hin).1 (e ▸ hq)
    exact ⟨pr', by simp only [setProc]; rw [List.getElem?_set_ne (Ne.symm hne)]; exact hp', a, b, c⟩
  · intro i n hin q hq
    obtain ⟨pr', hp', a, b, c⟩ := l2 i n hin q hq
    have hne : q ≠ p := fun e => (hn i n hin).2 (e ▸ hq)
    exact ⟨pr', by simp only [setProc]; rw [List.getElem?_set_ne (Ne.symm hne)]; exact hp', a, b, c⟩
  · intro q x hq hpc hl i hh
    rcases get_set _ _ _ _ _ hq with ⟨_, rfl⟩ | ⟨_, hq'⟩
    · exact absurd ⟨hpc, hl⟩ hv
    · exact l4 q x hq' hpc hl i hh

theorem flaginv_set (s : FS) (hf : FlagInv s) (p : Pid) (v : Proc) (is : List Inode) (nm : Option Nat)
    (hv : v.pc ≠ .rRead → v.pc ≠ .wRename → v.pc ≠ .wUnlock → v.locked = false) :
    FlagInv { inodes := is, name := nm, procs := setProc s.procs p v } := by
  intro q x hq a b c
  rcases get_set _ _ _ _ _ hq with ⟨_, rfl⟩ | ⟨_, hq'⟩
  · exact hv a b c
  · exact hf q x hq' a b c

theorem lockflag_step (s s' : FS) (p : Pid) (t : Bool) (hi : LockInv s) (hf : FlagInv s)
    (h : fstep s p t = some s') : LockInv s' ∧ FlagInv s' := by
  unfold fstep at h
  cases hp : s.procs[p]? with
  | none => simp [hp] at h
  | some pr =>
    simp only [hp] at h
    have hflag := hf p pr hp
    cases hpc : pr.pc with
    | done => simp [hpc] at h
    | rOpen =>
      simp only [hpc] at h
      have hl : pr.locked = false := hflag (by simp [hpc]) (by simp [hpc]) (by simp [hpc])
      cases hn : s.name with
      | none =>
        simp only [hn, Option.some.injEq] at h; subst h
        exact ⟨by simpa [hn] using lockinv_procs_only s hi p pr _ hp (by simp [hpc]) (by simp [hpc]) (by simp [hpc]) (by simp) s.name,
          flaginv_set s hf p _ _ _ (by simp [hl])⟩
      | some i =>
        simp only [hn, Option.some.injEq] at h; subst h
        exact ⟨by simpa [hn] using lockinv_procs_only s hi p pr _ hp (by simp [hpc]) (by simp [hpc]) (by simp [hpc]) (by simp) s.name,
          flaginv_set s hf p _ _ _ (by simp [hl])⟩
    | rLock =>
      simp only [hpc] at h
      have hl : pr.locked = false := hflag (by simp [hpc]) (by simp [hpc]) (by simp [hpc])
      cases hb : pr.handle.bind (fun i => (s.inodes[i]?).map (fun n => (i, n))) with
      | none => simp [hb] at h
      | some x =>
        obtain ⟨i, n⟩ := x
        have hn := handle_inode s pr i n hb
        have hh : pr.handle = some i := by
          cases hx : pr.handle with
          | none => simp [hx] at hb
          | some j =>
            simp only [hx, Option.bind_some, Option.map_eq_some_iff] at hb
            obtain ⟨m, _, e⟩ := hb
            cases e; rfl
        simp only [hb] at h
        split at h
        · rename_i hex
          simp only [Option.some.injEq] at h; subst h
          have hnone := holds_nothing s hi p pr hp (by simp [hpc]) (by simp [hpc]) (by simp [hpc])
          obtain ⟨l1, l2, l3, l4⟩ := hi
          have hilt : i < s.inodes.length := (List.getElem?_eq_some_iff.1 hn).1
          refine ⟨⟨?_, ?_, ?_, ?_⟩, flaginv_set s hf p _ _ _ (by simp)⟩
          · intro j m hj q hq
            rcases get_set _ _ _ _ _ hj with ⟨rfl, rfl⟩ | ⟨hne, hj'⟩
            · simp only [List.mem_cons] at hq
              rcases hq with rfl | hq
              · exact ⟨_, get_set_self _ _ _ _ hp, rfl, rfl, hh⟩
              · obtain ⟨pr', hp', a, b, c⟩ := l1 j n hn q hq
                have hqp : q ≠ p := fun e => (hnone j n hn).1 (e ▸ hq)
                exact ⟨pr', by simp only [setProc]; rw [List.getElem?_set_ne (Ne.symm hqp)]; exact hp', a, b, c⟩
            · obtain ⟨pr', hp', a, b, c⟩ := l1 j m hj' q hq
              have hqp : q ≠ p := fun e => (hnone j m hj').1 (e ▸ hq)
              exact ⟨pr', by simp only [setProc]; rw [List.getElem?_set_ne (Ne.symm hqp)]; exact hp', a, b, c⟩
          · intro j m hj q hq
            rcases get_set _ _ _ _ _ hj with ⟨rfl, rfl⟩ | ⟨hne, hj'⟩
            · simp only at hq
              cases hx : n.excl with
              | none => rw [hx] at hq; cases hq
              | some y => simp [hx] at hex
            · obtain ⟨pr', hp', a, b, c⟩ := l2 j m hj' q hq
              have hqp : q ≠ p := fun e => (hnone j m hj').2 (e ▸ hq)
              exact ⟨pr', by simp only [setProc]; rw [List.getElem?_set_ne (Ne.symm hqp)]; exact hp', a, b, c⟩
          · intro j m hj he
            rcases get_set _ _ _ _ _ hj with ⟨rfl, rfl⟩ | ⟨hne, hj'⟩
            · simp only at he
              cases hx : n.excl with
              | none => rw [hx] at he; cases he
              | some y => simp [hx] at hex
            · exact l3 j m hj' he
          · intro q x hq hpcq hlq j hhq
            rcases get_set _ _ _ _ _ hq with ⟨_, rfl⟩ | ⟨hqp, hq'⟩
            · simp at hpcq
            · obtain ⟨m, hm, hme⟩ := l4 q x hq' hpcq hlq j hhq
              by_cases e : j = i
              · subst e
                rw [hn] at hm; cases hm
                simp [hme] at hex
              · exact ⟨m, by simp only [setInode]; rw [List.getElem?_set_ne (Ne.symm e)]; exact hm, hme⟩
        · split at h
          · simp only [Option.some.injEq] at h; subst h
            refine ⟨lockinv_procs_only s hi p pr _ hp (by simp [hpc]) (by simp [hpc]) (by simp [hpc]) (by simp) s.name, ?_⟩
            exact flaginv_set s hf p _ _ _ (by simp)
          · cases h
    | rRead =>
      simp only [hpc] at h
      cases hb : pr.handle.bind (fun i => (s.inodes[i]?).map (fun n => (i, n))) with
      | none => simp [hb] at h
      | some x =>
        obtain ⟨i, n⟩ := x
        have hn := handle_inode s pr i n hb
        have hh : pr.handle = some i := by
          cases hx : pr.handle with
          | none => simp [hx] at hb
          | some j =>
            simp only [hx, Option.bind_some, Option.map_eq_some_iff] at hb
            obtain ⟨m, _, e⟩ := hb
            cases e; rfl
        simp only [hb, Option.some.injEq] at h; subst h
        obtain ⟨l1, l2, l3, l4⟩ := hi
        refine ⟨⟨?_, ?_, ?_, ?_⟩, flaginv_set s hf p _ _ _ (by simp)⟩
        · intro j m hj q hq
          rcases get_set _ _ _ _ _ hj with ⟨rfl, rfl⟩ | ⟨hne, hj'⟩
          · simp only [List.mem_filter, decide_eq_true_eq] at hq
            obtain ⟨pr', hp', a, b, c⟩ := l1 j n hn q hq.1
            exact ⟨pr', by simp only [setProc]; rw [List.getElem?_set_ne (Ne.symm hq.2)]; exact hp', a, b, c⟩
          · obtain ⟨pr', hp', a, b, c⟩ := l1 j m hj' q hq
            have hqp : q ≠ p := by
              intro e; subst e
              rw [hp] at hp'; cases hp'
              rw [hh] at c; exact hne (Option.some.inj c).symm
            exact ⟨pr', by simp only [setProc]; rw [List.getElem?_set_ne (Ne.symm hqp)]; exact hp', a, b, c⟩
        · intro j m hj q hq
          have hmq : ∃ m0, s.inodes[j]? = some m0 ∧ m0.excl = some q := by
            rcases get_set _ _ _ _ _ hj with ⟨rfl, rfl⟩ | ⟨_, hj'⟩
            · exact ⟨n, hn, hq⟩
            · exact ⟨m, hj', hq⟩
          obtain ⟨m0, hm0, he0⟩ := hmq
          obtain ⟨pr', hp', a, b, c⟩ := l2 j m0 hm0 q he0
          have hqp : q ≠ p := by
            intro e; subst e
            rw [hp] at hp'; cases hp'
            rcases a with a | a <;> simp [hpc] at a
          exact ⟨pr', by simp only [setProc]; rw [List.getElem?_set_ne (Ne.symm hqp)]; exact hp', a, b, c⟩
        · intro j m hj he
          rcases get_set _ _ _ _ _ hj with ⟨rfl, rfl⟩ | ⟨_, hj'⟩
          · simp only at he ⊢
            rw [l3 j n hn he]; rfl
          · exact l3 j m hj' he
        · intro q x hq hpcq hlq j hhq
          rcases get_set _ _ _ _ _ hq with ⟨_, rfl⟩ | ⟨hqp, hq'⟩
          · simp at hpcq
          · obtain ⟨m, hm, hme⟩ := l4 q x hq' hpcq hlq j hhq
            by_cases e : j = i
            · subst e
              rw [hn] at hm; cases hm
              exact ⟨_, get_set_self _ _ _ _ hn, hme⟩
            · exact ⟨m, by simp only [setInode]; rw [List.getElem?_set_ne (Ne.symm e)]; exact hm, hme⟩
    | wTemp =>
      simp only [hpc] at h
      have hl : pr.locked = false := hflag (by simp [hpc]) (by simp [hpc]) (by simp [hpc])
      cases hr : pr.role with
      | reader => simp [hr] at h
      | writer c =>
        simp only [hr, Option.some.injEq] at h; subst h
        have base := lockinv_procs_only s hi p pr { pr with role := .writer c, pc := .wOpen, temp := some s.inodes.length } hp
          (by simp [hpc]) (by simp [hpc]) (by simp [hpc]) (by simp) s.name
        obtain ⟨l1, l2, l3, l4⟩ := base
        refine ⟨⟨?_, ?_, ?_, ?_⟩, flaginv_set s hf p _ _ _ (by simp [hl])⟩
        · intro j m hj q hq
          by_cases hlt : j < s.inodes.length
          · rw [List.getElem?_append_left hlt] at hj
            exact l1 j m hj q hq
          · rw [List.getElem?_append_right (by omega)] at hj
            cases hk : j - s.inodes.length with
            | zero => simp [hk] at hj; subst hj; simp at hq
            | succ k => simp [hk] at hj
        · intro j m hj q hq
          by_cases hlt : j < s.inodes.length
          · rw [List.getElem?_append_left hlt] at hj
            exact l2 j m hj q hq
          · rw [List.getElem?_append_right (by omega)] at hj
            cases hk : j - s.inodes.length with
            | zero => simp [hk] at hj; subst hj; simp at hq
            | succ k => simp [hk] at hj
        · intro j m hj he
          by_cases hlt : j < s.inodes.length
          · rw [List.getElem?_append_left hlt] at hj
            exact l3 j m hj he
          · rw [List.getElem?_append_right (by omega)] at hj
            cases hk : j - s.inodes.length with
            | zero => simp [hk] at hj; subst hj; rfl
            | succ k => simp [hk] at hj
        · intro q x hq hpcq hlq j hhq
          obtain ⟨m, hm, hme⟩ := l4 q x hq hpcq hlq j hhq
          have hlt : j < s.inodes.length := (List.getElem?_eq_some_iff.1 hm).1
          exact ⟨m, by rw [List.getElem?_append_left hlt]; exact hm, hme⟩
    | wOpen =>
      simp only [hpc, Option.some.injEq] at h; subst h
      have hl : pr.locked = false := hflag (by simp [hpc]) (by simp [hpc]) (by simp [hpc])
      exact ⟨lockinv_procs_only s hi p pr _ hp (by simp [hpc]) (by simp [hpc]) (by simp [hpc]) (by simp) s.name,
        flaginv_set s hf p _ _ _ (by simp [hl])⟩
    | wLock =>
      simp only [hpc] at h
      have hl : pr.locked = false := hflag (by simp [hpc]) (by simp [hpc]) (by simp [hpc])
      cases hh : pr.handle with
      | none =>
        simp only [hh, Option.some.injEq] at h; subst h
        exact ⟨lockinv_procs_only s hi p pr _ hp (by simp [hpc]) (by simp [hpc]) (by simp [hpc]) (by simp [hl]) s.name,
          flaginv_set s hf p _ _ _ (by simp)⟩
      | some i =>
        simp only [hh] at h
        cases hn : s.inodes[i]? with
        | none => simp [hn] at h
        | some n =>
          simp only [hn] at h
          split at h
          · rename_i hfree
            simp only [Bool.and_eq_true, Option.isNone_iff_eq_none, List.isEmpty_iff] at hfree
            simp only [Option.some.injEq] at h; subst h
            have hnone := holds_nothing s hi p pr hp (by simp [hpc]) (by simp [hpc]) (by simp [hpc])
            obtain ⟨l1, l2, l3, l4⟩ := hi
            refine ⟨⟨?_, ?_, ?_, ?_⟩, flaginv_set s hf p _ _ _ (by simp)⟩
            · intro j m hj q hq
              rcases get_set _ _ _ _ _ hj with ⟨rfl, rfl⟩ | ⟨hne, hj'⟩
              · simp only [hfree.2] at hq; cases hq
              · obtain ⟨pr', hp', a, b, c⟩ := l1 j m hj' q hq
                have hqp : q ≠ p := fun e => (hnone j m hj').1 (e ▸ hq)
                exact ⟨pr', by simp only [setProc]; rw [List.getElem?_set_ne (Ne.symm hqp)]; exact hp', a, b, c⟩
            · intro j m hj q hq
              rcases get_set _ _ _ _ _ hj with ⟨rfl, rfl⟩ | ⟨hne, hj'⟩
              · simp only [Option.some.injEq] at hq; subst hq
                exact ⟨_, get_set_self _ _ _ _ hp, Or.inl rfl, rfl, rfl⟩
              · obtain ⟨pr', hp', a, b, c⟩ := l2 j m hj' q hq
                have hqp : q ≠ p := fun e => (hnone j m hj').2 (e ▸ hq)
                exact ⟨pr', by simp only [setProc]; rw [List.getElem?_set_ne (Ne.symm hqp)]; exact hp', a, b, c⟩
            · intro j m hj he
              rcases get_set _ _ _ _ _ hj with ⟨rfl, rfl⟩ | ⟨_, hj'⟩
              · exact hfree.2
              · exact l3 j m hj' he
            · intro q x hq hpcq hlq j hhq
              rcases get_set _ _ _ _ _ hq with ⟨rfl, rfl⟩ | ⟨hqp, hq'⟩
              · simp only [Option.some.injEq] at hhq; subst hhq
                exact ⟨_, get_set_self _ _ _ _ hn, rfl⟩
              · obtain ⟨m, hm, hme⟩ := l4 q x hq' hpcq hlq j hhq
                by_cases e : j = i
                · subst e
                  rw [hn] at hm; cases hm
                  rw [hfree.1] at hme; cases hme
                · exact ⟨m, by simp only [setInode]; rw [List.getElem?_set_ne (Ne.symm e)]; exact hm, hme⟩
          · split at h
            · simp only [Option.some.injEq] at h; subst h
              exact ⟨lockinv_procs_only s hi p pr _ hp (by simp [hpc]) (by simp [hpc]) (by simp [hpc]) (by simp) s.name,
                flaginv_set s hf p _ _ _ (by simp [hl])⟩
            · cases h
    | wRename =>
      simp only [hpc, Option.some.injEq] at h; subst h
      obtain ⟨l1, l2, l3, l4⟩ := hi
      refine ⟨⟨?_, ?_, l3, ?_⟩, flaginv_set s hf p _ _ _ (by simp)⟩
      · intro j m hj q hq
        obtain ⟨pr', hp', a, b, c⟩ := l1 j m hj q hq
        have hqp : q ≠ p := by
          intro e; subst e
          rw [hp] at hp'; cases hp'; simp [hpc] at a
        exact ⟨pr', by simp only [setProc]; rw [List.getElem?_set_ne (Ne.symm hqp)]; exact hp', a, b, c⟩
      · intro j m hj q hq
        obtain ⟨pr', hp', a, b, c⟩ := l2 j m hj q hq
        by_cases hqp : q = p
        · subst hqp
          rw [hp] at hp'; cases hp'
          exact ⟨_, get_set_self _ _ _ _ hp, Or.inr rfl, b, c⟩
        · exact ⟨pr', by simp only [setProc]; rw [List.getElem?_set_ne (Ne.symm hqp)]; exact hp', a, b, c⟩
      · intro q x hq hpcq hlq j hhq
        rcases get_set _ _ _ _ _ hq with ⟨rfl, rfl⟩ | ⟨_, hq'⟩
        · exact l4 q pr hp (Or.inl hpc) hlq j hhq
        · exact l4 q x hq' hpcq hlq j hhq
    | wUnlock =>
      simp only [hpc] at h
      cases hh : pr.handle with
      | none =>
        simp only [hh, Option.some.injEq] at h; subst h
        obtain ⟨l1, l2, l3, l4⟩ := hi
        refine ⟨⟨?_, ?_, l3, ?_⟩, flaginv_set s hf p _ _ _ (by simp)⟩
        · intro j m hj q hq
          obtain ⟨pr', hp', a, b, c⟩ := l1 j m hj q hq
          have hqp : q ≠ p := by
            intro e; subst e
            rw [hp] at hp'; cases hp'; simp [hpc] at a
          exact ⟨pr', by simp only [setProc]; rw [List.getElem?_set_ne (Ne.symm hqp)]; exact hp', a, b, c⟩
        · intro j m hj q hq
          obtain ⟨pr', hp', a, b, c⟩ := l2 j m hj q hq
          have hqp : q ≠ p := by
            intro e; subst e
            rw [hp] at hp'; cases hp'; rw [hh] at c; cases c
          exact ⟨pr', by simp only [setProc]; rw [List.getElem?_set_ne (Ne.symm hqp)]; exact hp', a, b, c⟩
        · intro q x hq hpcq hlq j hhq
          rcases get_set _ _ _ _ _ hq with ⟨_, rfl⟩ | ⟨_, hq'⟩
          · simp at hpcq
          · exact l4 q x hq' hpcq hlq j hhq
      | some i =>
        simp only [hh] at h
        cases hn : s.inodes[i]? with
        | none => simp [hn] at h
        | some n =>
          simp only [hn, Option.some.injEq] at h; subst h
          obtain ⟨l1, l2, l3, l4⟩ := hi
          refine ⟨⟨?_, ?_, ?_, ?_⟩, flaginv_set s hf p _ _ _ (by simp)⟩
          · intro j m hj q hq
            have hmq : ∃ m0, s.inodes[j]? = some m0 ∧ q ∈ m0.shared := by
              rcases get_set _ _ _ _ _ hj with ⟨rfl, rfl⟩ | ⟨_, hj'⟩
              · exact ⟨n, hn, hq⟩
              · exact ⟨m, hj', hq⟩
            obtain ⟨m0, hm0, hq0⟩ := hmq
            obtain ⟨pr', hp', a, b, c⟩ := l1 j m0 hm0 q hq0
            have hqp : q ≠ p := by
              intro e; subst e
              rw [hp] at hp'; cases hp'; simp [hpc] at a
            exact ⟨pr', by simp only [setProc]; rw [List.getElem?_set_ne (Ne.symm hqp)]; exact hp', a, b, c⟩
          · intro j m hj q hq
            rcases get_set _ _ _ _ _ hj with ⟨rfl, rfl⟩ | ⟨hne, hj'⟩
            · simp only at hq
              cases hlk : pr.locked with
              | true => simp [hlk] at hq
              | false =>
                simp only [hlk, Bool.false_eq_true, if_false] at hq
                obtain ⟨pr', hp', a, b, c⟩ := l2 j n hn q hq
                have hqp : q ≠ p := by
                  intro e; subst e
                  rw [hp] at hp'; cases hp'; rw [hlk] at b; cases b
                exact ⟨pr', by simp only [setProc]; rw [List.getElem?_set_ne (Ne.symm hqp)]; exact hp', a, b, c⟩
            · obtain ⟨pr', hp', a, b, c⟩ := l2 j m hj' q hq
              have hqp : q ≠ p := by
                intro e; subst e
                rw [hp] at hp'; cases hp'; rw [hh] at c; exact hne (Option.some.inj c).symm
              exact ⟨pr', by simp only [setProc]; rw [List.getElem?_set_ne (Ne.symm hqp)]; exact hp', a, b, c⟩
          · intro j m hj he
            rcases get_set _ _ _ _ _ hj with ⟨rfl, rfl⟩ | ⟨_, hj'⟩
            · simp only at he ⊢
              cases hlk : pr.locked with
              | true => simp [hlk] at he
              | false => simp only [hlk, Bool.false_eq_true, if_false] at he; exact l3 j n hn he
            · exact l3 j m hj' he
          · intro q x hq hpcq hlq j hhq
            rcases get_set _ _ _ _ _ hq with ⟨_, rfl⟩ | ⟨hqp, hq'⟩
            · simp at hpcq
            · obtain ⟨m, hm, hme⟩ := l4 q x hq' hpcq hlq j hhq
              by_cases e : j = i
              · subst e
                rw [hn] at hm; cases hm
                refine ⟨_, get_set_self _ _ _ _ hn, ?_⟩
                simp only
                cases hlk : pr.locked with
                | false => simp [hme]
                | true =>
                  -- `p` holds the lock on `j` too: then `q = p`
                  obtain ⟨m2, hm2, hme2⟩ := l4 p pr hp (Or.inr hpc) hlk j hh
                  rw [hn] at hm2; cases hm2
                  rw [hme] at hme2
                  exact absurd (Option.some.inj hme2) hqp
              · exact ⟨m, by simp only [setInode]; rw [List.getElem?_set_ne (Ne.symm e)]; exact hm, hme⟩

theorem lockflag_run (s : FS) (sched : List (Pid × Bool)) (hi : LockInv s) (hf : FlagInv s) :
    LockInv (frun s sched) ∧ FlagInv (frun s sched) := by
  induction sched generalizing s with
  | nil => exact ⟨hi, hf⟩
  | cons x rest ih =>
    obtain ⟨p, t⟩ := x
    simp only [frun]
    cases h : fstep s p t with
    | none => simpa [h] using ih s hi hf
    | some s' =>
      obtain ⟨a, b⟩ := lockflag_step s s' p t hi hf h
      simpa [h] using ih s' a b

theorem flaginv_init (initial : Option Content) (roles : List Role) : FlagInv (finit initial roles) := by
  intro p pr hp _ _ _
  simp only [finit, List.getElem?_map] at hp
  cases hr : roles[p]? with
  | none => simp [hr] at hp
  | some r => simp [hr] at hp; subst hp; rfl

/-- **no lock outlives its holder's critical section**: under every schedule, a process that has
    finished (or has not yet reached a locked section) holds neither a shared nor the exclusive
    lock on any inode — so a waiter is only ever held up by a process that is itself between
    acquiring and releasing, never by a finished one -/
theorem finished_process_holds_no_lock (initial : Option Content) (roles : List Role)
    (sched : List (Pid × Bool)) (p : Pid) (pr : Proc)
    (hp : (frun (finit initial roles) sched).procs[p]? = some pr) (hd : pr.pc = .done)
    (i : Nat) (n : Inode) (hn : (frun (finit initial roles) sched).inodes[i]? = some n) :
    p ∉ n.shared ∧ n.excl ≠ some p :=
  holds_nothing _ (lockflag_run _ sched (lockinv_init initial roles) (flaginv_init initial roles)).1 p pr hp
    (by simp [hd]) (by simp [hd]) (by simp [hd]) i n hn

/-- **readers and the writer exclude each other**: while an inode is locked exclusively nobody
    holds a shared lock on it -/
theorem exclusive_excludes_shared (initial : Option Content) (roles : List Role)
    (sched : List (Pid × Bool)) (i : Nat) (n : Inode)
    (hn : (frun (finit initial roles) sched).inodes[i]? = some n) (he : n.excl.isSome = true) :
    n.shared = [] :=
  (lockflag_run _ sched (lockinv_init initial roles) (flaginv_init initial roles)).1.2.2.1 i n hn he

/-! non-vacuity: two writers and a reader, an interleaving in which the reader opens the old file,
    the first writer renames, and the reader still reads the complete old content -/
example : (frun (finit (some [1]) [.reader, .writer [1, 2], .writer [1, 3]])
    [(0, false), (1, false), (1, false), (0, false), (2, false), (0, false), (2, false), (2, false), (2, false),
     (2, false), (1, false), (1, false), (1, false)]).procs.map (·.result) = [some [1], none, none] := by decide

end SlocModel.Props.C14
