import SlocModel.Check
import SlocModel.Props.C11
import SlocModel.Props.C06
/-!
  C01 — check is a sound and complete gate: exit code and statuses follow the rules.

  Statements about `SlocModel.Check.checkRun`, the composition of the per-file verdict (C05), the
  directory findings (C06), placement / sibling findings (C07, an input here) and the baseline
  pipeline (C09–C11).
-/
namespace SlocModel.Props.C01
open SlocModel SlocModel.Check SlocModel.Baseline

/-- "grandfathered": the loaded baseline records the path -/
def covered (loaded : Option Base) (k : Baseline.Key) : Bool :=
  match loaded with
  | some b => b.contains k
  | none => false

theorem grandfather_mem (loaded : Option Base) (rs : List Res) (r : Res) (h : r ∈ rs) :
    (if r.status = .failed && r.kind.recordable && covered loaded r.path then { r with status := .grandfathered } else r) ∈
      grandfather loaded rs := by
  unfold grandfather covered
  cases loaded with
  | none => simpa using h
  | some b =>
    simp only [apply]
    exact List.mem_map.2 ⟨r, h, rfl⟩

theorem grandfather_mem_inv (loaded : Option Base) (rs : List Res) (x : Res) (h : x ∈ grandfather loaded rs) :
    ∃ r ∈ rs, x = (if r.status = .failed && r.kind.recordable && covered loaded r.path then { r with status := .grandfathered } else r) := by
  unfold grandfather covered at *
  cases loaded with
  | none => exact ⟨x, h, by simp⟩
  | some b =>
    simp only [apply] at h
    obtain ⟨r, hr, e⟩ := List.mem_map.1 h
    exact ⟨r, hr, e.symm⟩

/-! ### the exit status -/

/-- a completed run exits 0 or 1; 2 is the configuration / usage error outcome only -/
theorem exit_is_0_or_1 (c : Config) (files : List FileIn) (dirs : List DirIn) (pl sb : List Res)
    (disk : Option Base) (f : Flags) (rs : List Res) (d' : Option Base) (e : Int) (st : List Baseline.Key)
    (h : checkRun c files dirs pl sb disk f = .done rs d' e st) : e = 0 ∨ e = 1 := by
  obtain ⟨_, _, he, _⟩ := run_done _ _ _ _ _ _ _ _ h
  rw [he]; unfold exitCode
  split
  · left; rfl
  · split
    · right; rfl
    · left; rfl

/-- `--warn-only` forces 0 for anything but an error -/
theorem warn_only_exits_zero (c : Config) (files : List FileIn) (dirs : List DirIn) (pl sb : List Res)
    (disk : Option Base) (f : Flags) (rs : List Res) (d' : Option Base) (e : Int) (st : List Baseline.Key)
    (h : checkRun c files dirs pl sb disk f = .done rs d' e st) (hw : f.warnOnly = true) : e = 0 := by
  obtain ⟨_, _, he, _⟩ := run_done _ _ _ _ _ _ _ _ h
  rw [he]; simp [exitCode, hw, Generated.exitSuccess]

/-- **exit 1 exactly when** some result is failed and not grandfathered, or merely warned under
    warnings-as-errors, or a strict ratchet found the baseline outdated — and not `--warn-only` -/
theorem exit_one_iff (c : Config) (files : List FileIn) (dirs : List DirIn) (pl sb : List Res)
    (disk : Option Base) (f : Flags) (rs : List Res) (d' : Option Base) (e : Int) (st : List Baseline.Key)
    (h : checkRun c files dirs pl sb disk f = .done rs d' e st) :
    e = 1 ↔ f.warnOnly = false ∧
      ((∃ r ∈ rawResults c files dirs pl sb, r.status = .failed ∧ (r.kind.recordable && covered (loadedOf disk f) r.path) = false) ∨
       (f.wae = true ∧ ∃ r ∈ rawResults c files dirs pl sb, r.status = .warning) ∨
       (f.ratchet = some .strict ∧ st ≠ [])) := by
  obtain ⟨hrs, _, he, _⟩ := run_done _ _ _ _ _ _ _ _ h
  have hfail : rs.any (fun x => decide (x.status = .failed)) = true ↔
      ∃ r ∈ rawResults c files dirs pl sb, r.status = .failed ∧ (r.kind.recordable && covered (loadedOf disk f) r.path) = false := by
    rw [hrs]
    constructor
    · intro hh
      obtain ⟨x, hx, hxs⟩ := List.any_eq_true.1 hh
      obtain ⟨r, hr, e'⟩ := grandfather_mem_inv _ _ _ hx
      refine ⟨r, hr, ?_⟩
      by_cases hc : (r.status = .failed && r.kind.recordable && covered (loadedOf disk f) r.path) = true
      · rw [if_pos hc] at e'; rw [e'] at hxs; simp at hxs
      · rw [if_neg hc] at e'; subst e'
        simp only [decide_eq_true_eq] at hxs
        simp only [hxs, decide_true, Bool.true_and, Bool.not_eq_true] at hc
        exact ⟨hxs, hc⟩
    · rintro ⟨r, hr, hs, hc⟩
      have := grandfather_mem (loadedOf disk f) _ r hr
      simp only [hs, decide_true, Bool.true_and, hc, Bool.false_eq_true, if_false] at this
      exact List.any_eq_true.2 ⟨r, this, by simp [hs]⟩
  have hwarn : rs.any (fun x => decide (x.status = .warning)) = true ↔
      ∃ r ∈ rawResults c files dirs pl sb, r.status = .warning := by
    rw [hrs]
    constructor
    · intro hh
      obtain ⟨x, hx, hxs⟩ := List.any_eq_true.1 hh
      obtain ⟨r, hr, e'⟩ := grandfather_mem_inv _ _ _ hx
      refine ⟨r, hr, ?_⟩
      by_cases hc : (r.status = .failed && r.kind.recordable && covered (loadedOf disk f) r.path) = true
      · rw [if_pos hc] at e'; rw [e'] at hxs; simp at hxs
      · rw [if_neg hc] at e'; subst e'; simpa using hxs
    · rintro ⟨r, hr, hs⟩
      have := grandfather_mem (loadedOf disk f) _ r hr
      simp only [hs] at this
      exact List.any_eq_true.2 ⟨r, by simpa using this, by simp [hs]⟩
  rw [he]; unfold exitCode
  simp only [Generated.exitSuccess, Generated.exitThreshold]
  cases hwo : f.warnOnly with
  | true => simp
  | false =>
    simp only [Bool.false_eq_true, if_false, true_and]
    constructor
    · intro h1
      split at h1
      · rename_i hc
        simp only [Bool.or_eq_true, Bool.and_eq_true, decide_eq_true_eq, Bool.not_eq_true',
          List.isEmpty_eq_false_iff] at hc
        rcases hc with (hc | ⟨hw, hc⟩) | ⟨hr, hc⟩
        · exact Or.inl (hfail.1 (by simpa using hc))
        · exact Or.inr (Or.inl ⟨hw, hwarn.1 (by simpa using hc)⟩)
        · exact Or.inr (Or.inr ⟨hr, by simpa using hc⟩)
      · cases h1
    · intro h1
      have : (rs.any (fun x => decide (x.status = .failed)) ||
          f.wae && rs.any (fun x => decide (x.status = .warning)) ||
          (decide (f.ratchet = some .strict) && !st.isEmpty)) = true := by
        rcases h1 with h1 | ⟨hw, h1⟩ | ⟨hr, h1⟩
        · simp [hfail.2 h1]
        · simp [hw, hwarn.2 h1]
        · have : st.isEmpty = false := by cases st <;> simp_all
          simp [hr, this]
      rw [if_pos this]

/-! ### soundness -/

theorem contentRes_of_counted (c : Config) (f : FileIn) (h : counted f = true) :
    contentRes c.content c.rules f =
      some { path := f.key,
             status := toStatus (Threshold.verdict c.content c.rules f.ruleMatches f.stats).status,
             kind := .content, count := (Threshold.verdict c.content c.rules f.ruleMatches f.stats).eff } := by
  simp [contentRes, h]

theorem verdict_failed_iff (g : Threshold.Global) (rules : List Threshold.Rule) (ms : List Bool)
    (s : Threshold.Stats) :
    (Threshold.verdict g rules ms s).status = .failed ↔
      (Threshold.verdict g rules ms s).eff > (Threshold.verdict g rules ms s).limit := by
  unfold Threshold.verdict
  simp only
  generalize Threshold.skipFor g rules ms = sk
  obtain ⟨sc, sb⟩ := sk
  simp only
  generalize Threshold.warnPoint g rules ms (Threshold.limitFor g rules ms) = wp
  obtain ⟨w, src⟩ := wp
  simp only [Threshold.classify]
  split
  · simp [*]
  · split <;> simp [*]

/-- **soundness for files**: if `check` exits 0 (and was not told `--warn-only`), every in-scope,
    readable file with a known language and no ignore directive has an effective count at or
    below the limit the configuration assigns to it, or is grandfathered by the loaded baseline -/
theorem check_sound_files (c : Config) (files : List FileIn) (dirs : List DirIn) (pl sb : List Res)
    (disk : Option Base) (fl : Flags) (rs : List Res) (d' : Option Base) (st : List Baseline.Key)
    (h : checkRun c files dirs pl sb disk fl = .done rs d' 0 st) (hw : fl.warnOnly = false)
    (f : FileIn) (hf : f ∈ files) (hc : counted f = true) :
    (Threshold.verdict c.content c.rules f.ruleMatches f.stats).eff ≤
        (Threshold.verdict c.content c.rules f.ruleMatches f.stats).limit ∨
      covered (loadedOf disk fl) f.key = true := by
  by_cases hle : (Threshold.verdict c.content c.rules f.ruleMatches f.stats).eff ≤
      (Threshold.verdict c.content c.rules f.ruleMatches f.stats).limit
  · exact Or.inl hle
  · right
    have hfail := (verdict_failed_iff c.content c.rules f.ruleMatches f.stats).2 (by omega)
    cases hcov : covered (loadedOf disk fl) f.key with
    | true => rfl
    | false =>
      exfalso
      have h1 := (exit_one_iff c files dirs pl sb disk fl rs d' 0 st h).2
      have : (0 : Int) = 1 := h1 ⟨hw, Or.inl ⟨_, by
        unfold rawResults
        apply List.mem_append_left
        exact List.mem_filterMap.2 ⟨f, hf, contentRes_of_counted c f hc⟩, by simp [toStatus, hfail], by
        rw [Bool.and_eq_false_iff]; exact Or.inr hcov⟩⟩
      omega

/-- **soundness for directories**: if `check` exits 0, no scanned directory exceeds a limit its
    rules assign to it unless the baseline grandfathers the directory -/
theorem check_sound_dirs (c : Config) (files : List FileIn) (dirs : List DirIn) (pl sb : List Res)
    (disk : Option Base) (fl : Flags) (rs : List Res) (d' : Option Base) (st : List Baseline.Key)
    (h : checkRun c files dirs pl sb disk fl = .done rs d' 0 st) (hw : fl.warnOnly = false)
    (hon : c.structureOn = true) (d : DirIn) (hd : d ∈ dirs) (x : Structure.Finding)
    (hx : x ∈ Structure.checkDir c.sglobal (c.srules.zip d.scopeMatches) d.stats)
    (hs : x.severity = .failed) : covered (loadedOf disk fl) d.key = true := by
  cases hcov : covered (loadedOf disk fl) d.key with
  | true => rfl
  | false =>
    exfalso
    have h1 := (exit_one_iff c files dirs pl sb disk fl rs d' 0 st h).2
    have : (0 : Int) = 1 := h1 ⟨hw, Or.inl ⟨findingRes d.key x, by
      unfold rawResults
      apply List.mem_append_right
      rw [if_pos hon]
      apply List.mem_append_left
      apply List.mem_append_right
      exact List.mem_flatMap.2 ⟨d, hd, List.mem_map.2 ⟨x, hx, rfl⟩⟩, by simp [findingRes, hs], by
      rw [Bool.and_eq_false_iff]; exact Or.inr hcov⟩⟩
    omega

/-- soundness for directories in terms of the counts themselves (composing C06's
    `count_failed_iff`): with exit 0 a directory whose resolved file limit is `L` (not −1) holds at
    most `L` files, and likewise for sub-directories, unless it is grandfathered -/
theorem check_sound_dir_counts (c : Config) (files : List FileIn) (dirs : List DirIn) (pl sb : List Res)
    (disk : Option Base) (fl : Flags) (rs : List Res) (d' : Option Base) (st : List Baseline.Key)
    (h : checkRun c files dirs pl sb disk fl = .done rs d' 0 st) (hw : fl.warnOnly = false)
    (hon : c.structureOn = true) (d : DirIn) (hd : d ∈ dirs) :
    covered (loadedOf disk fl) d.key = true ∨
    ((∀ L, (Structure.resolveLimits c.sglobal (c.srules.zip d.scopeMatches)).fields.maxFiles = some L →
        L ≠ Generated.unlimited → d.stats.files ≤ Structure.asUsize L) ∧
     (∀ L, (Structure.resolveLimits c.sglobal (c.srules.zip d.scopeMatches)).fields.maxDirs = some L →
        L ≠ Generated.unlimited → d.stats.dirs ≤ Structure.asUsize L)) := by
  cases hcov : covered (loadedOf disk fl) d.key with
  | true => exact Or.inl rfl
  | false =>
    right
    constructor
    · intro L hL hne
      by_cases hle : d.stats.files ≤ Structure.asUsize L
      · exact hle
      · exfalso
        obtain ⟨f, hf, hs⟩ := (Props.C06.count_failed_iff .files d.stats.files L
          (Structure.resolveLimits c.sglobal (c.srules.zip d.scopeMatches)).fields.warnFilesAt
          (Structure.resolveLimits c.sglobal (c.srules.zip d.scopeMatches)).fields.warnFilesThreshold
          (Structure.resolveLimits c.sglobal (c.srules.zip d.scopeMatches)).fields.warnThreshold hne).2 (by omega)
        have := check_sound_dirs c files dirs pl sb disk fl rs d' st h hw hon d hd f
          (by simp only [Structure.checkDir, hL, List.mem_append, Option.mem_toList]
              exact Or.inl (Or.inl (by simpa using hf))) hs
        rw [hcov] at this; cases this
    · intro L hL hne
      by_cases hle : d.stats.dirs ≤ Structure.asUsize L
      · exact hle
      · exfalso
        obtain ⟨f, hf, hs⟩ := (Props.C06.count_failed_iff .dirs d.stats.dirs L
          (Structure.resolveLimits c.sglobal (c.srules.zip d.scopeMatches)).fields.warnDirsAt
          (Structure.resolveLimits c.sglobal (c.srules.zip d.scopeMatches)).fields.warnDirsThreshold
          (Structure.resolveLimits c.sglobal (c.srules.zip d.scopeMatches)).fields.warnThreshold hne).2 (by omega)
        have := check_sound_dirs c files dirs pl sb disk fl rs d' st h hw hon d hd f
          (by simp only [Structure.checkDir, hL, List.mem_append, Option.mem_toList]
              exact Or.inl (Or.inr (by simpa using hf))) hs
        rw [hcov] at this; cases this

/-- placement and sibling findings (C07) fail the run like any other failed result: with exit 0
    each one is of a recordable kind and grandfathered -/
theorem check_sound_placement (c : Config) (files : List FileIn) (dirs : List DirIn) (pl sb : List Res)
    (disk : Option Base) (fl : Flags) (rs : List Res) (d' : Option Base) (st : List Baseline.Key)
    (h : checkRun c files dirs pl sb disk fl = .done rs d' 0 st) (hw : fl.warnOnly = false)
    (hon : c.structureOn = true) (r : Res) (hr : r ∈ pl ∨ r ∈ sb) (hs : r.status = .failed) :
    (r.kind.recordable && covered (loadedOf disk fl) r.path) = true := by
  cases hcov : (r.kind.recordable && covered (loadedOf disk fl) r.path) with
  | true => rfl
  | false =>
    exfalso
    have h1 := (exit_one_iff c files dirs pl sb disk fl rs d' 0 st h).2
    have : (0 : Int) = 1 := h1 ⟨hw, Or.inl ⟨r, by
      unfold rawResults
      apply List.mem_append_right
      rw [if_pos hon]
      rcases hr with hr | hr
      · exact List.mem_append_left _ (List.mem_append_left _ hr)
      · exact List.mem_append_right _ hr, hs, hcov⟩⟩
    omega

/-- … and since the baseline records no placement, naming, depth or sibling violation (fix
    f5486fc), a run that exits 0 has **no** failed finding of these kinds at all, whatever the
    baseline holds -/
theorem check_sound_unrecordable (c : Config) (files : List FileIn) (dirs : List DirIn) (pl sb : List Res)
    (disk : Option Base) (fl : Flags) (rs : List Res) (d' : Option Base) (st : List Baseline.Key)
    (h : checkRun c files dirs pl sb disk fl = .done rs d' 0 st) (hw : fl.warnOnly = false)
    (hon : c.structureOn = true) (r : Res) (hr : r ∈ pl ∨ r ∈ sb) (hk : r.kind = .otherStructure) :
    r.status ≠ .failed := by
  intro hs
  have := check_sound_placement c files dirs pl sb disk fl rs d' st h hw hon r hr hs
  simp [hk, Kind.recordable] at this

/-! ### the statuses are exactly those of the documented rules -/

/-- a file outside the documented scope (hidden, excluded, or selected by neither extension nor
    rule) is never reported -/
theorem out_of_scope_unreported (c : Config) (f : FileIn) (h : inScope f = false) :
    contentRes c.content c.rules f = none := by
  simp [contentRes, counted, h]

/-- a counted file is reported once, with the status of the limit semantics -/
theorem status_of_counted (c : Config) (f : FileIn) (h : counted f = true) :
    ∃ r, contentRes c.content c.rules f = some r ∧ r.path = f.key ∧ r.kind = .content ∧
      r.count = Threshold.effective f.stats (Threshold.skipFor c.content c.rules f.ruleMatches).1
        (Threshold.skipFor c.content c.rules f.ruleMatches).2 ∧
      r.status = toStatus (Threshold.classify r.count (Threshold.limitFor c.content c.rules f.ruleMatches)
        (Threshold.warnPoint c.content c.rules f.ruleMatches (Threshold.limitFor c.content c.rules f.ruleMatches)).1) := by
  refine ⟨_, contentRes_of_counted c f h, rfl, rfl, ?_, ?_⟩ <;>
  · unfold Threshold.verdict
    generalize Threshold.skipFor c.content c.rules f.ruleMatches = sk
    obtain ⟨sc, sb⟩ := sk
    simp only
    try (generalize Threshold.warnPoint c.content c.rules f.ruleMatches (Threshold.limitFor c.content c.rules f.ruleMatches) = wp
         obtain ⟨w, src⟩ := wp
         rfl)

/-- the baseline turns exactly the failed results it records into grandfathered ones and leaves
    every other status alone -/
theorem final_status (loaded : Option Base) (rs : List Res) (r : Res) (h : r ∈ rs) :
    ∃ x ∈ grandfather loaded rs, x.path = r.path ∧ x.kind = r.kind ∧ x.count = r.count ∧
      x.status = (if r.status = .failed ∧ (r.kind.recordable && covered loaded r.path) = true then .grandfathered else r.status) := by
  refine ⟨_, grandfather_mem loaded rs r h, ?_⟩
  by_cases hc : (r.status = .failed && r.kind.recordable && covered loaded r.path) = true
  · rw [if_pos hc]
    simp only [Bool.and_eq_true, decide_eq_true_eq] at hc
    simp [hc.1, hc.2]
  · rw [if_neg hc]
    simp only [Bool.and_eq_true, decide_eq_true_eq] at hc
    simp only [Bool.and_eq_true, true_and]
    rw [if_neg]
    rintro ⟨h1, h2, h3⟩
    exact hc ⟨⟨h1, h2⟩, h3⟩

/-- without structure checks (disabled, or `--files`) no directory, placement or sibling result
    is reported -/
theorem no_structure_results (c : Config) (files : List FileIn) (dirs : List DirIn) (pl sb : List Res)
    (h : c.structureOn = false) :
    rawResults c files dirs pl sb = files.filterMap (contentRes c.content c.rules) := by
  simp [rawResults, h]

/-! ### the limit of the statement: a file without a language is not counted -/

def exDockerfile : FileIn :=
  { key := "Dockerfile".toList, pruned := false, contentExcluded := false, extAllowed := false,
    ruleMatches := [true], langKnown := false, readable := true, ignoredByDirective := false,
    stats := { total := 90, code := 90, comment := 0, blank := 0, ignored := 0 } }
def exConfig : Config :=
  { content := { maxLines := 600, warnThreshold := 0x3FECCCCCCCCCCCCD, warnAt := none, skipComments := true, skipBlank := true },
    rules := [{ maxLines := 50, warnThreshold := none, warnAt := none, skipComments := none, skipBlank := none }],
    structureOn := false, sglobal := ⟨none, none, none, none, none, none, none, none⟩, srules := [] }
def plainFlags : Flags := { baselineGiven := false, update := none, ratchet := none, warnOnly := false, wae := false }

/-- KNOWN FINDING (unknown-language-skipped): a file that a rule puts in scope but whose name has
    no recognised extension is skipped silently — 90 lines against a limit of 50, exit 0 -/
theorem in_scope_file_without_language_is_skipped :
    inScope exDockerfile = true ∧
    (Threshold.verdict exConfig.content exConfig.rules exDockerfile.ruleMatches exDockerfile.stats).eff >
      (Threshold.verdict exConfig.content exConfig.rules exDockerfile.ruleMatches exDockerfile.stats).limit ∧
    checkRun exConfig [exDockerfile] [] [] [] none plainFlags = .done [] none 0 [] := by
  decide +kernel

/-- non-vacuity: the same file with a recognised language fails the run -/
example : checkRun exConfig [{ exDockerfile with langKnown := true }] [] [] [] none plainFlags =
    .done [{ path := "Dockerfile".toList, status := .failed, kind := .content, count := 90 }] none 1 [] := by
  decide +kernel

end SlocModel.Props.C01
