import SlocModel.Cache
/-!
  C12 — The SLOC cache is transparent.
-/
namespace SlocModel.Props.C12
open SlocModel.Cache

variable (count sizeOf : Content → Nat)

/-! ### association-list facts -/

theorem lookup_erase_ne {α : Type} (m : List (Path × α)) (p q : Path) (h : q ≠ p) :
    lookup (erase m p) q = lookup m q := by
  induction m with
  | nil => rfl
  | cons x xs ih =>
    obtain ⟨k, v⟩ := x
    simp only [erase]
    by_cases hk : k = p
    · have : ¬ k = q := fun hh => h (hh ▸ hk)
      simp [hk, lookup, ih, this]
      intro hpq; exact absurd hpq.symm h
    · simp only [hk, if_false, lookup]
      split
      · rfl
      · exact ih

theorem lookup_put {α : Type} (m : List (Path × α)) (p q : Path) (v : α) :
    lookup (put m p v) q = if q = p then some v else lookup m q := by
  unfold put
  simp only [lookup]
  by_cases h : q = p
  · subst h; simp
  · have : ¬ p = q := fun hh => h hh.symm
    simp [h, this, lookup_erase_ne m p q h]

theorem mem_erase {α : Type} (m : List (Path × α)) (p q : Path) (v : α) :
    (q, v) ∈ erase m p ↔ q ≠ p ∧ (q, v) ∈ m := by
  induction m with
  | nil => simp [erase]
  | cons x xs ih =>
    obtain ⟨k, w⟩ := x
    simp only [erase]
    by_cases hk : k = p
    · simp only [hk, if_true, ih, List.mem_cons, Prod.mk.injEq]
      constructor
      · intro ⟨h1, h2⟩; exact ⟨h1, Or.inr h2⟩
      · intro ⟨h1, h2⟩
        rcases h2 with ⟨hq, _⟩ | h2
        · exact absurd hq h1
        · exact ⟨h1, h2⟩
    · simp only [hk, if_false, List.mem_cons, Prod.mk.injEq, ih]
      constructor
      · intro h
        rcases h with ⟨hq, hv⟩ | ⟨h1, h2⟩
        · exact ⟨by rw [hq]; exact hk, Or.inl ⟨hq, hv⟩⟩
        · exact ⟨h1, Or.inr h2⟩
      · intro ⟨h1, h2⟩
        rcases h2 with h2 | h2
        · exact Or.inl h2
        · exact Or.inr ⟨h1, h2⟩

theorem mem_put {α : Type} (m : List (Path × α)) (p q : Path) (v w : α) :
    (q, w) ∈ put m p v ↔ (q = p ∧ w = v) ∨ (q ≠ p ∧ (q, w) ∈ m) := by
  unfold put
  simp only [List.mem_cons, Prod.mk.injEq, mem_erase]

/-! ### the invariant -/

/-- what a run relies on -/
structure Good (now : Nat) (fs : FS) (cache : CacheMap) : Prop where
  /-- every recorded mtime lies strictly in the past -/
  past : ∀ p e, lookup cache p = some e → e.mtime < now
  /-- an entry whose metadata matches the file on disk describes that file's content -/
  sound : ∀ p e f, lookup cache p = some e → (p, f) ∈ fs → e.mtime = f.mtime →
    e.size = sizeOf f.content → e.stats = count f.content
  /-- no file is stamped in the future -/
  stamped : ∀ p f, (p, f) ∈ fs → f.mtime ≤ now
  /-- one file per path -/
  functional : ∀ p f f', (p, f) ∈ fs → (p, f') ∈ fs → f = f'

theorem good_init (now : Nat) : Good count sizeOf now [] [] :=
  ⟨(by intro p e h; simp [lookup] at h), (by intro p e f h; simp [lookup] at h),
   (by intro p f h; cases h), (by intro p f f' h; cases h)⟩

/-- processing one file returns the true count and keeps the invariant -/
theorem processFile_good (now : Nat) (fs : FS) (cache : CacheMap) (p : Path) (f : File)
    (hg : Good count sizeOf now fs cache) (hmem : (p, f) ∈ fs) :
    (processFile count sizeOf now cache p f).1 = count f.content ∧
    Good count sizeOf now fs (processFile count sizeOf now cache p f).2 := by
  have hins : f.mtime < now →
      Good count sizeOf now fs (put cache p ⟨f.mtime, sizeOf f.content, count f.content⟩) := by
    intro hlt
    refine ⟨?_, ?_, hg.stamped, hg.functional⟩
    · intro q e he
      rw [lookup_put] at he
      split at he
      · injection he with he; subst he; exact hlt
      · exact hg.past q e he
    · intro q e f' he hm hmt hsz
      rw [lookup_put] at he
      split at he
      · rename_i hq; subst hq
        injection he with he; subst he
        have := hg.functional q f f' hmem hm
        subst this; rfl
      · exact hg.sound q e f' he hm hmt hsz
  unfold processFile
  cases hl : lookup cache p with
  | none =>
    simp only
    constructor
    · trivial
    · split
      · rename_i hlt; exact hins hlt
      · exact hg
  | some e =>
    simp only
    split
    · rename_i hmatch
      exact ⟨hg.sound p e f hl hmem hmatch.1 hmatch.2, hg⟩
    · constructor
      · trivial
      · split
        · rename_i hlt; exact hins hlt
        · exact hg

/-- a whole invocation returns exactly what the uncached invocation returns -/
theorem runAll_transparent (now : Nat) (fs : FS) (sub : FS) (cache : CacheMap)
    (hg : Good count sizeOf now fs cache) (hsub : ∀ x ∈ sub, x ∈ fs) :
    (runAll count sizeOf now sub cache).1 = runUncached count sub ∧
    Good count sizeOf now fs (runAll count sizeOf now sub cache).2 := by
  induction sub generalizing cache with
  | nil => exact ⟨rfl, hg⟩
  | cons x xs ih =>
    obtain ⟨p, f⟩ := x
    have hp := processFile_good count sizeOf now fs cache p f hg (hsub (p, f) List.mem_cons_self)
    have hrest := ih (processFile count sizeOf now cache p f).2 hp.2
      (fun y hy => hsub y (List.mem_cons_of_mem _ hy))
    simp only [runAll, runUncached, List.map_cons]
    refine ⟨?_, hrest.2⟩
    rw [hp.1]
    have := hrest.1
    simp only [runUncached] at this
    rw [this]

/-- histories without `mv` -/
def NoRename : List Op → Prop
  | [] => True
  | .rename _ _ :: _ => False
  | _ :: rest => NoRename rest

theorem step_good (w : World) (op : Op) (hg : Good count sizeOf w.now w.fs w.cache)
    (hnr : ∀ p q, op ≠ .rename p q) :
    Good count sizeOf (step count sizeOf w op).1.now (step count sizeOf w op).1.fs
      (step count sizeOf w op).1.cache := by
  cases op with
  | write p c =>
    simp only [step]
    refine ⟨hg.past, ?_, ?_, ?_⟩
    · intro q e f he hm hmt hsz
      rcases (mem_put w.fs p q ⟨c, w.now⟩ f).mp hm with ⟨hq, hf⟩ | ⟨hq, hm'⟩
      · -- the file just written carries the current second: no recorded mtime equals it
        subst hf
        have := hg.past q e he
        simp at hmt; omega
      · exact hg.sound q e f he hm' hmt hsz
    · intro q f hm
      rcases (mem_put w.fs p q ⟨c, w.now⟩ f).mp hm with ⟨_, hf⟩ | ⟨_, hm'⟩
      · subst hf; exact Nat.le_refl _
      · exact hg.stamped q f hm'
    · intro q f f' h1 h2
      rcases (mem_put w.fs p q ⟨c, w.now⟩ f).mp h1 with ⟨hq, hf⟩ | ⟨hq, hm1⟩ <;>
        rcases (mem_put w.fs p q ⟨c, w.now⟩ f').mp h2 with ⟨hq', hf'⟩ | ⟨hq', hm2⟩
      · rw [hf, hf']
      · exact absurd hq hq'
      · exact absurd hq' hq
      · exact hg.functional q f f' hm1 hm2
  | delete p =>
    simp only [step]
    refine ⟨hg.past, ?_, ?_, ?_⟩
    · intro q e f he hm; exact hg.sound q e f he ((mem_erase w.fs p q f).mp hm).2
    · intro q f hm; exact hg.stamped q f ((mem_erase w.fs p q f).mp hm).2
    · intro q f f' h1 h2
      exact hg.functional q f f' ((mem_erase w.fs p q f).mp h1).2 ((mem_erase w.fs p q f').mp h2).2
  | rename p q => exact absurd rfl (hnr p q)
  | tick dt =>
    simp only [step]
    refine ⟨?_, hg.sound, ?_, hg.functional⟩
    · intro p e he; have := hg.past p e he; omega
    · intro p f hm; have := hg.stamped p f hm; omega
  | dropCache =>
    simp only [step]
    exact ⟨(by intro p e h; simp [lookup] at h), (by intro p e f h; simp [lookup] at h), hg.stamped,
      hg.functional⟩
  | run =>
    simp only [step]
    exact (runAll_transparent count sizeOf w.now w.fs w.fs w.cache hg (fun x hx => hx)).2

/-- **transparency (partial: histories without `mv`)**: for every history of writes, deletions,
    clock ticks, cache losses and invocations — including same-second, same-size rewrites right
    after a run — every invocation returns what the same invocation returns with the cache
    disabled. -/
theorem transparent_partial (w : World) (ops : List Op) (hg : Good count sizeOf w.now w.fs w.cache)
    (hnr : NoRename ops) :
    outputs count sizeOf w ops = outputsUncached count sizeOf w ops := by
  induction ops generalizing w with
  | nil => rfl
  | cons op rest ih =>
    have hop : ∀ p q, op ≠ .rename p q := by
      intro p q h; subst h; exact hnr
    have hrest : NoRename rest := by
      cases op <;> first | exact hnr | exact absurd rfl (hop _ _)
    have hg' := step_good count sizeOf w op hg hop
    cases op with
    | run =>
      have ht := (runAll_transparent count sizeOf w.now w.fs w.fs w.cache hg (fun x hx => hx)).1
      simp only [outputs, outputsUncached, step] at hg' ⊢
      rw [ht, ih _ hg' hrest]
    | rename p q => exact absurd rfl (hop p q)
    | write p c => simp only [outputs, outputsUncached, step] at hg' ⊢; exact ih _ hg' hrest
    | delete p => simp only [outputs, outputsUncached, step] at hg' ⊢; exact ih _ hg' hrest
    | tick dt => simp only [outputs, outputsUncached, step] at hg' ⊢; exact ih _ hg' hrest
    | dropCache => simp only [outputs, outputsUncached, step] at hg' ⊢; exact ih _ hg' hrest

/-- from an empty project and an empty cache -/
theorem transparent_from_scratch (now : Nat) (ops : List Op) (hnr : NoRename ops) :
    outputs count sizeOf ⟨[], [], now⟩ ops = outputsUncached count sizeOf ⟨[], [], now⟩ ops :=
  transparent_partial count sizeOf ⟨[], [], now⟩ ops (good_init count sizeOf now) hnr

/-- the same-second, same-size rewrite that used to be served from the cache is now counted -/
example : outputs id (fun _ => 10) ⟨[], [], 100⟩ [.write 1 7, .run, .write 1 8, .run, .tick 1, .run]
    = [[(1, 7)], [(1, 8)], [(1, 8)]] := by decide

/-- The full statement (histories *with* renames) is false of the pinned code: two files of equal
    size written in the same second and cached exchange names with `mv` (which preserves mtime):
    both entries still match and both files are reported with each other's counts. -/
theorem c12_rename_swap :
    let ops := [Op.write 1 7, .write 2 8, .tick 5, .run, .rename 1 3, .rename 2 1, .rename 3 2, .run]
    outputs id (fun _ => 10) ⟨[], [], 100⟩ ops ≠ outputsUncached id (fun _ => 10) ⟨[], [], 100⟩ ops := by
  decide

/-! ### a corrupt, truncated, foreign-version or half-written cache file is ignored -/

/-- `load_cache` is total and never trusts what it cannot fully validate -/
theorem load_total (decode : List Nat → Option (Nat × Nat × CacheMap)) (version hash : Nat)
    (bytes : Option (List Nat)) :
    loadCache decode version hash bytes = [] ∨
    ∃ b m, bytes = some b ∧ decode b = some (version, hash, m) ∧ loadCache decode version hash bytes = m := by
  unfold loadCache
  cases bytes with
  | none => left; rfl
  | some b =>
    cases hd : decode b with
    | none => left; simp [hd]
    | some t =>
      obtain ⟨v, h, m⟩ := t
      by_cases hv : v = version ∧ h = hash
      · right
        obtain ⟨h1, h2⟩ := hv
        subst h1; subst h2
        exact ⟨b, m, rfl, hd, by simp [hd]⟩
      · left; simp [hd, hv]

/-- changing `[languages]` changes the configuration hash and therefore empties the cache -/
theorem languages_change_drops (decode : List Nat → Option (Nat × Nat × CacheMap)) (version : Nat)
    (h h' : Nat) (b : List Nat) (m : CacheMap) (hd : decode b = some (version, h, m)) (hne : h ≠ h') :
    loadCache decode version h' (some b) = [] := by
  simp [loadCache, hd, hne]

/-! ### what a cache key must be (repair 2b73ec2)

  The transparency theorems above are stated over `Path`, the identity of a file.  The code keys
  entries by a string; for the theorems to apply, equal keys must mean the same file.  A key made
  of the path as walked from the working directory does not have that property once invocations
  start in different directories; the absolute path has it. -/

/-- a walked path (segments below the working directory) seen from a working directory (segments
    below the file-system root) -/
def absKey (cwd walked : List (List Char)) : List (List Char) := cwd ++ walked
def relKey (_cwd walked : List (List Char)) : List (List Char) := walked

/-- absolute keys: equal keys, same file (same absolute location) -/
theorem absKey_identifies (c1 w1 c2 w2 : List (List Char)) (h : absKey c1 w1 = absKey c2 w2) :
    c1 ++ w1 = c2 ++ w2 := h

/-- keys relative to the working directory do not: `./b.rs` from the project root and `./b.rs`
    from `src/` are one key and two files -/
theorem relKey_collides :
    ∃ c1 w1 c2 w2, relKey c1 w1 = relKey c2 w2 ∧ c1 ++ w1 ≠ c2 ++ w2 :=
  ⟨[['p']], [['b', '.', 'r', 's']], [['p'], ['s', 'r', 'c']], [['b', '.', 'r', 's']], rfl, by decide⟩

end SlocModel.Props.C12
