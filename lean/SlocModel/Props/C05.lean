import SlocModel.Threshold
import SlocModel.Basic.F64Lemmas
/-!
  C05 — Threshold verdicts, last-match-wins rule resolution and explain coherence.
  Property theorems only; every statement is about `SlocModel.Threshold`, the model of
  `src/checker/threshold.rs` that the correspondence harness compares with the real
  `ThresholdChecker` on every run.
-/
namespace SlocModel.Props.C05
open SlocModel SlocModel.Threshold

/-! ### failed / warning / passed are exactly the documented comparisons -/

theorem failed_iff (e l w : Nat) : classify e l w = .failed ↔ e > l := by
  unfold classify; split
  · simp; omega
  · split <;> simp <;> omega

theorem warning_iff (e l w : Nat) : classify e l w = .warning ↔ w ≤ e ∧ e ≤ l := by
  unfold classify; split
  · simp; omega
  · split <;> simp <;> omega

theorem passed_iff (e l w : Nat) : classify e l w = .passed ↔ e < w ∧ e ≤ l := by
  unfold classify; split
  · simp; omega
  · split <;> simp <;> omega

/-- the three verdicts of a file in terms of its effective count, limit and warn point -/
theorem verdict_trichotomy (g : Global) (rules : List Rule) (ms : List Bool) (s : Stats) :
    let v := verdict g rules ms s
    (v.status = .failed ↔ v.eff > v.limit) ∧
    (v.status = .warning ↔ v.warn ≤ v.eff ∧ v.eff ≤ v.limit) ∧
    (v.status = .passed ↔ v.eff < v.warn ∧ v.eff ≤ v.limit) := by
  simp only [verdict]
  exact ⟨failed_iff _ _ _, warning_iff _ _ _, passed_iff _ _ _⟩

/-! ### effective count -/

/-- code lines, plus comment / blank lines when configured to count them -/
theorem effective_def (g : Global) (rules : List Rule) (ms : List Bool) (s : Stats) :
    let v := verdict g rules ms s
    v.eff = s.code + (if v.skipC then 0 else s.comment) + (if v.skipB then 0 else s.blank) := by
  simp only [verdict, effective]; trivial

/-- ignored lines (and the total) never influence the verdict -/
theorem ignored_never_counts (g : Global) (rules : List Rule) (ms : List Bool) (s : Stats)
    (t i : Nat) :
    verdict g rules ms { s with total := t, ignored := i } = verdict g rules ms s := by
  simp [verdict, effective]

/-! ### last declared matching rule wins -/

theorem lastMatchFrom_spec (ms : List Bool) (k : Nat) (acc : Option Nat) :
    lastMatchFrom k ms acc =
      match lastMatchFrom 0 ms none with
      | some i => some (k + i)
      | none => acc := by
  induction ms generalizing k acc with
  | nil => simp [lastMatchFrom]
  | cons b bs ih =>
    simp only [lastMatchFrom]
    rw [ih (k + 1), ih (0 + 1)]
    cases h : lastMatchFrom 0 bs none with
    | some i => simp; omega
    | none => cases b <;> simp

/-- one step of the scan, seen from the front -/
theorem lastMatch_cons (b : Bool) (bs : List Bool) :
    lastMatch (b :: bs) =
      match lastMatch bs with
      | some i => some (i + 1)
      | none => if b then some 0 else none := by
  unfold lastMatch
  simp only [lastMatchFrom]
  rw [lastMatchFrom_spec]
  cases lastMatchFrom 0 bs none with
  | some i => simp; omega
  | none => simp

theorem no_match_iff (ms : List Bool) :
    lastMatch ms = none ↔ ∀ j : Nat, ms[j]? ≠ some true := by
  induction ms with
  | nil => simp [lastMatch, lastMatchFrom]
  | cons b bs ih =>
    rw [lastMatch_cons]
    cases h : lastMatch bs with
    | some i =>
      simp only [reduceCtorEq, false_iff]
      intro hall
      have h2 : ∀ j : Nat, bs[j]? ≠ some true := fun j => by simpa using hall (j + 1)
      rw [ih.mpr h2] at h; cases h
    | none =>
      have h2 := ih.mp h
      cases b with
      | true => simp; exact ⟨0, by simp⟩
      | false =>
        simp only [Bool.false_eq_true, if_false, true_iff]
        intro j
        cases j with
        | zero => simp
        | succ j => simpa using h2 j

/-- `lastMatch ms = some i` iff rule `i` matches and no later rule does. -/
theorem last_match_wins (ms : List Bool) (i : Nat) :
    lastMatch ms = some i ↔ ms[i]? = some true ∧ ∀ j : Nat, i < j → ms[j]? ≠ some true := by
  induction ms generalizing i with
  | nil => simp [lastMatch, lastMatchFrom]
  | cons b bs ih =>
    rw [lastMatch_cons]
    cases h : lastMatch bs with
    | some k =>
      have hk := (ih k).mp h
      simp only [Option.some.injEq]
      constructor
      · intro hi; subst hi
        refine ⟨by simpa using hk.1, ?_⟩
        intro j hj
        cases j with
        | zero => omega
        | succ j => simpa using hk.2 j (by omega)
      · intro ⟨h1, h2⟩
        cases i with
        | zero =>
          have := h2 (k + 1) (by omega)
          simp [hk.1] at this
        | succ i =>
          have hi : lastMatch bs = some i := (ih i).mpr ⟨by simpa using h1, by
            intro j hj; simpa using h2 (j + 1) (by omega)⟩
          rw [h] at hi; injection hi with hi; omega
    | none =>
      have hnone := (no_match_iff bs).mp h
      cases b with
      | true =>
        simp only [if_true, Option.some.injEq]
        constructor
        · intro hi; subst hi
          exact ⟨by simp, fun j hj => by
            cases j with
            | zero => omega
            | succ j => simpa using hnone j⟩
        · intro ⟨h1, _⟩
          cases i with
          | zero => rfl
          | succ i => exact absurd (by simpa using h1) (hnone i)
      | false =>
        simp only [Bool.false_eq_true, if_false, reduceCtorEq, false_iff]
        intro ⟨h1, _⟩
        cases i with
        | zero => simp at h1
        | succ i => exact absurd (by simpa using h1) (hnone i)

/-- limit, warn point and flags come from the last matching rule, field by field,
    else from the globals -/
theorem limit_source (g : Global) (rules : List Rule) (ms : List Bool) :
    (∀ i r, lastMatch ms = some i → rules[i]? = some r →
        limitFor g rules ms = r.maxLines ∧
        skipFor g rules ms = (r.skipComments.getD g.skipComments, r.skipBlank.getD g.skipBlank)) ∧
    (lastMatch ms = none →
        limitFor g rules ms = g.maxLines ∧ skipFor g rules ms = (g.skipComments, g.skipBlank)) := by
  constructor
  · intro i r h1 h2; simp [limitFor, skipFor, selected, h1, h2]
  · intro h; simp [limitFor, skipFor, selected, h]

/-- absolute before percentage, rule before global — the four cases in order -/
theorem warn_precedence (g : Global) (rules : List Rule) (ms : List Bool) (l : Nat) :
    (∀ i r w, selected rules ms = some (i, r) → r.warnAt = some w →
        warnPoint g rules ms l = (w, .ruleAbsolute i)) ∧
    (∀ i r t, selected rules ms = some (i, r) → r.warnAt = none → r.warnThreshold = some t →
        warnPoint g rules ms l = (F64.pct r.maxLines t, .rulePercentage i t)) ∧
    (∀ w, (selected rules ms = none ∨
            ∃ i r, selected rules ms = some (i, r) ∧ r.warnAt = none ∧ r.warnThreshold = none) →
        g.warnAt = some w → warnPoint g rules ms l = (w, .globalAbsolute)) ∧
    ((selected rules ms = none ∨
            ∃ i r, selected rules ms = some (i, r) ∧ r.warnAt = none ∧ r.warnThreshold = none) →
        g.warnAt = none →
        warnPoint g rules ms l = (F64.pct l g.warnThreshold, .globalPercentage g.warnThreshold)) := by
  refine ⟨?_, ?_, ?_, ?_⟩
  · intro i r w h1 h2; simp [warnPoint, h1, h2]
  · intro i r t h1 h2 h3; simp [warnPoint, h1, h2, h3]
  · intro w h hw
    rcases h with h | ⟨i, r, h1, h2, h3⟩
    · simp [warnPoint, h, hw]
    · simp [warnPoint, h1, h2, h3, hw]
  · intro h hw
    rcases h with h | ⟨i, r, h1, h2, h3⟩
    · simp [warnPoint, h, hw]
    · simp [warnPoint, h1, h2, h3, hw]

/-! ### monotonicity -/

theorem classify_mono_count {e e' : Nat} (l w : Nat) (h : e ≤ e') :
    (classify e l w).rank ≤ (classify e' l w).rank := by
  unfold classify
  split <;> split <;> (try split) <;> (try split) <;> simp [Status.rank] <;> omega

theorem classify_mono_limit {l l' w w' : Nat} (e : Nat) (hl : l ≤ l') (hw : w ≤ w') :
    (classify e l' w').rank ≤ (classify e l w).rank := by
  unfold classify
  split <;> split <;> (try split) <;> (try split) <;> simp [Status.rank] <;> omega

/-- more lines never improve the verdict -/
theorem verdict_mono_count (g : Global) (rules : List Rule) (ms : List Bool) (s s' : Stats)
    (hc : s.code ≤ s'.code) (hm : s.comment ≤ s'.comment) (hb : s.blank ≤ s'.blank) :
    (verdict g rules ms s).status.rank ≤ (verdict g rules ms s').status.rank := by
  simp only [verdict]
  apply classify_mono_count
  unfold effective
  split <;> split <;> omega

/-- raising the global limit never worsens the verdict of any file -/
theorem verdict_mono_global_limit (g : Global) (rules : List Rule) (ms : List Bool) (s : Stats)
    (l' : Nat) (h : g.maxLines ≤ l') :
    (verdict { g with maxLines := l' } rules ms s).status.rank ≤
      (verdict g rules ms s).status.rank := by
  simp only [verdict, skipFor, limitFor, warnPoint]
  cases hs : selected rules ms with
  | none =>
    simp only
    cases hw : g.warnAt with
    | some w => exact classify_mono_limit _ h (Nat.le_refl _)
    | none => exact classify_mono_limit _ h (F64.pct_mono_limit _ h)
  | some p =>
    obtain ⟨i, r⟩ := p
    simp only
    cases r.warnAt <;> cases r.warnThreshold <;> cases g.warnAt <;>
      exact classify_mono_limit _ (Nat.le_refl _) (Nat.le_refl _)

/-- raising the limit of the selected rule never worsens the verdict -/
theorem verdict_mono_rule_limit (g : Global) (rules rules' : List Rule) (ms : List Bool)
    (s : Stats) (i : Nat) (r : Rule) (l' : Nat)
    (hsel : selected rules ms = some (i, r))
    (hsel' : selected rules' ms = some (i, { r with maxLines := l' }))
    (h : r.maxLines ≤ l') :
    (verdict g rules' ms s).status.rank ≤ (verdict g rules ms s).status.rank := by
  simp only [verdict, skipFor, limitFor, warnPoint, hsel, hsel']
  cases r.warnAt with
  | some w => exact classify_mono_limit _ h (Nat.le_refl _)
  | none =>
    cases r.warnThreshold with
    | some t => exact classify_mono_limit _ h (F64.pct_mono_limit _ h)
    | none =>
      cases g.warnAt with
      | some w => exact classify_mono_limit _ h (Nat.le_refl _)
      | none => exact classify_mono_limit _ h (F64.pct_mono_limit _ h)

/-! ### warn point stays at or below the limit for validated configurations -/

/-- what `validate_config_semantics` guarantees about `[content]` (C17 gate), plus the
    assumption that limits are exactly representable as doubles (< 2^53 lines). -/
structure Validated (g : Global) (rules : List Rule) : Prop where
  gThreshold : F64.inUnit g.warnThreshold = true
  gWarnAt : ∀ w, g.warnAt = some w → w < g.maxLines
  gSmall : g.maxLines < 2 ^ 53
  rWarnAt : ∀ r ∈ rules, ∀ w, r.warnAt = some w → w < r.maxLines
  rSmall : ∀ r ∈ rules, r.maxLines < 2 ^ 53
  /-- NOT checked by the pinned gate (C17 finding): rule thresholds inside [0,1] -/
  rThreshold : ∀ r ∈ rules, ∀ t, r.warnThreshold = some t → F64.inUnit t = true

theorem selected_mem {rules : List Rule} {ms : List Bool} {i : Nat} {r : Rule}
    (h : selected rules ms = some (i, r)) : r ∈ rules := by
  unfold selected at h
  split at h
  · cases h
  · split at h
    · cases h
    · rename_i hr; injection h with h; injection h with h1 h2; subst h2
      exact List.mem_of_getElem? hr

theorem warn_le_limit_partial (g : Global) (rules : List Rule) (ms : List Bool)
    (hv : Validated g rules)
    (hga : ∀ i r w, selected rules ms = some (i, r) → r.warnAt = none →
        r.warnThreshold = none → g.warnAt = some w → w ≤ r.maxLines) :
    (warnPoint g rules ms (limitFor g rules ms)).1 ≤ limitFor g rules ms := by
  unfold warnPoint limitFor
  cases hs : selected rules ms with
  | none =>
    simp only
    cases hw : g.warnAt with
    | some w => exact Nat.le_of_lt (hv.gWarnAt w hw)
    | none => exact F64.pct_le_limit _ _ hv.gSmall hv.gThreshold
  | some p =>
    obtain ⟨i, r⟩ := p
    have hmem := selected_mem hs
    simp only
    cases hra : r.warnAt with
    | some w => exact Nat.le_of_lt (hv.rWarnAt r hmem w hra)
    | none =>
      cases hrt : r.warnThreshold with
      | some t => exact F64.pct_le_limit _ _ (hv.rSmall r hmem) (hv.rThreshold r hmem t hrt)
      | none =>
        cases hw : g.warnAt with
        | some w => exact hga i r w hs hra hrt hw
        | none => exact F64.pct_le_limit _ _ (hv.rSmall r hmem) hv.gThreshold

/-! ### explain reports exactly what check applies -/

theorem explain_coherent (g : Global) (rules : List Rule) (ms : List Bool) (s : Stats) :
    let v := verdict g rules ms s
    let x := explain g rules ms false
    x.rule = v.rule ∧ x.limit = v.limit ∧ x.warn = v.warn ∧ x.source = v.source ∧
    x.skipC = v.skipC ∧ x.skipB = v.skipB ∧ x.excluded = false := by
  simp [verdict, explain]

/-- an excluded file has no verdict at all (`should_process` is false) and `explain` says so -/
theorem explain_excluded (g : Global) (rules : List Rule) (ms : List Bool) (a b : Bool) :
    (explain g rules ms true).excluded = true ∧ shouldProcess true a b ms = false := by
  simp [explain, shouldProcess]

/-! ### non-vacuity: concrete states meeting the hypotheses -/

def exG : Global := { maxLines := 500, warnThreshold := 0x3FECCCCCCCCCCCCD /- 0.9 -/,
                      warnAt := none, skipComments := true, skipBlank := true }
def exRules : List Rule :=
  [ { maxLines := 100, warnThreshold := some 0x3FE1EB851EB851EC /- 0.56 -/, warnAt := none,
      skipComments := none, skipBlank := some false },
    { maxLines := 300, warnThreshold := none, warnAt := some 250,
      skipComments := some false, skipBlank := none } ]

-- 0.56 × 100 in f64 is 56.00000000000001, so the warn point is 57, not 56
example : (verdict exG exRules [true, false] ⟨60, 56, 2, 1, 1⟩).warn = 57 := by decide +kernel
example : (verdict exG exRules [true, false] ⟨60, 56, 2, 1, 1⟩).status = .warning := by decide +kernel
example : (verdict exG exRules [true, true] ⟨400, 200, 60, 100, 40⟩).status = .warning := by decide +kernel
example : (verdict exG exRules [true, true] ⟨400, 200, 60, 100, 40⟩).rule = some 1 := by decide +kernel
example : (verdict exG exRules [false, false] ⟨600, 451, 60, 100, 40⟩).status = .warning := by decide +kernel
example : lastMatch [true, false, true, false] = some 2 := by decide +kernel

end SlocModel.Props.C05
