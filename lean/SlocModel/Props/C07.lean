import SlocModel.Placement
import SlocModel.Siblings
/-!
  C07 — Placement rules (deny / allow / naming / siblings) flag exactly the offending entries.
-/
namespace SlocModel.Props.C07
open SlocModel.Placement SlocModel.Siblings

/-! ### rule selection: last declared match -/

theorem selectRule_spec {α : Type} (scope : α → Bool) (rules : List α) (k : Nat) (acc : Option (Nat × α)) :
    selectRule scope rules k acc =
      match selectRule scope rules 0 none with
      | some (i, r) => some (k + i, r)
      | none => acc := by
  induction rules generalizing k acc with
  | nil => simp [selectRule]
  | cons x xs ih =>
    simp only [selectRule]
    rw [ih (k + 1), ih (0 + 1)]
    cases h : selectRule scope xs 0 none with
    | some p => obtain ⟨i, r⟩ := p; simp; omega
    | none => cases scope x <;> simp

theorem selectRule_cons {α : Type} (scope : α → Bool) (x : α) (xs : List α) :
    selectRule scope (x :: xs) 0 none =
      match selectRule scope xs 0 none with
      | some (i, r) => some (i + 1, r)
      | none => if scope x then some (0, x) else none := by
  simp only [selectRule]
  rw [selectRule_spec]
  cases selectRule scope xs 0 none with
  | some p => obtain ⟨i, r⟩ := p; simp; omega
  | none => simp

theorem selectRule_none_iff {α : Type} (scope : α → Bool) (rules : List α) :
    selectRule scope rules 0 none = none ↔ ∀ x ∈ rules, scope x = false := by
  induction rules with
  | nil => simp [selectRule]
  | cons x xs ih =>
    rw [selectRule_cons]
    cases h : selectRule scope xs 0 none with
    | some p =>
      obtain ⟨i, r⟩ := p
      simp only [reduceCtorEq, false_iff]
      intro hall
      rw [ih.mpr (fun y hy => hall y (List.mem_cons_of_mem _ hy))] at h; cases h
    | none =>
      have := ih.mp h
      cases hs : scope x with
      | true =>
        simp only [if_true, reduceCtorEq, false_iff]
        intro hall
        have := hall x List.mem_cons_self
        rw [hs] at this; cases this
      | false =>
        simp only [Bool.false_eq_true, if_false, true_iff]
        intro y hy
        rcases List.mem_cons.mp hy with hy | hy
        · rw [hy]; exact hs
        · exact this y hy

/-- the rule consulted for an entry is the last declared rule whose scope matches -/
theorem rule_selection_is_last {α : Type} (scope : α → Bool) (rules : List α) (i : Nat) (r : α) :
    selectRule scope rules 0 none = some (i, r) ↔
      rules[i]? = some r ∧ scope r = true ∧ ∀ j, i < j → ∀ x, rules[j]? = some x → scope x = false := by
  induction rules generalizing i r with
  | nil => simp [selectRule]
  | cons x xs ih =>
    rw [selectRule_cons]
    cases h : selectRule scope xs 0 none with
    | some p =>
      obtain ⟨k, rk⟩ := p
      have hk := (ih k rk).mp h
      simp only [Option.some.injEq, Prod.mk.injEq]
      constructor
      · intro ⟨hi, hr⟩; subst hi; subst hr
        refine ⟨by simpa using hk.1, hk.2.1, ?_⟩
        intro j hj y hy
        cases j with
        | zero => omega
        | succ j => exact hk.2.2 j (by omega) y (by simpa using hy)
      · intro ⟨h1, h2, h3⟩
        cases i with
        | zero =>
          have := h3 (k + 1) (by omega) rk (by simpa using hk.1)
          rw [hk.2.1] at this; cases this
        | succ i =>
          have hi : selectRule scope xs 0 none = some (i, r) := (ih i r).mpr ⟨by simpa using h1, h2, by
            intro j hj y hy; exact h3 (j + 1) (by omega) y (by simpa using hy)⟩
          rw [h] at hi; injection hi with hi; injection hi with h4 h5
          exact ⟨by omega, h5⟩
    | none =>
      have hnone := (selectRule_none_iff scope xs).mp h
      cases hs : scope x with
      | true =>
        simp only [if_true, Option.some.injEq, Prod.mk.injEq]
        constructor
        · intro ⟨hi, hr⟩; subst hi; subst hr
          refine ⟨by simp, hs, ?_⟩
          intro j hj y hy
          cases j with
          | zero => omega
          | succ j => exact hnone y (List.mem_of_getElem? (by simpa using hy))
        · intro ⟨h1, h2, _⟩
          cases i with
          | zero => simp at h1; exact ⟨rfl, h1⟩
          | succ i =>
            have := hnone r (List.mem_of_getElem? (by simpa using h1))
            rw [h2] at this; cases this
      | false =>
        simp only [Bool.false_eq_true, if_false, reduceCtorEq, false_iff]
        intro ⟨h1, h2, _⟩
        cases i with
        | zero => simp at h1; subst h1; rw [hs] at h2; cases h2
        | succ i =>
          have := hnone r (List.mem_of_getElem? (by simpa using h1))
          rw [h2] at this; cases this

/-! ### files: the decision table -/

/-- what the global level says about a file, given the selected rule -/
def globalVerdict (g : FileGlobalBits) (sel : Option (Nat × FileRuleBits)) : Option FileFinding :=
  if g.hasAllowlist then (if !g.allowMatch then some (.disallowed .global) else none)
  else if g.denyMatch && !(match sel with
      | some (_, r) => r.hasAllowlist && r.allowMatch
      | none => false) then some (.denied .global) else none

/-- **characterisation**: a file is reported iff, in this order: the global allowlist misses it;
    else a global deny list hits it and no scoped allowlist of the selected rule covers it; else a
    deny list of the selected rule hits it; else the selected rule's allowlist misses it; else its
    name violates the selected rule's naming pattern.  A file gets at most one finding (the result
    is an `Option`). -/
theorem file_reported_iff (g : FileGlobalBits) (rules : List FileRuleBits) :
    checkFile g rules =
      match globalVerdict g (selectRule (·.scopeMatches) rules 0 none) with
      | some f => some f
      | none =>
        match selectRule (·.scopeMatches) rules 0 none with
        | none => none
        | some (i, r) =>
          if r.denyMatch then some (.denied (.rule i))
          else if r.hasAllowlist && !r.allowMatch then some (.disallowed (.rule i))
          else if r.hasNaming && !r.namingOk then some (.naming (.rule i))
          else none := by
  unfold checkFile globalVerdict
  cases hg : g.hasAllowlist <;> cases ha : g.allowMatch <;> cases hd : g.denyMatch <;>
    cases hsel : selectRule (·.scopeMatches) rules 0 none <;> simp [hg, ha, hd, hsel] <;>
    (try (rename_i p; obtain ⟨i, r⟩ := p; cases r.hasAllowlist <;> cases r.allowMatch <;> simp))

/-- a deny entry beats an allow entry of the same rule -/
theorem deny_beats_allow_same_rule (g : FileGlobalBits) (rules : List FileRuleBits) (i : Nat)
    (r : FileRuleBits) (hsel : selectRule (·.scopeMatches) rules 0 none = some (i, r))
    (hglobal : globalVerdict g (some (i, r)) = none) (hdeny : r.denyMatch = true) :
    checkFile g rules = some (.denied (.rule i)) := by
  rw [file_reported_iff, hsel, hglobal]; simp [hdeny]

/-- a scope's allowlist entry overrides a global deny -/
theorem scoped_allow_overrides_global_deny (g : FileGlobalBits) (rules : List FileRuleBits)
    (i : Nat) (r : FileRuleBits) (hsel : selectRule (·.scopeMatches) rules 0 none = some (i, r))
    (hg : g.hasAllowlist = false) (hal : r.hasAllowlist = true) (ham : r.allowMatch = true) :
    checkFile g rules ≠ some (.denied .global) := by
  rw [file_reported_iff, hsel]
  simp only [globalVerdict, hg, hal, ham]
  cases g.denyMatch <;> simp <;> (repeat' split) <;> simp

/-- extension / name / pattern lists combine by OR -/
theorem lists_combine_by_or (h : ListHits) :
    h.any = true ↔ h.ext = true ∨ h.file = true ∨ h.pattern = true := by
  cases h with | mk a b c => cases a <;> cases b <;> cases c <;> simp [ListHits.any]

theorem globalVerdict_origin (g : FileGlobalBits) (sel : Option (Nat × FileRuleBits)) (f : FileFinding)
    (h : globalVerdict g sel = some f) : f = .disallowed .global ∨ f = .denied .global := by
  unfold globalVerdict at h
  split at h
  · split at h
    · injection h with h; exact Or.inl h.symm
    · cases h
  · simp at h; exact Or.inr h.2.symm

/-- naming is checked only for otherwise permitted files -/
theorem naming_only_if_permitted (g : FileGlobalBits) (rules : List FileRuleBits) (i : Nat)
    (r : FileRuleBits) (hsel : selectRule (·.scopeMatches) rules 0 none = some (i, r))
    (h : checkFile g rules = some (.naming (.rule i))) :
    r.denyMatch = false ∧ (r.hasAllowlist = true → r.allowMatch = true) ∧
      globalVerdict g (some (i, r)) = none := by
  rw [file_reported_iff, hsel] at h
  cases hgv : globalVerdict g (some (i, r)) with
  | some f =>
    simp only [hgv] at h
    injection h with h
    rcases globalVerdict_origin g _ f hgv with h' | h' <;> rw [h'] at h <;> cases h
  | none =>
    simp only [hgv] at h
    cases hd : r.denyMatch <;> cases hal : r.hasAllowlist <;> cases ham : r.allowMatch <;>
      simp_all

/-- nothing permitted is reported -/
theorem nothing_permitted_is_reported (g : FileGlobalBits) (rules : List FileRuleBits)
    (hglobal : globalVerdict g (selectRule (·.scopeMatches) rules 0 none) = none)
    (hrule : ∀ i r, selectRule (·.scopeMatches) rules 0 none = some (i, r) →
      r.denyMatch = false ∧ (r.hasAllowlist = true → r.allowMatch = true) ∧
      (r.hasNaming = true → r.namingOk = true)) :
    checkFile g rules = none := by
  rw [file_reported_iff, hglobal]
  cases hsel : selectRule (·.scopeMatches) rules 0 none with
  | none => rfl
  | some p =>
    obtain ⟨i, r⟩ := p
    obtain ⟨h1, h2, h3⟩ := hrule i r hsel
    simp only [h1, Bool.false_eq_true, if_false]
    cases hal : r.hasAllowlist <;> cases hn : r.hasNaming <;> simp_all

/-! ### directories -/

/-- a directory receives at most three findings: a global path-pattern deny, a global basename
    deny, and one from the selected rule (stated as it is) -/
theorem dir_reports_le_three (g : DirGlobalBits) (rules : List DirRuleBits) :
    (checkDirPlacement g rules).length ≤ 3 := by
  unfold checkDirPlacement
  obtain ⟨g1, g2, g3, g4⟩ := g
  cases selectRule (·.scopeMatches) rules 0 none with
  | none => cases g1 <;> cases g2 <;> cases g3 <;> cases g4 <;> simp
  | some p =>
    obtain ⟨i, r⟩ := p
    obtain ⟨r0, r1, r2, r3⟩ := r
    cases g1 <;> cases g2 <;> cases g3 <;> cases g4 <;> cases r1 <;> cases r2 <;> cases r3 <;> simp

/-- a scope's `allow_dirs` entry overrides the global directory deny lists -/
theorem dir_scoped_allow_overrides_global_deny (g : DirGlobalBits) (rules : List DirRuleBits)
    (i : Nat) (r : DirRuleBits) (hsel : selectRule (·.scopeMatches) rules 0 none = some (i, r))
    (hg : g.hasDirAllowlist = false) (hal : r.hasDirAllowlist = true) (ham : r.dirAllowMatch = true) :
    checkDirPlacement g rules = [] := by
  simp [checkDirPlacement, hsel, hg, hal, ham]

/-! ### siblings -/

/-- a directed rule requires each templated companion of a matching file: template `t` is
    reported for the file iff its companion name is absent from the directory -/
theorem directed_sibling_iff (dir : List (List Char)) (name : List Char)
    (templates : List (List Char)) (t : List Char) :
    t ∈ directedMissing dir name templates ↔
      t ∈ templates ∧ replaceStem t (fileStem name) ∉ dir := by
  simp [directedMissing, List.mem_filter]

/-- group rule, one stem: if every pattern that matches the file name yields the same stem `s`,
    the rule reports exactly the members missing for `s` — a finding iff some member is missing -/
theorem group_unambiguous (dir : List (List Char)) (name : List Char) (patterns : List (List Char))
    (s : List Char) (hne : patterns.filterMap (extractStem name) ≠ [])
    (hall : ∀ x ∈ patterns.filterMap (extractStem name), x = s) :
    groupMissing dir name patterns = some (missingFor dir patterns s) := by
  unfold groupMissing
  have hmin : ∀ (l : List (List Char)), l ≠ [] → (∀ x ∈ l, x = s) →
      minByKey (fun st => (missingFor dir patterns st).length) l = some s := by
    intro l
    induction l with
    | nil => intro h; exact absurd rfl h
    | cons x xs ih =>
      intro _ hx
      have hxs : x = s := hx x List.mem_cons_self
      simp only [minByKey]
      cases hxs' : xs with
      | nil => simp [minByKey, hxs]
      | cons y ys =>
        have := ih (by simp [hxs']) (fun z hz => hx z (List.mem_cons_of_mem _ hz))
        rw [hxs'] at this
        rw [this, hxs]; simp
  simp only [hmin _ hne hall]

theorem group_finding_iff (dir : List (List Char)) (patterns : List (List Char)) (s : List Char) :
    missingFor dir patterns s ≠ [] ↔ ∃ p ∈ patterns, replaceStem p s ∉ dir := by
  unfold missingFor
  constructor
  · intro h
    obtain ⟨p, hp⟩ := List.exists_mem_of_ne_nil _ h
    obtain ⟨h1, h2⟩ := List.mem_filter.mp hp
    exact ⟨p, h1, by simpa using h2⟩
  · intro ⟨p, h1, h2⟩ hnil
    have : p ∈ patterns.filter (fun p => !dir.contains (replaceStem p s)) :=
      List.mem_filter.mpr ⟨h1, by simpa using h2⟩
    rw [hnil] at this; cases this

/-- The unrestricted group statement ("violated exactly when some but not all members exist for
    a stem") is false of the pinned heuristic when a file name matches several patterns: with
    `a.tsx, a.test.tsx, a.test.test.tsx` the stem `a.test.test` has one member of two, yet nothing
    is reported (the best-stem minimisation picks the complete stem `a.test`). -/
theorem c07_group_ambiguous_stem :
    let dir := ["a.tsx".toList, "a.test.tsx".toList, "a.test.test.tsx".toList]
    let group := ["{stem}.tsx".toList, "{stem}.test.tsx".toList]
    groupMissing dir "a.test.test.tsx".toList group = some [] ∧
    missingFor dir group "a.test.test".toList = ["{stem}.test.tsx".toList] := by decide

/-! ### non-vacuity -/
example : checkFile ⟨false, ⟨false, false, false⟩, ⟨true, false, false⟩⟩
    [⟨true, true, ⟨false, true, false⟩, ⟨false, false, false⟩, false, true⟩] = none := by decide
example : checkFile ⟨false, ⟨false, false, false⟩, ⟨false, false, false⟩⟩
    [⟨true, false, ⟨false, false, false⟩, ⟨true, false, false⟩, false, true⟩,
     ⟨true, true, ⟨false, false, false⟩, ⟨false, false, false⟩, false, true⟩]
    = some (.disallowed (.rule 1)) := by decide
example : extractStem "Button.test.tsx".toList "{stem}.test.tsx".toList = some "Button".toList := by decide
example : replaceStem "{stem}.test.tsx".toList "Button".toList = "Button.test.tsx".toList := by decide
example : fileStem "a.test.tsx".toList = "a.test".toList ∧ fileStem ".env".toList = ".env".toList := by decide

end SlocModel.Props.C07
