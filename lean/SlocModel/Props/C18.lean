import SlocModel.Remote
import SlocModel.AtomicWrite
/-!
  C18 — Remote configuration integrity and fetch policy.
  All statements hold for every hash function `sha` (no property of SHA-256 is used).
-/
namespace SlocModel.Props.C18
open SlocModel SlocModel.Remote

variable (sha : Content → Hash)

/-- when `extends_sha256` is given, the content that takes effect has exactly that hash, whether it
    came from the cache or from the network -/
theorem hash_respected (p : Policy) (h : Hash) (c : Cache) (s : Server) (root : Bool) (x : Content)
    (hr : (fetch sha p (some h) c s root).result = .ok x) : sha x = h := by
  unfold fetch at hr
  cases hc : readCache p c root with
  | none =>
    simp only [hc] at hr
    split at hr
    · cases hr
    · unfold fetchFresh at hr
      cases s with
      | err => cases hr
      | ok body =>
        simp only at hr
        split at hr
        · injection hr with hr; subst hr; assumption
        · cases hr
  | some cached =>
    simp only [hc] at hr
    split at hr
    · injection hr with hr; subst hr; assumption
    · split at hr
      · cases hr
      · unfold fetchFresh at hr
        cases s with
        | err => cases hr
        | ok body =>
          simp only at hr
          split at hr
          · injection hr with hr; subst hr; assumption
          · cases hr

/-- the cache only ever changes to a freshly fetched body, and — when a hash is given — only to a
    body with that hash: content with a different hash is never written to the cache -/
theorem mismatch_never_cached (p : Policy) (hash : Option Hash) (c : Cache) (s : Server) (root : Bool)
    (hne : (fetch sha p hash c s root).cache ≠ c) :
    ∃ body, s = .ok body ∧ (fetch sha p hash c s root).cache = .present body 0 ∧
      (∀ h, hash = some h → sha body = h) ∧ (fetch sha p hash c s root).result = .ok body := by
  have fresh : ∀ (hne : (fetchFresh sha hash c s root).cache ≠ c),
      ∃ body, s = .ok body ∧ (fetchFresh sha hash c s root).cache = .present body 0 ∧
        (∀ h, hash = some h → sha body = h) ∧ (fetchFresh sha hash c s root).result = .ok body := by
    intro hne
    unfold fetchFresh at hne ⊢
    cases s with
    | err => simp at hne
    | ok body =>
      cases hash with
      | none =>
        simp only at hne ⊢
        cases root
        · simp at hne
        · exact ⟨body, rfl, by simp, by simp, rfl⟩
      | some h =>
        simp only at hne ⊢
        by_cases hs : sha body = h
        · simp only [hs, if_true] at hne ⊢
          cases root
          · simp at hne
          · exact ⟨body, rfl, by simp, by intro h' hh; injection hh with hh; rw [← hh]; exact hs, rfl⟩
        · simp [hs] at hne
  unfold fetch at hne ⊢
  cases hc : readCache p c root with
  | none =>
    simp only [hc] at hne ⊢
    split
    · rename_i hp; simp [hp] at hne
    · rename_i hp; simp only [hp, if_false] at hne; exact fresh hne
  | some cached =>
    simp only [hc] at hne ⊢
    cases hash with
    | none => simp at hne
    | some h =>
      simp only at hne ⊢
      by_cases hs : sha cached = h
      · simp [hs] at hne
      · simp only [hs, if_false] at hne ⊢
        by_cases hp : p = .offline
        · simp [hp] at hne
        · simp only [hp, if_false] at hne ⊢; exact fresh hne

/-- a failed or rejected fetch leaves the cache exactly as it was -/
theorem failed_fetch_keeps_cache (p : Policy) (hash : Option Hash) (c : Cache) (s : Server) (root : Bool)
    (e : Err) (he : (fetch sha p hash c s root).result = .error e) :
    (fetch sha p hash c s root).cache = c := by
  by_cases hne : (fetch sha p hash c s root).cache = c
  · exact hne
  · obtain ⟨body, _, _, _, hok⟩ := mismatch_never_cached sha p hash c s root hne
    rw [hok] at he; cases he

/-- the offline policy never contacts the network and fails on a cache miss -/
theorem offline_no_network (hash : Option Hash) (c : Cache) (s : Server) (root : Bool) :
    (fetch sha .offline hash c s root).requests = 0 ∧
    (readCache .offline c root = none → (fetch sha .offline hash c s root).result = .error .offlineMiss) := by
  unfold fetch
  cases hc : readCache .offline c root with
  | none => simp
  | some cached =>
    cases hash with
    | none => simp
    | some h => simp only; split <;> simp

/-- the refresh policy never reads the cache: result and request count do not depend on it -/
theorem refresh_ignores_cache (hash : Option Hash) (c c' : Cache) (s : Server) (root : Bool) :
    (fetch sha .forceRefresh hash c s root).result = (fetch sha .forceRefresh hash c' s root).result ∧
    (fetch sha .forceRefresh hash c s root).requests = (fetch sha .forceRefresh hash c' s root).requests := by
  have h1 : readCache .forceRefresh c root = none := by unfold readCache; cases root <;> simp
  have h2 : readCache .forceRefresh c' root = none := by unfold readCache; cases root <;> simp
  unfold fetch
  simp only [h1, h2]
  unfold fetchFresh
  cases s <;> cases hash <;> simp <;> split <;> simp

/-- the normal policy uses a cached copy only within its lifetime (`CACHE_TTL_SECS`, regenerated
    from the source: one hour) -/
theorem normal_ttl (x : Content) (age : Nat) :
    readCache .normal (.present x age) true = (if age < Generated.cacheTtlSecs then some x else none) ∧
    Generated.cacheTtlSecs = 3600 := by
  constructor
  · simp [readCache]
  · rfl

theorem normal_uses_fresh_cache (x : Content) (age : Nat) (s : Server) (h : age < Generated.cacheTtlSecs) :
    (fetch sha .normal none (.present x age) s true).result = .ok x ∧
    (fetch sha .normal none (.present x age) s true).requests = 0 := by
  simp [fetch, readCache, h]

/-- over any sequence of fetches sharing one cache with a constant expected hash: a cache that
    is absent or holds content of that hash stays so (no fetch, failed or not, can poison it) -/
def Clean (h : Hash) (c : Cache) : Prop :=
  match c with
  | .absent => True
  | .present x _ => sha x = h

theorem age_clean (h : Hash) (c : Cache) (dt : Nat) (hc : Clean sha h c) : Clean sha h (c.age dt) := by
  cases c <;> simpa [Clean, Cache.age] using hc

theorem fetch_keeps_clean (p : Policy) (h : Hash) (c : Cache) (s : Server) (root : Bool)
    (hc : Clean sha h c) : Clean sha h (fetch sha p (some h) c s root).cache := by
  by_cases hne : (fetch sha p (some h) c s root).cache = c
  · rw [hne]; exact hc
  · obtain ⟨body, _, hcache, hh, _⟩ := mismatch_never_cached sha p (some h) c s root hne
    rw [hcache]; exact hh h rfl

theorem sequence_invariant (h : Hash) (root : Bool) (c : Cache) (steps : List (Policy × Server × Nat))
    (hc : Clean sha h c) : Clean sha h (fetchSeq sha (some h) root c steps) := by
  induction steps generalizing c with
  | nil => exact hc
  | cons st rest ih =>
    obtain ⟨p, s, dt⟩ := st
    simp only [fetchSeq]
    exact ih _ (fetch_keeps_clean sha p h _ s root (age_clean sha h c dt hc))

/-- an interrupted fetch never leaves a cache entry a later run would trust wrongly: the cache
    file is written with the atomic save protocol, so after a kill at any point it is the previous
    entry or the complete verified body (repaired: it used to be a plain create + write) -/
theorem interrupted_fetch_cache (prior : Option AtomicWrite.Content) (body : AtomicWrite.Content)
    (p : AtomicWrite.Point) (k : Nat) :
    (AtomicWrite.crashAt prior body p k).target = prior ∨
    (AtomicWrite.crashAt prior body p k).target = some body := by
  cases p <;> simp [AtomicWrite.crashAt]

/-! non-vacuity -/
example : (fetch id .normal (some 7) (.present 3 10) (.ok 7) true).cache = .present 7 0 := by decide
example : (fetch id .normal (some 7) (.present 3 10) (.ok 9) true).cache = .present 3 10 := by decide
example : (fetch id .offline none .absent (.ok 7) true).requests = 0 := by decide

end SlocModel.Props.C18
