import SlocModel.Counter.Count
import SlocModel.Counter.Grammar
import SlocModel.Generated.Languages
/-!
  C02 — Line classification agrees with lexical ground truth, incl. ignore directives.

  Tier A: theorems about the classification ladder of `process_line`, for every comment
  syntax and every line.  Tier B (token level): a small lexical grammar with `render`/`truth`;
  the unrestricted statement is refuted by kernel-checked witnesses (the four findings the
  harness reproduces on the real code), and the hazard-free sub-grammar is covered by the
  exhaustive small-scope correspondence run (labelled a test in the evidence).
-/
namespace SlocModel.Props.C02
open SlocModel SlocModel.Counter

/-- the line takes none of the three directive branches of `process_line` -/
def NoDirective (syn : Syntax) (line : List Char) : Prop :=
  let t := trim line
  isSingleLineComment syn t = false ∨
    (hasDirective syn Generated.ignoreEndDirective t = false ∧
     hasDirective syn Generated.ignoreStartDirective t = false ∧
     parseIgnoreNext syn t = none)

/-- not inside an ignore region -/
def Counting (st : St) : Prop := st.inIgnoreBlock = false ∧ st.ignoreRemaining = 0

theorem processLine_noDirective (syn : Syntax) (line : List Char) (st : St)
    (h : NoDirective syn line) : processLine syn line st = ladder syn line st := by
  unfold processLine directiveOf
  unfold NoDirective at h
  simp only at h
  rcases h with h | ⟨h1, h2, h3⟩
  · simp [h]
  · simp [h1, h2, h3]

/-- whitespace-only line outside comments and ignore regions: blank, state untouched -/
theorem blank_is_blank (syn : Syntax) (line : List Char) (st : St)
    (hc : Counting st) (hml : st.ml.isIn = false) (hb : trim line = []) :
    processLine syn line st = (.blank, st) := by
  have hnd : NoDirective syn line := by
    unfold NoDirective; simp only [hb]
    right
    simp [hasDirective, parseIgnoreNext, containsSub, findSub, Generated.ignoreEndDirective,
      Generated.ignoreStartDirective, Generated.ignoreNextPrefix]
  rw [processLine_noDirective syn line st hnd]; unfold ladder
  obtain ⟨h1, h2⟩ := hc
  simp [h1, h2, hml, hb]

/-- any non-directive line while inside a block comment is a comment -/
theorem in_comment_is_comment (syn : Syntax) (line : List Char) (st : St)
    (hc : Counting st) (hml : st.ml.isIn = true) (hnd : NoDirective syn line) :
    (processLine syn line st).1 = .comment := by
  rw [processLine_noDirective syn line st hnd]; unfold ladder
  obtain ⟨h1, h2⟩ := hc
  simp [h1, h2, hml]

/-- a non-blank line with no block start and no line-comment prefix is code, state untouched -/
theorem plain_is_code (syn : Syntax) (line : List Char) (st : St)
    (hc : Counting st) (hml : st.ml.isIn = false) (hne : (trim line).isEmpty = false)
    (hstart : findMultiLineStart syn line = none)
    (hlc : isSingleLineComment syn (trim line) = false) :
    processLine syn line st = (.code, st) := by
  have hnd : NoDirective syn line := Or.inl hlc
  rw [processLine_noDirective syn line st hnd]; unfold ladder
  obtain ⟨h1, h2⟩ := hc
  simp [h1, h2, hml, hne, hstart, hlc]

/-- a whole-line line comment (no block start on it, not a directive) is a comment and leaves
    the state untouched — whatever text follows the prefix -/
theorem line_comment_is_comment (syn : Syntax) (line : List Char) (st : St)
    (hc : Counting st) (hml : st.ml.isIn = false) (hnd : NoDirective syn line)
    (hne : (trim line).isEmpty = false)
    (hstart : findMultiLineStart syn line = none)
    (hlc : isSingleLineComment syn (trim line) = true) :
    processLine syn line st = (.comment, st) := by
  rw [processLine_noDirective syn line st hnd]; unfold ladder
  obtain ⟨h1, h2⟩ := hc
  simp [h1, h2, hml, hne, hstart, hlc]

/-- code followed by a line comment: the line does not *start* with a comment prefix, so with
    no block start on it the line is code -/
theorem code_then_line_comment_is_code (syn : Syntax) (line : List Char) (st : St)
    (hc : Counting st) (hml : st.ml.isIn = false) (hne : (trim line).isEmpty = false)
    (hstart : findMultiLineStart syn line = none)
    (hlc : isSingleLineComment syn (trim line) = false) :
    (processLine syn line st).1 = .code := by
  rw [plain_is_code syn line st hc hml hne hstart hlc]

/-! ### ignore directives -/

/-- a line that is not a whole-line line comment never acts as a directive: it cannot start or
    end an ignore block nor arm `ignore-next` (it can only consume one pending ignored line) -/
theorem directive_needs_comment (syn : Syntax) (line : List Char) (st : St)
    (h : isSingleLineComment syn (trim line) = false) :
    (processLine syn line st).2.inIgnoreBlock = st.inIgnoreBlock ∧
    (processLine syn line st).2.ignoreRemaining = st.ignoreRemaining - 1 ∨
    (processLine syn line st).2.inIgnoreBlock = st.inIgnoreBlock ∧
    (processLine syn line st).2.ignoreRemaining = st.ignoreRemaining := by
  rw [processLine_noDirective syn line st (Or.inl h)]; unfold ladder
  split
  · right; simp
  · split
    · left; simp
    · right
      split
      · simp
      · split
        · simp
        · split <;> simp [h]

/-- … and is never what makes a file "ignored" -/
theorem ignore_file_needs_comment (syn : Syntax) (line : List Char)
    (h : isSingleLineComment syn (trim line) = false) : hasIgnoreFile syn line = false := by
  simp [hasIgnoreFile, hasDirective, h]

/-- `ignore-next`: while `k+1` lines remain to be ignored (outside an ignore block) a
    non-directive line is counted as ignored and exactly one is consumed -/
theorem ignore_next_step (syn : Syntax) (line : List Char) (st : St) (k : Nat)
    (hb : st.inIgnoreBlock = false) (hr : st.ignoreRemaining = k + 1)
    (hnd : NoDirective syn line) :
    (processLine syn line st).1 = .ignored ∧
    (processLine syn line st).2.ignoreRemaining = k ∧
    (processLine syn line st).2.inIgnoreBlock = false ∧
    (processLine syn line st).2.ml = trackState syn line st.ml := by
  rw [processLine_noDirective syn line st hnd]; unfold ladder
  simp [hb, hr]

/-- block state is tracked through ignored lines exactly as through counted ones:
    `trackState` is the state component of the ordinary classification -/
theorem track_state_commutes (syn : Syntax) (line : List Char) (st : St)
    (hc : Counting st) (hnd : NoDirective syn line)
    (hne : (trim line).isEmpty = false ∨ findMultiLineStart syn line = none) :
    (processLine syn line st).2.ml = trackState syn line st.ml := by
  rw [processLine_noDirective syn line st hnd]; unfold ladder
  obtain ⟨h1, h2⟩ := hc
  simp only [h1, h2, Bool.false_eq_true, if_false, Nat.lt_irrefl]
  unfold trackState
  split
  · simp
  · split
    · rename_i hb
      rcases hne with hne | hne
      · simp [hne] at hb
      · simp [hne]
    · cases hf : findMultiLineStart syn line with
      | none => simp; split <;> rfl
      | some m => simp

/-- `ignore-next n` removes exactly the next `n` lines (or all remaining ones): run on a list
    of non-directive lines from a state with `n` pending, the first `min n len` are ignored and
    afterwards nothing is pending. -/
theorem ignore_next_exact (syn : Syntax) (ls : List (List Char)) (st : St) (n seen : Nat)
    (hb : st.inIgnoreBlock = false) (hr : st.ignoreRemaining = n)
    (hnd : ∀ l ∈ ls, NoDirective syn l)
    (hnf : ∀ l ∈ ls, hasIgnoreFile syn l = false)
    (cs : List LineClass) (h : classifyLines syn ls seen st = some cs) :
    ∀ i, i < min n ls.length → cs[i]? = some .ignored := by
  induction ls generalizing st n seen cs with
  | nil => intro i hi; simp at hi
  | cons l ls ih =>
    intro i hi
    simp only [classifyLines, hnf l (List.mem_cons_self), Bool.and_false, Bool.false_eq_true,
      if_false] at h
    split at h
    · rename_i tl htl
      injection h with h; subst h
      cases n with
      | zero => simp at hi
      | succ k =>
        obtain ⟨h1, h2, h3, _⟩ := ignore_next_step syn l st k hb hr (hnd l List.mem_cons_self)
        cases i with
        | zero => simp [h1]
        | succ j =>
          simp only [List.getElem?_cons_succ]
          exact ih _ k _ h3 h2 (fun x hx => hnd x (List.mem_cons_of_mem _ hx))
            (fun x hx => hnf x (List.mem_cons_of_mem _ hx)) tl htl j (by
              simp only [List.length_cons] at hi; omega)
    · cases h

/-- inside `ignore-start … ignore-end` every non-directive line is ignored and the block stays
    open -/
theorem ignore_block_step (syn : Syntax) (line : List Char) (st : St)
    (hb : st.inIgnoreBlock = true) (hnd : NoDirective syn line) :
    (processLine syn line st).1 = .ignored ∧ (processLine syn line st).2.inIgnoreBlock = true := by
  rw [processLine_noDirective syn line st hnd]; unfold ladder
  simp [hb]

/-- the directive lines themselves are comments and switch the region on / off -/
theorem ignore_start_end (syn : Syntax) (line : List Char) (st : St)
    (hlc : isSingleLineComment syn (trim line) = true) :
    (hasDirective syn Generated.ignoreEndDirective (trim line) = true →
        processLine syn line st = (.comment, { st with inIgnoreBlock := false })) ∧
    (hasDirective syn Generated.ignoreEndDirective (trim line) = false →
     hasDirective syn Generated.ignoreStartDirective (trim line) = true →
        processLine syn line st = (.comment, { st with inIgnoreBlock := true })) := by
  constructor
  · intro h; simp [processLine, directiveOf, hlc, h]
  · intro h1 h2; simp [processLine, directiveOf, hlc, h1, h2]

/-- `ignore-file`: the file is reported ignored iff one of its first `directiveScanLines` lines
    carries the directive in a whole-line line comment -/
theorem ignore_file_iff (syn : Syntax) (ls : List (List Char)) (seen : Nat) (st : St) :
    classifyLines syn ls seen st = none ↔
      ∃ i, i < ls.length ∧ seen + i < Generated.directiveScanLines ∧
        ∃ l, ls[i]? = some l ∧ hasIgnoreFile syn l = true := by
  induction ls generalizing seen st with
  | nil => simp [classifyLines]
  | cons l ls ih =>
    simp only [classifyLines]
    split
    · rename_i hc
      simp only [Bool.and_eq_true, decide_eq_true_eq] at hc
      simp only [true_iff]
      exact ⟨0, by simp, by simpa using hc.1, l, by simp, hc.2⟩
    · rename_i hc
      constructor
      · intro h
        split at h
        · cases h
        · rename_i htl
          obtain ⟨i, hi, hs, l', hl', hd⟩ := (ih _ _).mp htl
          exact ⟨i + 1, by simp; omega, by omega, l', by simpa using hl', hd⟩
      · intro ⟨i, hi, hs, l', hl', hd⟩
        cases i with
        | zero =>
          simp at hl'; subst hl'
          exfalso; apply hc; simp [hd]; simpa using hs
        | succ j =>
          have : classifyLines syn ls (seen + 1) (processLine syn l st).2 = none :=
            (ih _ _).mpr ⟨j, by simp at hi; omega, by omega, l', by simpa using hl', hd⟩
          simp [this]

/-! ### generated-table obligations (re-checked against /repo's language table on every run) -/

/-- every built-in block opener and closer, and every line prefix, is non-empty -/
theorem builtin_markers_nonempty :
    Generated.builtins.all (fun l =>
      l.syn.single.all (fun p => !p.isEmpty) &&
      l.syn.multi.all (fun m => !m.start.isEmpty && !m.stop.isEmpty)) = true := by decide

/-- the only built-in language whose block opener begins with one of its own line-comment
    prefixes is Lua (this is what the block-before-line order of the ladder is for) -/
theorem only_lua_overlaps :
    (Generated.builtins.filter (fun l =>
      l.syn.multi.any (fun m => m.kind != .rustRawString &&
        l.syn.single.any (fun p => p.isPrefixOf m.start)))).map (·.name) = [['L', 'u', 'a']] := by
  decide

/-- Python's two triple quotes are the only all-quote block markers -/
theorem only_python_quote_markers :
    (Generated.builtins.filter (fun l =>
      l.syn.multi.any (fun m => m.kind == .static && isMulticharQuote m.start))).map (·.name)
      = [['P', 'y', 't', 'h', 'o', 'n']] := by decide

/-! ### Tier B: the unrestricted token-level statement is false of the pinned code -/

def rustSyn : Syntax :=
  { single := [['/', '/'], ['/', '/', '/'], ['/', '/', '!']],
    multi := [{ MultiLine.plain ['/', '*'] ['*', '/'] with nesting := true },
              { start := ['r', '"'], stop := ['"'], nesting := false, atLineStart := false,
                kind := .rustRawString }] }
def pySyn : Syntax :=
  { single := [['#']],
    multi := [MultiLine.plain ['\'', '\'', '\''] ['\'', '\'', '\''],
              MultiLine.plain ['"', '"', '"'] ['"', '"', '"']] }

/-- the property's token-level claim for a given syntax, text and ground truth -/
abbrev AgreesWithTruth (syn : Syntax) (src : List Char) (truth : List LineClass) : Prop :=
  classes syn src = some truth

/-- block comments must end at their closer whatever text they contain — refuted:
    `/* don't */` never closes, the following code line is counted as comment -/
theorem c02_quote_in_block_fails :
    ¬ AgreesWithTruth cSyn "/* don't */\nint x;".toList [.comment, .code] := by decide

/-- a block opener inside a line comment must not change later lines — refuted -/
theorem c02_opener_in_line_comment_fails :
    ¬ AgreesWithTruth rustSyn "// see src/*.rs\nfn f() {}".toList [.comment, .code] := by decide

/-- a Python triple-quoted block spanning lines: its body is counted as code — refuted -/
theorem c02_multi_line_triple_quote_fails :
    ¬ AgreesWithTruth pySyn "\"\"\"doc\nbody\n\"\"\"".toList [.comment, .comment, .comment] := by
  decide

/-- a triple-quote marker inside an ordinary string literal turns the code line into a comment -/
theorem c02_triple_quote_in_string_fails :
    ¬ AgreesWithTruth pySyn "s = \"a \'\'\' b\"".toList [.code] := by decide

/-- the same programs without the hazard are classified as labelled (non-vacuity of the
    hazard-free fragment) -/
example : AgreesWithTruth cSyn "/* dont */\nint x;".toList [.comment, .code] := by decide
example : AgreesWithTruth rustSyn "// see src.rs\nfn f() {}".toList [.comment, .code] := by decide
example : AgreesWithTruth rustSyn "/* a /* b */ c */\nlet s = \"/* x\"; // y".toList
    [.comment, .code] := by decide
example : AgreesWithTruth cSyn "// sloc-guard:ignore-next 1\nint x;\nint y;".toList
    [.comment, .ignored, .code] := by decide

/-! ### the repaired start line (fix c10877c): only what follows the opener can close the comment -/

/-- for markers that differ, `after_start` is exactly the text behind the matched opener:
    nothing before it, and no character of the opener itself, takes part in the end search -/
theorem afterStart_is_rest (m : StartMatch) (pre rest : List Char)
    (hpos : m.pos = pre.length) (hdyn : m.dynEnd = none) (hne : m.entry.start ≠ m.entry.stop) :
    m.afterStart (pre ++ m.entry.start ++ rest) = rest := by
  unfold StartMatch.afterStart StartMatch.endMarker
  simp only [hdyn, Option.getD_none, hne, if_false, hpos]
  rw [List.append_assoc, List.drop_append]
  simp

/-- a non-nesting block comment with distinct markers stays open after its first line exactly
    when the end marker does not occur (outside strings) behind the opener -/
theorem enter_iff_no_end_after_start (m : StartMatch) (pre rest : List Char)
    (hpos : m.pos = pre.length) (hdyn : m.dynEnd = none) (hne : m.entry.start ≠ m.entry.stop)
    (hnest : m.entry.nesting = false) :
    enterFrom (pre ++ m.entry.start ++ rest) m .notIn =
      if containsEnd rest m.entry.stop then .notIn else .inComment 1 m.entry.start m.entry.stop false := by
  unfold enterFrom
  simp only [hnest, Bool.false_eq_true, if_false, afterStart_is_rest m pre rest hpos hdyn hne]
  simp only [StartMatch.endMarker, hdyn, Option.getD_none, MLState.enter]
  cases containsEnd rest m.entry.stop <;> simp

/-- `/*/ x` opens a comment (the `*/` that overlaps the opener is not an end), and the code after
    the real end is code again; Lua: a `]]` in the code before `--[[` does not close it -/
example : AgreesWithTruth cSyn "/*/ x
 y
 */
int z;".toList [.comment, .comment, .comment, .code] := by decide
example : AgreesWithTruth cSyn "/**/ int z;
int w;".toList [.comment, .code] := by decide

end SlocModel.Props.C02
