import SlocModel.ReportLemmas
/-!
  C20 — Reports are consistent, well-formed and deterministic.

  Statements about `SlocModel.Report`: the counting and row selection of the five `check` formats,
  the totals and breakdowns of `stats`, `html_escape`, and the registration of custom languages.
  Hash-map iteration order is a universally quantified parameter.
-/
namespace SlocModel.Props.C20
open SlocModel SlocModel.Report

/-! ### one results vector, the same counts in every format -/

theorem foldSummary_aux (rs : List Result) (p w f g : Nat) :
    rs.foldl countStep (p, w, f, g) =
    (p + (rs.filter (·.status = .passed)).length, w + (rs.filter (·.status = .warning)).length,
     f + (rs.filter (·.status = .failed)).length, g + (rs.filter (·.status = .grandfathered)).length) := by
  induction rs generalizing p w f g with
  | nil => simp
  | cons r rest ih =>
    simp only [List.foldl_cons, countStep]
    cases hs : r.status <;> simp only [hs] <;> rw [ih] <;> simp [List.filter_cons, hs] <;> omega

/-- the fold of the JSON / Markdown / HTML formatters and the partition of the text formatter
    count the same numbers -/
theorem summaries_agree (rs : List Result) : foldSummary rs = partitionSummary rs := by
  unfold foldSummary partitionSummary foldCounts
  rw [foldSummary_aux]
  simp

/-- the four status counts add up to the number of results -/
theorem summary_partitions (rs : List Result) :
    (partitionSummary rs).passed + (partitionSummary rs).warnings + (partitionSummary rs).failed +
      (partitionSummary rs).grandfathered = (partitionSummary rs).total := by
  unfold partitionSummary
  simp only
  induction rs with
  | nil => simp
  | cons r rest ih =>
    cases hs : r.status <;> simp [List.filter_cons, hs] <;> omega

/-- each count is the number of results with that status -/
theorem summary_counts (rs : List Result) :
    (foldSummary rs).failed = (rs.filter (·.status = .failed)).length ∧
    (foldSummary rs).warnings = (rs.filter (·.status = .warning)).length ∧
    (foldSummary rs).passed = (rs.filter (·.status = .passed)).length ∧
    (foldSummary rs).grandfathered = (rs.filter (·.status = .grandfathered)).length := by
  rw [summaries_agree]; simp [partitionSummary]

/-! ### every format lists results of the run, with the run's statuses -/

/-- no format invents a result or changes a status -/
theorem rows_sound (fmt : Format) (rs : List Result) (r : Result) (h : r ∈ rows fmt rs) : r ∈ rs := by
  cases fmt with
  | json => exact h
  | html => exact h
  | markdown => exact (List.mem_filter.1 h).1
  | sarif => exact (List.mem_filter.1 h).1
  | text v =>
    simp only [rows, List.mem_append, List.mem_filter] at h
    rcases h with (h | h) | h
    · exact h.1
    · exact h.1
    · cases v <;> simp [List.mem_append, List.mem_filter] at h
      rcases h with h | h <;> exact h.1

/-- every failed and every warning result is listed by every format -/
theorem rows_complete_issues (fmt : Format) (rs : List Result) (r : Result) (h : r ∈ rs)
    (hs : r.status = .failed ∨ r.status = .warning) : r ∈ rows fmt rs := by
  cases fmt with
  | json => exact h
  | html => exact h
  | markdown => exact List.mem_filter.2 ⟨h, by rcases hs with e | e <;> simp [e]⟩
  | sarif => exact List.mem_filter.2 ⟨h, by rcases hs with e | e <;> simp [e]⟩
  | text v =>
    simp only [rows, List.mem_append, List.mem_filter]
    rcases hs with e | e
    · exact Or.inl (Or.inl ⟨h, by simp [e]⟩)
    · exact Or.inl (Or.inr ⟨h, by simp [e]⟩)

/-- JSON and HTML list everything, in the order of the run -/
theorem rows_all (rs : List Result) : rows .json rs = rs ∧ rows .html rs = rs := ⟨rfl, rfl⟩

/-- Markdown and SARIF list exactly the results that are not `passed`, in the order of the run -/
theorem rows_non_passed (rs : List Result) :
    rows .markdown rs = rs.filter (·.status ≠ .passed) ∧ rows .sarif rs = rs.filter (·.status ≠ .passed) :=
  ⟨rfl, rfl⟩

theorem count_filter_status (a : Result) (st : Status) (rs : List Result) :
    (rs.filter (·.status = st)).count a = if a.status = st then rs.count a else 0 := by
  by_cases h : a.status = st
  · simp only [h, if_true]
    exact List.count_filter (by simp [h])
  · simp only [h, if_false]
    apply List.count_eq_zero.2
    intro hm
    have := (List.mem_filter.1 hm).2
    simp at this
    exact h this

/-- verbose text lists every result exactly once (grouped by status) -/
theorem rows_text_verbose_perm (rs : List Result) : (rows (.text true) rs).Perm rs := by
  simp only [rows, if_true]
  apply List.perm_iff_count.2
  intro a
  simp only [List.count_append, count_filter_status]
  cases hs : a.status <;> simp

/-- the SARIF level determines the status of a listed result -/
theorem sarifLevel_injective (a b : Status) (ha : a ≠ .passed) (h : sarifLevel a = sarifLevel b) : a = b := by
  cases a <;> cases b <;> simp_all [sarifLevel] <;> exact absurd h (by decide)

/-! ### project totals and breakdowns -/

/-- project totals are the sums of the per-file counts -/
theorem totals_are_sums (fs : List FileStat) :
    (totals fs).files = fs.length ∧ (totals fs).total = (fs.map (·.total)).sum ∧
    (totals fs).code = (fs.map (·.code)).sum ∧ (totals fs).comment = (fs.map (·.comment)).sum ∧
    (totals fs).blank = (fs.map (·.blank)).sum := by
  have h := foldl_addFile_fields fs emptyGroup
  unfold totals
  simp only [emptyGroup, Nat.zero_add] at h
  exact ⟨h.2.1, h.2.2.1, h.2.2.2.1, h.2.2.2.2.1, h.2.2.2.2.2⟩

theorem filter_key_length_sum : ∀ (order : List (List Char)) (fs : List FileStat),
    order.Nodup → (∀ f ∈ fs, f.key ∈ order) →
    (order.map (fun k => (fs.filter (·.key = k)).length)).sum = fs.length
  | order, [], _, _ => by
    induction order with
    | nil => rfl
    | cons k ks ih => simp_all
  | order, f :: rest, hn, hk => by
    have ih := filter_key_length_sum order rest hn (fun g hg => hk g (List.mem_cons_of_mem _ hg))
    have hf := hk f (List.mem_cons_self)
    -- exactly one key of `order` receives `f`
    have key : ∀ (ks : List (List Char)), ks.Nodup →
        (ks.map (fun k => ((f :: rest).filter (·.key = k)).length)).sum =
        (ks.map (fun k => (rest.filter (·.key = k)).length)).sum + (if f.key ∈ ks then 1 else 0) := by
      intro ks
      induction ks with
      | nil => simp
      | cons k ks ih2 =>
        intro hnd
        rw [List.nodup_cons] at hnd
        simp only [List.map_cons, List.sum_cons]
        rw [ih2 hnd.2]
        have hd : ((f :: rest).filter (·.key = k)).length =
            (rest.filter (·.key = k)).length + (if f.key = k then 1 else 0) := by
          simp only [List.filter_cons]
          split <;> simp_all
        rw [hd]
        by_cases e : f.key = k
        · subst e
          simp [hnd.1]; omega
        · simp [e]; omega
    rw [key order hn, ih]
    simp [hf]

/-- **every breakdown partitions the files**: when the hash map's keys are enumerated once each,
    the groups' file counts add up to the number of files -/
theorem breakdown_partitions (le : Group → Group → Bool) (order : List (List Char)) (fs : List FileStat)
    (hn : order.Nodup) (hk : ∀ f ∈ fs, f.key ∈ order) :
    ((breakdown le order fs).map (·.files)).sum = fs.length := by
  unfold breakdown
  rw [((sortBy_perm le _).map _).sum_nat]
  rw [List.map_map]
  have : ((fun g : Group => g.files) ∘ fun k => groupOf k fs) = fun k => (fs.filter (·.key = k)).length := by
    funext k
    simp only [Function.comp, groupOf]
    exact (totals_are_sums _).1
  rw [this]
  exact filter_key_length_sum order fs hn hk

/-- a group's numbers are the sums over the files with that key -/
theorem group_is_sum (k : List Char) (fs : List FileStat) :
    (groupOf k fs).key = k ∧ (groupOf k fs).files = (fs.filter (·.key = k)).length ∧
    (groupOf k fs).code = ((fs.filter (·.key = k)).map (·.code)).sum := by
  have h := totals_are_sums (fs.filter (·.key = k))
  exact ⟨rfl, h.1, h.2.2.1⟩

theorem groupLe_total (a b : Group) : groupLe a b = true ∨ groupLe b a = true := by
  unfold groupLe
  by_cases h1 : a.code > b.code
  · left; simp [h1]
  · by_cases h2 : b.code > a.code
    · right; simp [h2]
    · have e : a.code = b.code := by omega
      rcases strLt_total a.key b.key with h | h | h
      · left; simp [e, h]
      · left; simp [e, h]
      · right; simp [e, h]

theorem groupLe_trans (a b c : Group) (h1 : groupLe a b = true) (h2 : groupLe b c = true) :
    groupLe a c = true := by
  unfold groupLe at *
  simp only [Bool.or_eq_true, Bool.and_eq_true, decide_eq_true_eq] at *
  rcases h1 with h1 | ⟨e1, k1⟩
  · rcases h2 with h2 | ⟨e2, _⟩
    · left; omega
    · left; omega
  · rcases h2 with h2 | ⟨e2, k2⟩
    · left; omega
    · right
      refine ⟨by omega, ?_⟩
      rcases k1 with k1 | k1
      · rw [k1]; exact k2
      · rcases k2 with k2 | k2
        · rw [← k2]; exact Or.inr k1
        · exact Or.inr (strLt_trans _ _ _ k1 k2)

theorem groupLe_antisymm_key (a b : Group) (h1 : groupLe a b = true) (h2 : groupLe b a = true) :
    a.key = b.key := by
  unfold groupLe at *
  simp only [Bool.or_eq_true, Bool.and_eq_true, decide_eq_true_eq] at *
  rcases h1 with h1 | ⟨e1, k1⟩
  · rcases h2 with h2 | ⟨e2, _⟩ <;> omega
  · rcases h2 with h2 | ⟨_, k2⟩
    · omega
    · rcases k1 with k1 | k1
      · exact k1
      · rcases k2 with k2 | k2
        · exact k2.symm
        · have := strLt_asymm _ _ k1
          rw [this] at k2; cases k2

/-- **determinism of the breakdowns**: whatever order the hash map yields its keys in, and
    whatever order the files were collected in, the breakdown is the same list -/
theorem breakdown_deterministic (order₁ order₂ : List (List Char)) (fs₁ fs₂ : List FileStat)
    (ho : order₁.Perm order₂) (hf : fs₁.Perm fs₂) :
    breakdown groupLe order₁ fs₁ = breakdown groupLe order₂ fs₂ := by
  unfold breakdown
  have e : order₂.map (fun k => groupOf k fs₂) = order₂.map (fun k => groupOf k fs₁) := by
    apply List.map_congr_left
    intro k _
    exact (groupOf_perm k fs₁ fs₂ hf).symm
  rw [e]
  apply sortBy_perm_eq groupLe groupLe_total groupLe_trans _ _ (ho.map _)
  intro a b ha hb h1 h2
  obtain ⟨ka, _, rfl⟩ := List.mem_map.1 ha
  obtain ⟨kb, _, rfl⟩ := List.mem_map.1 hb
  have : ka = kb := groupLe_antisymm_key _ _ h1 h2
  rw [this]

/-- sorting by the count alone (the code before the repair) lets the hash order show through:
    two languages with the same code count come out in either order -/
theorem code_only_sort_is_order_dependent :
    ∃ (o₁ o₂ : List (List Char)) (fs : List FileStat), o₁.Perm o₂ ∧
      breakdown groupLeCodeOnly o₁ fs ≠ breakdown groupLeCodeOnly o₂ fs := by
  refine ⟨["Go".toList, "Rust".toList], ["Rust".toList, "Go".toList],
    [{ path := "a.go".toList, key := "Go".toList, total := 3, code := 2, comment := 1, blank := 0 },
     { path := "b.rs".toList, key := "Rust".toList, total := 2, code := 2, comment := 0, blank := 0 }],
    List.Perm.swap _ _ _, by decide⟩

/-- the output is sorted: code descending, ties by key ascending -/
theorem breakdown_sorted (order : List (List Char)) (fs : List FileStat) :
    (breakdown groupLe order fs).Pairwise (fun a b => groupLe a b = true) :=
  sortBy_pairwise groupLe groupLe_total groupLe_trans _

/-! ### `html_escape` -/

theorem replaceChar_flatMap (c : Char) (w : List Char) : ∀ s : List Char,
    replaceChar c w s = s.flatMap (fun x => if x = c then w else [x])
  | [] => rfl
  | x :: xs => by
    simp only [replaceChar, List.flatMap_cons, replaceChar_flatMap c w xs]
    split <;> simp

/-- the five sequential `replace` calls amount to a character-wise substitution -/
theorem htmlEscape_charwise (s : List Char) : htmlEscape s = s.flatMap escapeChar := by
  unfold htmlEscape
  simp only [replaceChar_flatMap, List.flatMap_assoc]
  congr 1
  funext c
  unfold escapeChar
  by_cases h1 : c = '&'
  · subst h1; decide
  · by_cases h2 : c = '<'
    · subst h2; decide
    · by_cases h3 : c = '>'
      · subst h3; decide
      · by_cases h4 : c = '"'
        · subst h4; decide
        · by_cases h5 : c = '\''
          · subst h5; decide
          · simp [h1, h2, h3, h4, h5]

/-- escaped text contains no markup character: it cannot open a tag or close an attribute -/
theorem htmlEscape_safe (s : List Char) (c : Char) (h : c ∈ htmlEscape s) :
    c ≠ '<' ∧ c ≠ '>' ∧ c ≠ '"' ∧ c ≠ '\'' := by
  rw [htmlEscape_charwise] at h
  obtain ⟨x, _, hx⟩ := List.mem_flatMap.1 h
  unfold escapeChar at hx
  split at hx
  · simp at hx; rcases hx with rfl | rfl | rfl | rfl | rfl <;> decide
  · split at hx
    · simp at hx; rcases hx with rfl | rfl | rfl | rfl <;> decide
    · split at hx
      · simp at hx; rcases hx with rfl | rfl | rfl | rfl <;> decide
      · split at hx
        · simp at hx; rcases hx with rfl | rfl | rfl | rfl | rfl | rfl <;> decide
        · split at hx
          · simp at hx; rcases hx with rfl | rfl | rfl | rfl | rfl <;> decide
          · simp at hx; subst hx
            rename_i h1 h2 h3 h4 h5
            exact ⟨h2, h3, h4, h5⟩

theorem escapeChar_ne_nil (c : Char) : escapeChar c ≠ [] := by
  unfold escapeChar
  repeat' split
  all_goals simp

/-- the substitution is a prefix code: the first escaped character determines the original one -/
theorem escapeChar_cancel (x y : Char) (A B : List Char) (h : escapeChar x ++ A = escapeChar y ++ B) :
    x = y ∧ A = B := by
  unfold escapeChar at h
  repeat' split at h
  all_goals (try simp_all)
  all_goals (obtain ⟨h1, _⟩ := h; exact absurd h1.symm (by assumption))

theorem flatMap_escape_injective : ∀ a b : List Char, a.flatMap escapeChar = b.flatMap escapeChar → a = b
  | [], [], _ => rfl
  | [], y :: ys, h => by
    simp only [List.flatMap_nil, List.flatMap_cons] at h
    have := (List.append_eq_nil_iff.1 h.symm).1
    exact absurd this (escapeChar_ne_nil y)
  | x :: xs, [], h => by
    simp only [List.flatMap_nil, List.flatMap_cons] at h
    have := (List.append_eq_nil_iff.1 h).1
    exact absurd this (escapeChar_ne_nil x)
  | x :: xs, y :: ys, h => by
    simp only [List.flatMap_cons] at h
    obtain ⟨e1, e2⟩ := escapeChar_cancel x y _ _ h
    rw [e1, flatMap_escape_injective xs ys e2]

/-- escaping loses nothing: different texts stay different -/
theorem htmlEscape_injective (a b : List Char) (h : htmlEscape a = htmlEscape b) : a = b := by
  rw [htmlEscape_charwise, htmlEscape_charwise] at h
  exact flatMap_escape_injective a b h

example : htmlEscape "<b>&\"x'".toList = "&lt;b&gt;&amp;&quot;x&#39;".toList := by decide

/-! ### custom languages -/

theorem nameLe_total (a b : Custom) : nameLe a b = true ∨ nameLe b a = true := by
  unfold nameLe
  rcases strLt_total a.name b.name with h | h | h
  · left; rw [h, strLt_irrefl]; rfl
  · left; rw [strLt_asymm _ _ h]; rfl
  · right; rw [strLt_asymm _ _ h]; rfl

theorem nameLe_trans (a b c : Custom) (h1 : nameLe a b = true) (h2 : nameLe b c = true) :
    nameLe a c = true := by
  unfold nameLe at *
  simp only [Bool.not_eq_true'] at *
  rcases strLt_total a.name b.name with e | h | h
  · rw [e]; exact h2
  · rcases strLt_total b.name c.name with e | h' | h'
    · rw [← e]; exact h1
    · exact strLt_asymm _ _ (strLt_trans _ _ _ h h')
    · rw [h'] at h2; cases h2
  · rw [h] at h1; cases h1

/-- distinct names: equal names mean the same entry -/
theorem nodup_name_eq : ∀ (l : List Custom), (l.map (·.name)).Nodup → ∀ a b, a ∈ l → b ∈ l →
    a.name = b.name → a = b
  | [], _, _, _, ha, _, _ => by cases ha
  | x :: xs, hd, a, b, ha, hb, hn => by
    rw [List.map_cons, List.nodup_cons] at hd
    rcases List.mem_cons.1 ha with rfl | ha' <;> rcases List.mem_cons.1 hb with rfl | hb'
    · rfl
    · exact absurd (List.mem_map.2 ⟨b, hb', hn.symm⟩) hd.1
    · exact absurd (List.mem_map.2 ⟨a, ha', hn⟩) hd.1
    · exact nodup_name_eq xs hd.2 a b ha' hb' hn

/-- **the owner of an extension does not depend on hash-map order**: two enumerations of the same
    custom languages (names are the map's keys, hence distinct) give the same owner -/
theorem owner_deterministic (builtin : Option (List Char)) (ext : List Char) (l₁ l₂ : List Custom)
    (hp : l₁.Perm l₂) (hd : (l₁.map (·.name)).Nodup) :
    owner builtin ext l₁ = owner builtin ext l₂ := by
  unfold owner sortByName
  rw [sortBy_perm_eq nameLe nameLe_total nameLe_trans l₁ l₂ hp]
  intro a b ha hb h1 h2
  unfold nameLe at h1 h2
  simp only [Bool.not_eq_true'] at h1 h2
  have hn : a.name = b.name := by
    rcases strLt_total a.name b.name with e | h | h
    · exact e
    · rw [h] at h2; cases h2
    · rw [h] at h1; cases h1
  exact nodup_name_eq l₁ hd a b ha hb hn

/-- without the sort the owner depends on the enumeration (the code before the repair) -/
theorem unordered_registration_is_order_dependent :
    ∃ (l₁ l₂ : List Custom), l₁.Perm l₂ ∧ ownerAfter none "aa".toList l₁ ≠ ownerAfter none "aa".toList l₂ := by
  refine ⟨[⟨"abc".toList, ["aa".toList]⟩, ⟨"zed".toList, ["aa".toList]⟩],
    [⟨"zed".toList, ["aa".toList]⟩, ⟨"abc".toList, ["aa".toList]⟩], List.Perm.swap _ _ _, by decide⟩

/-- with the repair the alphabetically last claimant owns the extension -/
example : owner (some "Rust".toList) "rs".toList
    [⟨"zed".toList, ["rs".toList]⟩, ⟨"abc".toList, ["rs".toList, "x".toList]⟩] = some "zed".toList := by decide

end SlocModel.Props.C20
