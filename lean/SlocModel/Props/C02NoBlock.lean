import SlocModel.Props.C02
/-!
  C02 — languages without block comments (Shell in the built-in table; any user-defined language
  with line comments only): the class of every line depends on that line alone, for **every**
  text — whatever it contains, quote characters and comment markers inside strings included.
-/
namespace SlocModel.Props.C02
open SlocModel SlocModel.Counter

/-- the lexical class of a line in a language without block comments -/
def simpleClass (syn : Syntax) (line : List Char) : LineClass :=
  if (trim line).isEmpty then .blank
  else if isSingleLineComment syn (trim line) then .comment else .code

theorem noBlock_start (syn : Syntax) (h : syn.multi = []) (line : List Char) :
    findMultiLineStart syn line = none := by
  unfold findMultiLineStart; rw [h]; rfl

/-- one line: its class is `simpleClass`, the state is untouched -/
theorem noBlock_processLine (syn : Syntax) (h : syn.multi = []) (line : List Char)
    (hnd : NoDirective syn line) :
    processLine syn line {} = (simpleClass syn line, {}) := by
  rw [processLine_noDirective syn line {} hnd]
  unfold ladder simpleClass
  simp only [noBlock_start syn h line]
  by_cases hb : (trim line).isEmpty = true
  · simp [hb, MLState.isIn]
  · simp only [Bool.not_eq_true] at hb
    cases isSingleLineComment syn (trim line) <;> simp [hb, MLState.isIn]

/-- **every text**: in a language without block comments each physical line is blank, comment
    or code by itself — nothing on one line (a quote, a marker in a string, anything) changes the
    class of another line -/
theorem noBlock_classify (syn : Syntax) (h : syn.multi = []) (ls : List (List Char))
    (hnd : ∀ l ∈ ls, NoDirective syn l ∧ hasIgnoreFile syn l = false) (seen : Nat) :
    classifyLines syn ls seen {} = some (ls.map (simpleClass syn)) := by
  induction ls generalizing seen with
  | nil => simp [classifyLines]
  | cons l r ih =>
    obtain ⟨h1, h2⟩ := hnd l (by simp)
    unfold classifyLines
    simp only [h2, Bool.and_false, Bool.false_eq_true, if_false, noBlock_processLine syn h l h1]
    rw [ih (fun x hx => hnd x (by simp [hx]))]
    simp

/-- code followed by a line comment is code; a marker inside a string does not make the line a
    comment: only the first non-blank characters decide -/
theorem noBlock_code (syn : Syntax) (line : List Char) (hne : (trim line).isEmpty = false)
    (hs : isSingleLineComment syn (trim line) = false) : simpleClass syn line = .code := by
  simp [simpleClass, hne, hs]

/-- the built-in languages without block comments (regenerated table) -/
theorem noBlock_builtins :
    (Generated.builtins.filter (fun l => l.syn.multi.isEmpty)).map (·.name) = ["Shell".toList] := by
  decide

def shSyn : Syntax := { single := [['#']], multi := [] }

example : classifyLines shSyn
    ["echo \"# not a comment\" # trailing".toList, "  # it's a comment \"".toList, " ".toList,
     "x='/* */ ''' \"\"\"'".toList, "y=2".toList] 0 {} =
    some [.code, .comment, .blank, .code, .code] := by decide

end SlocModel.Props.C02
