import SlocModel.Counter.Count
/-!
  C03 — Line accounting is total: every physical line lands in exactly one class.
  Statements are about `SlocModel.Counter` (model of src/counter/{sloc,comment}.rs), for every
  comment syntax value and every text.
-/
namespace SlocModel.Props.C03
open SlocModel SlocModel.Counter

/-! ### total = number of physical lines = code + comment + blank + ignored -/

theorem bump_total (s : LineStats) (c : LineClass) : (s.bump c).total = s.total + 1 := by
  cases c <;> rfl

theorem bump_sum (s : LineStats) (c : LineClass)
    (h : s.total = s.code + s.comment + s.blank + s.ignored) :
    (s.bump c).total = (s.bump c).code + (s.bump c).comment + (s.bump c).blank + (s.bump c).ignored := by
  cases c <;> simp [LineStats.bump] <;> omega

theorem foldl_bump (cs : List LineClass) (s : LineStats)
    (h : s.total = s.code + s.comment + s.blank + s.ignored) :
    (cs.foldl LineStats.bump s).total = s.total + cs.length ∧
    (cs.foldl LineStats.bump s).total =
      (cs.foldl LineStats.bump s).code + (cs.foldl LineStats.bump s).comment +
      (cs.foldl LineStats.bump s).blank + (cs.foldl LineStats.bump s).ignored := by
  induction cs generalizing s with
  | nil => simp [h]
  | cons c cs ih =>
    simp only [List.foldl_cons, List.length_cons]
    have := ih (s.bump c) (bump_sum s c h)
    rw [bump_total] at this
    constructor
    · omega
    · exact this.2

theorem classifyLines_length (syn : Syntax) (ls : List (List Char)) (seen : Nat) (st : St)
    (cs : List LineClass) (h : classifyLines syn ls seen st = some cs) : cs.length = ls.length := by
  induction ls generalizing seen st cs with
  | nil => simp [classifyLines] at h; subst h; rfl
  | cons l ls ih =>
    simp only [classifyLines] at h
    split at h
    · cases h
    · split at h
      · rename_i cs' hcs
        injection h with h; subst h
        simp [ih _ _ _ hcs]
      · cases h

/-- every physical line is counted exactly once, in exactly one class -/
theorem count_total (syn : Syntax) (src : List Char) (s : LineStats)
    (h : count syn src = .stats s) :
    s.total = (splitLines src).length ∧ s.total = s.code + s.comment + s.blank + s.ignored := by
  unfold count at h
  split at h
  · rename_i cs hcs
    injection h with h; subst h
    have hl := classifyLines_length syn _ _ _ _ hcs
    have := foldl_bump cs {} rfl
    unfold tally
    constructor
    · rw [this.1, hl]; simp
    · exact this.2
  · cases h

/-- the result is either statistics or "ignored file" — there is no third outcome
    (the model is total: no panic value exists; the index lemmas below justify that) -/
theorem count_cases (syn : Syntax) (src : List Char) :
    (∃ s, count syn src = .stats s) ∨ count syn src = .ignoredFile := by
  unfold count; split
  · exact Or.inl ⟨_, rfl⟩
  · exact Or.inr rfl

/-! ### the loops advance and stay inside the line
  Each Rust loop does `i += k`.  `1 ≤ k` is termination; `k ≤ len - i` means that no later
  `chars[i]` or `chars[i..]` is out of range. -/

theorem tripleHit_some (st : SkState) (c : Char) (rest : List Char) (r : SkState × Nat)
    (h : tripleHit st c rest = some r) : r.2 = 3 ∧ 2 ≤ rest.length := by
  unfold tripleHit at h
  split at h
  · split at h
    · split at h
      · split at h
        · split at h
          · injection h with h; subst h; simp
          · split at h
            · injection h with h; subst h; simp
            · cases h
        · cases h
      · cases h
    · cases h
  · cases h

theorem skStep_consumed (st : SkState) (c : Char) (rest : List Char) (track : Bool) :
    1 ≤ (skStep st c rest track).2 ∧ (skStep st c rest track).2 ≤ 1 + rest.length := by
  unfold skStep
  split
  · rename_i h
    simp only [Bool.and_eq_true, Bool.not_eq_true', decide_eq_true_eq] at h
    have : rest ≠ [] := by intro h0; simp [h0] at h
    have : 0 < rest.length := List.length_pos_iff.mpr this
    simp; omega
  · split
    · rename_i r hr
      have := tripleHit_some st c rest r hr
      omega
    · simp

theorem rawScan_bounds (endM : List Char) (cs : List Char) (off : Nat) :
    off ≤ rawScan endM cs off ∧ rawScan endM cs off ≤ off + cs.length := by
  induction cs generalizing off with
  | nil => simp [rawScan]
  | cons c cs ih =>
    simp only [rawScan]
    split
    · rename_i h
      have := List.IsPrefix.length_le (List.isPrefixOf_iff_prefix.mp h)
      simp at this ⊢; omega
    · have := ih (off + 1); simp; omega

theorem countLeading_le (x : Char) (cs : List Char) : countLeading x cs ≤ cs.length := by
  induction cs with
  | nil => simp [countLeading]
  | cons c cs ih => simp only [countLeading]; split <;> simp <;> omega

theorem matchRustRawString_some (cs : List Char) (startLen level : Nat)
    (h : matchRustRawString cs = some (startLen, level)) :
    2 ≤ startLen ∧ startLen ≤ cs.length := by
  unfold matchRustRawString at h
  split at h
  · rename_i r
    simp only at h
    split at h
    · rename_i tl hd
      injection h with h; injection h with h1 h2; subst h1
      have hlen : (List.drop (countLeading '#' r) r).length = r.length - countLeading '#' r := by simp
      rw [hd] at hlen; simp at hlen
      simp only [List.length_cons]
      omega
    · cases h
  · cases h

/-- a raw-string skip consumes at least `r"` and never more than what is left of the line -/
theorem trySkipRaw_bounds (cs : List Char) (k : Nat) (h : trySkipRaw cs = some k) :
    2 ≤ k ∧ k ≤ cs.length := by
  unfold trySkipRaw at h
  split at h
  · rename_i startLen level hm
    injection h with h; subst h
    have hs := matchRustRawString_some cs startLen level hm
    have hb := rawScan_bounds (rawEnd level) (List.drop startLen cs) startLen
    simp only [List.length_drop] at hb
    omega
  · cases h

/-- marker skips in `count_markers_outside_string` are non-empty (the guard rejects empty
    markers) and a matched marker fits in the rest of the line -/
theorem marker_skip_bounds (m c : List Char) (hne : m.isEmpty = false)
    (h : m.isPrefixOf c = true) : 1 ≤ m.length ∧ m.length ≤ c.length := by
  have := List.IsPrefix.length_le (List.isPrefixOf_iff_prefix.mp h)
  have : m ≠ [] := by intro h0; simp [h0] at hne
  have := List.length_pos_iff.mpr this
  omega

/-! ### entry points -/

/-- `count_from_bytes` = `count` after lossy decoding (`decode` is std's `from_utf8_lossy`,
    a parameter), so on valid UTF-8 — where decoding inverts encoding — they agree. -/
def countFromBytes {β : Type} (decode : β → List Char) (syn : Syntax) (bytes : β) : CountResult :=
  count syn (decode bytes)

theorem entry_points_agree {β : Type} (decode : β → List Char) (encode : List Char → β)
    (hvalid : ∀ s, decode (encode s) = s) (syn : Syntax) (s : List Char) :
    countFromBytes decode syn (encode s) = count syn s := by
  simp [countFromBytes, hvalid]

/-- counting is a function: equal content and syntax give equal results -/
theorem count_deterministic (syn : Syntax) (a b : List Char) (h : a = b) :
    count syn a = count syn b := by rw [h]

/-! ### appending lines is monotone -/

theorem classifyLines_append (syn : Syntax) (ls : List (List Char)) (l : List Char)
    (seen : Nat) (st : St) (cs' : List LineClass)
    (h : classifyLines syn (ls ++ [l]) seen st = some cs') :
    ∃ cs c, classifyLines syn ls seen st = some cs ∧ cs' = cs ++ [c] := by
  induction ls generalizing seen st cs' with
  | nil =>
    simp only [List.nil_append, classifyLines] at h
    split at h
    · cases h
    · simp only [classifyLines] at h ⊢
      injection h with h
      exact ⟨[], _, rfl, by simpa using h.symm⟩
  | cons x xs ih =>
    simp only [List.cons_append, classifyLines] at h ⊢
    split at h
    · cases h
    · rename_i hx
      simp only [hx]
      split at h
      · rename_i tl htl
        injection h with h; subst h
        obtain ⟨cs, c, h1, h2⟩ := ih _ _ _ htl
        simp only [Bool.false_eq_true, if_false, h1]
        exact ⟨_, c, rfl, by simp [h2]⟩
      · cases h

def LineStats.le (a b : LineStats) : Prop :=
  a.total ≤ b.total ∧ a.code ≤ b.code ∧ a.comment ≤ b.comment ∧ a.blank ≤ b.blank ∧
  a.ignored ≤ b.ignored

theorem bump_le (s : LineStats) (c : LineClass) : LineStats.le s (s.bump c) := by
  cases c <;> simp [LineStats.le, LineStats.bump]

/-- appending a line never decreases any counter -/
theorem append_mono (syn : Syntax) (ls : List (List Char)) (l : List Char)
    (cs' : List LineClass) (h : classifyLines syn (ls ++ [l]) 0 {} = some cs') :
    ∃ cs, classifyLines syn ls 0 {} = some cs ∧ LineStats.le (tally cs) (tally cs') := by
  obtain ⟨cs, c, h1, h2⟩ := classifyLines_append syn ls l 0 {} cs' h
  refine ⟨cs, h1, ?_⟩
  subst h2
  simp only [tally, List.foldl_append, List.foldl_cons, List.foldl_nil]
  exact bump_le _ _

theorem classifyLines_none_append (syn : Syntax) (ls : List (List Char)) (l : List Char)
    (seen : Nat) (st : St) (h : classifyLines syn (ls ++ [l]) seen st = none) :
    classifyLines syn ls seen st = none ∨
      (seen + ls.length < Generated.directiveScanLines ∧ hasIgnoreFile syn l = true) := by
  induction ls generalizing seen st with
  | nil =>
    simp only [List.nil_append, classifyLines] at h
    split at h
    · rename_i hc; right; simpa using hc
    · simp [classifyLines] at h
  | cons x xs ih =>
    simp only [List.cons_append, classifyLines] at h ⊢
    split
    · left; rfl
    · rename_i hx
      simp only [hx, Bool.false_eq_true, if_false] at h
      split at h
      · cases h
      · rename_i htl
        rcases ih _ _ htl with h1 | ⟨h1, h2⟩
        · left; simp [h1]
        · right; exact ⟨by simp only [List.length_cons]; omega, h2⟩

/-- … unless the appended line is an ignore-file directive inside the scan window -/
theorem append_ignored_file_only_by_directive (syn : Syntax) (ls : List (List Char))
    (l : List Char) (h : classifyLines syn (ls ++ [l]) 0 {} = none) :
    classifyLines syn ls 0 {} = none ∨
      (ls.length < Generated.directiveScanLines ∧ hasIgnoreFile syn l = true) := by
  simpa using classifyLines_none_append syn ls l 0 {} h

/-! ### non-vacuity -/

def cSyn : Syntax :=
  { single := [['/', '/']], multi := [MultiLine.plain ['/', '*'] ['*', '/']] }

example : count cSyn "int a;\n// c\n\n/* x\ny */\nint b;".toList
    = .stats { total := 6, code := 2, comment := 3, blank := 1, ignored := 0 } := by decide

end SlocModel.Props.C03
