import SlocModel.Structure
import SlocModel.Basic.F64Lemmas
/-!
  C06 — Directory counts are exact; structure limits come from the last matching rule.
-/
namespace SlocModel.Props.C06
open SlocModel SlocModel.Structure

/-! ### verdicts of one count metric -/

/-- a directory fails iff the figure exceeds the limit; −1 disables the limit -/
theorem count_failed_iff (m : Metric) (a : Nat) (l : Int) (abs : Option Int) (p g : Option Nat)
    (hl : l ≠ Generated.unlimited) :
    (∃ f, checkCount m a (some l) abs p g = some f ∧ f.severity = .failed) ↔ a > asUsize l := by
  unfold checkCount
  simp only [hl, if_false]
  constructor
  · intro ⟨f, hf, hs⟩
    split at hf
    · assumption
    · split at hf
      · injection hf with hf; subst hf; cases hs
      · cases hf
  · intro h; refine ⟨⟨m, .failed, a, asUsize l⟩, ?_, rfl⟩; simp [h]

/-- warned iff within the limit and at or above the warn point: an absolute warn count is
    inclusive, a percentage warns above the rounded-up share of the limit -/
theorem count_warning_iff (m : Metric) (a : Nat) (l : Int) (abs : Option Int) (p g : Option Nat)
    (hl : l ≠ Generated.unlimited) :
    (∃ f, checkCount m a (some l) abs p g = some f ∧ f.severity = .warning) ↔
      a ≤ asUsize l ∧ a ≥ warnFrom l abs p g := by
  unfold checkCount
  simp only [hl, if_false]
  constructor
  · intro ⟨f, hf, hs⟩
    split at hf
    · injection hf with hf; subst hf; cases hs
    · split at hf
      · rename_i h1 h2; exact ⟨by omega, h2⟩
      · cases hf
  · intro ⟨h1, h2⟩
    have : ¬ a > asUsize l := by omega
    refine ⟨⟨m, .warning, a, asUsize l⟩, ?_, rfl⟩; simp [this, h2]

theorem warnFrom_absolute (l a : Int) (p g : Option Nat) : warnFrom l (some a) p g = asUsize a := rfl

theorem warnFrom_percentage (l : Int) (p g : Option Nat) :
    warnFrom l none p g = warnLimit l none p g + 1 := rfl

/-- precedence of the warn settings: per-metric percentage, then rule/global percentage,
    then the default 0.8 from the source -/
theorem warnLimit_precedence (l : Int) (p t : Nat) :
    warnLimit l none (some p) (some t) = pctOf l p ∧
    warnLimit l none none (some t) = pctOf l t ∧
    warnLimit l none none none = pctOf l Generated.defaultStructWarnBits := by
  simp [warnLimit]

/-- −1 disables a limit; an unset limit checks nothing -/
theorem unlimited_checks_nothing (m : Metric) (a : Nat) (abs : Option Int) (p g : Option Nat) :
    checkCount m a (some Generated.unlimited) abs p g = none ∧ checkCount m a none abs p g = none := by
  simp [checkCount]

/-- 0 forbids any entry -/
theorem zero_forbids_any (m : Metric) (a : Nat) (abs : Option Int) (p g : Option Nat) (h : 0 < a) :
    checkCount m a (some 0) abs p g = some ⟨m, .failed, a, 0⟩ := by
  have : (0 : Int) ≠ Generated.unlimited := by decide
  simp [checkCount, this, asUsize, h]

/-! ### limits come from the last declared matching rule, unset fields inherit -/

theorem lastMatching_spec (rules : List (Rule × Bool)) (k : Nat) (acc : Option (Nat × Rule)) :
    lastMatching rules k acc =
      match lastMatching rules 0 none with
      | some (i, r) => some (k + i, r)
      | none => acc := by
  induction rules generalizing k acc with
  | nil => simp [lastMatching]
  | cons x xs ih =>
    obtain ⟨r, m⟩ := x
    simp only [lastMatching]
    rw [ih (k + 1), ih (0 + 1)]
    cases h : lastMatching xs 0 none with
    | some p => obtain ⟨i, r'⟩ := p; simp; omega
    | none => cases m <;> simp

theorem lastMatching_cons (r : Rule) (m : Bool) (rest : List (Rule × Bool)) :
    lastMatching ((r, m) :: rest) 0 none =
      match lastMatching rest 0 none with
      | some (i, r') => some (i + 1, r')
      | none => if m then some (0, r) else none := by
  simp only [lastMatching]
  rw [lastMatching_spec]
  cases lastMatching rest 0 none with
  | some p => obtain ⟨i, r'⟩ := p; simp; omega
  | none => simp

theorem lastMatching_none_iff (rules : List (Rule × Bool)) :
    lastMatching rules 0 none = none ↔ ∀ x ∈ rules, x.2 = false := by
  induction rules with
  | nil => simp [lastMatching]
  | cons x xs ih =>
    obtain ⟨r, m⟩ := x
    rw [lastMatching_cons]
    cases h : lastMatching xs 0 none with
    | some p =>
      obtain ⟨i, r'⟩ := p
      simp only [reduceCtorEq, false_iff]
      intro hall
      have : ∀ x ∈ xs, x.2 = false := fun x hx => hall x (List.mem_cons_of_mem _ hx)
      rw [ih.mpr this] at h; cases h
    | none =>
      have := ih.mp h
      cases m with
      | true => simp
      | false =>
        simp only [Bool.false_eq_true, if_false, true_iff]
        intro x hx
        rcases List.mem_cons.mp hx with hx | hx
        · rw [hx]
        · exact this x hx

/-- the rule consulted is the last declared one whose scope matches the directory -/
theorem last_rule_wins (rules : List (Rule × Bool)) (i : Nat) (r : Rule) :
    lastMatching rules 0 none = some (i, r) ↔
      rules[i]? = some (r, true) ∧ ∀ j, i < j → ∀ x, rules[j]? = some x → x.2 = false := by
  induction rules generalizing i r with
  | nil => simp [lastMatching]
  | cons x xs ih =>
    obtain ⟨r0, m⟩ := x
    rw [lastMatching_cons]
    cases h : lastMatching xs 0 none with
    | some p =>
      obtain ⟨k, rk⟩ := p
      have hk := (ih k rk).mp h
      simp only [Option.some.injEq, Prod.mk.injEq]
      constructor
      · intro ⟨hi, hr⟩; subst hi; subst hr
        refine ⟨by simpa using hk.1, ?_⟩
        intro j hj x hx
        cases j with
        | zero => omega
        | succ j => exact hk.2 j (by omega) x (by simpa using hx)
      · intro ⟨h1, h2⟩
        cases i with
        | zero =>
          have := h2 (k + 1) (by omega) (rk, true) (by simpa using hk.1)
          cases this
        | succ i =>
          have hi : lastMatching xs 0 none = some (i, r) := (ih i r).mpr ⟨by simpa using h1, by
            intro j hj x hx; exact h2 (j + 1) (by omega) x (by simpa using hx)⟩
          rw [h] at hi; injection hi with hi; injection hi with h3 h4
          exact ⟨by omega, h4⟩
    | none =>
      have hnone := (lastMatching_none_iff xs).mp h
      cases m with
      | true =>
        simp only [if_true, Option.some.injEq, Prod.mk.injEq]
        constructor
        · intro ⟨hi, hr⟩; subst hi; subst hr
          refine ⟨by simp, ?_⟩
          intro j hj x hx
          cases j with
          | zero => omega
          | succ j => exact hnone x (List.mem_of_getElem? (by simpa using hx))
        · intro ⟨h1, _⟩
          cases i with
          | zero => simp at h1; exact ⟨rfl, h1⟩
          | succ i =>
            have := hnone (r, true) (List.mem_of_getElem? (by simpa using h1))
            cases this
      | false =>
        simp only [Bool.false_eq_true, if_false, reduceCtorEq, false_iff]
        intro ⟨h1, _⟩
        cases i with
        | zero => simp at h1
        | succ i =>
          have := hnone (r, true) (List.mem_of_getElem? (by simpa using h1))
          cases this

/-- unset fields of the winning rule inherit the global values, field by field -/
theorem field_inheritance (g : Fields) (rules : List (Rule × Bool)) (i : Nat) (r : Rule)
    (h : lastMatching rules 0 none = some (i, r)) :
    (resolveLimits g rules).fields = inherit r.fields g ∧
    (resolveLimits g rules).rule = some i ∧
    (resolveLimits g rules).relativeDepth = r.relativeDepth ∧
    (resolveLimits g rules).baseDepth = r.baseDepth := by
  simp [resolveLimits, h]

theorem no_rule_uses_globals (g : Fields) (rules : List (Rule × Bool))
    (h : lastMatching rules 0 none = none) :
    (resolveLimits g rules).fields = g ∧ (resolveLimits g rules).rule = none ∧
    (resolveLimits g rules).relativeDepth = false := by
  simp [resolveLimits, h]

theorem inherit_field (r g : Fields) :
    (inherit r g).maxFiles = (match r.maxFiles with | some x => some x | none => g.maxFiles) ∧
    (inherit r g).maxDirs = (match r.maxDirs with | some x => some x | none => g.maxDirs) ∧
    (inherit r g).maxDepth = (match r.maxDepth with | some x => some x | none => g.maxDepth) := by
  refine ⟨?_, ?_, ?_⟩
  · cases h : r.maxFiles <;> simp [inherit, orElse, h]
  · cases h : r.maxDirs <;> simp [inherit, orElse, h]
  · cases h : r.maxDepth <;> simp [inherit, orElse, h]

/-- relative depth is measured from the scope's fixed prefix -/
theorem relative_depth_def (l : Limits) (d : Nat) :
    effectiveDepth l d = if l.relativeDepth then d - l.baseDepth else d := rfl

/-- the fixed prefix = the path components before the first one holding `* ? [ {` -/
theorem base_depth_examples :
    calculateBaseDepth "src/features/**".toList = 2 ∧ calculateBaseDepth "src/*/deep".toList = 1 ∧
    calculateBaseDepth "**".toList = 0 ∧ calculateBaseDepth "a/b/c".toList = 3 ∧
    calculateBaseDepth "/a//b/{x,y}/z".toList = 2 ∧ calculateBaseDepth "a\\b?\\c".toList = 1 := by
  decide

theorem baseDepth_plain_components (cs : List (List Char))
    (h : ∀ c ∈ cs, c.isEmpty = false ∧ c.any isGlobMeta = false) : baseDepthOf cs = cs.length := by
  induction cs with
  | nil => rfl
  | cons c rest ih =>
    have hc := h c List.mem_cons_self
    simp [baseDepthOf, hc.1, hc.2, ih (fun x hx => h x (List.mem_cons_of_mem _ hx))]

/-- `explain` reports the limits and the rule `check` applies -/
theorem explain_coherent_dir (g : Fields) (rules : List (Rule × Bool)) :
    (explain g rules).rule = (resolveLimits g rules).rule ∧
    (explain g rules).maxFiles = (resolveLimits g rules).fields.maxFiles ∧
    (explain g rules).maxDirs = (resolveLimits g rules).fields.maxDirs ∧
    (explain g rules).maxDepth = (resolveLimits g rules).fields.maxDepth := by
  simp [explain]

/-! ### the scanner's counts are the true counts -/

/-- is the entry yielded by the walker, given the directories pruned so far? -/
def yielded (pruned : List Nat) (e : Entry) : Bool :=
  !(e.ignored || (match e.parent with
    | some p => pruned.contains p
    | none => false))

/-- pruned set after one more entry -/
def prunedAfter (pruned : List Nat) (e : Entry) : List Nat :=
  if e.kind = .dir && (!yielded pruned e || e.scannerExcluded) then e.id :: pruned else pruned

/-- an immediate regular file of `d` that counts -/
def countsAsFile (pruned : List Nat) (d : Nat) (e : Entry) : Bool :=
  yielded pruned e && e.kind = .file && !e.scannerExcluded && !e.countExcluded && e.parent = some d

/-- an immediate sub-directory of `d` that counts -/
def countsAsDir (pruned : List Nat) (d : Nat) (e : Entry) : Bool :=
  yielded pruned e && e.kind = .dir && !e.scannerExcluded && !e.countExcluded && decide (e.depth > 0) &&
    e.parent = some d

/-- declarative count along the walk -/
def countWith (pred : List Nat → Nat → Entry → Bool) (d : Nat) : List Nat → List Entry → Nat
  | _, [] => 0
  | pr, e :: es => (if pred pr d e then 1 else 0) + countWith pred d (prunedAfter pr e) es

theorem step_pruned (s : ScanState) (e : Entry) : (step s e).pruned = prunedAfter s.pruned e := by
  unfold step prunedAfter yielded
  cases hk : e.kind <;> cases hi : e.ignored <;> cases hs : e.scannerExcluded <;> cases hc : e.countExcluded <;>
    cases hp : e.parent <;> simp [hk, hi, hs, hc, hp] <;> (try split) <;> simp_all

def filesOf (st : List (Nat × DirStats)) (d : Nat) : Nat := ((getStats st d).map (·.files)).getD 0
def dirsOf (st : List (Nat × DirStats)) (d : Nat) : Nat := ((getStats st d).map (·.dirs)).getD 0

theorem getStats_setStats (st : List (Nat × DirStats)) (d d' : Nat) (v : DirStats) :
    getStats (setStats st d v) d' = if d' = d then some v else getStats st d' := by
  induction st with
  | nil => simp [setStats, getStats]; split <;> simp_all [eq_comm]
  | cons x xs ih =>
    obtain ⟨k, w⟩ := x
    simp only [setStats]
    by_cases hk : k = d
    · subst hk
      simp only [if_true, getStats]
      by_cases h2 : k = d'
      · simp [h2]
      · have : ¬ d' = k := fun h => h2 h.symm
        simp [h2, this]
    · simp only [hk, if_false, getStats]
      by_cases h2 : k = d'
      · subst h2; simp [hk]
      · simp [h2, ih]

theorem filesOf_bump (st : List (Nat × DirStats)) (p cd d : Nat) (isFile : Bool) :
    filesOf (bump st p cd isFile) d = filesOf st d + (if d = p ∧ isFile = true then 1 else 0) := by
  unfold filesOf bump
  rw [getStats_setStats]
  by_cases hd : d = p
  · subst hd
    cases hg : getStats st d <;> cases isFile <;> simp [hg]
  · simp [hd]

theorem dirsOf_bump (st : List (Nat × DirStats)) (p cd d : Nat) (isFile : Bool) :
    dirsOf (bump st p cd isFile) d = dirsOf st d + (if d = p ∧ isFile = false then 1 else 0) := by
  unfold dirsOf bump
  rw [getStats_setStats]
  by_cases hd : d = p
  · subst hd
    cases hg : getStats st d <;> cases isFile <;> simp [hg]
  · simp [hd]

theorem filesOf_init (st : List (Nat × DirStats)) (i d : Nat) (v : DirStats) (hv : v.files = 0)
    (hnone : getStats st i = none) : filesOf (setStats st i v) d = filesOf st d := by
  unfold filesOf
  rw [getStats_setStats]
  by_cases hd : d = i
  · subst hd; simp [hnone, hv]
  · simp [hd]

theorem dirsOf_init (st : List (Nat × DirStats)) (i d : Nat) (v : DirStats) (hv : v.dirs = 0)
    (hnone : getStats st i = none) : dirsOf (setStats st i v) d = dirsOf st d := by
  unfold dirsOf
  rw [getStats_setStats]
  by_cases hd : d = i
  · subst hd; simp [hnone, hv]
  · simp [hd]

theorem filesOf_ensure (st : List (Nat × DirStats)) (i depth d : Nat) :
    filesOf (ensureDir st i depth) d = filesOf st d := by
  unfold ensureDir
  cases hg : getStats st i with
  | some _ => rfl
  | none => exact filesOf_init _ _ _ _ rfl hg

theorem dirsOf_ensure (st : List (Nat × DirStats)) (i depth d : Nat) :
    dirsOf (ensureDir st i depth) d = dirsOf st d := by
  unfold ensureDir
  cases hg : getStats st i with
  | some _ => rfl
  | none => exact dirsOf_init _ _ _ _ rfl hg

/-- one step adds exactly the entry's contribution to its parent's file count -/
theorem step_files (s : ScanState) (e : Entry) (d : Nat) :
    filesOf (step s e).stats d = filesOf s.stats d + (if countsAsFile s.pruned d e then 1 else 0) := by
  unfold step countsAsFile yielded
  cases hi : e.ignored
  · cases hp : e.parent with
    | none =>
      cases hk : e.kind
      · simp [hk, hp]
      · simp only [hk, hp]
        cases hs : e.scannerExcluded
        · simp only [Bool.false_eq_true, if_false]
          split <;> simp [filesOf_ensure]
        · simp
      · simp [hk, hp]
    | some p =>
      by_cases hpr : p ∈ s.pruned
      · cases hk : e.kind <;> simp [hk, hp, hpr]
      · have hpr' : s.pruned.contains p = false := by simpa using hpr
        cases hk : e.kind
        · -- file
          simp only [hk, hp, hpr', Bool.or_false, Bool.false_eq_true, if_false]
          cases hs : e.scannerExcluded <;> cases hc : e.countExcluded <;> simp [hs, hc, filesOf_bump] <;>
            (by_cases hd : d = p <;> simp [hd, eq_comm])
        · -- dir
          simp only [hk, hp, hpr', Bool.or_false, Bool.false_eq_true, if_false]
          cases hs : e.scannerExcluded
          · simp only [Bool.false_eq_true, if_false]
            split
            · simp [filesOf_bump, filesOf_ensure]
            · simp [filesOf_ensure]
          · simp
        · simp [hk, hp, hpr']
  · cases hk : e.kind <;> simp [hk]

/-- … and to its parent's sub-directory count -/
theorem step_dirs (s : ScanState) (e : Entry) (d : Nat) :
    dirsOf (step s e).stats d = dirsOf s.stats d + (if countsAsDir s.pruned d e then 1 else 0) := by
  unfold step countsAsDir yielded
  cases hi : e.ignored
  · cases hp : e.parent with
    | none =>
      cases hk : e.kind
      · simp [hk, hp]
      · simp only [hk, hp]
        cases hs : e.scannerExcluded
        · simp only [Bool.false_eq_true, if_false]
          split <;> simp [dirsOf_ensure]
        · simp
      · simp [hk, hp]
    | some p =>
      by_cases hpr : p ∈ s.pruned
      · cases hk : e.kind <;> simp [hk, hp, hpr]
      · have hpr' : s.pruned.contains p = false := by simpa using hpr
        cases hk : e.kind
        · -- file
          simp only [hk, hp, hpr', Bool.or_false, Bool.false_eq_true, if_false]
          cases hs : e.scannerExcluded <;> cases hc : e.countExcluded <;> simp [hs, hc, dirsOf_bump]
        · -- dir
          simp only [hk, hp, hpr', Bool.or_false, Bool.false_eq_true, if_false]
          cases hs : e.scannerExcluded
          · simp only [Bool.false_eq_true, if_false]
            cases hc : e.countExcluded
            · by_cases hdep : e.depth > 0
              · simp [hdep, dirsOf_bump, dirsOf_ensure]
                by_cases hd : d = p <;> simp [hd, eq_comm]
              · simp [hdep, dirsOf_ensure]
            · simp [dirsOf_ensure]
          · simp
        · simp [hk, hp, hpr']
  · cases hk : e.kind <;> simp [hk]

/-- **counts are exact (files)**: after the walk, the file figure of every directory is the
    number of its immediate regular files that the walker yields and that are neither
    scanner-excluded nor count-excluded -/
theorem walk_files_exact (es : List Entry) (s : ScanState) (d : Nat) :
    filesOf (es.foldl step s).stats d = filesOf s.stats d + countWith countsAsFile d s.pruned es := by
  induction es generalizing s with
  | nil => simp [countWith]
  | cons e es ih =>
    simp only [List.foldl_cons, countWith]
    rw [ih (step s e), step_files, step_pruned]
    omega

theorem counts_exact_files (es : List Entry) (d : Nat) :
    filesOf (walk es).stats d = countWith countsAsFile d [] es := by
  have := walk_files_exact es { stats := [], pruned := [] } d
  simpa [walk, filesOf, getStats] using this

/-- **counts are exact (sub-directories)** -/
theorem walk_dirs_exact (es : List Entry) (s : ScanState) (d : Nat) :
    dirsOf (es.foldl step s).stats d = dirsOf s.stats d + countWith countsAsDir d s.pruned es := by
  induction es generalizing s with
  | nil => simp [countWith]
  | cons e es ih =>
    simp only [List.foldl_cons, countWith]
    rw [ih (step s e), step_dirs, step_pruned]
    omega

theorem counts_exact_dirs (es : List Entry) (d : Nat) :
    dirsOf (walk es).stats d = countWith countsAsDir d [] es := by
  have := walk_dirs_exact es { stats := [], pruned := [] } d
  simpa [walk, dirsOf, getStats] using this

/-- hidden, ignored, excluded, count-excluded and non-regular entries contribute nothing -/
theorem not_counted (pr : List Nat) (d : Nat) (e : Entry)
    (h : e.ignored = true ∨ e.kind = .other ∨ e.scannerExcluded = true ∨ e.countExcluded = true ∨
         (∃ p, e.parent = some p ∧ p ∈ pr)) :
    countsAsFile pr d e = false ∧ countsAsDir pr d e = false := by
  unfold countsAsFile countsAsDir yielded
  rcases h with h | h | h | h | ⟨p, hp, hc⟩
  · simp [h]
  · simp [h]
  · simp [h]
  · simp [h]
  · simp [hp, hc]

/-! ### non-vacuity: a small tree -/
def exTree : List Entry :=
  [ ⟨0, none, 0, .dir, false, false, false⟩,          -- src
    ⟨1, some 0, 1, .file, false, false, false⟩,        -- src/a.rs
    ⟨2, some 0, 1, .file, false, false, true⟩,         -- src/README.md   (count-excluded)
    ⟨3, some 0, 1, .dir, false, true, false⟩,          -- src/vendor      (scanner-excluded)
    ⟨4, some 3, 2, .file, false, false, false⟩,        -- src/vendor/v.rs (below a pruned dir)
    ⟨5, some 0, 1, .dir, false, false, false⟩,         -- src/util
    ⟨6, some 5, 2, .other, false, false, false⟩,       -- src/util/link   (symlink)
    ⟨7, some 5, 2, .file, true, false, false⟩ ]        -- src/util/x.log  (git-ignored)

example : (walk exTree).stats = [(0, ⟨1, 1, 0⟩), (5, ⟨0, 0, 1⟩)] := by decide
example : checkDir ⟨some 10, none, none, none, some 4, none, none, none⟩ [] ⟨4, 0, 0⟩
    = [⟨.files, .warning, 4, 10⟩] := by decide

end SlocModel.Props.C06
