import SlocModel.Props.C08
/-!
  C08 / C01 — several scan targets (fix ce25ed1): a target that lies below another target, or
  repeats it, is dropped, so nothing is walked (and reported) twice and nothing is lost.
-/
namespace SlocModel.PathSpelling

theorem covers_refl (a : List Seg) : covers a a = true := by
  unfold covers
  split
  · simp
  · rw [List.isPrefixOf_iff_prefix]; exact List.prefix_refl a

/-- covering implies being a component-wise prefix -/
theorem covers_prefix (a b : List Seg) (h : covers a b = true) : a <+: b := by
  unfold covers at h
  split at h
  · have : a = b := by simpa using h
    rw [this]; exact List.prefix_refl b
  · exact List.isPrefixOf_iff_prefix.mp h

/-- related targets are both spelled with `..` or both without -/
theorem covers_flag (a b : List Seg) (h : covers a b = true) :
    a.contains dotdot = b.contains dotdot := by
  unfold covers at h
  split at h
  · have : a = b := by simpa using h
    rw [this]
  · rename_i hn
    simp only [Bool.or_eq_true, not_or, Bool.not_eq_true] at hn
    rw [hn.1, hn.2]

theorem covers_trans (a b c : List Seg) (h1 : covers a b = true) (h2 : covers b c = true) :
    covers a c = true := by
  have f1 := covers_flag a b h1
  have f2 := covers_flag b c h2
  cases hf : b.contains dotdot with
  | true =>
    have e1 : a = b := by
      unfold covers at h1; rw [f1, hf] at h1; simpa using h1
    have e2 : b = c := by
      unfold covers at h2; rw [hf] at h2; simpa using h2
    rw [e1, e2]; exact covers_refl c
  | false =>
    have p1 := covers_prefix a b h1
    have p2 := covers_prefix b c h2
    unfold covers
    rw [f1, hf, ← f2, hf]
    simp only [Bool.or_self, Bool.false_eq_true, if_false]
    exact List.isPrefixOf_iff_prefix.mpr (p1.trans p2)

theorem covers_length (a b : List Seg) (h : covers a b = true) : a.length ≤ b.length :=
  (covers_prefix a b h).length_le

/-- the empty key is covered only by itself … -/
theorem covers_nil (t o : List Seg) (h : covers o t = true) (ht : t.length = 0) :
    covers t o = true := by
  have hl := covers_length o t h
  have : t = [] := List.length_eq_zero_iff.mp ht
  have : o = [] := List.length_eq_zero_iff.mp (by omega)
  subst_vars; exact covers_refl []

/-- … and two keys of equal length that are related are equal -/
theorem covers_eq_of_length (o t : List Seg) (h : covers o t = true) (hl : o.length = t.length) :
    covers t o = true := by
  have := List.IsPrefix.eq_of_length_le (covers_prefix o t h) (by omega)
  rw [this]; exact covers_refl t

theorem nestedAt_true_iff (ts : List (List Seg)) (i : Nat) (t : List Seg) :
    nestedAt ts i t = true ↔
      ∃ j o, ts[j]? = some o ∧ j ≠ i ∧ covers o t = true ∧ ¬ (covers t o = true ∧ i < j) := by
  unfold nestedAt
  rw [List.any_eq_true]
  constructor
  · rintro ⟨⟨o, j⟩, hm, hc⟩
    rw [List.mem_zipIdx_iff_getElem?] at hm
    simp only [Bool.and_eq_true, bne_iff_ne, ne_eq, Bool.not_eq_true', Bool.and_eq_false_imp,
      decide_eq_false_iff_not] at hc
    exact ⟨j, o, hm, hc.1.1, hc.1.2, fun h => hc.2 h.1 h.2⟩
  · rintro ⟨j, o, hm, hne, hc, hn⟩
    refine ⟨(o, j), List.mem_zipIdx_iff_getElem?.mpr hm, ?_⟩
    simp only [Bool.and_eq_true, bne_iff_ne, ne_eq, Bool.not_eq_true', Bool.and_eq_false_imp,
      decide_eq_false_iff_not]
    exact ⟨⟨hne, hc⟩, fun h1 h2 => hn ⟨h1, h2⟩⟩

/-- every kept position is a member of the result -/
theorem mem_dropNested (ts : List (List Seg)) (k : Nat) (t : List Seg) (hk : ts[k]? = some t)
    (hn : nestedAt ts k t = false) : t ∈ dropNested ts := by
  unfold dropNested
  refine List.mem_map.mpr ⟨(t, k), List.mem_filter.mpr ⟨List.mem_zipIdx_iff_getElem?.mpr hk, ?_⟩, rfl⟩
  simp [hn]

/-- **nothing is lost**: every target given is covered by a target that is kept -/
theorem dropNested_covers_all (ts : List (List Seg)) :
    ∀ (n i : Nat) (t : List Seg), ts[i]? = some t → t.length * (ts.length + 1) + i ≤ n →
      ∃ k ∈ dropNested ts, covers k t = true := by
  intro n
  induction n with
  | zero =>
    intro i t hi hm
    cases hnest : nestedAt ts i t with
    | false => exact ⟨t, mem_dropNested ts i t hi hnest, covers_refl t⟩
    | true =>
      exfalso
      obtain ⟨j, o, hj, hne, hc, hn⟩ := (nestedAt_true_iff ts i t).mp hnest
      have hi0 : i = 0 := by omega
      have ht0 : t.length = 0 := by
        have : t.length * (ts.length + 1) = 0 := by omega
        rcases Nat.mul_eq_zero.mp this with h | h
        · exact h
        · omega
      have hto : covers t o = true := covers_nil t o hc ht0
      exact hn ⟨hto, by omega⟩
  | succ n ih =>
    intro i t hi hm
    cases hnest : nestedAt ts i t with
    | false => exact ⟨t, mem_dropNested ts i t hi hnest, covers_refl t⟩
    | true =>
      obtain ⟨j, o, hj, hne, hc, hn⟩ := (nestedAt_true_iff ts i t).mp hnest
      have hjlt : j < ts.length := by
        rcases List.getElem?_eq_some_iff.mp hj with ⟨h, _⟩; exact h
      have hlen := covers_length o t hc
      -- the coverer is strictly smaller in the measure
      have hsmall : o.length * (ts.length + 1) + j ≤ n := by
        by_cases hlt : o.length < t.length
        · have : (o.length + 1) * (ts.length + 1) ≤ t.length * (ts.length + 1) :=
            Nat.mul_le_mul_right _ hlt
          have h2 : (o.length + 1) * (ts.length + 1) = o.length * (ts.length + 1) + (ts.length + 1) := by
            rw [Nat.add_mul]; simp
          omega
        · have heq : o.length = t.length := by omega
          -- equal length and prefix: the same list, so the coverer must come earlier
          have hto : covers t o = true := covers_eq_of_length o t hc heq
          have hji : ¬ i < j := fun h => hn ⟨hto, h⟩
          have : j < i := by omega
          rw [heq]; omega
      obtain ⟨k, hk, hko⟩ := ih j o hj hsmall
      exact ⟨k, hk, covers_trans k o t hko hc⟩

/-- every target given lies below a kept target (the union of the scanned sub-trees is unchanged) -/
theorem dropNested_keeps_coverage (ts : List (List Seg)) (t : List Seg) (h : t ∈ ts) :
    ∃ k ∈ dropNested ts, covers k t = true := by
  obtain ⟨i, hi⟩ := List.mem_iff_getElem?.mp h
  exact dropNested_covers_all ts _ i t hi (Nat.le_refl _)

/-- **nothing is walked twice**: no kept target lies below (or repeats) a target at another
    position that is kept as well -/
theorem dropNested_antichain (ts : List (List Seg)) (i j : Nat) (a b : List Seg)
    (hi : ts[i]? = some a) (hj : ts[j]? = some b) (hne : i ≠ j)
    (ha : nestedAt ts i a = false) (hb : nestedAt ts j b = false) : covers a b = false := by
  cases hc : covers a b with
  | false => rfl
  | true =>
    exfalso
    -- b is covered by a: b is nested unless a is covered by b as well and j < i
    have h1 : ¬ (nestedAt ts j b = true) := by simp [hb]
    rw [nestedAt_true_iff] at h1
    have hba : covers b a = true ∧ j < i := by
      apply Classical.byContradiction
      intro hcon
      exact h1 ⟨i, a, hi, hne, hc, hcon⟩
    -- and then a is nested in b
    have h2 : ¬ (nestedAt ts i a = true) := by simp [ha]
    rw [nestedAt_true_iff] at h2
    exact h2 ⟨j, b, hj, Ne.symm hne, hba.1, fun h => by omega⟩

example : dropNested [[], ["src".toList]] = [[]] := by decide
example : dropNested [["src".toList], ["src".toList, "gen".toList], ["src-gen".toList], ["src".toList]]
    = [["src".toList], ["src-gen".toList]] := by decide

end SlocModel.PathSpelling
