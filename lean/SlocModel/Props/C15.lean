import SlocModel.Trend
/-!
  C15 — Trend history: append-only, whole-project, retention-bounded, exact deltas.
-/
namespace SlocModel.Props.C15
open SlocModel SlocModel.Trend

/-! ### retention -/

theorem drop_sublist {α : Type} (l : List α) (n : Nat) : (l.drop n).Sublist l := List.drop_sublist n l

/-- retention only ever removes entries, keeps their order, bounds the length, removes
    everything older than the age limit and keeps the newest ones: the result is a suffix of
    the age-filtered history -/
theorem retention_bounds (h : List Entry) (cfg : Cfg) (now : Nat) :
    (applyRetention h cfg now).Sublist h ∧
    (∀ m, cfg.maxEntries = some m → (applyRetention h cfg now).length ≤ m) ∧
    (∀ d, cfg.maxAgeDays = some d → ∀ e ∈ applyRetention h cfg now, e.ts ≥ now - ageSecs d) ∧
    (∃ k, applyRetention h cfg now =
        (match cfg.maxAgeDays with
         | none => h
         | some d => h.filter (fun e => e.ts ≥ now - ageSecs d)).drop k) := by
  unfold applyRetention
  cases hd : cfg.maxAgeDays with
  | none =>
    cases hm : cfg.maxEntries with
    | none => exact ⟨List.Sublist.refl _, by simp, by simp, 0, by simp⟩
    | some m =>
      simp only
      split
      · refine ⟨List.drop_sublist _ _, ?_, by simp, _, rfl⟩
        intro m' hm'; injection hm' with hm'; subst hm'; simp; omega
      · refine ⟨List.Sublist.refl _, ?_, by simp, 0, by simp⟩
        intro m' hm'; injection hm' with hm'; subst hm'; omega
  | some d =>
    have hfs : (h.filter (fun e => decide (e.ts ≥ now - ageSecs d))).Sublist h := List.filter_sublist
    have hage : ∀ e ∈ h.filter (fun e => decide (e.ts ≥ now - ageSecs d)), e.ts ≥ now - ageSecs d := by
      intro e he; simpa using (List.mem_filter.mp he).2
    cases hm : cfg.maxEntries with
    | none =>
      refine ⟨hfs, by simp, ?_, 0, by simp⟩
      intro d' hd'; rw [← Option.some.inj hd']; exact hage
    | some m =>
      simp only
      split
      · refine ⟨(List.drop_sublist _ _).trans hfs, ?_, ?_, _, rfl⟩
        · intro m' hm'; injection hm' with hm'; subst hm'; simp; omega
        · intro d' hd'; rw [← Option.some.inj hd']
          intro e he; exact hage e (List.mem_of_mem_drop he)
      · refine ⟨hfs, ?_, ?_, 0, by simp⟩
        · intro m' hm'; injection hm' with hm'; subst hm'; omega
        · intro d' hd'; rw [← Option.some.inj hd']; exact hage

/-- retention is total for every configuration value, including `max_age_days = u64::MAX`
    (the age product saturates; before the repair it overflowed) -/
theorem age_saturates (d : Nat) : ageSecs d ≤ u64Max := by
  unfold ageSecs satMulU64; omega

example : applyRetention [⟨5, ⟨1, 1, 1, 0, 0⟩⟩]
    { maxEntries := none, maxAgeDays := some (2 ^ 63 - 1), minIntervalSecs := none,
      minCodeDelta := none } 1700000000 = [⟨5, ⟨1, 1, 1, 0, 0⟩⟩] := by decide

/-! ### recording a snapshot -/

/-- a recorded snapshot is exactly "append one entry carrying the given totals, then retain";
    skipped and dry-run invocations leave the history value unchanged -/
theorem snapshot_appends_one (h : List Entry) (cfg : Cfg) (t1 t2 t3 : Nat) (t : Totals)
    (force dry : Bool) :
    let r := snapshot h cfg t1 t2 t3 t force dry
    (r.1 = .recorded → r.2 = applyRetention (h ++ [{ ts := t2, totals := t }]) cfg t3) ∧
    (r.1 ≠ .recorded → r.2 = h) := by
  simp only [snapshot]
  split
  · simp
  · split <;> simp

/-- earlier entries are never rewritten or reordered: the new history is a sublist of the old
    one followed by the new entry -/
theorem never_rewrites (h : List Entry) (cfg : Cfg) (t1 t2 t3 : Nat) (t : Totals)
    (force dry : Bool) :
    (snapshot h cfg t1 t2 t3 t force dry).2.Sublist (h ++ [{ ts := t2, totals := t }]) := by
  have hs := snapshot_appends_one h cfg t1 t2 t3 t force dry
  simp only at hs
  by_cases hrec : (snapshot h cfg t1 t2 t3 t force dry).1 = .recorded
  · rw [hs.1 hrec]; exact (retention_bounds _ cfg t3).1
  · rw [hs.2 hrec]; exact List.sublist_append_left _ _

/-- with a pinned clock the entry just recorded survives its own retention pass whenever at
    least one entry may be kept -/
theorem new_entry_kept (h : List Entry) (cfg : Cfg) (now : Nat) (t : Totals)
    (hm : ∀ m, cfg.maxEntries = some m → 1 ≤ m) :
    (applyRetention (h ++ [{ ts := now, totals := t }]) cfg now).getLast? =
      some { ts := now, totals := t } := by
  unfold applyRetention
  have hfilter : ∀ age, ((h ++ [({ ts := now, totals := t } : Entry)]).filter
      (fun (e : Entry) => decide (e.ts ≥ now - age))).getLast? = some { ts := now, totals := t } := by
    intro age
    rw [List.filter_append]
    simp
  have hdrop : ∀ (l : List Entry) (m : Nat), 1 ≤ m → l.length > m →
      (l.drop (l.length - m)).getLast? = l.getLast? := by
    intro l m h1 h2
    rw [List.getLast?_drop]
    have : ¬ l.length ≤ l.length - m := by omega
    simp [this]
  cases hd : cfg.maxAgeDays with
  | none =>
    cases hme : cfg.maxEntries with
    | none => simp
    | some m =>
      simp only
      split
      · rename_i hlen; rw [hdrop _ m (hm m hme) hlen]; simp
      · simp
  | some d =>
    cases hme : cfg.maxEntries with
    | none => exact hfilter _
    | some m =>
      simp only
      split
      · rename_i hlen; rw [hdrop _ m (hm m hme) hlen]; exact hfilter _
      · exact hfilter _

/-- a snapshot inside the minimum interval is skipped unless forced -/
theorem interval_skip_iff (h : List Entry) (cfg : Cfg) (t1 t2 t3 : Nat) (t : Totals) :
    (snapshot h cfg t1 t2 t3 t false false).1 = .skipped ↔
      ∃ mi e, cfg.minIntervalSecs = some mi ∧ h.getLast? = some e ∧ t1 - e.ts < mi := by
  simp only [snapshot, Bool.false_or, Bool.false_eq_true, if_false]
  constructor
  · intro hs
    split at hs
    · rename_i hna
      simp only [Bool.not_eq_true', shouldAdd] at hna
      cases hmi : cfg.minIntervalSecs with
      | none => simp [hmi] at hna
      | some mi =>
        simp only [hmi] at hna
        cases hl : h.getLast? with
        | none => simp [hl] at hna
        | some e => simp only [hl] at hna; exact ⟨mi, e, rfl, rfl, by simpa using hna⟩
    · cases hs
  · intro ⟨mi, e, h1, h2, h3⟩
    have : shouldAdd h cfg t1 = false := by simp [shouldAdd, h1, h2]; omega
    simp [this]

theorem force_overrides (h : List Entry) (cfg : Cfg) (t1 t2 t3 : Nat) (t : Totals) :
    (snapshot h cfg t1 t2 t3 t true false).1 ≠ .skipped := by
  simp [snapshot]

theorem dry_run_read_only (h : List Entry) (cfg : Cfg) (t1 t2 t3 : Nat) (t : Totals) (force : Bool) :
    snapshot h cfg t1 t2 t3 t force true = (.dryRun, h) := by
  simp [snapshot]

/-! ### selecting the reference entry and the delta -/

theorem find?_reverse_spec {α : Type} (p : α → Bool) (l : List α) (a : α) :
    l.reverse.find? p = some a ↔
      ∃ pre post, l = pre ++ a :: post ∧ p a = true ∧ ∀ x ∈ post, p x = false := by
  induction l generalizing a with
  | nil => simp
  | cons x xs ih =>
    rw [List.reverse_cons, List.find?_append]
    cases hf : xs.reverse.find? p with
    | some b =>
      obtain ⟨pre, post, heq, hpb, hpost⟩ := (ih b).mp hf
      simp only [Option.some_or, Option.some.injEq]
      constructor
      · intro hab; subst hab
        exact ⟨x :: pre, post, by simp [heq], hpb, hpost⟩
      · intro ⟨pre', post', heq', hpa, hpost'⟩
        -- both decompositions pick the last element satisfying p
        cases pre' with
        | nil =>
          simp only [List.nil_append, List.cons.injEq] at heq'
          obtain ⟨_, hxs⟩ := heq'
          have : b ∈ post' := by rw [← hxs, heq]; simp
          have := hpost' b this
          rw [hpb] at this; cases this
        | cons y ys =>
          simp only [List.cons_append, List.cons.injEq] at heq'
          obtain ⟨_, hxs⟩ := heq'
          have h2 := (ih a).mpr ⟨ys, post', hxs, hpa, hpost'⟩
          rw [hf] at h2; injection h2
    | none =>
      have hnone : ∀ y ∈ xs, p y = false := by
        intro y hy
        have := List.find?_eq_none.mp hf y (by simpa using hy)
        simpa using this
      simp only [Option.none_or, List.find?_cons, List.find?_nil]
      cases hp : p x with
      | true =>
        simp only [Option.some.injEq]
        constructor
        · intro hxa; subst hxa; exact ⟨[], xs, by simp, hp, hnone⟩
        · intro ⟨pre', post', heq', hpa, _⟩
          cases pre' with
          | nil => simp only [List.nil_append, List.cons.injEq] at heq'; exact heq'.1
          | cons y ys =>
            simp only [List.cons_append, List.cons.injEq] at heq'
            have : a ∈ xs := by rw [heq'.2]; simp
            have := hnone a this
            rw [hpa] at this; cases this
      | false =>
        simp only [reduceCtorEq, false_iff]
        intro ⟨pre', post', heq', hpa, _⟩
        cases pre' with
        | nil =>
          simp only [List.nil_append, List.cons.injEq] at heq'
          rw [← heq'.1, hp] at hpa; cases hpa
        | cons y ys =>
          simp only [List.cons_append, List.cons.injEq] at heq'
          have : a ∈ xs := by rw [heq'.2]; simp
          have := hnone a this
          rw [hpa] at this; cases this

/-- `--since D` selects the last entry in recording order whose timestamp is at or before the
    target time (no monotonicity of timestamps is assumed) -/
theorem since_selects (h : List Entry) (t : Nat) (e : Entry) :
    findAtOrBefore h t = some e ↔
      ∃ pre post, h = pre ++ e :: post ∧ e.ts ≤ t ∧ ∀ x ∈ post, ¬ x.ts ≤ t := by
  unfold findAtOrBefore
  rw [find?_reverse_spec]
  simp

/-- the delta is current totals minus the selected entry, field by field -/
theorem delta_exact (prev : Entry) (cur : Totals) :
    (delta prev cur).files = (cur.files : Int) - prev.totals.files ∧
    (delta prev cur).code = (cur.code : Int) - prev.totals.code ∧
    (delta prev cur).lines = (cur.lines : Int) - prev.totals.lines ∧
    (delta prev cur).comment = (cur.comment : Int) - prev.totals.comment ∧
    (delta prev cur).blank = (cur.blank : Int) - prev.totals.blank := by
  simp [delta]

theorem delta_since_def (h : List Entry) (dur : Nat) (cur : Totals) (now : Nat) :
    deltaSince h dur cur now = (findAtOrBefore h (now - dur)).map (delta · cur) := rfl

/-- significant iff files changed or |code delta| exceeds min_code_delta (default from source) -/
theorem significant_iff (d : Delta) (cfg : Cfg) :
    isSignificant d cfg = true ↔
      d.files ≠ 0 ∨ d.code.natAbs > cfg.minCodeDelta.getD Generated.defaultMinCodeDelta := by
  simp [isSignificant]

/-! ### duration strings -/

/-- the unit table of the source: `w` is 604 800 s etc. (regenerated constants) -/
theorem unit_values :
    multiplierOf "s".toList = some 1 ∧ multiplierOf "m".toList = some 60 ∧
    multiplierOf "h".toList = some 3600 ∧ multiplierOf "d".toList = some 86400 ∧
    multiplierOf "w".toList = some 604800 ∧ multiplierOf "weeks".toList = some 604800 ∧
    multiplierOf "x".toList = none := by decide

/-- accepted ⇒ the text is digits followed by a known unit and the value is n × multiplier
    (which fits in 64 bits) -/
theorem parse_duration_spec (input : List Char) (secs : Nat) (h : parseDuration input = .ok secs) :
    ∃ n m, Counter.parseDigits ((Counter.trim input).takeWhile isAsciiDigit) 0 = some n ∧
      multiplierOf (((Counter.trim input).dropWhile isAsciiDigit).map lowerChar) = some m ∧
      0 < n ∧ secs = n * m ∧ secs ≤ u64Max := by
  unfold parseDuration at h
  simp only at h
  split at h
  · cases h
  · split at h
    · cases h
    · split at h
      · cases h
      · split at h
        · cases h
        · rename_i v hv
          split at h
          · cases h
          · split at h
            · cases h
            · split at h
              · cases h
              · rename_i m hm
                split at h
                · rename_i r hr
                  injection h with h; subst h
                  unfold mulU64 at hr
                  split at hr
                  · injection hr with hr
                    exact ⟨v, m, hv, hm, by omega, hr.symm, by omega⟩
                  · cases hr
                · cases h

/-- zero durations and unknown units are rejected, never defaulted -/
theorem parse_duration_rejects :
    parseDuration "0d".toList = .err .zero ∧ parseDuration "7".toList = .err .missingUnit ∧
    parseDuration "d".toList = .err .missingNumber ∧ parseDuration "7y".toList = .err .badUnit ∧
    parseDuration "".toList = .err .empty ∧
    parseDuration "99999999999999999999d".toList = .err .badNumber := by decide

/-- out-of-range products are rejected, not wrapped (repaired: used to overflow) -/
theorem duration_overflow_rejected :
    parseDuration "99999999999999999w".toList = .err .tooLarge ∧
    parseDuration "18446744073709551615s".toList = .ok u64Max := by decide

/-! ### whole-project totals -/

def sumTotals (fs : List Totals) : Totals :=
  fs.foldl (fun a b => ⟨a.files + b.files, a.lines + b.lines, a.code + b.code,
    a.comment + b.comment, a.blank + b.blank⟩) ⟨0, 0, 0, 0, 0⟩

/-- a check restricted by `--files`, `--diff` or `--staged` never writes the history
    (repaired: it used to record the partial totals) -/
theorem restricted_check_never_snapshots (exit : Int) (enabled f d s : Bool)
    (h : f = true ∨ d = true ∨ s = true) : autoSnapshotRuns exit enabled f d s = false := by
  rcases h with h | h | h <;> subst h <;> simp [autoSnapshotRuns]

/-- only a passing check with the option enabled snapshots -/
theorem auto_snapshot_iff (exit : Int) (enabled f d s : Bool) :
    autoSnapshotRuns exit enabled f d s = true ↔
      exit = Generated.exitSuccess ∧ enabled = true ∧ f = false ∧ d = false ∧ s = false := by
  simp [autoSnapshotRuns]; constructor <;> (intro h; simp_all)

/-- a run whose totals are partial for any reason — a file list, a git filter, or fail-fast
    having skipped files (it can still pass under `--warn-only`) — never snapshots -/
theorem partial_run_never_snapshots (exit : Int) (enabled f d s k : Bool)
    (h : f = true ∨ d = true ∨ s = true ∨ k = true) : autoSnapshotRuns' exit enabled f d s k = false := by
  rcases h with h | h | h | h <;> subst h <;> simp [autoSnapshotRuns', autoSnapshotRuns]

theorem auto_snapshot_iff_full (exit : Int) (enabled f d s k : Bool) :
    autoSnapshotRuns' exit enabled f d s k = true ↔
      exit = Generated.exitSuccess ∧ enabled = true ∧ f = false ∧ d = false ∧ s = false ∧ k = false := by
  simp [autoSnapshotRuns', autoSnapshotRuns]; constructor <;> (intro h; simp_all)

/-- a run that any argument narrows to a part of the project — another scan target, `--include`,
    `--exclude`, `--ext` — never snapshots either (repaired in 179de33: `check src` used to record
    the totals of `src` as the project's) -/
theorem narrowed_run_never_snapshots (exit : Int) (enabled f d s k inc exc ext root : Bool)
    (h : inc = true ∨ exc = true ∨ ext = true ∨ root = false) :
    autoSnapshotRuns'' exit enabled f d s k inc exc ext root = false := by
  rcases h with h | h | h | h <;> subst h <;> simp [autoSnapshotRuns'', narrowedByArguments]

/-- exactly the passing, enabled, whole-project runs snapshot -/
theorem auto_snapshot_iff_whole (exit : Int) (enabled f d s k inc exc ext root : Bool) :
    autoSnapshotRuns'' exit enabled f d s k inc exc ext root = true ↔
      exit = Generated.exitSuccess ∧ enabled = true ∧ f = false ∧ d = false ∧ s = false ∧
        k = false ∧ inc = false ∧ exc = false ∧ ext = false ∧ root = true := by
  simp [autoSnapshotRuns'', narrowedByArguments, autoSnapshotRuns', autoSnapshotRuns]
  constructor <;> (intro h; simp_all)

/-- What remains false of the pinned code ("totals of the whole project as `stats summary`
    reports them"): the check hands over the totals of the files that pass `should_process`,
    so files matched by `content.exclude` are missing from an auto-snapshot although
    `stats summary` and `snapshot` count them. -/
theorem c15_auto_snapshot_ignores_content_excluded :
    let project := [⟨1, 10, 8, 1, 1⟩, ⟨1, 20, 15, 3, 2⟩, ⟨1, 5, 5, 0, 0⟩]
    let checked := [⟨1, 10, 8, 1, 1⟩, ⟨1, 20, 15, 3, 2⟩]    -- third file is content-excluded
    let cfg : Cfg := ⟨none, none, none, none⟩
    (snapshot [] cfg 100 100 100 (sumTotals checked) false false).2.map (·.totals)
      ≠ [sumTotals project] := by decide

/-! ### non-vacuity -/
example : (snapshot [⟨10, ⟨1, 1, 1, 0, 0⟩⟩, ⟨20, ⟨2, 2, 2, 0, 0⟩⟩]
    ⟨some 2, some 1, some 5, none⟩ 100000 100000 100000 ⟨3, 3, 3, 0, 0⟩ false false)
    = (.recorded, [⟨100000, ⟨3, 3, 3, 0, 0⟩⟩]) := by decide
example : findAtOrBefore [⟨10, ⟨1, 1, 1, 0, 0⟩⟩, ⟨30, ⟨2, 2, 2, 0, 0⟩⟩, ⟨20, ⟨3, 3, 3, 0, 0⟩⟩] 25
    = some ⟨20, ⟨3, 3, 3, 0, 0⟩⟩ := by decide
example : parseDuration " 2Wks ".toList = .ok 1209600 := by decide

end SlocModel.Props.C15
