import SlocModel.Extends
/-!
  C16 — Config inheritance is a deterministic left fold and always terminates.
  Statements about `SlocModel.Toml` (merge.rs) and `SlocModel.Extends` (extends.rs).
-/
namespace SlocModel.Props.C16
open SlocModel SlocModel.Toml SlocModel.Extends

/-! ### the documented merge -/

/-- child scalars (and any type mismatch) override -/
theorem merge_child_scalar_wins (b : Value) (s : List Char) (t : Nat) (p : List Char) :
    merge b (.str s) = .str s ∧ merge b (.other t p) = .other t p := by
  simp [merge]

/-- arrays concatenate parent-then-child … -/
theorem merge_arrays_concat (b c : Arr) (h : hasResetMarker c = false) :
    merge (.arr b) (.arr c) = .arr (b.append c) := by
  cases c with
  | nil => simp [merge, mergeArrays]
  | cons v rest => simp [hasResetMarker] at h; simp [merge, mergeArrays, h]

/-- … unless the child array begins with `$reset`, which discards the inherited elements -/
theorem merge_arrays_reset (b : Arr) (v : Value) (rest : Arr) (h : isResetElem v = true) :
    merge (.arr b) (.arr (.cons v rest)) = .arr rest := by
  simp [merge, mergeArrays, h]

/-- tables merge recursively: a key present on both sides receives the merge of the two values -/
theorem set_get : ∀ (b : Tbl) (k : Key) (nv bv : Value), b.get k = some bv →
    (b.set k nv).get k = some nv
  | .nil, _, _, _, h => by simp [Tbl.get] at h
  | .cons k' v fs, k, nv, bv, h => by
    simp only [Tbl.get] at h
    simp only [Tbl.set]
    split
    · rename_i hk; simp [Tbl.get, hk]
    · rename_i hk; simp [hk] at h; simp [Tbl.get, hk, set_get fs k nv bv h]

theorem snoc_get : ∀ (b : Tbl) (k : Key) (v : Value), b.get k = none → (b.snoc k v).get k = some v
  | .nil, k, v, _ => by simp [Tbl.snoc, Tbl.get]
  | .cons k' v' fs, k, v, h => by
    simp only [Tbl.get] at h
    split at h
    · cases h
    · rename_i hk; simp [Tbl.snoc, Tbl.get, hk, snoc_get fs k v h]

/-- one entry of the child table: present in the base ⇒ merged, absent ⇒ added as is -/
theorem merge_single_key (bt : Tbl) (k : Key) (cv : Value) :
    (mergeTbl bt (.cons k cv .nil)).get k =
      match bt.get k with
      | some bv => some (merge bv cv)
      | none => some cv := by
  simp only [mergeTbl]
  cases h : bt.get k with
  | some bv => simp [set_get bt k _ bv h]
  | none => simp [snoc_get bt k cv h]

/-! ### reset markers never reach the effective configuration -/

mutual
theorem strip_noMarker_of_valid : ∀ v : Value, validReset v = true → noMarker (strip v) = true
  | .str _, _ => by simp [strip, noMarker]
  | .other _ _, _ => by simp [strip, noMarker]
  | .tbl fs, h => by
    simp only [validReset] at h
    simp only [strip, noMarker]
    exact stripTbl_noMarker fs h
  | .arr xs, h => by
    simp only [validReset] at h
    simp only [strip, noMarker]
    exact stripHead_noMarker xs h
theorem stripHead_noMarker : ∀ xs : Arr, validResetHead xs = true → noMarkerArr (stripHead xs) = true
  | .nil, _ => by simp [stripHead, noMarkerArr]
  | .cons v rest, h => by
    simp only [validResetHead, Bool.and_eq_true] at h
    simp only [stripHead]
    split
    · exact stripArr_noMarker rest h.2
    · rename_i hm
      simp only [noMarkerArr, Bool.and_eq_true, Bool.not_eq_true']
      refine ⟨⟨?_, strip_noMarker_of_valid v h.1⟩, stripArr_noMarker rest h.2⟩
      exact strip_not_marker v (by simpa using hm) h.1
theorem stripArr_noMarker : ∀ xs : Arr, validResetTail xs = true → noMarkerArr (stripArr xs) = true
  | .nil, _ => by simp [stripArr, noMarkerArr]
  | .cons v vs, h => by
    simp only [validResetTail, Bool.and_eq_true, Bool.not_eq_true'] at h
    simp only [stripArr, noMarkerArr, Bool.and_eq_true, Bool.not_eq_true']
    exact ⟨⟨strip_not_marker v h.1.1 h.1.2, strip_noMarker_of_valid v h.1.2⟩, stripArr_noMarker vs h.2⟩
theorem stripTbl_noMarker : ∀ fs : Tbl, validResetTbl fs = true → noMarkerTbl (stripTbl fs) = true
  | .nil, _ => by simp [stripTbl, noMarkerTbl]
  | .cons _ v fs, h => by
    simp only [validResetTbl, Bool.and_eq_true] at h
    simp only [stripTbl, noMarkerTbl, Bool.and_eq_true]
    exact ⟨strip_noMarker_of_valid v h.1, stripTbl_noMarker fs h.2⟩
/-- stripping the inside of a non-marker element does not turn it into a marker -/
theorem strip_not_marker : ∀ v : Value, isResetElem v = false → validReset v = true →
    isResetElem (strip v) = false
  | .str s, h, _ => by simpa [strip] using h
  | .other _ _, _, _ => by simp [strip, isResetElem]
  | .arr _, _, _ => by simp [strip, isResetElem]
  | .tbl fs, h, _ => by
    simp only [strip, isResetElem] at h ⊢
    rw [stripTbl_get_str fs ['p','a','t','t','e','r','n'], stripTbl_get_str fs ['s','c','o','p','e']]
    cases hp : fs.get ['p','a','t','t','e','r','n'] with
    | some pv =>
      simp only [hp] at h ⊢
      simpa [strOf_strip] using h
    | none =>
      simp only [hp] at h ⊢
      cases hs : fs.get ['s','c','o','p','e'] with
      | some sv => simp only [hs] at h ⊢; simpa [strOf_strip] using h
      | none => simp
/-- `strip` maps the value under a key pointwise -/
theorem stripTbl_get_str : ∀ (fs : Tbl) (k : Key), (stripTbl fs).get k = (fs.get k).map strip
  | .nil, _ => by simp [stripTbl, Tbl.get]
  | .cons k' v fs, k => by
    simp only [stripTbl, Tbl.get]
    split
    · simp
    · exact stripTbl_get_str fs k
theorem strOf_strip : ∀ v : Value, strOf (strip v) = strOf v
  | .str _ => by simp [strip]
  | .other _ _ => by simp [strip]
  | .arr _ => by simp [strip, strOf]
  | .tbl _ => by simp [strip, strOf]
end

/-- validation accepted ⇒ after stripping no array anywhere holds a reset element -/
theorem no_marker_survives (v : Value) (h : validReset v = true) : noMarker (strip v) = true :=
  strip_noMarker_of_valid v h

/-- a marker at index 1 of an array is rejected … -/
theorem marker_second_rejected (v x : Value) (tail : Arr) (hx : isResetElem x = true) :
    validReset (.arr (.cons v (.cons x tail))) = false := by
  simp [validReset, validResetHead, validResetTail, hx]

/-- … and so is one at any later index: every element past the first must be a non-marker -/
theorem validResetTail_no_marker : ∀ (xs : Arr) (x : Value) (tail : Arr),
    isResetElem x = true → validResetTail (xs.append (.cons x tail)) = false
  | .nil, x, tail, hx => by simp [Arr.append, validResetTail, hx]
  | .cons y ys, x, tail, hx => by
    simp [Arr.append, validResetTail, validResetTail_no_marker ys x tail hx]

theorem marker_elsewhere_rejected (v : Value) (mid : Arr) (x : Value) (tail : Arr)
    (hx : isResetElem x = true) :
    validReset (.arr (.cons v (mid.append (.cons x tail)))) = false := by
  simp [validReset, validResetHead, validResetTail_no_marker mid x tail hx]

theorem finish_ok_noMarker (v r : Value) (h : finish v = .ok r) : noMarker r = true := by
  unfold finish at h
  split at h
  · rename_i hv
    injection h with h; subst h
    exact no_marker_survives _ hv
  · cases h

theorem finish_error (v : Value) (e : Err) (h : finish v = .error e) : e = .resetPosition := by
  unfold finish at h
  split at h
  · cases h
  · injection h with h; exact h.symm

theorem wrapFinish_ne_oof (v : Value) (vis : List Name) :
    wrapFinish v vis ≠ .error .outOfFuel := by
  unfold wrapFinish
  cases h : finish v with
  | ok r => simp
  | error e => have := finish_error v e h; subst this; simp

/-! ### resolution always terminates, cycles and over-deep chains are errors naming the chain -/

/-- the resolver never runs out of fuel: every recursive call raises the depth by one and a
    depth above the maximum is cut off before recursing.  (`fuel` stands for the Rust call
    stack; the theorem says recursion depth is bounded by `maxExtendsDepth + 2` for *every*
    reference graph, cyclic or not.) -/
theorem resolve_terminates (fs presets : List (Name × Value)) (fuel : Nat) (name : Name)
    (visited : List Name) (depth : Nat)
    (h : Generated.maxExtendsDepth + 2 ≤ fuel + depth) (hf : 1 ≤ fuel) :
    resolve fs presets fuel name visited depth ≠ .error .outOfFuel := by
  induction fuel generalizing name visited depth with
  | zero => omega
  | succ n ih =>
    cases hl : lookup fs name with
    | none => simp [resolve, hl]
    | some v =>
      by_cases hd : depth > Generated.maxExtendsDepth
      · simp [resolve, hl, hd]
      · by_cases hc : name ∈ visited
        · simp [resolve, hl, hd, hc]
        · by_cases hb : extendsBad v = true
          · simp [resolve, hl, hd, hc, hb]
          · cases hx : extendsOf v with
            | none => simpa [resolve, hl, hd, hc, hb, hx] using wrapFinish_ne_oof _ _
            | some e =>
              by_cases hp : presetPrefix.isPrefixOf e = true
              · cases hpl : lookup presets (e.drop presetPrefix.length) with
                | none => simp [resolve, hl, hd, hc, hb, hx, hp, hpl]
                | some base => simpa [resolve, hl, hd, hc, hb, hx, hp, hpl] using wrapFinish_ne_oof _ _
              · by_cases hr : isRemote e = true
                · simp [resolve, hl, hd, hc, hb, hx, hp, hr]
                · have hrec := ih e (visited ++ [name]) (depth + 1) (by omega) (by omega)
                  cases hres : resolve fs presets n e (visited ++ [name]) (depth + 1) with
                  | error err =>
                    simp only [resolve, hl, hd, hb, hx, hp, hr, hres, if_false, Bool.false_eq_true,
                      List.contains_eq_mem, hc, decide_false]
                    intro hcontra
                    injection hcontra with hcc
                    subst hcc
                    exact hrec hres
                  | ok p =>
                    obtain ⟨b, vis⟩ := p
                    simpa [resolve, hl, hd, hc, hb, hx, hp, hr, hres] using wrapFinish_ne_oof _ _

/-- the entry point uses `defaultFuel`, which is enough -/
theorem resolve_default_terminates (fs presets : List (Name × Value)) (name : Name) :
    resolve fs presets defaultFuel name [] 0 ≠ .error .outOfFuel :=
  resolve_terminates fs presets defaultFuel name [] 0 (by simp [defaultFuel]) (by simp [defaultFuel])

/-- a chain deeper than the documented maximum is an error carrying the chain walked so far -/
theorem too_deep (fs presets : List (Name × Value)) (fuel : Nat) (name : Name) (v : Value)
    (visited : List Name) (depth : Nat) (hfile : lookup fs name = some v)
    (hd : depth > Generated.maxExtendsDepth) :
    resolve fs presets (fuel + 1) name visited depth = .error (.tooDeep depth visited) := by
  simp [resolve, hfile, hd]

/-- a reference back into the chain is an error whose chain ends with the repeated name -/
theorem cycle_detected (fs presets : List (Name × Value)) (fuel : Nat) (name : Name) (v : Value)
    (visited : List Name) (depth : Nat) (hfile : lookup fs name = some v)
    (hd : ¬ depth > Generated.maxExtendsDepth) (hc : name ∈ visited) :
    resolve fs presets (fuel + 1) name visited depth = .error (.circular (visited ++ [name])) := by
  simp [resolve, hfile, hd, hc]

/-- an `extends` or `extends_sha256` of the wrong type is an error, not a dropped key -/
theorem bad_extends_rejected (fs presets : List (Name × Value)) (fuel : Nat) (name : Name) (v : Value)
    (visited : List Name) (depth : Nat) (hfile : lookup fs name = some v)
    (hd : ¬ depth > Generated.maxExtendsDepth) (hc : name ∉ visited) (hb : extendsBad v = true) :
    resolve fs presets (fuel + 1) name visited depth = .error .badExtends := by
  simp [resolve, hfile, hd, hc, hb]

/-- a file without a string `extends` is a leaf: no other file is consulted -/
theorem no_extends_is_leaf (fs fs' presets presets' : List (Name × Value)) (fuel : Nat)
    (name : Name) (v : Value) (visited : List Name) (depth : Nat)
    (h1 : lookup fs name = some v) (h2 : lookup fs' name = some v) (hx : extendsOf v = none) :
    resolve fs presets (fuel + 1) name visited depth =
      resolve fs' presets' (fuel + 1) name visited depth := by
  simp [resolve, h1, h2, hx]

/-! ### the effective configuration is the left fold of the documented merge -/

/-- one inheritance step: merge the child over the finished base, then finish -/
def stepFold (acc : Except Err Value) (child : Value) : Except Err Value :=
  match acc with
  | .ok b => finish (merge b child)
  | .error e => .error e

/-- base first: `finish c₀`, then `finish (merge acc cᵢ)` for each further member -/
def chainFold : List Value → Except Err Value
  | [] => .error .outOfFuel
  | c0 :: cs => cs.foldl stepFold (finish c0)

/-- A well-formed chain: `members` lists (name, value) from the *leaf* down to the base; each
    member's `extends` names the next one (a plain local reference), the base has none, all
    names are distinct and present in `fs`. -/
inductive Chain (fs : List (Name × Value)) : List (Name × Value) → Prop where
  | base (n : Name) (v : Value) : lookup fs n = some v → extendsBad v = false →
      extendsOf v = none → Chain fs [(n, v)]
  | step (n : Name) (v : Value) (m : Name) (w : Value) (rest : List (Name × Value)) :
      lookup fs n = some v → extendsBad v = false → extendsOf v = some m →
      presetPrefix.isPrefixOf m = false → isRemote m = false →
      Chain fs ((m, w) :: rest) → Chain fs ((n, v) :: (m, w) :: rest)

/-- name of the leaf (first member) -/
def leafName : List (Name × Value) → Name
  | [] => []
  | (n, _) :: _ => n

/-- fold over the members given leaf-first -/
def foldLeafFirst : List (Name × Value) → Except Err Value
  | [] => .error .outOfFuel
  | [(_, v)] => finish v
  | (_, v) :: rest => stepFold (foldLeafFirst rest) v

theorem resolve_fold_aux (fs presets : List (Name × Value)) (members : List (Name × Value))
    (hc : Chain fs members) (fuel : Nat) (visited : List Name) (depth : Nat)
    (hfuel : members.length ≤ fuel)
    (hdepth : depth + members.length ≤ Generated.maxExtendsDepth + 1)
    (hfresh : ∀ p ∈ members, p.1 ∉ visited)
    (hdistinct : (members.map (·.1)).Nodup) :
    resolve fs presets fuel (leafName members) visited depth =
      (foldLeafFirst members).map (fun r => (r, visited ++ members.map (·.1))) := by
  induction hc generalizing fuel visited depth with
  | base n v hl hb hx =>
    cases fuel with
    | zero => simp at hfuel
    | succ f =>
      have hd : ¬ depth > Generated.maxExtendsDepth := by simp at hdepth; omega
      have hv := hfresh (n, v) (by simp)
      simp only [leafName, resolve, hl, hd, if_false, hb, hx, foldLeafFirst, wrapFinish,
        List.contains_eq_mem, hv, decide_false, Bool.false_eq_true]
      cases finish v <;> simp [Except.map]
  | step n v m w rest hl hb hx hp hr _ ih =>
    cases fuel with
    | zero => simp at hfuel
    | succ f =>
      have hd : ¬ depth > Generated.maxExtendsDepth := by simp at hdepth; omega
      have hv := hfresh (n, v) (by simp)
      rw [List.map_cons, List.nodup_cons] at hdistinct
      have hrec := ih f (visited ++ [n]) (depth + 1) (by simp at hfuel ⊢; omega)
        (by simp at hdepth ⊢; omega)
        (by
          intro p hp'
          have h1 := hfresh p (List.mem_cons_of_mem _ hp')
          have h2 : p.1 ≠ n := by
            intro heq
            apply hdistinct.1
            rw [← heq]
            exact List.mem_map.mpr ⟨p, hp', rfl⟩
          simp only [List.mem_append, List.mem_singleton] at h1 ⊢
          intro hor
          rcases hor with h | h
          · exact h1 h
          · exact h2 h)
        hdistinct.2
      simp only [leafName] at hrec
      simp only [leafName, resolve, hl, hd, if_false, hb, hx, hp, hr, Bool.false_eq_true, hrec,
        foldLeafFirst, stepFold, wrapFinish, List.contains_eq_mem, hv, decide_false]
      cases hfold : foldLeafFirst ((m, w) :: rest) with
      | error e => simp [Except.map]
      | ok b =>
        simp only [Except.map]
        cases finish (merge b v) <;> simp [List.append_assoc]

/-- **resolve is the left fold**: for every acyclic chain of at most `maxExtendsDepth + 1`
    local files the resolver returns exactly the fold of `finish ∘ merge` from base to leaf
    (or the fold's marker-position error), and visits the members in order. -/
theorem resolve_fold (fs presets : List (Name × Value)) (members : List (Name × Value))
    (hc : Chain fs members) (hlen : members.length ≤ Generated.maxExtendsDepth + 1)
    (hdistinct : (members.map (·.1)).Nodup) :
    resolve fs presets defaultFuel (leafName members) [] 0 =
      (foldLeafFirst members).map (fun r => (r, members.map (·.1))) := by
  have := resolve_fold_aux fs presets members hc defaultFuel [] 0
    (by simp [defaultFuel]; omega) (by omega) (by intro p _; simp) hdistinct
  simpa using this

/-- `foldLeafFirst` is the left fold `chainFold` over the members listed base-first -/
theorem foldLeafFirst_eq_chainFold (members : List (Name × Value)) (h : members ≠ []) :
    foldLeafFirst members = chainFold (members.reverse.map (·.2)) := by
  induction members with
  | nil => exact absurd rfl h
  | cons x xs ih =>
    cases xs with
    | nil => simp [foldLeafFirst, chainFold]
    | cons y ys =>
      have := ih (by simp)
      simp only [foldLeafFirst, this]
      simp only [chainFold, List.reverse_cons, List.map_append, List.map_cons, List.map_nil]
      generalize (List.map (fun x => x.2) ys.reverse) = zs
      cases zs with
      | nil => simp [List.foldl]
      | cons z zs => simp [List.foldl_append]

/-! ### non-vacuity -/

def exBase : Value :=
  .tbl (.cons ['a'] (.arr (.cons (.str ['x']) .nil)) (.cons ['m'] (.other 1 ['5']) .nil))
def exLeaf : Value :=
  .tbl (.cons extendsKey (.str ['b'])
    (.cons ['a'] (.arr (.cons (.str Generated.resetMarker) (.cons (.str ['y']) .nil))) .nil))
def exFs : List (Name × Value) := [(['l'], exLeaf), (['b'], exBase)]

example : Chain exFs [(['l'], exLeaf), (['b'], exBase)] :=
  .step _ _ _ _ _ rfl (by decide) rfl (by decide) (by decide) (.base _ _ rfl (by decide) rfl)

/-- `extends = 5` (a non-string) is rejected -/
example : (match resolve [(['l'], .tbl (.cons extendsKey (.other 1 ['5']) .nil))] [] defaultFuel ['l'] [] 0 with
    | .error .badExtends => true
    | _ => false) = true := by decide

/-- the leaf's `[$reset, y]` replaces the inherited `[x]`; `m` is inherited; no marker is left -/
example : (match resolve exFs [] defaultFuel ['l'] [] 0 with
    | .ok (.tbl fs, vis) =>
      (match fs.get ['a'] with
       | some (.arr (.cons (.str s) .nil)) => s = ['y']
       | _ => false) && (fs.get ['m']).isSome && !(fs.hasKey extendsKey) && vis = [['l'], ['b']]
    | _ => false) = true := by decide

end SlocModel.Props.C16
