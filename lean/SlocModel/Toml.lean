import SlocModel.Generated.Consts
/-!
  Model of src/config/merge.rs: TOML values and the inheritance merge.

  `toml::Value` is modelled by three mutually inductive types (values, arrays, tables) so that
  every function below is structurally recursive.  A table is an association list; the real
  map is keyed (BTreeMap), so only key → value matters, and both sides print tables sorted by
  key.  Scalars other than strings are opaque payloads (`Nat` codes supplied by the harness).
-/
namespace SlocModel.Toml
open SlocModel

abbrev Key := List Char

mutual
inductive Value where
  | str (s : List Char)
  | other (tag : Nat) (payload : List Char)   -- integer / float / boolean / datetime, opaque
  | arr (xs : Arr)
  | tbl (fs : Tbl)
inductive Arr where
  | nil
  | cons (v : Value) (vs : Arr)
inductive Tbl where
  | nil
  | cons (k : Key) (v : Value) (fs : Tbl)
end

def Tbl.get (k : Key) : Tbl → Option Value
  | .nil => none
  | .cons k' v fs => if k' = k then some v else fs.get k

def Tbl.hasKey (k : Key) : Tbl → Bool
  | .nil => false
  | .cons k' _ fs => k' = k || fs.hasKey k

def Tbl.remove (k : Key) : Tbl → Tbl
  | .nil => .nil
  | .cons k' v fs => if k' = k then fs.remove k else .cons k' v (fs.remove k)

/-- append at the end (used only for keys that are absent) -/
def Tbl.snoc : Tbl → Key → Value → Tbl
  | .nil, k, v => .cons k v .nil
  | .cons k' v' fs, k, v => .cons k' v' (fs.snoc k v)

def Arr.append : Arr → Arr → Arr
  | .nil, ys => ys
  | .cons x xs, ys => .cons x (xs.append ys)

def Arr.length : Arr → Nat
  | .nil => 0
  | .cons _ xs => xs.length + 1

def strOf : Value → Option (List Char)
  | .str s => some s
  | _ => none

/-- `is_reset_element` -/
def isResetElem : Value → Bool
  | .str s => s = Generated.resetMarker
  | .tbl fs =>
    match (match fs.get ['p','a','t','t','e','r','n'] with
           | some v => some v
           | none => fs.get ['s','c','o','p','e']) with
    | some v => (strOf v) = some Generated.resetMarker
    | none => false
  | _ => false

/-- `has_reset_marker` -/
def hasResetMarker : Arr → Bool
  | .nil => false
  | .cons v _ => isResetElem v

/-- `merge_arrays` -/
def mergeArrays (base child : Arr) : Arr :=
  match child with
  | .cons v rest => if isResetElem v then rest else base.append child
  | .nil => base.append child

/-- replace the value stored under `k` (no-op if absent) -/
def Tbl.set (k : Key) (nv : Value) : Tbl → Tbl
  | .nil => .nil
  | .cons k' v fs => if k' = k then .cons k' nv fs else .cons k' v (fs.set k nv)

mutual
/-- `merge_toml_values(base, child)` — structurally recursive on the child -/
def merge : Value → Value → Value
  | b, .tbl c => match b with
    | .tbl bt => .tbl (mergeTbl bt c)
    | _ => .tbl c
  | b, .arr c => match b with
    | .arr ba => .arr (mergeArrays ba c)
    | _ => .arr c
  | _, c => c
/-- the `for (key, child_val) in child_table` loop: fold the child's entries into the base;
    a key present in the base receives the merge of both values, an absent one is added -/
def mergeTbl : Tbl → Tbl → Tbl
  | bt, .nil => bt
  | bt, .cons k cv cs =>
    mergeTbl (match bt.get k with
              | some bv => bt.set k (merge bv cv)
              | none => bt.snoc k cv) cs
end

mutual
/-- `strip_reset_markers` -/
def strip : Value → Value
  | .tbl fs => .tbl (stripTbl fs)
  | .arr xs => .arr (stripHead xs)
  | v => v
/-- "remove the reset marker if it is the first element", then strip every remaining element -/
def stripHead : Arr → Arr
  | .nil => .nil
  | .cons v rest => if isResetElem v then stripArr rest else .cons (strip v) (stripArr rest)
def stripArr : Arr → Arr
  | .nil => .nil
  | .cons v vs => .cons (strip v) (stripArr vs)
def stripTbl : Tbl → Tbl
  | .nil => .nil
  | .cons k v fs => .cons k (strip v) (stripTbl fs)
end

mutual
/-- `validate_reset_positions`: `true` = ok (no marker at an index > 0 of any array) -/
def validReset : Value → Bool
  | .tbl fs => validResetTbl fs
  | .arr xs => validResetHead xs
  | _ => true
/-- index 0 may be a marker; it must be valid inside -/
def validResetHead : Arr → Bool
  | .nil => true
  | .cons v rest => validReset v && validResetTail rest
/-- elements at index ≥ 1: must not be markers, and must be valid inside -/
def validResetTail : Arr → Bool
  | .nil => true
  | .cons v vs => !isResetElem v && validReset v && validResetTail vs
def validResetTbl : Tbl → Bool
  | .nil => true
  | .cons _ v fs => validReset v && validResetTbl fs
end

mutual
/-- no array anywhere in the value holds a reset element -/
def noMarker : Value → Bool
  | .tbl fs => noMarkerTbl fs
  | .arr xs => noMarkerArr xs
  | _ => true
def noMarkerArr : Arr → Bool
  | .nil => true
  | .cons v vs => !isResetElem v && noMarker v && noMarkerArr vs
def noMarkerTbl : Tbl → Bool
  | .nil => true
  | .cons _ v fs => noMarker v && noMarkerTbl fs
end

end SlocModel.Toml
