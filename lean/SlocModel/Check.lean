import SlocModel.Threshold
import SlocModel.Structure
import SlocModel.Baseline
/-!
  Model of one `check` run (src/commands/check/runner.rs `run_check_with_context`): scanning and
  scoping, per-file verdicts (C05's `Threshold.verdict`), structure findings (C06's
  `Structure.checkDir`), baseline comparison, ratchet, update and exit code (C09–C11's
  `Baseline.run`).

  Which patterns match which path, which files an ignore file hides, whether a file can be read
  and whether its extension has a language are facts of the project tree (parameters, computed by
  the harness with `globset`, `git check-ignore` and the language table); line counts come from
  C03's counter.
-/
namespace SlocModel.Check
open SlocModel

abbrev Key := Baseline.Key

/-- one regular file below the scan roots -/
structure FileIn where
  key : Key
  pruned : Bool              -- hidden by an ignore file (when enabled) or by `scanner.exclude` / `--exclude`
  contentExcluded : Bool     -- `content.exclude`
  extAllowed : Bool          -- `content.extensions` (after `--ext`) is empty or lists the extension
  ruleMatches : List Bool    -- one per `[[content.rules]]`
  langKnown : Bool           -- the extension has a (built-in or custom) language
  readable : Bool
  ignoredByDirective : Bool  -- `sloc-guard:ignore-file` among the first lines
  stats : Threshold.Stats

/-- one scanned directory -/
structure DirIn where
  key : Key
  scopeMatches : List Bool   -- one per `[[structure.rules]]`
  stats : Structure.DirStats

/-- `ThresholdChecker::should_process` -/
def shouldProcess (f : FileIn) : Bool :=
  !f.contentExcluded && (f.extAllowed || f.ruleMatches.any id)

/-- the documented scoping: not hidden, not excluded, and selected by extension or by a rule -/
def inScope (f : FileIn) : Bool := !f.pruned && shouldProcess f

/-- files that reach the counter and the threshold check -/
def counted (f : FileIn) : Bool :=
  inScope f && f.langKnown && f.readable && !f.ignoredByDirective

def toStatus : Threshold.Status → Baseline.Status
  | .passed => .passed
  | .warning => .warning
  | .failed => .failed

/-- `process_file_for_check` -/
def contentRes (g : Threshold.Global) (rules : List Threshold.Rule) (f : FileIn) : Option Baseline.Res :=
  if counted f then
    let v := Threshold.verdict g rules f.ruleMatches f.stats
    some { path := f.key, status := toStatus v.status, kind := .content, count := v.eff }
  else none

def findingRes (k : Key) (x : Structure.Finding) : Baseline.Res :=
  { path := k,
    status := match x.severity with | .failed => .failed | .warning => .warning,
    kind := match x.metric with | .files => .files | .dirs => .dirs | .depth => .otherStructure,
    count := x.actual }

/-- `StructureChecker::check` for one directory -/
def dirRes (sg : Structure.Fields) (srules : List Structure.Rule) (d : DirIn) : List Baseline.Res :=
  (Structure.checkDir sg (srules.zip d.scopeMatches) d.stats).map (findingRes d.key)

structure Config where
  content : Threshold.Global
  rules : List Threshold.Rule
  structureOn : Bool                 -- structure checks enabled and not `--files` mode
  sglobal : Structure.Fields
  srules : List Structure.Rule

/-- the results before baseline comparison, in the order of the run: files in scan order, then
    placement findings (C07, given), then directory limits, then sibling findings (C07, given) -/
def rawResults (c : Config) (files : List FileIn) (dirs : List DirIn)
    (placement siblings : List Baseline.Res) : List Baseline.Res :=
  files.filterMap (contentRes c.content c.rules) ++
    (if c.structureOn then placement ++ dirs.flatMap (dirRes c.sglobal c.srules) ++ siblings else [])

/-- the paths this run evaluated (for the ratchet) -/
def evaluated (c : Config) (files : List FileIn) (dirs : List DirIn)
    (placement siblings : List Baseline.Res) : List Key :=
  (rawResults c files dirs placement siblings).map (·.path) ++ (if c.structureOn then dirs.map (·.key) else [])

/-- one `check` run after the configuration gate (C17) -/
def checkRun (c : Config) (files : List FileIn) (dirs : List DirIn) (placement siblings : List Baseline.Res)
    (disk : Option Baseline.Base) (f : Baseline.Flags) : Baseline.Outcome :=
  Baseline.run disk (rawResults c files dirs placement siblings) (evaluated c files dirs placement siblings) f

end SlocModel.Check
