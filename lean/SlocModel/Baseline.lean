import SlocModel.Generated.Consts
/-!
  Model of the baseline pipeline of `check`:
  src/commands/check/check_baseline_ops.rs (`apply_baseline_comparison`,
  `check_baseline_ratchet` / `handle_baseline_ratchet`, `update_baseline_from_results`),
  src/commands/check/check_exit.rs (`determine_exit_code`) and the order in which
  `run_check_with_context` composes them, including the fail-fast trigger.

  A result is what one processed file or one structure finding contributes; file hashing and
  JSON (de)serialisation are parameters (the stored content hash is opaque).
-/
namespace SlocModel.Baseline
open SlocModel

abbrev Key := List Char

inductive Status where
  | passed | warning | failed | grandfathered
  deriving DecidableEq, Repr

/-- `ViolationCategory` as far as the baseline cares -/
inductive Kind where
  | content          -- line-count result of a file
  | files            -- structure: file count of a directory
  | dirs             -- structure: sub-directory count
  | otherStructure   -- depth, placement, naming, sibling …: not baselinable
  deriving DecidableEq, Repr

structure Res where
  path : Key
  status : Status
  kind : Kind
  count : Nat           -- `stats().code`: lines, or the offending count
  deriving DecidableEq, Repr

/-- `BaselineEntry` -/
inductive Entry where
  | content (lines : Nat)
  | structure (isFiles : Bool) (count : Nat)
  deriving DecidableEq, Repr

def Entry.isStructure : Entry → Bool
  | .structure .. => true
  | .content _ => false

/-- the `files` map of a `Baseline` as an association list with unique keys -/
abbrev Base := List (Key × Entry)

def Base.contains (b : Base) (k : Key) : Bool := b.any (fun e => e.1 = k)
def Base.remove (b : Base) (k : Key) : Base := b.filter (fun e => e.1 ≠ k)
/-- `HashMap::insert` -/
def Base.set (b : Base) (k : Key) (e : Entry) : Base := b.remove k ++ [(k, e)]
def Base.keys (b : Base) : List Key := b.map (·.1)

/-- a kind of violation for which `update_baseline_from_results` writes an entry -/
def Kind.recordable : Kind → Bool
  | .otherStructure => false
  | _ => true

/-- `apply_baseline_comparison`: a failed result of a recordable kind whose path has an entry
    becomes grandfathered (fix f5486fc: results of the other kinds are left alone) -/
def apply (rs : List Res) (b : Base) : List Res :=
  rs.map (fun r => if r.status = .failed && r.kind.recordable && b.contains r.path
    then { r with status := .grandfathered } else r)

inductive UpdateMode where
  | all | content | structure | new
  deriving DecidableEq, Repr

def Kind.isStructure : Kind → Bool
  | .content => false
  | _ => true

/-- still violating: failed, or failed-but-grandfathered -/
def Res.violating (r : Res) : Bool := r.status = .failed || r.status = .grandfathered

/-- the entry `update_baseline_from_results` writes for a violating result, if any -/
def entryOf (r : Res) : Option Entry :=
  match r.kind with
  | .content => some (.content r.count)
  | .files => some (.structure true r.count)
  | .dirs => some (.structure false r.count)
  | .otherStructure => none

/-- starting point of an update: `new` keeps every existing entry; `content` / `structure`
    keep the existing entries of the *other* kind; `all` starts empty -/
def updateStart (mode : UpdateMode) (existing : Base) : Base :=
  match mode with
  | .all => []
  | .new => existing
  | .content => existing.filter (fun e => e.2.isStructure)
  | .structure => existing.filter (fun e => !e.2.isStructure)

/-- the mode filter of `update_baseline_from_results` -/
def includes (mode : UpdateMode) (acc : Base) (r : Res) : Bool :=
  match mode with
  | .all => true
  | .content => !r.kind.isStructure
  | .structure => r.kind.isStructure
  | .new => !acc.contains r.path

def updateStep (mode : UpdateMode) (acc : Base) (r : Res) : Base :=
  if r.violating && includes mode acc r then
    match entryOf r with
    | some e => acc.set r.path e
    | none => acc
  else acc

/-- `update_baseline_from_results` -/
def update (mode : UpdateMode) (rs : List Res) (existing : Option Base) : Base :=
  rs.foldl (updateStep mode) (updateStart mode (existing.getD []))

inductive RatchetMode where
  | warn | auto | strict
  deriving DecidableEq, Repr

/-- stale = recorded, evaluated in this run, and no longer violating -/
def stale (b : Base) (rs : List Res) (evaluated : List Key) : List Key :=
  b.keys.filter (fun k => evaluated.contains k && !(rs.any (fun r => r.path = k && r.violating)))

/-- `determine_exit_code` -/
def exitCode (rs : List Res) (warnOnly wae ratchetFailed : Bool) : Int :=
  if warnOnly then Generated.exitSuccess
  else if rs.any (·.status = .failed) || (wae && rs.any (·.status = .warning)) || ratchetFailed
  then Generated.exitThreshold else Generated.exitSuccess

structure Flags where
  baselineGiven : Bool            -- `--baseline <path>` on the command line
  update : Option UpdateMode      -- `--update-baseline[=mode]`
  ratchet : Option RatchetMode    -- flag, else `[baseline] ratchet`
  warnOnly : Bool
  wae : Bool                      -- warnings-as-errors / strict / config
  deriving DecidableEq, Repr

inductive Outcome where
  | done (results : List Res) (disk : Option Base) (exit : Int) (staleReported : List Key)
  | configError                   -- exit 2: `--baseline` names a missing file
  deriving DecidableEq, Repr

/-- 3. only an explicitly named baseline is loaded -/
def loadedOf (disk : Option Base) (f : Flags) : Option Base := if f.baselineGiven then disk else none

/-- 7. grandfather -/
def grandfather (loaded : Option Base) (rs : List Res) : List Res :=
  match loaded with
  | some b => apply rs b
  | none => rs

/-- 7.0.1 stale entries the ratchet looks at (none without a mode or without a loaded baseline) -/
def staleOf (f : Flags) (loaded : Option Base) (rs1 : List Res) (evaluated : List Key) : List Key :=
  match f.ratchet, loaded with
  | some _, some b => stale b rs1 evaluated
  | _, _ => []

/-- `--ratchet=auto`: the in-memory baseline and the file after tightening -/
def afterRatchet (f : Flags) (loaded disk : Option Base) (st : List Key) : Option Base × Option Base :=
  match f.ratchet, loaded with
  | some .auto, some b =>
    if st.isEmpty then (loaded, disk)
    else (some (b.filter (fun e => !st.contains e.1)), some (b.filter (fun e => !st.contains e.1)))
  | _, _ => (loaded, disk)

/-- 7.0.2 `--update-baseline` -/
def afterUpdate (f : Flags) (rs1 : List Res) (loaded' disk' : Option Base) : Option Base :=
  match f.update with
  | some m => some (update m rs1 loaded')
  | none => disk'

/-- steps 3, 7, 7.0.1, 7.0.2 and 10 of `run_check_impl` / `run_check_with_context`.
    `disk` is the baseline file at the effective path (`--baseline` or the default path);
    `rs` are the results before baseline comparison; `evaluated` the paths this run looked at. -/
def run (disk : Option Base) (rs : List Res) (evaluated : List Key) (f : Flags) : Outcome :=
  if f.baselineGiven && disk.isNone && f.update.isNone then .configError else
  let loaded := loadedOf disk f
  let rs1 := grandfather loaded rs
  let st := staleOf f loaded rs1 evaluated
  let ar := afterRatchet f loaded disk st
  .done rs1 (afterUpdate f rs1 ar.1 ar.2)
    (exitCode rs1 f.warnOnly f.wae (f.ratchet = some .strict && !st.isEmpty)) st

/-- what a completed run returns, piece by piece -/
theorem run_done (disk : Option Base) (rs : List Res) (ev : List Key) (f : Flags)
    (rs' : List Res) (d' : Option Base) (e : Int) (st : List Key)
    (h : run disk rs ev f = .done rs' d' e st) :
    rs' = grandfather (loadedOf disk f) rs ∧
    st = staleOf f (loadedOf disk f) rs' ev ∧
    e = exitCode rs' f.warnOnly f.wae (f.ratchet = some .strict && !st.isEmpty) ∧
    d' = afterUpdate f rs' (afterRatchet f (loadedOf disk f) disk st).1
           (afterRatchet f (loadedOf disk f) disk st).2 := by
  unfold run at h
  split at h
  · cases h
  · simp only at h
    injection h with h1 h2 h3 h4
    subst h1; subst h4
    exact ⟨rfl, rfl, h3.symm, h2.symm⟩

/-! ### fail-fast -/

/-- a result that sets the fail-fast flag: a failure the baseline does not grandfather.
    (The guard in `runner.rs` looks at file results, which are line-count results: for them
    `recordable` is true and the condition is `failed ∧ path not recorded`, `triggers_content`.) -/
def triggers (loaded : Option Base) (r : Res) : Bool :=
  r.status = .failed && !(match loaded with
    | some b => r.kind.recordable && b.contains r.path
    | none => false)

theorem triggers_content (loaded : Option Base) (r : Res) (h : r.kind = .content) :
    triggers loaded r = (r.status = .failed && !(match loaded with
      | some b => b.contains r.path
      | none => false)) := by
  unfold triggers; cases loaded <;> simp [h, Kind.recordable]

/-- A set of processed files (given by a keep-mask over the file results) is *admissible* for a
    fail-fast run if files are only skipped after some processed file triggered the flag. -/
def admissible (loaded : Option Base) (files : List Res) (mask : List Bool) : Bool :=
  mask.length = files.length &&
  (mask.all id || (files.zip mask).any (fun p => p.2 && triggers loaded p.1))

/-- `fail_fast` of `run_check_with_context`: the flag or the configuration, and never in a run
    that rewrites the baseline -/
def effectiveFailFast (flagOrConfig : Bool) (f : Flags) : Bool := flagOrConfig && f.update.isNone

def processed (files : List Res) (mask : List Bool) : List Res :=
  (files.zip mask).filterMap (fun p => if p.2 then some p.1 else none)

end SlocModel.Baseline
