import SlocModel.Toml
/-!
  Model of src/config/extends.rs (`ExtendsResolver`) for local files and presets.

  The file system is a finite map from canonical names to parsed values; the harness resolves
  each `extends` spelling (absolute, relative to the referrer, dotted) to its canonical name
  with the same mock file system the real resolver uses, so path canonicalisation is a
  parameter.  Remote references are C18's subject and end resolution with `.remote` here.
-/
namespace SlocModel.Extends
open SlocModel SlocModel.Toml

abbrev Name := List Char

inductive Err where
  | fileAccess (name : Name)
  | tooDeep (depth : Nat) (chain : List Name)
  | circular (chain : List Name)
  | resetPosition
  | unknownPreset (name : Name)
  | remote
  | badExtends
  | outOfFuel
  deriving DecidableEq, Repr

def lookup (fs : List (Name × Value)) (n : Name) : Option Value :=
  match fs with
  | [] => none
  | (k, v) :: rest => if k = n then some v else lookup rest n

def extendsKey : Key := ['e','x','t','e','n','d','s']
def extendsShaKey : Key := ['e','x','t','e','n','d','s','_','s','h','a','2','5','6']
def presetPrefix : List Char := ['p','r','e','s','e','t',':']

/-- `config_value.get("extends").and_then(Value::as_str)` -/
def extendsOf : Value → Option (List Char)
  | .tbl fs => match fs.get extendsKey with
    | some v => strOf v
    | none => none
  | _ => none

def isStr : Value → Bool
  | .str _ => true
  | _ => false

/-- an `extends` / `extends_sha256` key whose value is not a string (rejected, not dropped) -/
def extendsBad : Value → Bool
  | .tbl fs =>
    (match fs.get extendsKey with | some v => !isStr v | none => false) ||
    (match fs.get extendsShaKey with | some v => !isStr v | none => false)
  | _ => false

def removeExtends : Value → Value
  | .tbl fs => .tbl ((fs.remove extendsKey).remove extendsShaKey)
  | v => v

/-- `is_remote_url` -/
def isRemote (s : List Char) : Bool :=
  ['h','t','t','p',':','/','/'].isPrefixOf s || ['h','t','t','p','s',':','/','/'].isPrefixOf s

/-- tail of `process_config_value`: drop the extends keys, validate marker positions, strip -/
def finish (v : Value) : Except Err Value :=
  if validReset (removeExtends v) then .ok (strip (removeExtends v)) else .error .resetPosition

/-- `finish`, paired with the visited set -/
def wrapFinish (v : Value) (visited : List Name) : Except Err (Value × List Name) :=
  match finish v with
  | .ok r => .ok (r, visited)
  | .error e => .error e

/-- `load_with_extends` → `load_with_extends_from_value` → `process_config_value`.
    Returns the merged value and the visited set (an `IndexSet`, insertion ordered). -/
def resolve (fs : List (Name × Value)) (presets : List (Name × Value)) :
    Nat → Name → List Name → Nat → Except Err (Value × List Name)
  | 0, _, _, _ => .error .outOfFuel
  | fuel + 1, name, visited, depth =>
    match lookup fs name with
    | none => .error (.fileAccess name)
    | some v =>
      if depth > Generated.maxExtendsDepth then .error (.tooDeep depth visited)
      else if visited.contains name then .error (.circular (visited ++ [name]))
      else if extendsBad v then .error .badExtends
      else
        match extendsOf v with
        | none => wrapFinish v (visited ++ [name])
        | some e =>
          if presetPrefix.isPrefixOf e then
            match lookup presets (e.drop presetPrefix.length) with
            | none => .error (.unknownPreset (e.drop presetPrefix.length))
            | some base => wrapFinish (merge base v) (visited ++ [name])
          else if isRemote e then .error .remote
          else
            match resolve fs presets fuel e (visited ++ [name]) (depth + 1) with
            | .error err => .error err
            | .ok (base, visited'') => wrapFinish (merge base v) visited''

/-- enough fuel for any reference graph: depth grows by one per step and is cut at the maximum -/
def defaultFuel : Nat := Generated.maxExtendsDepth + 2

/-- `--no-extends` / a file without `extends`: the leaf alone
    (`parse_config_with_reset_handling`: validate + strip; the `extends` key, if any, is kept
    as an inert string) -/
def leafOnly (v : Value) : Except Err Value :=
  if validReset v then .ok (strip v) else .error .resetPosition

end SlocModel.Extends
