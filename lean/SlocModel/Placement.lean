/-!
  Model of the placement ladders of src/scanner/directory.rs
  (`check_allowlist_violations` for files, the directory part of `process_directory`) and of the
  rule selection `find_matching_allowlist_rule` (src/scanner/structure_config.rs).

  Every list-membership test (extension lists, file-name globs, path globs, naming regex) is a
  parameter bit computed by the real matchers; the model is the decision logic on those bits.
-/
namespace SlocModel.Placement

/-- the three list families a file is tested against: extension list, file-name globs,
    path / name patterns -/
structure ListHits where
  ext : Bool
  file : Bool
  pattern : Bool
  deriving DecidableEq, Repr

/-- `file_matches` / `file_matches_deny` / the global variants: the lists combine by OR -/
def ListHits.any (h : ListHits) : Bool := h.ext || h.file || h.pattern

/-- what a `[[structure.rules]]` entry with placement fields says about one *file* -/
structure FileRuleBits where
  scopeMatches : Bool        -- the rule's scope matches the file's parent directory
  hasAllowlist : Bool        -- allow_extensions / allow_patterns / allow_files non-empty
  allow : ListHits           -- which allow lists the file is in
  deny : ListHits            -- which deny lists the file is in
  hasNaming : Bool
  namingOk : Bool
  deriving DecidableEq, Repr

def FileRuleBits.allowMatch (r : FileRuleBits) : Bool := r.allow.any
def FileRuleBits.denyMatch (r : FileRuleBits) : Bool := r.deny.any

structure FileGlobalBits where
  hasAllowlist : Bool        -- global allow_extensions / allow_files non-empty
  allow : ListHits
  deny : ListHits            -- global deny_extensions / deny_files / deny_patterns
  deriving DecidableEq, Repr

def FileGlobalBits.allowMatch (g : FileGlobalBits) : Bool := g.allow.any
def FileGlobalBits.denyMatch (g : FileGlobalBits) : Bool := g.deny.any

inductive Origin where
  | global
  | rule (i : Nat)
  deriving DecidableEq, Repr

inductive FileFinding where
  | disallowed (o : Origin)
  | denied (o : Origin)
  | naming (o : Origin)
  deriving DecidableEq, Repr

/-- `find_matching_allowlist_rule`, repaired: the **last** declared rule (among those that carry
    placement fields) whose scope matches — the same rule `explain` and the limits use -/
def selectRule {α : Type} (scope : α → Bool) : List α → Nat → Option (Nat × α) → Option (Nat × α)
  | [], _, acc => acc
  | r :: rest, i, acc => selectRule scope rest (i + 1) (if scope r then some (i, r) else acc)

/-- `check_allowlist_violations`: at most one finding per file -/
def checkFile (g : FileGlobalBits) (rules : List FileRuleBits) : Option FileFinding :=
  let sel := selectRule (·.scopeMatches) rules 0 none
  -- 1. global level
  let globalStop : Option FileFinding :=
    if g.hasAllowlist then
      (if !g.allowMatch then some (.disallowed .global) else none)
    else
      let overridden := match sel with
        | some (_, r) => r.hasAllowlist && r.allowMatch
        | none => false
      if !overridden && g.denyMatch then some (.denied .global) else none
  match globalStop with
  | some f => some f
  | none =>
    -- 2. the selected rule: deny before allow, naming only for permitted files
    match sel with
    | none => none
    | some (i, r) =>
      if r.denyMatch then some (.denied (.rule i))
      else if r.hasAllowlist && !r.allowMatch then some (.disallowed (.rule i))
      else if r.hasNaming && !r.namingOk then some (.naming (.rule i))
      else none

structure DirRuleBits where
  scopeMatches : Bool        -- scope matches the directory's *parent*
  hasDirAllowlist : Bool
  dirAllowMatch : Bool
  dirDenyMatch : Bool
  deriving DecidableEq, Repr

structure DirGlobalBits where
  hasDirAllowlist : Bool
  dirAllowMatch : Bool
  denyPatternMatch : Bool    -- deny_patterns ending in `/`
  denyBasenameMatch : Bool   -- deny_dirs
  deriving DecidableEq, Repr

inductive DirFinding where
  | disallowed (o : Origin)
  | deniedPattern (o : Origin)
  | deniedBasename (o : Origin)
  deriving DecidableEq, Repr

/-- the directory ladder of `process_directory` (a directory can receive several findings) -/
def checkDirPlacement (g : DirGlobalBits) (rules : List DirRuleBits) : List DirFinding :=
  let sel := selectRule (·.scopeMatches) rules 0 none
  let globalPart : List DirFinding :=
    if g.hasDirAllowlist then
      (if !g.dirAllowMatch then [.disallowed .global] else [])
    else
      let overridden := match sel with
        | some (_, r) => r.hasDirAllowlist && r.dirAllowMatch
        | none => false
      if overridden then []
      else (if g.denyPatternMatch then [.deniedPattern .global] else []) ++
           (if g.denyBasenameMatch then [.deniedBasename .global] else [])
  let rulePart : List DirFinding :=
    match sel with
    | none => []
    | some (i, r) =>
      if r.hasDirAllowlist then (if !r.dirAllowMatch then [.disallowed (.rule i)] else [])
      else if r.dirDenyMatch then [.deniedBasename (.rule i)] else []
  globalPart ++ rulePart

end SlocModel.Placement
