/-!
  `path_to_uri` of src/output/sarif.rs: the bytes of a relative path, percent-encoded for a
  SARIF `artifactLocation.uri` (RFC 3986 unreserved characters and `/` are kept, every other
  byte becomes `%XX` with upper-case hexadecimal digits), and the decoder a consumer applies.
-/
namespace SlocModel.Uri

def unreserved (b : Nat) : Bool :=
  (65 ≤ b && b ≤ 90) || (97 ≤ b && b ≤ 122) || (48 ≤ b && b ≤ 57) || b = 45 || b = 46 || b = 95 || b = 126 || b = 47

def hexDigit (n : Nat) : Nat := if n < 10 then 48 + n else 55 + n     -- '0'..'9', 'A'..'F'

def encodeByte (b : Nat) : List Nat :=
  if unreserved b then [b] else [37, hexDigit (b / 16), hexDigit (b % 16)]

/-- `path_to_uri` on the bytes of the path -/
def pathToUri (bs : List Nat) : List Nat := bs.flatMap encodeByte

def hexVal (c : Nat) : Option Nat :=
  if 48 ≤ c && c ≤ 57 then some (c - 48)
  else if 65 ≤ c && c ≤ 70 then some (c - 55)
  else none

/-- percent-decoding (upper-case digits, as the encoder writes them) -/
def decode : List Nat → Option (List Nat)
  | [] => some []
  | 37 :: h :: l :: rest =>
    match hexVal h, hexVal l, decode rest with
    | some a, some b, some r => some ((a * 16 + b) :: r)
    | _, _, _ => none
  | 37 :: _ => none
  | c :: rest =>
    match decode rest with
    | some r => some (c :: r)
    | none => none

end SlocModel.Uri
