import SlocModel.Basic.F64
/-!  Lemmas about the exact f64 model: rounding is monotone and fixes representable numbers;
     hence the percentage warn point is monotone in the limit and never exceeds it for
     thresholds in [0,1].  Core Lean only. -/
namespace SlocModel.F64

theorem lt_pow_bitlen (n : Nat) : n < 2 ^ bitlen n := by
  unfold bitlen; split
  · subst_vars; simp
  · exact Nat.lt_log2_self

theorem pow_bitlen_le (n : Nat) (h : n ≠ 0) : 2 ^ (bitlen n - 1) ≤ n := by
  unfold bitlen; simp [h]; exact Nat.log2_self_le h

theorem bitlen_mono {a b : Nat} (h : a ≤ b) : bitlen a ≤ bitlen b := by
  by_cases ha : a = 0
  · simp [bitlen, ha]
  · have hb : b ≠ 0 := by omega
    have h1 := pow_bitlen_le a ha
    have h2 := lt_pow_bitlen b
    have : 2 ^ (bitlen a - 1) < 2 ^ bitlen b := by omega
    have := (Nat.pow_lt_pow_iff_right (by decide : 1 < 2)).mp this
    have hpos : 0 < bitlen a := by unfold bitlen; simp [ha]
    omega

theorem bitlen_le_of_lt_pow {n k : Nat} (h : n < 2 ^ k) : bitlen n ≤ k := by
  by_cases hn : n = 0
  · simp [bitlen, hn]
  · have h1 := pow_bitlen_le n hn
    have : 2 ^ (bitlen n - 1) < 2 ^ k := by omega
    have := (Nat.pow_lt_pow_iff_right (by decide : 1 < 2)).mp this
    have hpos : 0 < bitlen n := by unfold bitlen; simp [hn]
    omega

/-- bounds of rnd when rounding happens -/
theorem rnd_bounds (n : Nat) (h : P < bitlen n) :
    2 ^ (bitlen n - 1) ≤ rnd n ∧ rnd n ≤ 2 ^ bitlen n := by
  have hn0 : n ≠ 0 := by intro h0; subst h0; simp [bitlen] at h
  have hlt := lt_pow_bitlen n
  have hle := pow_bitlen_le n hn0
  unfold rnd
  have hb : ¬ bitlen n ≤ P := by omega
  simp only [hb, if_false]
  generalize hs : bitlen n - P = s
  have hsplit : bitlen n = s + P := by omega
  have hpow : 2 ^ bitlen n = 2 ^ P * 2 ^ s := by rw [hsplit, Nat.pow_add, Nat.mul_comm]
  have hpow' : 2 ^ (bitlen n - 1) = 2 ^ (P - 1) * 2 ^ s := by
    have : bitlen n - 1 = (P - 1) + s := by unfold P at *; omega
    rw [this, Nat.pow_add]
  have hspos : 0 < 2 ^ s := Nat.pow_pos (by decide)
  have hq_lt : n / 2 ^ s < 2 ^ P := by
    apply (Nat.div_lt_iff_lt_mul hspos).mpr; rw [← hpow]; exact hlt
  have hq_ge : 2 ^ (P - 1) ≤ n / 2 ^ s := by
    apply (Nat.le_div_iff_mul_le hspos).mpr; rw [← hpow']; exact hle
  constructor
  · rw [hpow']
    split
    · exact Nat.mul_le_mul_right _ (by omega)
    · exact Nat.mul_le_mul_right _ hq_ge
  · rw [hpow]
    split
    · exact Nat.mul_le_mul_right _ (by omega)
    · exact Nat.mul_le_mul_right _ (by omega)

/-- Round-to-nearest-even at 53 bits is monotone. -/
theorem rnd_mono {a b : Nat} (hab : a ≤ b) : rnd a ≤ rnd b := by
  have hbl := bitlen_mono hab
  by_cases ha : bitlen a ≤ P
  · by_cases hb : bitlen b ≤ P
    · simp [rnd, ha, hb, hab]
    · have hb' : P < bitlen b := by omega
      have := (rnd_bounds b hb').1
      have h1 := lt_pow_bitlen a
      have : 2 ^ bitlen a ≤ 2 ^ (bitlen b - 1) := Nat.pow_le_pow_right (by decide) (by omega)
      have hra : rnd a = a := by simp [rnd, ha]
      omega
  · have ha' : P < bitlen a := by omega
    have hb' : P < bitlen b := by omega
    by_cases heq : bitlen a = bitlen b
    · unfold rnd
      have hna : ¬ bitlen a ≤ P := by omega
      have hnb : ¬ bitlen b ≤ P := by omega
      simp only [hnb, if_false, heq]
      generalize bitlen b - P = s
      have hspos : 0 < 2 ^ s := Nat.pow_pos (by decide)
      have hq : a / 2 ^ s ≤ b / 2 ^ s := Nat.div_le_div_right hab
      rcases Nat.lt_or_eq_of_le hq with hlt | heq2
      · calc _ ≤ (a / 2 ^ s + 1) * 2 ^ s := by
                apply Nat.mul_le_mul_right; split <;> omega
             _ ≤ (b / 2 ^ s) * 2 ^ s := Nat.mul_le_mul_right _ hlt
             _ ≤ _ := by apply Nat.mul_le_mul_right; split <;> omega
      · have hr : a % 2 ^ s ≤ b % 2 ^ s := by
          have h1 := Nat.div_add_mod a (2 ^ s)
          have h2 := Nat.div_add_mod b (2 ^ s)
          rw [heq2] at h1
          omega
        apply Nat.mul_le_mul_right
        rw [heq2]
        split <;> split <;> omega
    · have hlt : bitlen a < bitlen b := by omega
      have h1 := (rnd_bounds a ha').2
      have h2 := (rnd_bounds b hb').1
      have : 2 ^ bitlen a ≤ 2 ^ (bitlen b - 1) := Nat.pow_le_pow_right (by decide) (by omega)
      omega

theorem rnd_fix {n : Nat} (h : bitlen n ≤ P) : rnd n = n := by simp [rnd, h]

/-- a number with at most 53 significant bits followed by zeros is representable -/
theorem rnd_fix_shift (m k : Nat) (hm : m < 2 ^ P) : rnd (m * 2 ^ k) = m * 2 ^ k := by
  by_cases hb : bitlen (m * 2 ^ k) ≤ P
  · exact rnd_fix hb
  · unfold rnd
    simp only [hb, if_false]
    generalize hs : bitlen (m * 2 ^ k) - P = s
    -- m * 2^k < 2^(P + k) so bitlen ≤ P + k so s ≤ k
    have hlt : m * 2 ^ k < 2 ^ (P + k) := by
      rw [Nat.pow_add]; exact Nat.mul_lt_mul_of_pos_right hm (Nat.pow_pos (by decide))
    have hbl := bitlen_le_of_lt_pow hlt
    have hsk : s ≤ k := by omega
    have hk : k = (k - s) + s := by omega
    have hdvd : m * 2 ^ k = (m * 2 ^ (k - s)) * 2 ^ s := by
      conv => lhs; rw [hk, Nat.pow_add, ← Nat.mul_assoc]
    have hspos : 0 < 2 ^ s := Nat.pow_pos (by decide)
    have hr : (m * 2 ^ k) % 2 ^ s = 0 := by rw [hdvd]; exact Nat.mul_mod_left _ _
    have hq : (m * 2 ^ k) / 2 ^ s = m * 2 ^ (k - s) := by
      rw [hdvd]; exact Nat.mul_div_cancel _ hspos
    have hs0 : 0 < s := by omega
    have hhalf : 0 < 2 ^ (s - 1) := Nat.pow_pos (by decide)
    rw [hr, hq]
    have : ¬ (0 > 2 ^ (s - 1) ∨ (0 = 2 ^ (s - 1) ∧ m * 2 ^ (k - s) % 2 = 1)) := by omega
    simp only [this, if_false]
    exact hdvd.symm

theorem ceilDiv_mono {a b c : Nat} (h : a ≤ b) : ceilDiv a c ≤ ceilDiv b c := by
  unfold ceilDiv; exact Nat.div_le_div_right (by omega)

theorem ceilDiv_mul (a c : Nat) (hc : 0 < c) : ceilDiv (a * c) c = a := by
  unfold ceilDiv
  have : a * c + c - 1 = (c - 1) + c * a := by
    rw [Nat.mul_comm a c]; omega
  rw [this, Nat.add_mul_div_left _ _ hc]
  have : (c - 1) / c = 0 := Nat.div_eq_of_lt (by omega)
  omega

/-- The percentage warn point is monotone in the limit (any finite non-negative threshold). -/
theorem pctUnits_mono_limit {l l' : Nat} (u : Nat) (h : l ≤ l') :
    pctUnits l u ≤ pctUnits l' u := by
  unfold pctUnits
  have h1 : rnd l * u ≤ rnd l' * u := Nat.mul_le_mul_right _ (rnd_mono h)
  have h2 := ceilDiv_mono (c := one) (rnd_mono h1)
  omega

/-- … and monotone in the threshold. -/
theorem pctUnits_mono_units (l : Nat) {u u' : Nat} (h : u ≤ u') :
    pctUnits l u ≤ pctUnits l u' := by
  unfold pctUnits
  have h1 : rnd l * u ≤ rnd l * u' := Nat.mul_le_mul_left _ h
  have h2 := ceilDiv_mono (c := one) (rnd_mono h1)
  omega

theorem one_eq : one = 2 ^ 1074 := rfl
theorem one_pos : 0 < one := by rw [one_eq]; exact Nat.pow_pos (by decide)

/-- For thresholds in [0,1] and limits that fit a double exactly the warn point is ≤ limit. -/
theorem pctUnits_le_limit (l u : Nat) (hl : l < 2 ^ P) (hu : u ≤ one) :
    pctUnits l u ≤ l := by
  unfold pctUnits
  have hrl : rnd l = l := rnd_fix (bitlen_le_of_lt_pow hl)
  rw [hrl]
  have h1 : l * u ≤ l * one := Nat.mul_le_mul_left _ hu
  have h2 := rnd_mono h1
  have h3 : rnd (l * one) = l * one := by rw [one_eq]; exact rnd_fix_shift l 1074 hl
  have h4 := ceilDiv_mono (c := one) h2
  rw [h3, ceilDiv_mul l one one_pos] at h4
  generalize ceilDiv (rnd (l * u)) one = x at *
  omega

theorem pct_mono_limit {l l' : Nat} (bits : Nat) (h : l ≤ l') : pct l bits ≤ pct l' bits := by
  unfold pct
  split
  · exact Nat.le_refl _
  · split
    · exact Nat.le_refl _
    · split
      · split
        · exact Nat.le_refl _
        · exact Nat.zero_le _
      · have : ¬ l' = 0 := by omega
        simp [this]
  · split
    · exact Nat.le_refl _
    · exact pctUnits_mono_limit _ h

theorem pct_le_limit (l bits : Nat) (hl : l < 2 ^ P) (ht : inUnit bits = true) :
    pct l bits ≤ l := by
  unfold pct; unfold inUnit at ht
  split <;> simp_all
  split
  · exact Nat.zero_le _
  · rename_i hneg; simp [hneg] at ht; exact pctUnits_le_limit _ _ hl ht

end SlocModel.F64
