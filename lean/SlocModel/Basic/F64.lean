/-
  Exact integer model of the only floating-point computation sloc-guard performs on
  limits:   `(limit as f64 * threshold).ceil() as usize`
  (src/checker/threshold.rs `get_warn_limit_with_source_impl`,
   src/checker/structure/mod.rs `calculate_warn_limit`).

  Every finite non-negative f64 is an integer multiple of 2^-1074.  We therefore represent a
  finite non-negative double by the natural number of 2^-1074 units it contains; rounding a
  real product to the nearest double (ties to even) is then rounding a natural number to 53
  significant bits (`rnd`), for normal and subnormal results alike, and overflow to +inf
  is absorbed by the saturating `as usize` cast.
-/
namespace SlocModel.F64

def bitlen (n : Nat) : Nat := if n = 0 then 0 else Nat.log2 n + 1

/-- f64 significand precision -/
def P : Nat := 53

/-- round-to-nearest, ties-to-even, to `P` significant bits -/
def rnd (n : Nat) : Nat :=
  if bitlen n ≤ P then n else
    let s := bitlen n - P
    let q := n / 2 ^ s
    let r := n % 2 ^ s
    let half := 2 ^ (s - 1)
    let q' := if r > half ∨ (r = half ∧ q % 2 = 1) then q + 1 else q
    q' * 2 ^ s

/-- number of 2^-1074 units in 1.0 -/
def one : Nat := 2 ^ 1074

def usizeMax : Nat := 2 ^ 64 - 1

/-- decoded IEEE-754 binary64 -/
inductive Dec where
  | nan
  | inf (neg : Bool)
  | fin (neg : Bool) (units : Nat)   -- |value| = units * 2^-1074
  deriving Repr, DecidableEq

def decode (bits : Nat) : Dec :=
  let b := bits % 2 ^ 64
  let neg := b / 2 ^ 63 = 1
  let e := (b / 2 ^ 52) % 2 ^ 11
  let m := b % 2 ^ 52
  if e = 2047 then (if m = 0 then .inf neg else .nan)
  else if e = 0 then .fin neg m
  else .fin neg ((2 ^ 52 + m) * 2 ^ (e - 1))

def ceilDiv (a b : Nat) : Nat := (a + b - 1) / b

/-- `(limit as f64 * t).ceil() as usize` for a finite non-negative `t` given in units. -/
def pctUnits (limit units : Nat) : Nat :=
  min (ceilDiv (rnd (rnd limit * units)) one) usizeMax

/-- `(limit as f64 * f64::from_bits(bits)).ceil() as usize`, `limit < 2^64`. -/
def pct (limit bits : Nat) : Nat :=
  match decode bits with
  | .nan => 0
  | .inf neg => if neg then 0 else if limit = 0 then 0 else usizeMax
  | .fin neg u => if neg then 0 else pctUnits limit u

/-- `0.0 ≤ t ∧ t ≤ 1.0` as the Rust validation `(0.0..=1.0).contains(&t)` evaluates it
    (`-0.0` is inside, NaN is outside). -/
def inUnit (bits : Nat) : Bool :=
  match decode bits with
  | .nan => false
  | .inf _ => false
  | .fin neg u => if neg then u = 0 else u ≤ one

end SlocModel.F64
