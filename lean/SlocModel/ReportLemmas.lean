import SlocModel.Report
/-!
  Helper lemmas for Props/C20: insertion sort (permutation, sortedness, uniqueness), the string
  order, sums under permutation.
-/
namespace SlocModel.Report

/-! ### the stable insertion sort -/

theorem insertBy_perm {α : Type} (le : α → α → Bool) (x : α) : ∀ l : List α, (insertBy le x l).Perm (x :: l)
  | [] => by simp [insertBy]
  | y :: ys => by
    simp only [insertBy]
    split
    · exact List.Perm.refl _
    · exact ((insertBy_perm le x ys).cons y).trans (List.Perm.swap x y ys)

theorem sortBy_perm {α : Type} (le : α → α → Bool) : ∀ l : List α, (sortBy le l).Perm l
  | [] => by simp [sortBy]
  | x :: xs => by
    simp only [sortBy]
    exact (insertBy_perm le x _).trans ((sortBy_perm le xs).cons x)

theorem mem_insertBy {α : Type} (le : α → α → Bool) (x y : α) (l : List α) :
    y ∈ insertBy le x l ↔ y = x ∨ y ∈ l := by
  rw [(insertBy_perm le x l).mem_iff]; simp

theorem insertBy_pairwise {α : Type} (le : α → α → Bool)
    (total : ∀ a b, le a b = true ∨ le b a = true)
    (trans : ∀ a b c, le a b = true → le b c = true → le a c = true) (x : α) :
    ∀ l : List α, l.Pairwise (fun a b => le a b = true) →
      (insertBy le x l).Pairwise (fun a b => le a b = true)
  | [], _ => by simp [insertBy]
  | y :: ys, h => by
    simp only [insertBy]
    rw [List.pairwise_cons] at h
    split
    · rename_i hxy
      rw [List.pairwise_cons]
      refine ⟨?_, List.pairwise_cons.2 h⟩
      intro z hz
      rcases List.mem_cons.1 hz with rfl | hz
      · exact hxy
      · exact trans _ _ _ hxy (h.1 z hz)
    · rename_i hxy
      have hyx : le y x = true := by
        rcases total x y with h' | h'
        · exact absurd h' hxy
        · exact h'
      rw [List.pairwise_cons]
      refine ⟨?_, insertBy_pairwise le total trans x ys h.2⟩
      intro z hz
      rcases (mem_insertBy le x z ys).1 hz with rfl | hz
      · exact hyx
      · exact h.1 z hz

theorem sortBy_pairwise {α : Type} (le : α → α → Bool)
    (total : ∀ a b, le a b = true ∨ le b a = true)
    (trans : ∀ a b c, le a b = true → le b c = true → le a c = true) :
    ∀ l : List α, (sortBy le l).Pairwise (fun a b => le a b = true)
  | [] => by simp [sortBy]
  | x :: xs => by
    simp only [sortBy]
    exact insertBy_pairwise le total trans x _ (sortBy_pairwise le total trans xs)

/-- sorting two enumerations of the same elements gives the same list, provided the comparison is
    antisymmetric on them -/
theorem sortBy_perm_eq {α : Type} (le : α → α → Bool)
    (total : ∀ a b, le a b = true ∨ le b a = true)
    (trans : ∀ a b c, le a b = true → le b c = true → le a c = true)
    (l₁ l₂ : List α) (hp : l₁.Perm l₂)
    (anti : ∀ a b, a ∈ l₁ → b ∈ l₁ → le a b = true → le b a = true → a = b) :
    sortBy le l₁ = sortBy le l₂ := by
  apply List.Perm.eq_of_pairwise (le := fun a b => le a b = true)
  · intro a b ha hb
    have ha' : a ∈ l₁ := (sortBy_perm le l₁).mem_iff.1 ha
    have hb' : b ∈ l₁ := hp.mem_iff.2 ((sortBy_perm le l₂).mem_iff.1 hb)
    exact anti a b ha' hb'
  · exact sortBy_pairwise le total trans l₁
  · exact sortBy_pairwise le total trans l₂
  · exact (sortBy_perm le l₁).trans (hp.trans (sortBy_perm le l₂).symm)

/-! ### the string order -/

theorem strLt_irrefl : ∀ a : List Char, strLt a a = false
  | [] => rfl
  | c :: cs => by simp [strLt, strLt_irrefl cs]

theorem strLt_asymm : ∀ a b : List Char, strLt a b = true → strLt b a = false
  | [], [], h => by simp [strLt] at h
  | [], _ :: _, _ => by simp [strLt]
  | _ :: _, [], h => by simp [strLt] at h
  | a :: as, b :: bs, h => by
    simp only [strLt] at h ⊢
    by_cases h1 : a.toNat < b.toNat
    · have : ¬ b.toNat < a.toNat := by omega
      have : b.toNat > a.toNat := h1
      simp [*]
    · by_cases h2 : a.toNat > b.toNat
      · simp [h1, h2] at h
      · simp only [h1, h2, if_false] at h
        have e : ¬ b.toNat < a.toNat := by omega
        have e2 : ¬ b.toNat > a.toNat := by omega
        simp only [e, e2, if_false]
        exact strLt_asymm as bs h

theorem strLt_total : ∀ a b : List Char, a = b ∨ strLt a b = true ∨ strLt b a = true
  | [], [] => Or.inl rfl
  | [], _ :: _ => by simp [strLt]
  | _ :: _, [] => by simp [strLt]
  | a :: as, b :: bs => by
    by_cases h1 : a.toNat < b.toNat
    · right; left; simp [strLt, h1]
    · by_cases h2 : a.toNat > b.toNat
      · right; right
        have : b.toNat < a.toNat := h2
        simp [strLt, this]
      · have e : a.toNat = b.toNat := by omega
        have ec : a = b := Char.toNat_inj.mp e
        subst ec
        rcases strLt_total as bs with h | h | h
        · left; rw [h]
        · right; left; simp [strLt, h]
        · right; right; simp [strLt, h]

theorem strLt_trans : ∀ a b c : List Char, strLt a b = true → strLt b c = true → strLt a c = true
  | [], [], _, h, _ => by simp [strLt] at h
  | [], _ :: _, [], _, h => by simp [strLt] at h
  | [], _ :: _, _ :: _, _, _ => by simp [strLt]
  | _ :: _, [], _, h, _ => by simp [strLt] at h
  | _ :: _, _ :: _, [], _, h => by simp [strLt] at h
  | a :: as, b :: bs, c :: cs, h1, h2 => by
    simp only [strLt] at h1 h2 ⊢
    by_cases ab : a.toNat < b.toNat
    · by_cases bc : b.toNat < c.toNat
      · have : a.toNat < c.toNat := by omega
        simp [this]
      · by_cases cb : b.toNat > c.toNat
        · simp [bc, cb] at h2
        · have : a.toNat < c.toNat := by omega
          simp [this]
    · by_cases ba : a.toNat > b.toNat
      · simp [ab, ba] at h1
      · simp only [ab, ba, if_false] at h1
        have e : a.toNat = b.toNat := by omega
        by_cases bc : b.toNat < c.toNat
        · have : a.toNat < c.toNat := by omega
          simp [this]
        · by_cases cb : b.toNat > c.toNat
          · simp [bc, cb] at h2
          · simp only [bc, cb, if_false] at h2
            have n1 : ¬ a.toNat < c.toNat := by omega
            have n2 : ¬ a.toNat > c.toNat := by omega
            simp only [n1, n2, if_false]
            exact strLt_trans as bs cs h1 h2

/-! ### sums do not depend on the order of the files -/

theorem totals_foldl_perm (fs₁ fs₂ : List FileStat) (h : fs₁.Perm fs₂) (g : Group) :
    fs₁.foldl addFile g = fs₂.foldl addFile g := by
  induction h generalizing g with
  | nil => rfl
  | cons x _ ih => simp only [List.foldl_cons]; exact ih _
  | swap x y l =>
    simp only [List.foldl_cons]
    congr 1
    simp only [addFile, Group.mk.injEq, true_and]
    omega
  | trans _ _ ih1 ih2 => exact (ih1 g).trans (ih2 g)

theorem totals_perm (fs₁ fs₂ : List FileStat) (h : fs₁.Perm fs₂) : totals fs₁ = totals fs₂ :=
  totals_foldl_perm fs₁ fs₂ h _

theorem groupOf_perm (k : List Char) (fs₁ fs₂ : List FileStat) (h : fs₁.Perm fs₂) :
    groupOf k fs₁ = groupOf k fs₂ := by
  unfold groupOf
  rw [totals_perm _ _ (h.filter _)]

/-- the accumulated totals, field by field, as sums -/
theorem foldl_addFile_fields (fs : List FileStat) (g : Group) :
    (fs.foldl addFile g).key = g.key ∧ (fs.foldl addFile g).files = g.files + fs.length ∧
    (fs.foldl addFile g).total = g.total + (fs.map (·.total)).sum ∧
    (fs.foldl addFile g).code = g.code + (fs.map (·.code)).sum ∧
    (fs.foldl addFile g).comment = g.comment + (fs.map (·.comment)).sum ∧
    (fs.foldl addFile g).blank = g.blank + (fs.map (·.blank)).sum := by
  induction fs generalizing g with
  | nil => simp
  | cons f rest ih =>
    simp only [List.foldl_cons, List.length_cons, List.map_cons, List.sum_cons]
    have := ih (addFile g f)
    refine ⟨this.1, ?_, ?_, ?_, ?_, ?_⟩
    · rw [this.2.1]; simp only [addFile]; omega
    · rw [this.2.2.1]; simp only [addFile]; omega
    · rw [this.2.2.2.1]; simp only [addFile]; omega
    · rw [this.2.2.2.2.1]; simp only [addFile]; omega
    · rw [this.2.2.2.2.2]; simp only [addFile]; omega

end SlocModel.Report
