import SlocModel.Generated.Consts
import SlocModel.Counter.Text
/-!
  Model of src/stats/trend.rs (`TrendHistory`, `TrendDelta`), src/stats/duration.rs
  (`parse_duration`) and the snapshot decision of src/commands/snapshot.rs /
  src/commands/check/check_snapshot.rs.

  `u64` products are checked: where the Rust multiplies two `u64`s the model returns
  `none` (= panic under overflow checks, wrap-around in release) when the product does not fit.
-/
namespace SlocModel.Trend
open SlocModel

def u64Max : Nat := 2 ^ 64 - 1

/-- checked `u64` multiplication -/
def mulU64 (a b : Nat) : Option Nat := if a * b ≤ u64Max then some (a * b) else none

structure Totals where
  files : Nat
  lines : Nat
  code : Nat
  comment : Nat
  blank : Nat
  deriving DecidableEq, Repr

/-- `TrendEntry` (git ref / branch are carried along unchanged and not modelled) -/
structure Entry where
  ts : Nat
  totals : Totals
  deriving DecidableEq, Repr

/-- `TrendConfig` -/
structure Cfg where
  maxEntries : Option Nat
  maxAgeDays : Option Nat
  minIntervalSecs : Option Nat
  minCodeDelta : Option Nat
  deriving DecidableEq, Repr

/-- `should_add` (`saturating_sub` is truncated subtraction) -/
def shouldAdd (h : List Entry) (cfg : Cfg) (now : Nat) : Bool :=
  match cfg.minIntervalSecs with
  | none => true
  | some mi =>
    match h.getLast? with
    | none => true
    | some e => now - e.ts ≥ mi

/-- saturating `u64` multiplication -/
def satMulU64 (a b : Nat) : Nat := min (a * b) u64Max

/-- the age limit in seconds: `max_age_days.saturating_mul(86400)` -/
def ageSecs (d : Nat) : Nat := satMulU64 d Generated.trendSecondsPerDay

/-- `apply_retention` -/
def applyRetention (h : List Entry) (cfg : Cfg) (now : Nat) : List Entry :=
  let aged : List Entry :=
    match cfg.maxAgeDays with
    | none => h
    | some d => h.filter (fun e => e.ts ≥ now - ageSecs d)
  match cfg.maxEntries with
  | none => aged
  | some m => if aged.length > m then aged.drop (aged.length - m) else aged

inductive Outcome where
  | recorded | skipped | dryRun
  deriving DecidableEq, Repr

/-- `snapshot` (and, with `force = dryRun = false`, `perform_auto_snapshot`): the three clock
    reads are `tCheck` (interval test), `tEntry` (entry timestamp), `tRetain` (retention). -/
def snapshot (h : List Entry) (cfg : Cfg) (tCheck tEntry tRetain : Nat) (t : Totals)
    (force dryRun : Bool) : Outcome × List Entry :=
  let add := force || shouldAdd h cfg tCheck
  if dryRun then (.dryRun, h)
  else if !add then (.skipped, h)
  else (.recorded, applyRetention (h ++ [{ ts := tEntry, totals := t }]) cfg tRetain)

/-- step 11 of `run_check_with_context`: the auto-snapshot runs only after a passing check of
    the whole project -/
def autoSnapshotRuns (exitCode : Int) (enabled filesGiven diffGiven staged : Bool) : Bool :=
  exitCode = Generated.exitSuccess && enabled && !(filesGiven || diffGiven || staged)

/-- … and, since 412b4a1, only when fail-fast left no file unprocessed (`files_skipped`) -/
def autoSnapshotRuns' (exitCode : Int) (enabled filesGiven diffGiven staged filesSkipped : Bool) : Bool :=
  autoSnapshotRuns exitCode enabled filesGiven diffGiven staged && !filesSkipped

/-- the command line narrows the scan (fix 179de33): `--include`, `--exclude`, `--ext`, or a
    reduced scan target other than `.` (`targetsAreRoot` = every `canonical_target` is `.`) -/
def narrowedByArguments (includeGiven excludeGiven extGiven targetsAreRoot : Bool) : Bool :=
  includeGiven || excludeGiven || extGiven || !targetsAreRoot

/-- `whole_project_scanned` and the auto-snapshot condition of `run_check_impl` as they are now -/
def autoSnapshotRuns'' (exitCode : Int) (enabled filesGiven diffGiven staged filesSkipped
    includeGiven excludeGiven extGiven targetsAreRoot : Bool) : Bool :=
  autoSnapshotRuns' exitCode enabled filesGiven diffGiven staged filesSkipped &&
    !narrowedByArguments includeGiven excludeGiven extGiven targetsAreRoot

/-- `find_entry_at_or_before`: search backwards -/
def findAtOrBefore (h : List Entry) (t : Nat) : Option Entry := h.reverse.find? (fun e => e.ts ≤ t)

structure Delta where
  files : Int
  lines : Int
  code : Int
  comment : Int
  blank : Int
  prevTs : Nat
  deriving DecidableEq, Repr

/-- `TrendDelta::compute` -/
def delta (prev : Entry) (cur : Totals) : Delta :=
  { files := (cur.files : Int) - prev.totals.files, lines := (cur.lines : Int) - prev.totals.lines,
    code := (cur.code : Int) - prev.totals.code, comment := (cur.comment : Int) - prev.totals.comment,
    blank := (cur.blank : Int) - prev.totals.blank, prevTs := prev.ts }

/-- `compute_delta` (latest entry) -/
def deltaLatest (h : List Entry) (cur : Totals) : Option Delta := h.getLast?.map (delta · cur)

/-- `compute_delta_since` -/
def deltaSince (h : List Entry) (dur : Nat) (cur : Totals) (now : Nat) : Option Delta :=
  (findAtOrBefore h (now - dur)).map (delta · cur)

/-- `is_significant` -/
def isSignificant (d : Delta) (cfg : Cfg) : Bool :=
  d.files ≠ 0 || d.code.natAbs > cfg.minCodeDelta.getD Generated.defaultMinCodeDelta

/-! ### duration strings -/

inductive DurErr where
  | empty | missingUnit | missingNumber | badNumber | zero | badUnit | tooLarge
  deriving DecidableEq, Repr

inductive DurResult where
  | ok (secs : Nat)
  | err (e : DurErr)
  deriving DecidableEq, Repr

/-- `char::to_lowercase` restricted to what can produce one of the unit letters: ASCII
    upper case, and U+212A KELVIN SIGN ↦ `k` -/
def lowerChar (c : Char) : Char :=
  if 'A' ≤ c ∧ c ≤ 'Z' then Char.ofNat (c.toNat + 32)
  else if c.toNat = 0x212A then 'k' else c

def unitTable : List (List (List Char) × Nat) :=
  [ (["s".toList, "sec".toList, "secs".toList, "second".toList, "seconds".toList], 1),
    (["m".toList, "min".toList, "mins".toList, "minute".toList, "minutes".toList], Generated.secondsPerMinute),
    (["h".toList, "hr".toList, "hrs".toList, "hour".toList, "hours".toList], Generated.secondsPerHour),
    (["d".toList, "day".toList, "days".toList], Generated.secondsPerDay),
    (["w".toList, "wk".toList, "wks".toList, "week".toList, "weeks".toList], Generated.secondsPerWeek) ]

def multiplierOf (unit : List Char) : Option Nat :=
  (unitTable.find? (fun row => row.1.contains unit)).map (·.2)

def isAsciiDigit (c : Char) : Bool := '0' ≤ c && c ≤ '9'

/-- `parse_duration` -/
def parseDuration (input : List Char) : DurResult :=
  let s := Counter.trim input
  if s.isEmpty then .err .empty else
  let num := s.takeWhile isAsciiDigit
  let unit := s.dropWhile isAsciiDigit
  if unit.isEmpty then .err .missingUnit
  else if num.isEmpty then .err .missingNumber
  else
    match Counter.parseDigits num 0 with
    | none => .err .badNumber
    | some v =>
      if v > u64Max then .err .badNumber
      else if v = 0 then .err .zero
      else
        match multiplierOf (unit.map lowerChar) with
        | none => .err .badUnit
        | some m =>
          match mulU64 v m with
          | some r => .ok r
          | none => .err .tooLarge      -- `value.checked_mul(multiplier)` fails

end SlocModel.Trend
