import SlocModel.Glob
import SlocModel.Threshold
/-!
  Which files the threshold checker processes and which content rule governs them, computed from
  the *texts* of the patterns (`ThresholdChecker::should_process`, the last-match lookup of
  `get_limit_for_path` / `explain`, `normalize_for_matching`), on top of the glob model.
  Paths and patterns are code points.
-/
namespace SlocModel.Scope
open SlocModel.Glob

/-- one leading `./` (or `.\`) is dropped -/
def stripDot (p : List Nat) : List Nat :=
  match p with
  | 46 :: 47 :: r => r
  | 46 :: 92 :: r => r
  | _ => p

/-- `.` and the empty path become the empty path, backslashes become `/` -/
def finish (stripped : List Nat) : List Nat :=
  if stripped = [] || stripped = [46] then [] else stripped.map (fun c => if c = 92 then 47 else c)

/-- `normalize_for_matching` -/
def normalizeForMatching (p : List Nat) : List Nat := finish (stripDot p)

/-- a pattern that does not parse matches nothing (such a configuration is rejected at load) -/
def globIs (pat path : List Nat) : Bool :=
  match globMatch pat (utf8s path) with
  | .ok b => b
  | .error _ => false

def splitOn (sep : Nat) : List Nat → List Nat → List (List Nat)
  | [], cur => [cur.reverse]
  | c :: cs, cur => if c = sep then cur.reverse :: splitOn sep cs [] else splitOn sep cs (c :: cur)

/-- `Path::file_name` for the paths a walk produces (no trailing `..`) -/
def fileName (p : List Nat) : Option (List Nat) :=
  ((splitOn 47 p []).filter (fun s => s ≠ [] && s ≠ [46])).getLast?

def lastDot : List Nat → Nat → Option Nat → Option Nat
  | [], _, acc => acc
  | c :: cs, i, acc => lastDot cs (i + 1) (if c = 46 then some i else acc)

/-- `Path::extension`: what follows the last `.` of the file name, unless that dot leads the name -/
def extension (p : List Nat) : Option (List Nat) :=
  match fileName p with
  | none => none
  | some name =>
    if name = [46, 46] then none
    else match lastDot name 0 none with
      | none => none
      | some 0 => none
      | some i => some (name.drop (i + 1))

structure Cfg where
  exclude : List (List Nat)
  extensions : List (List Nat)
  rules : List (List Nat)          -- the patterns of `[[content.rules]]`, in file order

/-- `ThresholdChecker::should_process` -/
def shouldProcess (c : Cfg) (path : List Nat) : Bool :=
  let n := normalizeForMatching path
  if c.exclude.any (fun e => globIs e n) then false
  else if c.extensions.isEmpty then true
  else if (match extension path with | some e => c.extensions.contains e | none => false) then true
  else c.rules.any (fun r => globIs r n)

/-- the rule `check` and `explain` consult: the last one whose pattern matches the normalised path -/
def governingRule (c : Cfg) (path : List Nat) : Option Nat :=
  SlocModel.Threshold.lastMatch (c.rules.map (fun r => globIs r (normalizeForMatching path)))

end SlocModel.Scope
