/-!
  Model of the report layer: the per-format summary counting and row selection
  (src/output/{json,text,markdown,html,sarif}.rs), the project totals and breakdowns of
  src/output/stats/statistics.rs, `html_escape` (src/output/html.rs), and the registration of
  custom languages (src/language/registry.rs).

  Hash-map iteration order is an explicit parameter (`order`), so that the theorems can quantify
  over it.
-/
namespace SlocModel.Report

inductive Status where
  | passed | warning | failed | grandfathered
  deriving DecidableEq, Repr

structure Result where
  path : List Char
  status : Status
  deriving DecidableEq, Repr

structure Summary where
  total : Nat
  passed : Nat
  warnings : Nat
  failed : Nat
  grandfathered : Nat
  deriving DecidableEq, Repr

/-- one step of the fold used by the JSON, Markdown and HTML formatters:
    (passed, warnings, failed, grandfathered) -/
def countStep (acc : Nat × Nat × Nat × Nat) (r : Result) : Nat × Nat × Nat × Nat :=
  match r.status with
  | .passed => (acc.1 + 1, acc.2.1, acc.2.2.1, acc.2.2.2)
  | .warning => (acc.1, acc.2.1 + 1, acc.2.2.1, acc.2.2.2)
  | .failed => (acc.1, acc.2.1, acc.2.2.1 + 1, acc.2.2.2)
  | .grandfathered => (acc.1, acc.2.1, acc.2.2.1, acc.2.2.2 + 1)

def foldCounts (rs : List Result) : Nat × Nat × Nat × Nat := rs.foldl countStep (0, 0, 0, 0)

def foldSummary (rs : List Result) : Summary :=
  { total := rs.length, passed := (foldCounts rs).1, warnings := (foldCounts rs).2.1,
    failed := (foldCounts rs).2.2.1, grandfathered := (foldCounts rs).2.2.2 }

/-- the text formatter partitions the results into four vectors and reports their lengths -/
def partitionSummary (rs : List Result) : Summary :=
  { total := rs.length,
    passed := (rs.filter (·.status = .passed)).length,
    warnings := (rs.filter (·.status = .warning)).length,
    failed := (rs.filter (·.status = .failed)).length,
    grandfathered := (rs.filter (·.status = .grandfathered)).length }

inductive Format where
  | json | html | markdown | sarif | text (verbose : Bool)
  deriving DecidableEq, Repr

/-- the results a format lists, in the order it lists them -/
def rows : Format → List Result → List Result
  | .json, rs => rs
  | .html, rs => rs
  | .markdown, rs => rs.filter (·.status ≠ .passed)
  | .sarif, rs => rs.filter (·.status ≠ .passed)
  | .text verbose, rs =>
    rs.filter (·.status = .failed) ++ rs.filter (·.status = .warning) ++
      (if verbose then rs.filter (·.status = .grandfathered) ++ rs.filter (·.status = .passed) else [])

/-- SARIF encodes the status as a level (content and structure results alike) -/
def sarifLevel : Status → Option (List Char)
  | .passed => none
  | .warning => some "warning".toList
  | .failed => some "error".toList
  | .grandfathered => some "note".toList

/-! ### project statistics -/

structure FileStat where
  path : List Char
  key : List Char          -- language, or directory
  total : Nat
  code : Nat
  comment : Nat
  blank : Nat
  deriving DecidableEq, Repr

structure Group where
  key : List Char
  files : Nat
  total : Nat
  code : Nat
  comment : Nat
  blank : Nat
  deriving DecidableEq, Repr

/-- one step of the fold of `ProjectStatistics::new` (and of a breakdown entry) -/
def addFile (g : Group) (f : FileStat) : Group :=
  { g with files := g.files + 1, total := g.total + f.total, code := g.code + f.code,
           comment := g.comment + f.comment, blank := g.blank + f.blank }

def emptyGroup : Group := { key := [], files := 0, total := 0, code := 0, comment := 0, blank := 0 }

/-- `ProjectStatistics::new` -/
def totals (fs : List FileStat) : Group := fs.foldl addFile emptyGroup

/-- one entry of the hash map after all files were added -/
def groupOf (k : List Char) (fs : List FileStat) : Group :=
  { totals (fs.filter (·.key = k)) with key := k }

/-- lexicographic `String::cmp` on code points -/
def strLt : List Char → List Char → Bool
  | [], [] => false
  | [], _ :: _ => true
  | _ :: _, [] => false
  | a :: as, b :: bs => if a.toNat < b.toNat then true else if a.toNat > b.toNat then false else strLt as bs

/-- the comparison of the repaired sort: code descending, then key ascending -/
def groupLe (a b : Group) : Bool :=
  a.code > b.code || (a.code = b.code && (a.key = b.key || strLt a.key b.key))

/-- the comparison before the repair: code only -/
def groupLeCodeOnly (a b : Group) : Bool := a.code ≥ b.code

def insertBy {α : Type} (le : α → α → Bool) (x : α) : List α → List α
  | [] => [x]
  | y :: ys => if le x y then x :: y :: ys else y :: insertBy le x ys

/-- a stable sort (`slice::sort_by` is stable): of two elements that compare equal the one that
    came first stays first -/
def sortBy {α : Type} (le : α → α → Bool) : List α → List α
  | [] => []
  | x :: xs => insertBy le x (sortBy le xs)

/-- `with_language_breakdown` / `with_directory_breakdown_depth`: `order` is the order in which
    the hash map yields its keys (any enumeration of the distinct keys) -/
def breakdown (le : Group → Group → Bool) (order : List (List Char)) (fs : List FileStat) : List Group :=
  sortBy le (order.map (fun k => groupOf k fs))

/-! ### `html_escape` -/

/-- `str::replace(c, with)` for a single character -/
def replaceChar (c : Char) (w : List Char) : List Char → List Char
  | [] => []
  | x :: xs => if x = c then w ++ replaceChar c w xs else x :: replaceChar c w xs

/-- the five sequential replacements of `html_escape` -/
def htmlEscape (s : List Char) : List Char :=
  replaceChar '\'' "&#39;".toList
    (replaceChar '"' "&quot;".toList
      (replaceChar '>' "&gt;".toList
        (replaceChar '<' "&lt;".toList
          (replaceChar '&' "&amp;".toList s))))

/-- what the replacements amount to, character by character -/
def escapeChar (c : Char) : List Char :=
  if c = '&' then "&amp;".toList
  else if c = '<' then "&lt;".toList
  else if c = '>' then "&gt;".toList
  else if c = '"' then "&quot;".toList
  else if c = '\'' then "&#39;".toList
  else [c]

/-! ### custom languages -/

structure Custom where
  name : List Char
  exts : List (List Char)
  deriving DecidableEq, Repr

/-- `a.0.cmp(b.0) != Greater` -/
def nameLe (a b : Custom) : Bool := !(strLt b.name a.name)

/-- `ordered.sort_by(name)` -/
def sortByName (l : List Custom) : List Custom := sortBy nameLe l

/-- the owner of an extension after registering the customs in the given order over the
    built-in owner (`register` overwrites the extension map entry: the last registration wins) -/
def ownerAfter (builtin : Option (List Char)) (ext : List Char) : List Custom → Option (List Char)
  | [] => builtin
  | c :: rest => ownerAfter (if c.exts.contains ext then some c.name else builtin) ext rest

/-- `with_custom_languages_checked` (repaired): registration in name order, whatever order the
    hash map yields -/
def owner (builtin : Option (List Char)) (ext : List Char) (hashOrder : List Custom) : Option (List Char) :=
  ownerAfter builtin ext (sortByName hashOrder)

end SlocModel.Report
