import SlocModel.GitDiff
/-!
  Helper lemmas for Props/C19: the recursive tree comparison computes the flat difference.
-/
namespace SlocModel.GitDiff

/-! names are unique within every tree (git guarantees it) -/
mutual
def wfNode : Node → Bool
  | .tree t => wfTree t
  | _ => true
def wfTree : Tree → Bool
  | .nil => true
  | .cons name n rest => !rest.hasName name && wfNode n && wfTree rest
end

/-- the entries of one tree level -/
def Tree.entries : Tree → List (Name × Node)
  | .nil => []
  | .cons name n rest => (name, n) :: rest.entries

theorem hasName_iff : ∀ (t : Tree) (nm : Name), t.hasName nm = true ↔ ∃ n, (nm, n) ∈ t.entries
  | .nil, nm => by simp [Tree.hasName, Tree.entries]
  | .cons name n rest, nm => by
    simp only [Tree.hasName, Tree.entries, Bool.or_eq_true, decide_eq_true_eq, List.mem_cons,
      Prod.mk.injEq, hasName_iff rest nm]
    constructor
    · rintro (h | ⟨n', h⟩)
      · exact ⟨n, Or.inl ⟨h.symm, rfl⟩⟩
      · exact ⟨n', Or.inr h⟩
    · rintro ⟨n', (⟨h, _⟩ | h)⟩
      · exact Or.inl h.symm
      · exact Or.inr ⟨n', h⟩

theorem find_mem : ∀ (t : Tree) (nm : Name) (n : Node), t.find nm = some n → (nm, n) ∈ t.entries
  | .nil, _, _, h => by simp [Tree.find] at h
  | .cons name x rest, nm, n, h => by
    simp only [Tree.find] at h
    simp only [Tree.entries, List.mem_cons, Prod.mk.injEq]
    split at h
    · rename_i hn; cases h; exact Or.inl ⟨hn.symm, rfl⟩
    · exact Or.inr (find_mem rest nm n h)

theorem mem_find : ∀ (t : Tree) (nm : Name) (n : Node), wfTree t = true → (nm, n) ∈ t.entries →
    t.find nm = some n
  | .nil, _, _, _, h => by simp [Tree.entries] at h
  | .cons name x rest, nm, n, hw, h => by
    simp only [wfTree, Bool.and_eq_true, Bool.not_eq_true'] at hw
    simp only [Tree.entries, List.mem_cons, Prod.mk.injEq] at h
    simp only [Tree.find]
    rcases h with ⟨h1, h2⟩ | h
    · simp [h1, h2]
    · have : name ≠ nm := by
        intro e
        have := (hasName_iff rest nm).2 ⟨n, h⟩
        rw [e] at hw
        simp [this] at hw
      simp [this, mem_find rest nm n hw.2 h]

theorem find_none_of_not_hasName : ∀ (t : Tree) (nm : Name), t.hasName nm = false → t.find nm = none
  | .nil, _, _ => by simp [Tree.find]
  | .cons name x rest, nm, h => by
    simp only [Tree.hasName, Bool.or_eq_false_iff, decide_eq_false_iff_not] at h
    simp [Tree.find, h.1, find_none_of_not_hasName rest nm h.2]

theorem wf_of_mem : ∀ (t : Tree) (nm : Name) (n : Node), wfTree t = true → (nm, n) ∈ t.entries →
    wfNode n = true
  | .nil, _, _, _, h => by simp [Tree.entries] at h
  | .cons name x rest, nm, n, hw, h => by
    simp only [wfTree, Bool.and_eq_true] at hw
    simp only [Tree.entries, List.mem_cons, Prod.mk.injEq] at h
    rcases h with ⟨_, h2⟩ | h
    · rw [h2]; exact hw.1.2
    · exact wf_of_mem rest nm n hw.2 h

/-! ### the flat view through the entries of one level -/

theorem flatTree_mem : ∀ (t : Tree) (pre : Path) (x : Path × Nat),
    x ∈ flatTree t pre ↔ ∃ nm n, (nm, n) ∈ t.entries ∧ x ∈ flatNode n (pre ++ [nm])
  | .nil, _, _ => by simp [flatTree, Tree.entries]
  | .cons name n rest, pre, x => by
    simp only [flatTree, Tree.entries, List.mem_append, List.mem_cons, Prod.mk.injEq,
      flatTree_mem rest pre x]
    constructor
    · rintro (h | ⟨nm, n', h1, h2⟩)
      · exact ⟨name, n, Or.inl ⟨rfl, rfl⟩, h⟩
      · exact ⟨nm, n', Or.inr h1, h2⟩
    · rintro ⟨nm, n', (⟨h1, h2⟩ | h1), h3⟩
      · subst h1; subst h2; exact Or.inl h3
      · exact Or.inr ⟨nm, n', h1, h3⟩

theorem blobsOfTree_mem : ∀ (t : Tree) (pre : Path) (p : Path),
    p ∈ blobsOfTree t pre ↔ ∃ nm n, (nm, n) ∈ t.entries ∧ p ∈ blobsOfNode n (pre ++ [nm])
  | .nil, _, _ => by simp [blobsOfTree, Tree.entries]
  | .cons name n rest, pre, p => by
    simp only [blobsOfTree, Tree.entries, List.mem_append, List.mem_cons, Prod.mk.injEq,
      blobsOfTree_mem rest pre p]
    constructor
    · rintro (h | ⟨nm, n', h1, h2⟩)
      · exact ⟨name, n, Or.inl ⟨rfl, rfl⟩, h⟩
      · exact ⟨nm, n', Or.inr h1, h2⟩
    · rintro ⟨nm, n', (⟨h1, h2⟩ | h1), h3⟩
      · subst h1; subst h2; exact Or.inl h3
      · exact Or.inr ⟨nm, n', h1, h3⟩

mutual
/-- `collect_all_blob_paths` lists exactly the paths of the flat view -/
theorem blobsOfNode_eq : ∀ (n : Node) (q : Path), blobsOfNode n q = (flatNode n q).map (·.1)
  | .blob _ _, _ => by simp [blobsOfNode, flatNode]
  | .link _, _ => by simp [blobsOfNode, flatNode]
  | .commit _, _ => by simp [blobsOfNode, flatNode]
  | .tree t, q => by simp only [blobsOfNode, flatNode]; exact blobsOfTree_eq t q
theorem blobsOfTree_eq : ∀ (t : Tree) (pre : Path), blobsOfTree t pre = (flatTree t pre).map (·.1)
  | .nil, _ => by simp [blobsOfTree, flatTree]
  | .cons name n rest, pre => by
    simp only [blobsOfTree, flatTree, List.map_append, blobsOfNode_eq n (pre ++ [name]),
      blobsOfTree_eq rest pre]
end

theorem mem_blobsOfNode (n : Node) (q p : Path) :
    p ∈ blobsOfNode n q ↔ ∃ id, (p, id) ∈ flatNode n q := by
  rw [blobsOfNode_eq]; simp

theorem mem_blobsOfTree (t : Tree) (q p : Path) :
    p ∈ blobsOfTree t q ↔ ∃ id, (p, id) ∈ flatTree t q := by
  rw [blobsOfTree_eq]; simp

/-! ### every path below a node extends the node's own path -/

mutual
theorem flatNode_prefix : ∀ (n : Node) (q : Path) (x : Path × Nat), x ∈ flatNode n q → ∃ s, x.1 = q ++ s
  | .blob _ _, q, x, h => by simp [flatNode] at h; exact ⟨[], by simp [h]⟩
  | .link _, _, _, h => by simp [flatNode] at h
  | .commit _, _, _, h => by simp [flatNode] at h
  | .tree t, q, x, h => by
    simp only [flatNode] at h
    obtain ⟨nm, s, hs⟩ := flatTree_prefix t q x h
    exact ⟨nm :: s, hs⟩
theorem flatTree_prefix : ∀ (t : Tree) (pre : Path) (x : Path × Nat), x ∈ flatTree t pre →
    ∃ nm s, x.1 = pre ++ nm :: s
  | .nil, _, _, h => by simp [flatTree] at h
  | .cons name n rest, pre, x, h => by
    simp only [flatTree, List.mem_append] at h
    rcases h with h | h
    · obtain ⟨s, hs⟩ := flatNode_prefix n (pre ++ [name]) x h
      exact ⟨name, s, by simp [hs]⟩
    · exact flatTree_prefix rest pre x h
end

/-- a file strictly below a directory is not the directory's own path -/
theorem flatTree_ne_self (t : Tree) (q : Path) (id : Nat) : (q, id) ∉ flatTree t q := by
  intro h
  obtain ⟨nm, s, hs⟩ := flatTree_prefix t q _ h
  have : q.length = (q ++ nm :: s).length := congrArg List.length hs
  simp at this

theorem blobsOfTree_ne_self (t : Tree) (q : Path) : q ∉ blobsOfTree t q := by
  rw [mem_blobsOfTree]; rintro ⟨id, h⟩; exact flatTree_ne_self t q id h

/-- two entries of one level that both lead to `p` are the same entry name -/
theorem name_unique (pre : Path) (nm nm' : Name) (n n' : Node) (x y : Path × Nat)
    (hx : x ∈ flatNode n (pre ++ [nm])) (hy : y ∈ flatNode n' (pre ++ [nm'])) (hp : x.1 = y.1) :
    nm = nm' := by
  obtain ⟨s, hs⟩ := flatNode_prefix n _ x hx
  obtain ⟨s', hs'⟩ := flatNode_prefix n' _ y hy
  rw [hs, hs'] at hp
  simp only [List.append_assoc, List.cons_append, List.nil_append] at hp
  have := List.append_cancel_left hp
  simpa using (List.cons.inj this).1

/-- in a well-formed tree the files below entry `nm` are found through `find nm` -/
theorem flat_under (t : Tree) (hw : wfTree t = true) (pre : Path) (nm : Name) (n : Node)
    (x : Path × Nat) (hx : x ∈ flatNode n (pre ++ [nm])) (y : Path × Nat) (hp : y.1 = x.1) :
    y ∈ flatTree t pre ↔ ∃ b, t.find nm = some b ∧ y ∈ flatNode b (pre ++ [nm]) := by
  rw [flatTree_mem]
  constructor
  · rintro ⟨nm', b, hm, hy⟩
    have : nm' = nm := name_unique pre nm' nm b n y x hy hx hp
    subst this
    exact ⟨b, mem_find t _ b hw hm, hy⟩
  · rintro ⟨b, hf, hy⟩
    exact ⟨nm, b, find_mem t nm b hf, hy⟩

/-! ### equal object ids mean equal content -/

theorem modeEq_class (a b : Node) (h : modeEq a b = true) : modeClass a b = true := by
  cases a <;> cases b <;> simp_all [modeEq, modeClass, isBlob]

mutual
theorem oidEq_flat : ∀ (a b : Node) (q : Path), modeClass a b = true → oidEq a b = true →
    flatNode a q = flatNode b q
  | .blob i _, .blob j _, q, _, h => by simp [oidEq] at h; simp [flatNode, h]
  | .blob _ _, .link _, _, hm, _ => by simp [modeClass, isBlob] at hm
  | .blob _ _, .commit _, _, _, h => by simp [oidEq] at h
  | .blob _ _, .tree _, _, _, h => by simp [oidEq] at h
  | .link _, .blob _ _, _, hm, _ => by simp [modeClass, isBlob] at hm
  | .link _, .link _, _, _, _ => by simp [flatNode]
  | .link _, .commit _, _, _, h => by simp [oidEq] at h
  | .link _, .tree _, _, _, h => by simp [oidEq] at h
  | .commit _, .blob _ _, _, _, h => by simp [oidEq] at h
  | .commit _, .link _, _, _, h => by simp [oidEq] at h
  | .commit _, .commit _, _, _, _ => by simp [flatNode]
  | .commit _, .tree _, _, _, h => by simp [oidEq] at h
  | .tree _, .blob _ _, _, _, h => by simp [oidEq] at h
  | .tree _, .link _, _, _, h => by simp [oidEq] at h
  | .tree _, .commit _, _, _, h => by simp [oidEq] at h
  | .tree s, .tree t, q, _, h => by
    simp only [oidEq] at h
    simp only [flatNode]
    exact treeEq_flat s t q h
theorem treeEq_flat : ∀ (s t : Tree) (pre : Path), treeEq s t = true → flatTree s pre = flatTree t pre
  | .nil, .nil, _, _ => rfl
  | .nil, .cons _ _ _, _, h => by simp [treeEq] at h
  | .cons _ _ _, .nil, _, h => by simp [treeEq] at h
  | .cons n1 x1 r1, .cons n2 x2 r2, pre, h => by
    simp only [treeEq, Bool.and_eq_true, decide_eq_true_eq] at h
    obtain ⟨⟨⟨hn, hm⟩, ho⟩, hr⟩ := h
    subst hn
    simp only [flatTree]
    rw [oidEq_flat x1 x2 _ (modeEq_class x1 x2 hm) ho, treeEq_flat r1 r2 pre hr]
end

/-! ### the comparison computes the flat difference -/

def flatOpt : Option Node → Path → List (Path × Nat)
  | none, _ => []
  | some b, q => flatNode b q

def wfOpt : Option Node → Bool
  | none => true
  | some b => wfNode b

theorem mem_flatOpt (o : Option Node) (q : Path) (x : Path × Nat) :
    x ∈ flatOpt o q ↔ ∃ b, o = some b ∧ x ∈ flatNode b q := by
  cases o <;> simp [flatOpt]

/-- a regular file of the target that the base does not have with the same content -/
def ChangedSpec (B T : List (Path × Nat)) (p : Path) : Prop := ∃ id, (p, id) ∈ T ∧ (p, id) ∉ B
/-- a regular file of the base that is no regular file of the target -/
def DeletedSpec (B T : List (Path × Nat)) (p : Path) : Prop := (∃ id, (p, id) ∈ B) ∧ ¬ ∃ id, (p, id) ∈ T

/-- deletions found below names that both levels have -/
def CommonDeleted (base ts : Tree) (pre : Path) (p : Path) : Prop :=
  ∃ nm b n, base.find nm = some b ∧ (nm, n) ∈ ts.entries ∧
    (∃ id, (p, id) ∈ flatNode b (pre ++ [nm])) ∧ ¬ ∃ id, (p, id) ∈ flatNode n (pre ++ [nm])

theorem deletedOnly_mem : ∀ (base target : Tree) (pre p : Path),
    p ∈ deletedOnly base target pre ↔
      ∃ nm b, (nm, b) ∈ base.entries ∧ target.hasName nm = false ∧ p ∈ blobsOfNode b (pre ++ [nm])
  | .nil, _, _, _ => by simp [deletedOnly, Tree.entries]
  | .cons name n rest, target, pre, p => by
    simp only [deletedOnly, List.mem_append, Tree.entries, List.mem_cons, Prod.mk.injEq,
      deletedOnly_mem rest target pre p]
    constructor
    · rintro (h | ⟨nm, b, h1, h2, h3⟩)
      · by_cases hh : target.hasName name = true
        · simp [hh] at h
        · simp only [Bool.not_eq_true] at hh
          simp [hh] at h
          exact ⟨name, n, Or.inl ⟨rfl, rfl⟩, hh, h⟩
      · exact ⟨nm, b, Or.inr h1, h2, h3⟩
    · rintro ⟨nm, b, (⟨h1, h2⟩ | h1), h3, h4⟩
      · subst h1; subst h2; left; simp [h3, h4]
      · exact Or.inr ⟨nm, b, h1, h3, h4⟩

theorem deleted_total (bt tt : Tree) (hb : wfTree bt = true) (ht : wfTree tt = true) (q p : Path) :
    (CommonDeleted bt tt q p ∨ p ∈ deletedOnly bt tt q) ↔ DeletedSpec (flatTree bt q) (flatTree tt q) p := by
  constructor
  · rintro (⟨nm, b, n, hf, hm, ⟨id, hbn⟩, hn⟩ | h)
    · refine ⟨⟨id, (flatTree_mem bt q _).2 ⟨nm, b, find_mem bt nm b hf, hbn⟩⟩, ?_⟩
      rintro ⟨id', h'⟩
      obtain ⟨nm', n', hm', hx⟩ := (flatTree_mem tt q _).1 h'
      have e : nm' = nm := name_unique q nm' nm n' b (p, id') (p, id) hx hbn rfl
      subst e
      have e1 := mem_find tt _ n' ht hm'
      have e2 := mem_find tt _ n ht hm
      rw [e1] at e2
      cases e2
      exact hn ⟨id', hx⟩
    · obtain ⟨nm, b, hm, hhas, hp⟩ := (deletedOnly_mem bt tt q p).1 h
      obtain ⟨id, hbn⟩ := (mem_blobsOfNode b _ p).1 hp
      refine ⟨⟨id, (flatTree_mem bt q _).2 ⟨nm, b, hm, hbn⟩⟩, ?_⟩
      rintro ⟨id', h'⟩
      obtain ⟨nm', n', hm', hx⟩ := (flatTree_mem tt q _).1 h'
      have e : nm' = nm := name_unique q nm' nm n' b (p, id') (p, id) hx hbn rfl
      subst e
      have := (hasName_iff tt nm').2 ⟨n', hm'⟩
      simp [this] at hhas
  · rintro ⟨⟨id, hb'⟩, hnot⟩
    obtain ⟨nm, b, hm, hbn⟩ := (flatTree_mem bt q _).1 hb'
    cases hh : tt.hasName nm with
    | true =>
      obtain ⟨n, hmn⟩ := (hasName_iff tt nm).1 hh
      exact Or.inl ⟨nm, b, n, mem_find bt nm b hb hm, hmn, ⟨id, hbn⟩,
        fun ⟨id', h'⟩ => hnot ⟨id', (flatTree_mem tt q _).2 ⟨nm, n, hmn, h'⟩⟩⟩
    | false =>
      exact Or.inr ((deletedOnly_mem bt tt q p).2 ⟨nm, b, hm, hh, (mem_blobsOfNode b _ p).2 ⟨id, hbn⟩⟩)

theorem sameEntry_flat (b n : Node) (q : Path) (h : sameEntry b n = true) : flatNode b q = flatNode n q := by
  simp only [sameEntry, Bool.and_eq_true] at h
  exact oidEq_flat b n q h.2 h.1

theorem changedSpec_self (F : List (Path × Nat)) (p : Path) : ¬ ChangedSpec F F p := by
  rintro ⟨id, h1, h2⟩; exact h2 h1
theorem deletedSpec_self (F : List (Path × Nat)) (p : Path) : ¬ DeletedSpec F F p := by
  rintro ⟨h1, h2⟩; exact h2 h1

theorem cmpNode_same (b n : Node) (q : Path) (acc : Acc) (hs : sameEntry b n = true) :
    cmpNode (some b) n q acc = acc := by
  cases b <;> cases n <;> simp_all [cmpNode]

theorem cmpNode_same_spec (b n : Node) (q : Path) (acc : Acc) (hs : sameEntry b n = true) (p : Path) :
    (p ∈ (cmpNode (some b) n q acc).changed ↔ p ∈ acc.changed ∨ ChangedSpec (flatOpt (some b) q) (flatNode n q) p) ∧
    (p ∈ (cmpNode (some b) n q acc).deleted ↔ p ∈ acc.deleted ∨ DeletedSpec (flatOpt (some b) q) (flatNode n q) p) := by
  rw [cmpNode_same b n q acc hs]
  simp only [flatOpt, sameEntry_flat b n q hs]
  simp [changedSpec_self, deletedSpec_self]

mutual
theorem cmpNode_spec : ∀ (n : Node) (o : Option Node) (q : Path) (acc : Acc),
    wfNode n = true → wfOpt o = true → ∀ p,
    (p ∈ (cmpNode o n q acc).changed ↔ p ∈ acc.changed ∨ ChangedSpec (flatOpt o q) (flatNode n q) p) ∧
    (p ∈ (cmpNode o n q acc).deleted ↔ p ∈ acc.deleted ∨ DeletedSpec (flatOpt o q) (flatNode n q) p)
  | n, none, q, acc, _, _, p => by
    simp only [cmpNode, flatOpt, ChangedSpec, DeletedSpec, List.mem_append, mem_blobsOfNode]
    simp
  | .tree tt, some (.tree bt), q, acc, hn, ho, p => by
    simp only [wfNode] at hn
    simp only [wfOpt, wfNode] at ho
    cases hs : sameEntry (.tree bt) (.tree tt) with
    | true => exact cmpNode_same_spec _ _ q acc hs p
    | false =>
      have ih := cmpEntries_spec tt bt q acc hn ho p
      simp only [cmpNode, hs, Bool.false_eq_true, if_false, flatOpt, flatNode, List.mem_append]
      refine ⟨ih.1, ?_⟩
      rw [ih.2, or_assoc, deleted_total bt tt ho hn q p]
  | .blob a x, some (.blob a' x'), q, acc, _, _, p => by
    cases hs : sameEntry (.blob a' x') (.blob a x) with
    | true => exact cmpNode_same_spec _ _ q acc hs p
    | false =>
      have hne : a' ≠ a := by
        intro e; simp [sameEntry, oidEq, modeClass, isBlob, e] at hs
      simp only [cmpNode, hs, Bool.false_eq_true, if_false, flatOpt, flatNode, ChangedSpec,
        DeletedSpec, List.mem_append, List.mem_singleton, Prod.mk.injEq]
      constructor
      · apply or_congr_right
        constructor
        · intro h; exact ⟨a, ⟨h, rfl⟩, fun h' => hne h'.2.symm⟩
        · rintro ⟨id, ⟨h, _⟩, _⟩; exact h
      · constructor
        · intro h; exact Or.inl h
        · rintro (h | ⟨⟨id, h, _⟩, h2⟩)
          · exact h
          · exact absurd ⟨a, h, rfl⟩ h2
  | .blob a x, some (.link a'), q, acc, _, _, p => by
    cases hs : sameEntry (.link a') (.blob a x) with
    | true => exact cmpNode_same_spec _ _ q acc hs p
    | false =>
      simp only [cmpNode, hs, Bool.false_eq_true, if_false, flatOpt, flatNode, ChangedSpec,
        DeletedSpec, List.mem_append]
      simp
  | .blob a x, some (.commit a'), q, acc, _, _, p => by
    cases hs : sameEntry (.commit a') (.blob a x) with
    | true => exact cmpNode_same_spec _ _ q acc hs p
    | false =>
      simp only [cmpNode, hs, Bool.false_eq_true, if_false, flatOpt, flatNode, ChangedSpec,
        DeletedSpec, List.mem_append]
      simp
  | .blob a x, some (.tree bt), q, acc, _, _, p => by
    have hs : sameEntry (.tree bt) (.blob a x) = false := by simp [sameEntry, oidEq]
    simp only [cmpNode, hs, Bool.false_eq_true, if_false, flatOpt, flatNode, ChangedSpec,
      DeletedSpec, List.mem_append, blobsOfNode, mem_blobsOfTree, List.mem_singleton, Prod.mk.injEq]
    constructor
    · constructor
      · rintro (h | h)
        · exact Or.inl h
        · exact Or.inr ⟨a, ⟨h, rfl⟩, by rw [h]; exact flatTree_ne_self bt q a⟩
      · rintro (h | ⟨id, ⟨h, _⟩, _⟩)
        · exact Or.inl h
        · exact Or.inr h
    · constructor
      · rintro (h | ⟨id, h⟩)
        · exact Or.inl h
        · refine Or.inr ⟨⟨id, h⟩, ?_⟩
          rintro ⟨id', e, _⟩
          rw [e] at h
          exact flatTree_ne_self bt q id h
      · rintro (h | ⟨⟨id, h⟩, _⟩)
        · exact Or.inl h
        · exact Or.inr ⟨id, h⟩
  | .link a, some b, q, acc, _, _, p => by
    cases hs : sameEntry b (.link a) with
    | true => exact cmpNode_same_spec _ _ q acc hs p
    | false =>
      cases b <;>
        simp only [cmpNode, hs, Bool.false_eq_true, if_false, flatOpt, flatNode, ChangedSpec,
          DeletedSpec, List.mem_append, blobsOfNode, mem_blobsOfTree] <;> simp
  | .commit a, some b, q, acc, _, _, p => by
    cases hs : sameEntry b (.commit a) with
    | true => exact cmpNode_same_spec _ _ q acc hs p
    | false =>
      cases b <;>
        simp only [cmpNode, hs, Bool.false_eq_true, if_false, flatOpt, flatNode, ChangedSpec,
          DeletedSpec, List.mem_append, blobsOfNode, mem_blobsOfTree] <;> simp
  | .tree tt, some (.blob a x), q, acc, _, _, p => by
    have hs : sameEntry (.blob a x) (.tree tt) = false := by simp [sameEntry, oidEq]
    simp only [cmpNode, hs, Bool.false_eq_true, if_false, flatOpt, flatNode, ChangedSpec,
      DeletedSpec, List.mem_append, blobsOfNode, mem_blobsOfTree, List.mem_singleton, Prod.mk.injEq]
    constructor
    · constructor
      · rintro (h | ⟨id, h⟩)
        · exact Or.inl h
        · refine Or.inr ⟨id, h, ?_⟩
          rintro ⟨e, _⟩
          rw [e] at h
          exact flatTree_ne_self tt q id h
      · rintro (h | ⟨id, h, _⟩)
        · exact Or.inl h
        · exact Or.inr ⟨id, h⟩
    · constructor
      · rintro (h | h)
        · exact Or.inl h
        · refine Or.inr ⟨⟨a, h, rfl⟩, ?_⟩
          rintro ⟨id, h'⟩
          rw [h] at h'
          exact flatTree_ne_self tt q id h'
      · rintro (h | ⟨⟨id, h, _⟩, _⟩)
        · exact Or.inl h
        · exact Or.inr h
  | .tree tt, some (.link a), q, acc, _, _, p => by
    have hs : sameEntry (.link a) (.tree tt) = false := by simp [sameEntry, oidEq]
    simp only [cmpNode, hs, Bool.false_eq_true, if_false, flatOpt, flatNode, ChangedSpec,
      DeletedSpec, List.mem_append, blobsOfNode, mem_blobsOfTree]
    simp
  | .tree tt, some (.commit a), q, acc, _, _, p => by
    have hs : sameEntry (.commit a) (.tree tt) = false := by simp [sameEntry, oidEq]
    simp only [cmpNode, hs, Bool.false_eq_true, if_false, flatOpt, flatNode, ChangedSpec,
      DeletedSpec, List.mem_append, blobsOfNode, mem_blobsOfTree]
    simp
theorem cmpEntries_spec : ∀ (ts base : Tree) (pre : Path) (acc : Acc),
    wfTree ts = true → wfTree base = true → ∀ p,
    (p ∈ (cmpEntries base ts pre acc).changed ↔
      p ∈ acc.changed ∨ ChangedSpec (flatTree base pre) (flatTree ts pre) p) ∧
    (p ∈ (cmpEntries base ts pre acc).deleted ↔ p ∈ acc.deleted ∨ CommonDeleted base ts pre p)
  | .nil, base, pre, acc, _, _, p => by
    simp [cmpEntries, ChangedSpec, CommonDeleted, flatTree, Tree.entries]
  | .cons nm n rest, base, pre, acc, ht, hb, p => by
    simp only [wfTree, Bool.and_eq_true] at ht
    have hwo : wfOpt (base.find nm) = true := by
      cases hf : base.find nm with
      | none => rfl
      | some b => exact wf_of_mem base nm b hb (find_mem base nm b hf)
    have hN := cmpNode_spec n (base.find nm) (pre ++ [nm]) acc ht.1.2 hwo p
    have hR := cmpEntries_spec rest base pre (cmpNode (base.find nm) n (pre ++ [nm]) acc) ht.2 hb p
    simp only [cmpEntries]
    constructor
    · rw [hR.1, hN.1, or_assoc]
      apply or_congr_right
      simp only [ChangedSpec, flatTree, List.mem_append]
      constructor
      · rintro (⟨id, h1, h2⟩ | ⟨id, h1, h2⟩)
        · refine ⟨id, Or.inl h1, ?_⟩
          intro hb'
          apply h2
          obtain ⟨b, hf, hy⟩ := (flat_under base hb pre nm n (p, id) h1 (p, id) rfl).1 hb'
          exact (mem_flatOpt _ _ _).2 ⟨b, hf, hy⟩
        · exact ⟨id, Or.inr h1, h2⟩
      · rintro ⟨id, (h1 | h1), h2⟩
        · refine Or.inl ⟨id, h1, ?_⟩
          intro ho
          apply h2
          obtain ⟨b, hf, hy⟩ := (mem_flatOpt _ _ _).1 ho
          exact (flat_under base hb pre nm n (p, id) h1 (p, id) rfl).2 ⟨b, hf, hy⟩
        · exact Or.inr ⟨id, h1, h2⟩
    · rw [hR.2, hN.2, or_assoc]
      apply or_congr_right
      simp only [DeletedSpec, CommonDeleted, Tree.entries, List.mem_cons, Prod.mk.injEq]
      constructor
      · rintro (⟨⟨id, h1⟩, h2⟩ | ⟨nm', b, n', hf, hm, h1, h2⟩)
        · obtain ⟨b, hf, hy⟩ := (mem_flatOpt _ _ _).1 h1
          exact ⟨nm, b, n, hf, Or.inl ⟨rfl, rfl⟩, ⟨id, hy⟩, h2⟩
        · exact ⟨nm', b, n', hf, Or.inr hm, h1, h2⟩
      · rintro ⟨nm', b, n', hf, (⟨e1, e2⟩ | hm), ⟨id, h1⟩, h2⟩
        · subst e1; subst e2
          exact Or.inl ⟨⟨id, (mem_flatOpt _ _ _).2 ⟨b, hf, h1⟩⟩, h2⟩
        · exact Or.inr ⟨nm', b, n', hf, hm, ⟨id, h1⟩, h2⟩
end

end SlocModel.GitDiff
