/-!
  Model of src/git/diff.rs (`compare_trees_recursive`, `process_*_entry`, `collect_all_blob_paths`,
  `get_staged_files`) and of `parse_diff_range` (src/commands/check/check_git_diff.rs).

  Git trees are a mutual inductive type; an object id is structural identity (git ids are
  injective names of tree / blob contents — trusted).  A symbolic link stores its target as a
  blob, so links and blobs share one id space.
-/
namespace SlocModel.GitDiff

abbrev Name := List Char
abbrev Path := List Name

mutual
inductive Node where
  | blob (id : Nat) (exec : Bool)     -- regular file (mode 100644 / 100755)
  | link (id : Nat)                   -- symbolic link (mode 120000)
  | commit (id : Nat)                 -- submodule (mode 160000)
  | tree (t : Tree)
inductive Tree where
  | nil
  | cons (name : Name) (n : Node) (rest : Tree)
end

mutual
/-- `base_entry.oid == target_entry.oid`: object ids are equal iff the objects are -/
def oidEq : Node → Node → Bool
  | .blob a _, .blob b _ => a = b
  | .blob a _, .link b => a = b
  | .link a, .blob b _ => a = b
  | .link a, .link b => a = b
  | .commit a, .commit b => a = b
  | .tree s, .tree t => treeEq s t
  | _, _ => false
def treeEq : Tree → Tree → Bool
  | .nil, .nil => true
  | .cons n1 x1 r1, .cons n2 x2 r2 => n1 = n2 && modeEq x1 x2 && oidEq x1 x2 && treeEq r1 r2
  | _, _ => false
/-- the mode is part of the parent tree's content -/
def modeEq : Node → Node → Bool
  | .blob _ e1, .blob _ e2 => e1 = e2
  | .link _, .link _ => true
  | .commit _, .commit _ => true
  | .tree _, .tree _ => true
  | _, _ => false
end

def Tree.find (name : Name) : Tree → Option Node
  | .nil => none
  | .cons n x rest => if n = name then some x else rest.find name

def Tree.hasName (name : Name) : Tree → Bool
  | .nil => false
  | .cons n _ rest => n = name || rest.hasName name

mutual
/-- `collect_all_blob_paths`: every regular file below a node -/
def blobsOfNode : Node → Path → List Path
  | .blob _ _, p => [p]
  | .tree t, p => blobsOfTree t p
  | .link _, _ => []
  | .commit _, _ => []
def blobsOfTree : Tree → Path → List Path
  | .nil, _ => []
  | .cons name n rest, p => blobsOfNode n (p ++ [name]) ++ blobsOfTree rest p
end

structure Acc where
  changed : List Path
  deleted : List Path

def isBlob : Node → Bool
  | .blob _ _ => true
  | _ => false

/-- the short-circuit test of `compare_trees_recursive` (repaired): equal object ids *and* the
    same regular-file class — a file and a symbolic link can share an id -/
def modeClass (b n : Node) : Bool := isBlob b == isBlob n
def sameEntry (b n : Node) : Bool := oidEq b n && modeClass b n

/-- entries only in the base tree (`process_deleted_entry`), one level -/
def deletedOnly (base target : Tree) (pre : Path) : List Path :=
  match base with
  | .nil => []
  | .cons name n rest =>
    (if target.hasName name then [] else blobsOfNode n (pre ++ [name])) ++ deletedOnly rest target pre

mutual
/-- `compare_trees_recursive`: iterate over the target's entries, then add the base-only ones -/
def cmpEntries (base : Tree) : Tree → Path → Acc → Acc
  | .nil, _, acc => acc
  | .cons name n rest, pre, acc => cmpEntries base rest pre (cmpNode (base.find name) n (pre ++ [name]) acc)
/-- one target entry against the base entry of the same name (repaired `process_changed_entry`:
    type changes involving links / submodules are additions or deletions of the regular files) -/
def cmpNode : Option Node → Node → Path → Acc → Acc
  | none, n, p, acc => { acc with changed := acc.changed ++ blobsOfNode n p }
  | some b, n, p, acc =>
    if sameEntry b n then acc
    else match b, n with
      | .blob _ _, .blob _ _ => { acc with changed := acc.changed ++ [p] }
      | .tree bt, .tree tt =>
        let acc1 := cmpEntries bt tt p acc
        { acc1 with deleted := acc1.deleted ++ deletedOnly bt tt p }
      | .tree _, .blob _ _ => { changed := acc.changed ++ [p], deleted := acc.deleted ++ blobsOfNode b p }
      | .blob _ _, .tree _ => { changed := acc.changed ++ blobsOfNode n p, deleted := acc.deleted ++ [p] }
      | .link _, .blob _ _ | .commit _, .blob _ _ => { acc with changed := acc.changed ++ [p] }
      | .link _, .tree _ | .commit _, .tree _ => { acc with changed := acc.changed ++ blobsOfNode n p }
      | .blob _ _, .link _ | .blob _ _, .commit _ | .tree _, .link _ | .tree _, .commit _ =>
        { acc with deleted := acc.deleted ++ blobsOfNode b p }
      | _, _ => acc
end

/-- `get_changed_files_range` on two root trees: changed paths and deletion candidates -/
def compareTrees (base target : Tree) : Acc :=
  let acc := cmpEntries base target [] { changed := [], deleted := [] }
  { acc with deleted := acc.deleted ++ deletedOnly base target [] }

/-- "deleted but still present": a deleted path counts only if it is a regular file in the
    working tree (`exists_` is `symlink_metadata().is_file()` — an input) -/
def changedSet (base target : Tree) (exists_ : Path → Bool) : List Path :=
  let acc := compareTrees base target
  acc.changed ++ acc.deleted.filter exists_

/-! ### specification: the flat view -/

mutual
/-- regular files of a tree with their blob ids -/
def flatNode : Node → Path → List (Path × Nat)
  | .blob id _, p => [(p, id)]
  | .tree t, p => flatTree t p
  | .link _, _ => []
  | .commit _, _ => []
def flatTree : Tree → Path → List (Path × Nat)
  | .nil, _ => []
  | .cons name n rest, p => flatNode n (p ++ [name]) ++ flatTree rest p
end

/-! ### staged files -/

inductive IndexKind where
  | blob | link | commit
  deriving DecidableEq, Repr

structure IndexEntry where
  path : Path
  id : Nat
  kind : IndexKind

/-- `get_staged_files` (repaired): index entries that are regular files and are absent from
    HEAD's regular files or differ from them -/
def stagedSet (index : List IndexEntry) (head : List (Path × Nat)) : List Path :=
  (index.filter (fun e => e.kind = .blob && !(head.any (fun h => h.1 = e.path && h.2 = e.id)))).map (·.path)

/-! ### range spelling -/

inductive Range where
  | ok (base target : List Char)
  | error
  deriving DecidableEq, Repr

def findDotDot : List Char → Nat → Option Nat
  | [], _ => none
  | [_], _ => none
  | a :: b :: rest, i => if a = '.' && b = '.' then some i else findDotDot (b :: rest) (i + 1)

/-- `parse_diff_range` -/
def parseRange (s : List Char) : Range :=
  if s.isEmpty then .error
  else match findDotDot s 0 with
    | some pos =>
      let base := s.take pos
      let target := s.drop (pos + 2)
      if base.isEmpty then .error
      else .ok base (if target.isEmpty then ['H', 'E', 'A', 'D'] else target)
    | none => .ok s ['H', 'E', 'A', 'D']

/-! ### the filter of the scanned file list (`filter_by_git_diff`) -/

/-- scanned files are kept iff they are in the changed set; the order of the scan is kept -/
def filterFiles (files set : List Path) : List Path := files.filter (fun f => set.contains f)

end SlocModel.GitDiff
