import SlocModel.Driver.Proto
import SlocModel.Driver.Threshold
open SlocModel.Driver

def dispatch (line : String) : String :=
  match line.trimAscii.toString.splitOn " " with
  | op :: args =>
    let r : Option String :=
      match op with
      | "verdict" => handleVerdict args
      | "pct" => handlePct args
      | _ => some "bad-op"
    r.getD "bad-args"
  | [] => "bad-op"

partial def loop (h : IO.FS.Stream) (out : IO.FS.Stream) : IO Unit := do
  let line ← h.getLine
  if line.isEmpty then return ()
  out.putStrLn (dispatch line)
  loop h out

def main : IO Unit := do
  let out ← IO.getStdout
  loop (← IO.getStdin) out
  out.flush
