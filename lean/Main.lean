import SlocModel.Driver.Proto
import SlocModel.Driver.Threshold
import SlocModel.Driver.Counter
import SlocModel.Driver.Grammar
import SlocModel.Driver.Toml
import SlocModel.Driver.Trend
import SlocModel.Driver.Baseline
import SlocModel.Driver.Structure
import SlocModel.Driver.AtomicWrite
import SlocModel.Driver.Remote
import SlocModel.Driver.Cache
import SlocModel.Driver.GitDiff
import SlocModel.Driver.Gate
import SlocModel.Driver.Report
import SlocModel.Driver.PathSpelling
import SlocModel.Driver.Check
import SlocModel.Driver.Concurrency
import SlocModel.Driver.Glob
import SlocModel.Driver.Scope
import SlocModel.Driver.Uri
open SlocModel.Driver

def dispatch (line : String) : String :=
  match line.trimAscii.toString.splitOn " " with
  | op :: args =>
    let r : Option String :=
      match op with
      | "verdict" => handleVerdict args
      | "pct" => handlePct args
      | "count" => handleCount args
      | "insert" => handleInsert args
      | "grammar" => handleGrammar args
      | "find-start" => handleFindStart args
      | "has-end" => handleHasEnd args
      | "nesting" => handleNesting args
      | "noop" => some "-"
      | "langs" => handleLangs args
      | "trend-step" => handleTrendStep args
      | "retain" => handleRetain args
      | "trend-delta" => handleTrendDelta args
      | "duration" => handleDuration args
      | "baseline-step" => handleBaselineStep args
      | "save-crash" => handleSaveCrash args
      | "fetch-seq" => handleFetchSeq args
      | "cache-hist" => handleCacheHist args
      | "struct-dir" => handleStructDir args
      | "walk" => handleWalk args
      | "base-depth" => handleBaseDepth args
      | "place-file" => handlePlaceFile args
      | "place-dir" => handlePlaceDir args
      | "sib-directed" => handleSibDirected args
      | "sib-group" => handleSibGroup args
      | "extends" => handleExtends args
      | "merge" => handleMerge args
      | "finish" => handleFinish args
      | "git-diff" => handleGitDiff args
      | "git-staged" => handleGitStaged args
      | "range" => handleRange args
      | "gate" => handleGate args
      | "preset" => handlePreset args
      | "date" => handleDate args
      | "summary" => handleSummary args
      | "rows" => handleRows args
      | "breakdown" => handleBreakdown args
      | "escape" => handleEscape args
      | "owner" => handleOwner args
      | "target" => handleTarget args
      | "targets" => handleTargets args
      | "match-key" => handleMatchKey args
      | "check-run" => handleCheckRun args
      | "conc-append" => handleConcAppend args
      | "glob" => handleGlob args
      | "scope" => handleScope args
      | "uri" => handleUri args
      | _ => some "bad-op"
    r.getD "bad-args"
  | [] => "bad-op"

partial def loop (h : IO.FS.Stream) (out : IO.FS.Stream) : IO Unit := do
  let line ← h.getLine
  if line.isEmpty then return ()
  out.putStrLn (dispatch line)
  loop h out

def main : IO Unit := do
  let out ← IO.getStdout
  loop (← IO.getStdin) out
  out.flush
