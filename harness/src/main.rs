//! sgverif — correspondence harness: calls the real sloc-guard code on generated cases and
//! writes, per case, the request line for the Lean model driver, the implementation's
//! canonical answer, and the verdict of the property predicate on the implementation.
mod counter;
mod globfact;
mod grammar;
mod props;
mod proto;
mod rng;

fn usage() -> ! {
    eprintln!("usage: sgverif gen <property> <quick|thorough|search> <seed> <outdir>");
    std::process::exit(2)
}

fn main() {
    let args: Vec<String> = std::env::args().collect();
    if args.len() < 2 {
        usage();
    }
    // silence the default panic message: panics are values here
    std::panic::set_hook(Box::new(|_| {}));
    match args[1].as_str() {
        "gen" if args.len() == 6 => {
            let seed: u64 = args[4].parse().unwrap_or(1);
            let tier = props::Tier::parse(&args[3]).unwrap_or_else(|| usage());
            if !props::run(&args[2], tier, seed, &args[5]) {
                eprintln!("unknown property {}", args[2]);
                std::process::exit(2);
            }
        }
        "c18-child" if args.len() == 6 => props::c18::child(&args[2..]),
        _ => usage(),
    }
}
