//! sgverif — correspondence harness: calls the real sloc-guard code on generated cases and
//! writes, per case, the request line for the Lean model driver, the implementation's
//! canonical answer, and the verdict of the property predicate on the implementation.
mod cgrammar;
mod counter;
mod dump;
mod globfact;
mod grammar;
mod props;
mod proto;
mod rng;

fn usage() -> ! {
    eprintln!("usage: sgverif gen <property> <quick|thorough|search> <seed> <outdir> | sgverif dump-tables");
    std::process::exit(2)
}

fn main() {
    let args: Vec<String> = std::env::args().collect();
    if args.len() < 2 {
        usage();
    }
    // silence the default panic message: panics are values here
    // (the last one is kept, and printed if it ends the run)
    static LAST_PANIC: std::sync::Mutex<String> = std::sync::Mutex::new(String::new());
    std::panic::set_hook(Box::new(|info| {
        if let Ok(mut l) = LAST_PANIC.lock() {
            *l = info.to_string();
        }
    }));
    match args[1].as_str() {
        "gen" if args.len() == 6 => {
            let seed: u64 = args[4].parse().unwrap_or(1);
            let tier = props::Tier::parse(&args[3]).unwrap_or_else(|| usage());
            let (prop, out) = (args[2].clone(), args[5].clone());
            match std::panic::catch_unwind(move || props::run(&prop, tier, seed, &out)) {
                Ok(true) => {}
                Ok(false) => {
                    eprintln!("unknown property {}", args[2]);
                    std::process::exit(2);
                }
                Err(_) => {
                    eprintln!("harness panic: {}", LAST_PANIC.lock().map(|l| l.clone()).unwrap_or_default());
                    std::process::exit(101);
                }
            }
        }
        "c18-child" if args.len() == 6 => props::c18::child(&args[2..]),
        "dump-tables" => std::process::exit(dump::run()),
        _ => usage(),
    }
}
