// The real command-line entry point of /repo, compiled against the library built with the
// `verif` feature (clock pin, crash points, sync points).  Nothing is re-implemented here.
include!("/repo/src/main.rs");
