//! Glob facts.  Several harness modules hand the Lean models *facts* ("pattern p matches path q")
//! that they compute with `globset`, the library sloc-guard itself matches with.  Every such fact
//! goes through this module, which remembers it; at the end of a run the facts are written as
//! `glob` cases, so that the Lean glob model (`SlocModel/Glob.lean`) re-derives each of them from
//! the pattern text.  A random pattern × path stream exercises the dialect beyond the pools.
use std::collections::BTreeSet;
use std::sync::Mutex;

use crate::proto::{Case, Sink, enc};
use crate::rng::Rng;

static FACTS: Mutex<BTreeSet<(String, String)>> = Mutex::new(BTreeSet::new());

fn err_name(e: &globset::Error) -> &'static str {
    match e.kind() {
        globset::ErrorKind::UnclosedClass => "unclosed-class",
        globset::ErrorKind::InvalidRange(_, _) => "invalid-range",
        globset::ErrorKind::UnopenedAlternates => "unopened-alternates",
        globset::ErrorKind::UnclosedAlternates => "unclosed-alternates",
        globset::ErrorKind::DanglingEscape => "dangling-escape",
        _ => "other",
    }
}

/// what the implementation's library answers: `m=0|1`, or `err=<kind>`; `Glob` and a one-element
/// `GlobSet` (the form most of sloc-guard's rule families use) must agree
pub fn answer(pat: &str, path: &str) -> String {
    match globset::Glob::new(pat) {
        Err(e) => format!("err={}", err_name(&e)),
        Ok(g) => {
            let single = g.compile_matcher().is_match(path);
            let mut sb = globset::GlobSetBuilder::new();
            sb.add(g);
            match sb.build() {
                Ok(set) => {
                    let in_set = set.is_match(path);
                    if in_set == single { format!("m={}", u8::from(single)) } else { format!("m={} set={}", u8::from(single), u8::from(in_set)) }
                }
                Err(_) => "err=set-build".to_string(),
            }
        }
    }
}

/// `Glob::new(pat)` matches `path` (an invalid pattern matches nothing); remembered
pub fn is_match(pat: &str, path: &str) -> bool {
    FACTS.lock().unwrap().insert((pat.to_string(), path.to_string()));
    globset::Glob::new(pat).map(|g| g.compile_matcher().is_match(path)).unwrap_or(false)
}

/// `Glob::new(pat)` succeeds; remembered (with a fixed path)
pub fn is_valid(pat: &str) -> bool {
    FACTS.lock().unwrap().insert((pat.to_string(), "a/b.rs".to_string()));
    globset::Glob::new(pat).is_ok()
}

fn dec(s: &str) -> Option<String> {
    if s == "_" {
        return Some(String::new());
    }
    s.split('.').map(|h| u32::from_str_radix(h, 16).ok().and_then(char::from_u32)).collect()
}

fn push(sink: &mut Sink, pat: &str, path: &str, tag: &str) {
    if !sink.want() {
        sink.skip();
        return;
    }
    sink.push(Case { request: format!("glob {} {}", enc(pat), enc(path)), implementation: answer(pat, path), pred: "ok".to_string(), tag: tag.to_string() });
}

/// the facts used so far by this run, as cases
pub fn flush(sink: &mut Sink) {
    if sink.only.is_some() {
        // replay: which facts a run uses depends on the cases it evaluates, so a fact case is
        // replayed from its own request line (it is self-contained)
        if let Ok(req) = std::env::var("SGVERIF_REQUEST") {
            let f: Vec<&str> = req.split(' ').collect();
            if f.len() == 3 && f[0] == "glob" && sink.n <= sink.only.unwrap_or(0) {
                if let (Some(pat), Some(path)) = (dec(f[1]), dec(f[2])) {
                    sink.n = sink.only.unwrap_or(0);
                    push(sink, &pat, &path, "glob/fact-used-by-this-check");
                }
            }
        }
        FACTS.lock().unwrap().clear();
        return;
    }
    let facts: Vec<(String, String)> = std::mem::take(&mut *FACTS.lock().unwrap()).into_iter().collect();
    for (pat, path) in facts {
        push(sink, &pat, &path, "glob/fact-used-by-this-check");
    }
}

const SEGS: &[&str] = &["src", "a", "b", "lib", "gen", "x", "test", "node_modules", "Dockerfile", ".git", "é", "a b", "ab", "a.rs", "x.rs", "m.py", "x.test.ts", "README", ".hidden", "b.rs.bak", "a,b", "{a}", "[a]", "*", "a-b", "日本.rs"];

fn rand_path(r: &mut Rng) -> String {
    let n = r.range(1, 4);
    let mut p = (0..n).map(|_| (*r.pick(SEGS)).to_string()).collect::<Vec<_>>().join("/");
    match r.below(14) {
        0 => p.insert(0, '/'),
        1 => p.insert_str(0, "./"),
        2 => p = p.replace('/', "//"),
        3 => p.push('.'),
        _ => {}
    }
    p
}

fn rand_atom(r: &mut Rng, depth: usize) -> String {
    match r.below(22) {
        0..=6 => (*r.pick(SEGS)).to_string(),
        7 | 8 => "*".to_string(),
        9 => "**".to_string(),
        10 => "?".to_string(),
        11 => format!("*.{}", r.pick(&["rs", "py", "test.ts", "bak", "r?", "{rs,py}"])),
        12 => (*r.pick(&["[a-c]", "[!a-c]", "[^x]", "[]]", "[a-]", "[-a]", "[a-a]", "[!]a]", "[.]", "[/]", "[*]", "[a-c-e]", "[c-a]", "[a", "[]", "[!]"])).to_string(),
        13 | 14 if depth < 2 => {
            let k = r.range(1, 3);
            let alts: Vec<String> = (0..k).map(|_| if r.chance(1, 7) { String::new() } else { rand_pattern(r, depth + 1) }).collect();
            format!("{{{}}}", alts.join(","))
        }
        15 => (*r.pick(&["\\*", "\\?", "\\[", "\\{", "\\,", "\\/", "\\\\", "\\a"])).to_string(),
        16 => (*r.pick(&["a*", "*a", "a**", "**a", "a**b", "***", "x?", "?.rs", "*.*", ".*"])).to_string(),
        17 => (*r.pick(&[",", "}", "{", "\\", "a,b"])).to_string(),
        _ => (*r.pick(&["src", "a", "x.rs", "b"])).to_string(),
    }
}

fn rand_pattern(r: &mut Rng, depth: usize) -> String {
    let n = r.range(1, if depth == 0 { 4 } else { 2 });
    let mut parts: Vec<String> = (0..n).map(|_| rand_atom(r, depth)).collect();
    if r.chance(1, 3) {
        parts.insert(0, "**".to_string());
    }
    if r.chance(1, 4) {
        parts.push("**".to_string());
    }
    let sep = if r.chance(1, 12) { "" } else { "/" };
    let mut p = parts.join(sep);
    match r.below(16) {
        0 => p.insert(0, '/'),
        1 => p.push('/'),
        _ => {}
    }
    p
}

/// the pattern shapes sloc-guard's documentation and presets use, against systematically built paths
const DOC_PATTERNS: &[&str] = &[
    "**/*.rs", "src/**", "src/**/*.rs", "**/tests/**", "**/*.{rs,py}", "**/*.test.{ts,tsx}", "*.rs", "**", "*", "**/*", "src/*", "**/node_modules/**",
    "src/generated/**", "**/Dockerfile", "**/.git", "target/**", "**/target", "{src,lib}/**", "src/{a,b}/*.rs", "**/{a,b}/**", "**/mod.rs", "src/**/mod.rs",
    "src", "src/", "./src/**", "/src/**", "**/", "**/**", "**/**/a", "a/**/**", "a/**/**/b", "{**/a,b}", "{a,**}", "{a/**,b}", "a{b,c}d", "a{,b}", "{,}", "{}", "{{a,b},c}", "x{a,{b,c}}y",
];

pub fn stream(sink: &mut Sink, r: &mut Rng, n: usize) {
    let doc_paths: Vec<String> = {
        let mut v = vec![];
        for d in ["", "src/", "src/a/", "lib/", "x/src/", "src/generated/", "tests/", "a/tests/x/", "node_modules/", "a/node_modules/b/", "target/", "a/b/c/d/"] {
            for f in ["a.rs", "mod.rs", "m.py", "x.test.ts", "Dockerfile", "README", ".git", "target", "src", "a", "b", "abd", "acd", "ad", "xay", "xby", "xcy"] {
                v.push(format!("{d}{f}"));
            }
        }
        v
    };
    for pat in DOC_PATTERNS {
        for path in &doc_paths {
            push(sink, pat, path, "glob/documented-shapes");
        }
    }
    for _ in 0..n {
        let pat = rand_pattern(r, 0);
        for _ in 0..4 {
            let path = rand_path(r);
            let tag = if globset::Glob::new(&pat).is_err() { "glob/random/invalid-pattern" } else if answer(&pat, &path) == "m=1" { "glob/random/match" } else { "glob/random/no-match" };
            push(sink, &pat, &path, tag);
        }
        // a path derived from the pattern, so that matches are not rare
        let derived: String = pat.replace("**", "q/r").replace('*', "zz").replace('?', "k").replace(['{', '}', '\\'], "").replace("[a-c]", "b").replace("[!a-c]", "w");
        let tag = if answer(&pat, &derived) == "m=1" { "glob/random/derived-match" } else { "glob/random/derived-other" };
        push(sink, &pat, &derived, tag);
    }
}
