//! The C-family grammar of `lean/SlocModel/Counter/Grammar.lean` on the harness side: programs
//! are generated as *structure* (chunks, tokens, literal bodies), rendered and labelled here, and
//! sent to the model as structure (`grammar` op).  The model renders and labels them with its own
//! definitions and decides the well-formedness condition of the theorem `classify_render`; both
//! texts, both labellings and both verdicts on well-formedness must coincide, and on every
//! well-formed program the real counter must give the ground truth (what the theorem proves of
//! the model).
use sloc_guard::language::CommentSyntax;

use crate::counter::{Counted, count_str, impl_classes};
use crate::proto::{Case, Sink, b, enc};
use crate::rng::Rng;

#[derive(Clone, Debug)]
pub enum Tok {
    Word(String),
    /// quote character, body as text (backslash + character = escape)
    Lit(char, String),
}

#[derive(Clone, Debug)]
pub enum Chunk {
    Blank(String),
    Code(Vec<Tok>, Option<String>),
    LineComment(String, String),
    BlockOne(String, String, String),
    Block(String, String, Vec<String>, String, String),
}

fn is_ws(c: char) -> bool {
    c.is_whitespace()
}
fn line_char(c: char) -> bool {
    c != '\n' && c != '\r'
}
fn not_quote(c: char) -> bool {
    c != '\'' && c != '"'
}

impl Tok {
    fn render(&self) -> String {
        match self {
            Tok::Word(w) => w.clone(),
            Tok::Lit(q, body) => format!("{q}{body}{q}"),
        }
    }
    fn ok(&self) -> bool {
        match self {
            Tok::Word(w) => w.chars().all(|c| not_quote(c) && c != '/' && line_char(c)),
            Tok::Lit(q, body) => {
                if *q != '\'' && *q != '"' {
                    return false;
                }
                // items: backslash + char = escape (always fine), else plain: not q, not backslash
                let cs: Vec<char> = body.chars().collect();
                let mut i = 0;
                while i < cs.len() {
                    if cs[i] == '\\' && i + 1 < cs.len() {
                        if !line_char(cs[i + 1]) {
                            return false;
                        }
                        i += 2;
                    } else {
                        if cs[i] == *q || cs[i] == '\\' || !line_char(cs[i]) {
                            return false;
                        }
                        i += 1;
                    }
                }
                true
            }
        }
    }
}

fn render_toks(ts: &[Tok]) -> String {
    ts.iter().map(Tok::render).collect()
}

fn adj_ok(ts: &[Tok]) -> bool {
    for (i, t) in ts.iter().enumerate() {
        if let Tok::Lit(q, body) = t {
            if body.is_empty() && render_toks(&ts[i + 1..]).starts_with(*q) {
                return false;
            }
        }
    }
    true
}

fn ws_ok(s: &str) -> bool {
    s.chars().all(|c| is_ws(c) && line_char(c))
}
fn text_ok(s: &str) -> bool {
    s.chars().all(line_char)
}
fn quote_free(s: &str) -> bool {
    s.chars().all(|c| not_quote(c) && line_char(c))
}
fn no_directive(line: &str) -> bool {
    let t = line.trim();
    !t.starts_with("//")
        || !(t.contains("sloc-guard:ignore-end") || t.contains("sloc-guard:ignore-start") || t.contains("sloc-guard:ignore-next") || t.contains("sloc-guard:ignore-file"))
}

impl Chunk {
    pub fn lines(&self) -> Vec<String> {
        match self {
            Chunk::Blank(ws) => vec![ws.clone()],
            Chunk::Code(ts, None) => vec![render_toks(ts)],
            Chunk::Code(ts, Some(t)) => vec![format!("{}//{t}", render_toks(ts))],
            Chunk::LineComment(ws, t) => vec![format!("{ws}//{t}")],
            Chunk::BlockOne(ws, body, trail) => vec![format!("{ws}/*{body}*/{trail}")],
            Chunk::Block(ws, body, mids, cbody, trail) => {
                let mut v = vec![format!("{ws}/*{body}")];
                v.extend(mids.iter().cloned());
                v.push(format!("{cbody}*/{trail}"));
                v
            }
        }
    }
    pub fn truth(&self) -> String {
        match self {
            Chunk::Blank(_) => "b".into(),
            Chunk::Code(..) => "c".into(),
            Chunk::LineComment(..) | Chunk::BlockOne(..) => "m".into(),
            Chunk::Block(_, _, mids, _, _) => "m".repeat(mids.len() + 2),
        }
    }
    pub fn ok(&self) -> bool {
        match self {
            Chunk::Blank(ws) => ws_ok(ws),
            Chunk::Code(ts, cmt) => {
                ts.iter().all(Tok::ok)
                    && adj_ok(ts)
                    && render_toks(ts).chars().any(|c| !is_ws(c))
                    && cmt.as_ref().is_none_or(|t| text_ok(t) && !format!("//{t}").contains("/*"))
            }
            Chunk::LineComment(ws, t) => ws_ok(ws) && text_ok(t) && !format!("//{t}").contains("/*") && no_directive(&format!("{ws}//{t}")),
            Chunk::BlockOne(ws, body, trail) => ws_ok(ws) && quote_free(body) && !body.contains("*/") && ws_ok(trail),
            Chunk::Block(ws, body, mids, cbody, trail) => {
                ws_ok(ws)
                    && quote_free(body)
                    && !body.contains("*/")
                    && mids.iter().all(|m| quote_free(m) && !m.contains("*/") && no_directive(m))
                    && quote_free(cbody)
                    && !cbody.contains("*/")
                    && ws_ok(trail)
                    && no_directive(&format!("{cbody}*/{trail}"))
            }
        }
    }
    fn enc(&self) -> String {
        match self {
            Chunk::Blank(ws) => format!("b {}", enc(ws)),
            Chunk::Code(ts, cmt) => {
                let mut s = format!("c {}", ts.len());
                for t in ts {
                    match t {
                        Tok::Word(w) => s += &format!(" w {}", enc(w)),
                        Tok::Lit(q, body) => s += &format!(" l {} {}", enc(&q.to_string()), enc(body)),
                    }
                }
                match cmt {
                    None => s += " n",
                    Some(t) => s += &format!(" s {}", enc(t)),
                }
                s
            }
            Chunk::LineComment(ws, t) => format!("k {} {}", enc(ws), enc(t)),
            Chunk::BlockOne(ws, body, trail) => format!("o {} {} {}", enc(ws), enc(body), enc(trail)),
            Chunk::Block(ws, body, mids, cbody, trail) => {
                let mut s = format!("B {} {} {}", enc(ws), enc(body), mids.len());
                for m in mids {
                    s += &format!(" {}", enc(m));
                }
                s + &format!(" {} {}", enc(cbody), enc(trail))
            }
        }
    }
}

const WS: &[&str] = &[" ", "  ", "\t", "\u{a0}", "\u{3000}", "\u{2003}", "\u{b}", "\u{c}", "\u{85}", "\u{2028}"];
const WORD: &[&str] = &["int x = ", "a", ";", " ", "*p", "x*y", "#", "\\", "r", "é", "日本", "{", "}", "()", "= ", "\t", "-", "[0]", "<>", "!", "0x1f", "\u{a0}"];
const BODY_PLAIN: &[&str] = &["a", " ", "/*", "*/", "//", "/", "*", "sloc-guard:ignore-file", "// sloc-guard:ignore-next 3", "é", "%d", "\t", "#", "r"];
const ESCAPES: &[&str] = &["\\\"", "\\'", "\\\\", "\\n", "\\/", "\\*", "\\é"];
const LINE_TEXT: &[&str] = &[" note", " it's", " \"q\"", " don't \"mix'", " a/b", " x*y", " * /", " \\", " TODO", "", " */", " é", " /", "/ x", " sloc-guard", " r\"x"];
const BLOCK_TEXT: &[&str] = &["a", " ", "*", "/", "//", " * x", "**", "/ *", "é", "#", "\\", " note", "/*", "// x", "\t", "", " sloc-guard:ignore-next 2"];

fn ws(r: &mut Rng) -> String {
    (0..r.below(3)).map(|_| *r.pick(WS)).collect()
}

fn lit(r: &mut Rng) -> Tok {
    let q = if r.chance(1, 3) { '\'' } else { '"' };
    let other = if q == '"' { "'" } else { "\"" };
    let mut body = String::new();
    for _ in 0..r.below(5) {
        match r.below(6) {
            0 => body += *r.pick(ESCAPES),
            1 => body += other,
            2 => body += &other.repeat(3),
            _ => body += *r.pick(BODY_PLAIN),
        }
    }
    Tok::Lit(q, body)
}

fn toks(r: &mut Rng) -> Vec<Tok> {
    let mut v: Vec<Tok> = vec![];
    for _ in 0..r.range(1, 5) {
        if r.chance(2, 5) {
            // an empty literal directly before a literal with the same quote is outside the grammar
            let t = lit(r);
            if let (Some(Tok::Lit(pq, pb)), Tok::Lit(q, _)) = (v.last(), &t) {
                if pb.is_empty() && pq == q {
                    v.push(Tok::Word(" ".into()));
                }
            }
            v.push(t);
        } else {
            v.push(Tok::Word((0..r.range(1, 3)).map(|_| *r.pick(WORD)).collect()));
        }
    }
    if !render_toks(&v).chars().any(|c| !is_ws(c)) {
        v.push(Tok::Word("x".into()));
    }
    v
}

fn line_text(r: &mut Rng) -> String {
    let t: String = (0..r.below(4)).map(|_| *r.pick(LINE_TEXT)).collect();
    // a text that begins with `*` would complete the opener `/*` with the prefix's second slash
    if t.starts_with('*') { format!(" {t}") } else { t }
}

fn block_text(r: &mut Rng, closing: bool) -> String {
    let mut t: String = (0..r.below(4)).map(|_| *r.pick(BLOCK_TEXT)).collect();
    while t.contains("*/") {
        t = t.replacen("*/", "* /", 1);
    }
    if closing && t.ends_with('*') {
        // `**/` is fine, but keep the body free of a closer that straddles the junction: it is
        t.push(' ');
    }
    t
}

pub fn chunk(r: &mut Rng) -> Chunk {
    match r.below(10) {
        0 => Chunk::Blank(ws(r)),
        1..=3 => {
            let ts = toks(r);
            let cmt = if r.chance(1, 2) { Some(line_text(r)) } else { None };
            Chunk::Code(ts, cmt)
        }
        4 | 5 => Chunk::LineComment(ws(r), line_text(r)),
        6 | 7 => Chunk::BlockOne(ws(r), block_text(r, true), ws(r)),
        _ => {
            let mids = (0..r.below(4)).map(|_| if r.chance(1, 5) { ws(r) } else { block_text(r, false) }).collect();
            Chunk::Block(ws(r), block_text(r, false), mids, block_text(r, true), ws(r))
        }
    }
}

/// one violation of the well-formedness condition (the program leaves the theorem's domain)
fn spoil(r: &mut Rng, p: &mut Vec<Chunk>) -> &'static str {
    let k = r.below(p.len());
    match &mut p[k] {
        Chunk::Blank(ws) => {
            ws.push('x');
            "blank-with-text"
        }
        Chunk::Code(ts, cmt) => match r.below(4) {
            0 => {
                ts.push(Tok::Word("a / b".into()));
                "slash-in-word"
            }
            1 => {
                ts.push(Tok::Word("it's".into()));
                "quote-in-word"
            }
            2 => {
                ts.push(Tok::Lit('"', String::new()));
                ts.push(Tok::Lit('"', "x".into()));
                "empty-literal-then-quote"
            }
            _ => {
                *cmt = Some(" see src/*.rs".into());
                "opener-in-line-comment"
            }
        },
        Chunk::LineComment(_, t) => {
            if r.chance(1, 2) {
                *t = "* starts the opener".into();
                "opener-at-prefix"
            } else {
                *t = " sloc-guard:ignore-next 1".into();
                "directive"
            }
        }
        Chunk::BlockOne(_, body, trail) => match r.below(3) {
            0 => {
                body.push_str(" don't");
                "quote-in-block"
            }
            1 => {
                body.push_str(" a */ b");
                "closer-in-body"
            }
            _ => {
                trail.push_str(" x = 1;");
                "code-after-closer"
            }
        },
        Chunk::Block(_, body, mids, _, _) => {
            if r.chance(1, 2) {
                body.push_str(" \"q");
                "quote-in-block"
            } else {
                mids.push("// sloc-guard:ignore-start".into());
                "directive-in-block"
            }
        }
    }
}

pub fn c_family() -> CommentSyntax {
    use sloc_guard::language::MultiLineComment;
    CommentSyntax { single_line: vec!["//".to_string()], multi_line: vec![MultiLineComment::new("/*", "*/")] }
}

pub fn emit(sink: &mut Sink, r: &mut Rng, langs: &[(String, CommentSyntax)]) {
    if !sink.want() {
        sink.skip();
        let _ = r.next();
        return;
    }
    let mut rr = r.fork();
    let r = &mut rr;
    let n = if r.chance(1, 40) { 0 } else { r.range(1, 7) };
    let mut p: Vec<Chunk> = (0..n).map(|_| chunk(r)).collect();
    let spoiled = if n > 0 && r.chance(1, 5) { Some(spoil(r, &mut p)) } else { None };
    let ok = p.iter().all(Chunk::ok);
    let text: String = p.iter().flat_map(|c| c.lines()).map(|l| l + "\n").collect();
    let truth: String = p.iter().map(|c| c.truth()).collect();
    let (lang, syn) = &langs[r.below(langs.len())];
    let classes = match count_str(syn, &text) {
        Counted::IgnoredFile => "ignored-file".to_string(),
        Counted::Stats(_) => match impl_classes(syn, &text) {
            Ok(c) if c.is_empty() => "empty".to_string(),
            Ok(c) => c,
            Err(e) => format!("error:{e}"),
        },
        other => format!("{other:?}"),
    };
    let pred = if ok && classes != truth && !(truth.is_empty() && classes == "empty") {
        format!("FAIL a well-formed {lang} program (inside the domain of theorem classify_render) is classified {classes}, its ground truth is {truth}")
    } else {
        "ok".to_string()
    };
    let req = format!("grammar {}{}", p.len(), p.iter().map(|c| format!(" {}", c.enc())).collect::<String>());
    sink.push(Case {
        request: req,
        implementation: format!("{} {} {} {}", b(ok), enc(&text), truth, classes),
        pred,
        tag: format!("grammar-thm/{}/{}", if ok { "well-formed" } else { "outside" }, spoiled.unwrap_or(if ok { "clean" } else { "accidental" })),
    });
}
