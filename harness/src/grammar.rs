//! Lexical grammar for C02/C04: programs assembled from known pieces of a language, with the
//! class of every line known by construction (never by re-lexing).
use sloc_guard::language::{CommentSyntax, PatternKind};

use crate::rng::Rng;

/// Hazards: constructions the property explicitly covers and that the pinned code is known to
/// mishandle (see known_findings.json).  A program records which hazards it contains so that a
/// failure can be attributed by *repair* (removing the hazard must make the failure disappear).
#[derive(Clone, Copy, PartialEq, Eq, Debug, PartialOrd, Ord)]
pub enum Hazard {
    /// a quote character inside block-comment text
    QuoteInBlock,
    /// a block-comment opener inside line-comment text
    OpenerInLineComment,
    /// a triple-quoted block spanning several lines
    MultiLineTripleQuote,
    /// a triple-quote marker inside an ordinary string literal
    TripleQuoteInString,
}

impl Hazard {
    pub fn key(self) -> &'static str {
        match self {
            Self::QuoteInBlock => "quote-in-block-comment",
            Self::OpenerInLineComment => "opener-in-line-comment",
            Self::MultiLineTripleQuote => "multi-line-triple-quote",
            Self::TripleQuoteInString => "triple-quote-in-string",
        }
    }
}

#[derive(Clone, Debug)]
pub struct Line {
    pub text: String,
    /// 'c' code, 'm' comment, 'b' blank, 'i' ignored, '?' left open by the property (comment end + code)
    pub class: char,
    /// the hazard this line carries, with a hazard-free variant of the line that has the same
    /// class and the same effect on the following lines (used to attribute a failure by repair)
    pub hazard: Option<(Hazard, String)>,
}

impl Line {
    pub fn plain(text: String, class: char) -> Self {
        Self { text, class, hazard: None }
    }
}

#[derive(Clone, Debug, Default)]
pub struct Program {
    pub lines: Vec<Line>,
    pub hazards: Vec<Hazard>,
    pub shapes: Vec<&'static str>,
}

impl Program {
    /// the same program with every line carrying hazard `h` (or any hazard if `None`) replaced by
    /// its hazard-free variant
    pub fn repaired(&self, h: Option<Hazard>) -> Self {
        let mut p = self.clone();
        for l in &mut p.lines {
            if let Some((lh, safe)) = &l.hazard {
                if h.is_none() || h == Some(*lh) {
                    l.text = safe.clone();
                    l.hazard = None;
                }
            }
        }
        p.hazards = p.lines.iter().filter_map(|l| l.hazard.as_ref().map(|x| x.0)).collect();
        p.hazards.sort();
        p.hazards.dedup();
        p
    }
    pub fn text(&self, crlf: bool, final_newline: bool) -> String {
        let nl = if crlf { "\r\n" } else { "\n" };
        let mut s = self.lines.iter().map(|l| l.text.as_str()).collect::<Vec<_>>().join(nl);
        // an empty last line exists as a physical line only if it is terminated
        if !self.lines.is_empty() && (final_newline || self.lines.last().is_some_and(|l| l.text.is_empty())) {
            s += nl;
        }
        s
    }
    pub fn truth(&self) -> String {
        self.lines.iter().map(|l| l.class).collect()
    }
}

/// What the grammar knows about a language, derived from its real `CommentSyntax`.
#[derive(Clone)]
pub struct Family {
    pub name: String,
    pub syntax: CommentSyntax,
    pub line_prefixes: Vec<String>,
    /// static block pairs (start, end, nesting) that are not line-start-only
    pub blocks: Vec<(String, String, bool)>,
    /// line-start blocks (Ruby)
    pub line_start_blocks: Vec<(String, String)>,
    pub lua: bool,
    pub rust_raw: bool,
    /// triple-quote blocks (Python)
    pub triple: Vec<String>,
    /// single-quoted strings are string literals in this language
    pub single_quote_strings: bool,
}

impl Family {
    pub fn of(name: &str, syn: &CommentSyntax) -> Self {
        let mut f = Self {
            name: name.to_string(), syntax: syn.clone(), line_prefixes: syn.single_line.clone(), blocks: vec![],
            line_start_blocks: vec![], lua: false, rust_raw: false, triple: vec![],
            single_quote_strings: !matches!(name, "Rust" | "Go" | "C" | "C++" | "Java" | "Kotlin" | "Swift" | "C#" | "Scala"),
        };
        for m in &syn.multi_line {
            match m.pattern_kind {
                PatternKind::LuaLongBracket => f.lua = true,
                PatternKind::RustRawString => f.rust_raw = true,
                PatternKind::Static => {
                    if m.must_be_at_line_start {
                        f.line_start_blocks.push((m.start.clone(), m.end.clone()));
                    } else if m.start.chars().all(|c| c == '"' || c == '\'') {
                        f.triple.push(m.start.clone());
                    } else {
                        f.blocks.push((m.start.clone(), m.end.clone(), m.supports_nesting));
                    }
                }
            }
        }
        f
    }
}

const WORDS: &[&str] = &["x", "foo()", "return", "let y = 1;", "a + b", "if (ok) {", "}", "é = 2", "value", "call(1, 2)", "日本"];
const WS: &[&str] = &["", " ", "  ", "\t", "\u{a0}", "    "];

fn code_words(r: &mut Rng) -> String {
    let n = r.range(1, 3);
    (0..n).map(|_| *r.pick(WORDS)).collect::<Vec<_>>().join(" ")
}

/// text that is safe inside any comment: no quotes, no comment markers
fn plain_text(r: &mut Rng) -> String {
    let n = r.below(4);
    (0..n).map(|_| *r.pick(&["note", "todo", "see below", "é", "1 + 1", "x = y", "日本語", "a, b; c"])).collect::<Vec<_>>().join(" ")
}

fn markers_of(f: &Family) -> Vec<String> {
    let mut v: Vec<String> = f.line_prefixes.clone();
    for (s, e, _) in &f.blocks {
        v.push(s.clone());
        v.push(e.clone());
    }
    if f.lua {
        v.extend(["--[[".to_string(), "]]".to_string(), "--[=[".to_string()]);
    }
    for t in &f.triple {
        v.push(t.clone());
    }
    v.push("sloc-guard:ignore-next 3".to_string());
    v.push("sloc-guard:ignore-file".to_string());
    v
}

/// a text fragment, its hazard-free twin, and the hazard it carries (if any)
#[derive(Clone)]
struct Frag {
    text: String,
    safe: String,
    hazard: Option<Hazard>,
}

impl Frag {
    fn plain(s: String) -> Self {
        Self { text: s.clone(), safe: s, hazard: None }
    }
    fn wrap(&self, before: &str, after: &str) -> Self {
        Self { text: format!("{before}{}{after}", self.text), safe: format!("{before}{}{after}", self.safe), hazard: self.hazard }
    }
    fn line(self, class: char) -> Line {
        let hazard = self.hazard.map(|h| (h, self.safe));
        Line { text: self.text, class, hazard }
    }
}

/// a well-formed string literal whose body may contain comment markers and escapes
fn string_literal(r: &mut Rng, f: &Family, allow: &[Hazard]) -> Frag {
    let q = if f.single_quote_strings && r.chance(1, 3) { '\'' } else { '"' };
    let other = if q == '"' { "'" } else { "\"" };
    let ms = markers_of(f);
    let n = r.below(4);
    let mut body = Frag::plain(String::new());
    let mut add = |fr: &mut Frag, t: &str, s: &str| {
        fr.text += t;
        fr.safe += s;
    };
    for _ in 0..n {
        match r.below(6) {
            0 => { let e = format!("\\{q}"); add(&mut body, &e, &e) }
            1 => add(&mut body, "\\\\", "\\\\"),
            2 => {
                // the other quote character is plain text inside this literal, but a run of three
                // would read as a triple-quote block in Python-like families
                if f.triple.is_empty() { add(&mut body, other, other) } else { add(&mut body, "q", "q") }
            }
            3 | 4 => {
                let m = r.pick(&ms).clone();
                // a marker made of this literal's own quote character would end the literal
                if m.contains(q) {
                    add(&mut body, "m", "m");
                } else if f.triple.contains(&m) {
                    if allow.contains(&Hazard::TripleQuoteInString) {
                        add(&mut body, &m, "t");
                        body.hazard = Some(Hazard::TripleQuoteInString);
                    } else {
                        add(&mut body, "t", "t");
                    }
                } else {
                    add(&mut body, &m, &m);
                }
            }
            _ => add(&mut body, "txt ", "txt "),
        }
    }
    let qs = q.to_string();
    body.wrap(&qs, &qs)
}

fn raw_string(r: &mut Rng, f: &Family) -> Frag {
    let level = r.below(3);
    let hashes = "#".repeat(level);
    let ms = markers_of(f);
    let mut body: String = r.pick(&ms).clone();
    if level > 0 && r.chance(1, 2) {
        body += "\" quoted \"";
    }
    Frag::plain(format!("r{hashes}\"{body}\"{hashes}"))
}

/// arbitrary comment text; may carry a hazard
fn comment_text(r: &mut Rng, f: &Family, in_block: bool, allow: &[Hazard], closer: &str, opener: &str) -> Frag {
    let mut s = plain_text(r);
    // line-comment markers are harmless inside block comments
    if r.chance(1, 3) && !f.line_prefixes.is_empty() && in_block {
        let p = r.pick(&f.line_prefixes).clone();
        if !closer.contains(&p) && !p.contains(closer) && !opener.contains(&p) {
            s += &format!(" {p} ");
        }
    }
    if !in_block && r.chance(1, 4) {
        // quotes in a line comment are always harmless
        s += *r.pick(&[" don't", " \"a\"", " 'b'"]);
    }
    let mut fr = Frag::plain(s);
    if in_block && allow.contains(&Hazard::QuoteInBlock) && r.chance(1, 2) {
        fr.text += *r.pick(&[" don't ", " \"quoted ", " it's \"x\" ", "'"]);
        fr.hazard = Some(Hazard::QuoteInBlock);
    }
    if !in_block && allow.contains(&Hazard::OpenerInLineComment) && r.chance(1, 2) {
        let mut openers: Vec<String> = f.blocks.iter().map(|b| b.0.clone()).collect();
        if f.lua {
            openers.push("--[[".to_string());
            openers.push("--[==[".to_string());
        }
        if !openers.is_empty() {
            fr.text += &format!(" see src{}.rs ", r.pick(&openers));
            fr.safe += " see src.rs ";
            fr.hazard = Some(Hazard::OpenerInLineComment);
        }
    }
    fr
}

fn push(p: &mut Program, mut line: Line, ignoring: &mut Ignore) {
    // directive bookkeeping: the caller marks directive lines itself; ordinary lines consult the state
    line.class = match ignoring {
        Ignore::Block => 'i',
        Ignore::Next(n) if *n > 0 => {
            *n -= 1;
            'i'
        }
        _ => line.class,
    };
    if let Some((h, _)) = &line.hazard {
        p.hazards.push(*h);
    }
    p.lines.push(line);
}

pub enum Ignore {
    None,
    Next(usize),
    Block,
}

/// One lexical piece = one or more lines.
fn piece(r: &mut Rng, f: &Family, p: &mut Program, allow: &[Hazard], ig: &mut Ignore, directives: bool) {
    let ind = *r.pick(WS);
    let choice = r.below(if directives { 14 } else { 12 });
    match choice {
        0 => {
            p.shapes.push("blank");
            push(p, Line::plain((*r.pick(WS)).to_string(), 'b'), ig);
        }
        1 | 2 | 10 | 11 => {
            p.shapes.push("code");
            push(p, Line::plain(format!("{ind}{}", code_words(r)), 'c'), ig);
        }
        3 => {
            p.shapes.push("code+string");
            let raw = r.chance(1, 3);
            let lit = if f.rust_raw && raw { raw_string(r, f) } else { string_literal(r, f, allow) };
            push(p, lit.wrap(&format!("{ind}{} = ", code_words(r)), ";").line('c'), ig);
        }
        4 | 5 => {
            if f.line_prefixes.is_empty() {
                return;
            }
            p.shapes.push("line-comment");
            let pre = r.pick(&f.line_prefixes).clone();
            let t = comment_text(r, f, false, allow, "", "");
            push(p, t.wrap(&format!("{ind}{pre}"), "").line('m'), ig);
        }
        6 => {
            if f.line_prefixes.is_empty() {
                return;
            }
            p.shapes.push("code+line-comment");
            let pre = r.pick(&f.line_prefixes).clone();
            let t = comment_text(r, f, false, allow, "", "");
            push(p, t.wrap(&format!("{ind}{} {pre}", code_words(r)), "").line('c'), ig);
        }
        7 | 8 => {
            // block comment, one or several lines, nested where the language nests
            if f.blocks.is_empty() {
                return;
            }
            let (s, e, nest) = r.pick(&f.blocks).clone();
            let n = r.below(4);
            p.shapes.push(if n == 0 { "block-1" } else { "block-n" });
            let inner = |r: &mut Rng, p: &mut Program| -> Frag {
                let t = comment_text(r, f, true, allow, &e, &s);
                if nest && r.chance(1, 3) {
                    let depth = r.range(1, 3);
                    p.shapes.push("nested");
                    let mid = format!(" {} nested {} ", format!("{s} ").repeat(depth), format!(" {e}").repeat(depth));
                    return Frag { text: format!("{}{mid}", t.text), safe: format!("{}{mid}", t.safe), hazard: t.hazard };
                }
                t
            };
            // "tight" layouts: the character after the opener completes a closer that would overlap
            // the opener (`/*/`), the character after the closer completes an opener (`*/*p`); the
            // markers do not overlap, so neither changes where the comment begins or ends
            let mirror = s.chars().count() == 2 && e.chars().rev().collect::<String>() == s;
            if mirror && r.chance(1, 4) {
                let after_open: String = e.chars().skip(1).collect();
                let after_close: String = s.chars().skip(1).collect();
                p.shapes.push("block-tight");
                match r.below(3) {
                    0 => push(p, Line::plain(format!("{ind}{s}{after_open} {} {e}", plain_text(r)), 'm'), ig),
                    1 => {
                        push(p, Line::plain(format!("{ind}{s}{after_open} {}", plain_text(r)), 'm'), ig);
                        push(p, Line::plain(format!("{ind} {}", plain_text(r)), 'm'), ig);
                        push(p, Line::plain(format!("{ind} {e}"), 'm'), ig);
                    }
                    _ => {
                        push(p, Line::plain(format!("{ind}{s} {}", plain_text(r)), 'm'), ig);
                        // comment end and code on one line: the property leaves its class open ('?')
                        push(p, Line::plain(format!("{ind} {} {e}{after_close}p = 1;", plain_text(r)), '?'), ig);
                    }
                }
                p.shapes.push("code");
                push(p, Line::plain(format!("{ind}{}", code_words(r)), 'c'), ig);
                return;
            }
            if n == 0 {
                let t = inner(r, p);
                push(p, t.wrap(&format!("{ind}{s}"), &e).line('m'), ig);
            } else {
                let t = inner(r, p);
                push(p, t.wrap(&format!("{ind}{s}"), "").line('m'), ig);
                for _ in 1..n {
                    let t = inner(r, p);
                    // a middle line may be empty: still inside the comment
                    let l = if r.chance(1, 5) { Line::plain(String::new(), 'm') } else { t.wrap(&format!("{ind} "), "").line('m') };
                    push(p, l, ig);
                }
                let t = inner(r, p);
                push(p, t.wrap(ind, &e).line('m'), ig);
            }
        }
        9 => {
            if f.lua {
                let level = r.below(4);
                let eq = "=".repeat(level);
                let n = r.below(3);
                p.shapes.push("lua-long");
                let mut t = plain_text(r);
                if level > 0 && r.chance(1, 2) {
                    t += " ]] ";
                }
                if level == 0 && r.chance(1, 4) {
                    // the closer's text occurs in the code before the comment starts
                    p.shapes.push("lua-long-after-index");
                    push(p, Line::plain(format!("{ind}local v = t[k[1]] --[[{t}"), '?'), ig);
                    push(p, Line::plain(format!(" {} ", plain_text(r)), 'm'), ig);
                    push(p, Line::plain(format!("{t}]]"), 'm'), ig);
                    push(p, Line::plain(format!("{ind}{}", code_words(r)), 'c'), ig);
                    return;
                }
                if n == 0 {
                    push(p, Line::plain(format!("{ind}--[{eq}[{t}]{eq}]"), 'm'), ig);
                } else {
                    push(p, Line::plain(format!("{ind}--[{eq}[{t}"), 'm'), ig);
                    for _ in 1..n {
                        push(p, Line::plain(format!(" {} ", plain_text(r)), 'm'), ig);
                    }
                    push(p, Line::plain(format!("{t}]{eq}]"), 'm'), ig);
                }
            } else if !f.line_start_blocks.is_empty() {
                let (s, e) = r.pick(&f.line_start_blocks).clone();
                p.shapes.push("line-start-block");
                push(p, Line::plain(s, 'm'), ig);
                for _ in 0..r.below(3) {
                    push(p, Line::plain(format!("{} {}", plain_text(r), code_words(r)), 'm'), ig);
                }
                push(p, Line::plain(e, 'm'), ig);
            } else if !f.triple.is_empty() {
                let q = r.pick(&f.triple).clone();
                if allow.contains(&Hazard::MultiLineTripleQuote) && r.chance(1, 2) {
                    // the hazard-free twin of each line is a line comment: same class, no state
                    p.shapes.push("triple-n");
                    let pre = f.line_prefixes.first().cloned().unwrap_or_default();
                    let mut hz = |text: String| Line { hazard: Some((Hazard::MultiLineTripleQuote, format!("{pre} doc"))), text, class: 'm' };
                    push(p, hz(format!("{ind}{q}{}", plain_text(r))), ig);
                    for _ in 0..r.below(3) {
                        push(p, hz(format!("{ind}{} text", plain_text(r))), ig);
                    }
                    push(p, hz(format!("{ind}{}{q}", plain_text(r))), ig);
                } else {
                    p.shapes.push("triple-1");
                    push(p, Line::plain(format!("{ind}{q}{}{q}", plain_text(r)), 'm'), ig);
                }
            }
        }
        12 => {
            // ignore-next N: a whole-line line comment; the directive line itself is a comment
            if f.line_prefixes.is_empty() || !matches!(ig, Ignore::None) {
                return;
            }
            p.shapes.push("ignore-next");
            let pre = r.pick(&f.line_prefixes).clone();
            let n = r.below(4);
            p.lines.push(Line::plain(format!("{ind}{pre} sloc-guard:ignore-next {n}"), 'm'));
            *ig = Ignore::Next(n);
        }
        _ => {
            if f.line_prefixes.is_empty() || !matches!(ig, Ignore::None) {
                return;
            }
            p.shapes.push("ignore-block");
            let pre = r.pick(&f.line_prefixes).clone();
            p.lines.push(Line::plain(format!("{ind}{pre} sloc-guard:ignore-start"), 'm'));
            *ig = Ignore::Block;
            for _ in 0..r.below(4) {
                // only single-line pieces inside the region, hazard-free
                match r.below(3) {
                    0 => push(p, Line::plain(String::new(), 'b'), ig),
                    1 => push(p, Line::plain(code_words(r), 'c'), ig),
                    _ => push(p, Line::plain(format!("{pre} {}", plain_text(r)), 'm'), ig),
                }
            }
            p.lines.push(Line::plain(format!("{pre}sloc-guard:ignore-end"), 'm'));
            *ig = Ignore::None;
        }
    }
    if let Ignore::Next(0) = ig {
        *ig = Ignore::None;
    }
}

/// a program of about `pieces` lexical pieces
pub fn program(r: &mut Rng, f: &Family, pieces: usize, allow: &[Hazard], directives: bool) -> Program {
    let mut p = Program::default();
    let mut ig = Ignore::None;
    for _ in 0..pieces {
        piece(r, f, &mut p, allow, &mut ig, directives);
        // multi-line pieces must not start inside an `ignore-next` window that ends in their middle:
        // the window is counted in lines, which `push` handles line by line, so nothing to do here.
    }
    p.hazards.sort();
    p.hazards.dedup();
    p
}

/// directive text inside code or a string has no effect: such lines are plain code
pub fn directive_in_code(r: &mut Rng, f: &Family) -> Program {
    let mut p = Program::default();
    let d = *r.pick(&["sloc-guard:ignore-file", "sloc-guard:ignore-next 2", "sloc-guard:ignore-start"]);
    let text = if r.chance(1, 2) { format!("x = \"{d}\";") } else { format!("call({}) ; y", d.replace(' ', "_")) };
    p.lines.push(Line::plain(text, 'c'));
    for _ in 0..r.range(1, 4) {
        p.lines.push(Line::plain(code_words(r), 'c'));
    }
    let _ = f;
    p.shapes.push("directive-in-code");
    p
}

/// `ignore-file` in a whole-line line comment within the first 10 lines: `None` truth = ignored file
pub fn ignore_file_program(r: &mut Rng, f: &Family) -> Option<(Program, bool)> {
    if f.line_prefixes.is_empty() {
        return None;
    }
    let mut p = Program::default();
    let at = r.below(13);
    for i in 0..r.range(at + 1, at + 4) {
        if i == at {
            let pre = r.pick(&f.line_prefixes).clone();
            p.lines.push(Line::plain(format!("{pre} sloc-guard:ignore-file"), 'm'));
        } else {
            p.lines.push(Line::plain(code_words(r), 'c'));
        }
    }
    p.shapes.push("ignore-file");
    Some((p, at < 10))
}
