//! `sgverif dump-tables`: the tables the translator (`tools/extract.py`) turns into
//! `lean/SlocModel/Generated/{Languages,Presets}.lean`, read from the library itself — the built-in
//! language registry and the built-in presets as the code under check constructs them — so that
//! how the source text spells them (one `register` call per language or a table and a loop, a
//! `match` or a lookup array) does not matter.
use sloc_guard::config::presets::{AVAILABLE_PRESETS, load_preset};
use sloc_guard::language::{LanguageRegistry, PatternKind};

pub fn run() -> i32 {
    let mut presets = vec![];
    for name in AVAILABLE_PRESETS {
        match load_preset(name) {
            Ok(v) => match serde_json::to_value(&v) {
                Ok(j) => presets.push(serde_json::json!([name, j])),
                Err(e) => {
                    eprintln!("preset {name} cannot be represented as JSON: {e}");
                    return 1;
                }
            },
            Err(e) => {
                eprintln!("preset {name} does not load: {e}");
                return 1;
            }
        }
    }
    let languages: Vec<serde_json::Value> = LanguageRegistry::default()
        .all()
        .iter()
        .map(|l| {
            serde_json::json!({
                "name": l.name,
                "exts": l.extensions,
                "singles": l.comment_syntax.single_line,
                "multis": l.comment_syntax.multi_line.iter().map(|m| serde_json::json!({
                    "start": m.start,
                    "stop": m.end,
                    "nesting": m.supports_nesting,
                    "line_start": m.must_be_at_line_start,
                    "kind": match m.pattern_kind {
                        PatternKind::Static => "static",
                        PatternKind::LuaLongBracket => "luaLongBracket",
                        PatternKind::RustRawString => "rustRawString",
                    },
                })).collect::<Vec<_>>(),
            })
        })
        .collect();
    println!("{}", serde_json::json!({ "presets": presets, "languages": languages }));
    0
}
