//! C15 — trend history: append-only, whole-project, retention-bounded, exact deltas.
//!
//! In-process: the public `TrendHistory` / `TrendDelta` / `parse_duration` API with injected
//! timestamps.  End to end: the real binary (`snapshot`, `check` with auto-snapshot,
//! `stats summary`, dry-run) on scratch projects with the clock pinned by
//! `SLOC_GUARD_VERIF_NOW`; `history.json` before/after is compared with the model.
use std::panic::{AssertUnwindSafe, catch_unwind};
use std::path::{Path, PathBuf};

use sloc_guard::config::TrendConfig;
use sloc_guard::output::ProjectStatistics;
use sloc_guard::stats::{TrendDelta, TrendEntry, TrendHistory, parse_duration};

use super::Tier;
use crate::proto::{Case, Sink, b, enc, opt_num};
use crate::rng::Rng;

#[derive(Clone, Copy, Debug, PartialEq, Eq)]
struct Tot {
    files: usize,
    lines: usize,
    code: usize,
    comment: usize,
    blank: usize,
}

fn stats_of(t: Tot) -> ProjectStatistics {
    let mut s = ProjectStatistics::new(vec![]);
    s.total_files = t.files;
    s.total_lines = t.lines;
    s.total_code = t.code;
    s.total_comment = t.comment;
    s.total_blank = t.blank;
    s
}

fn entry(ts: u64, t: Tot) -> TrendEntry {
    TrendEntry { timestamp: ts, total_files: t.files, total_lines: t.lines, code: t.code, comment: t.comment, blank: t.blank, git_ref: None, git_branch: None }
}

fn show_entry(e: &TrendEntry) -> String {
    format!("{}:{}:{}:{}:{}:{}", e.timestamp, e.total_files, e.total_lines, e.code, e.comment, e.blank)
}
fn show_entries(es: &[TrendEntry]) -> String {
    if es.is_empty() { "-".to_string() } else { es.iter().map(show_entry).collect::<Vec<_>>().join(" ") }
}
fn cfg_fields(c: &TrendConfig) -> String {
    format!("{} {} {} {}", opt_num(c.max_entries), opt_num(c.max_age_days), opt_num(c.min_interval_secs), opt_num(c.min_code_delta))
}

fn gen_tot(r: &mut Rng) -> Tot {
    let code = r.below(500);
    let comment = r.below(60);
    let blank = r.below(60);
    Tot { files: r.below(12), lines: code + comment + blank, code, comment, blank }
}

fn gen_cfg(r: &mut Rng, wild: bool) -> TrendConfig {
    let mut c = TrendConfig::default();
    c.max_entries = *r.pick(&[None, Some(0usize), Some(1), Some(2), Some(3), Some(10)]);
    c.max_age_days = if wild && r.chance(1, 6) {
        Some(*r.pick(&[u64::MAX, 1 << 63, (1 << 63) - 1, 213_503_982_334_601, 213_503_982_334_602]))
    } else {
        *r.pick(&[None, Some(0u64), Some(1), Some(2), Some(30)])
    };
    c.min_interval_secs = *r.pick(&[None, Some(0u64), Some(1), Some(60), Some(3600), Some(86_400)]);
    c.min_code_delta = *r.pick(&[None, Some(0u64), Some(1), Some(10), Some(50)]);
    c
}

/// clock values: equal, close, far apart, backwards
fn gen_history(r: &mut Rng) -> Vec<TrendEntry> {
    let n = r.below(6);
    let mut ts: u64 = *r.pick(&[0u64, 1_000, 1_700_000_000]);
    let mut v = vec![];
    for _ in 0..n {
        match r.below(6) {
            0 => {}
            1 => ts += 1,
            2 => ts += 59,
            3 => ts += 86_400 * r.range(1, 40) as u64,
            4 => ts = ts.saturating_sub(r.range(1, 100_000) as u64),
            _ => ts += 3_600,
        }
        v.push(entry(ts, gen_tot(r)));
    }
    v
}

fn history_of(es: &[TrendEntry]) -> TrendHistory {
    let mut h = TrendHistory::new();
    for e in es {
        h.add_entry(e.clone());
    }
    h
}

fn emit_retain(sink: &mut Sink, r: &mut Rng, wild: bool) {
    if !sink.want() {
        sink.skip();
        return;
    }
    let cfg = gen_cfg(r, wild);
    let es = gen_history(r);
    let last = es.last().map_or(0, |e| e.timestamp);
    let now = match r.below(5) {
        0 => last,
        1 => last + 1,
        2 => last.saturating_sub(500),
        3 => last + 86_400 * 3,
        _ => last + 30,
    };
    let mut h = history_of(&es);
    let should = h.should_add(&cfg, now);
    let res = catch_unwind(AssertUnwindSafe(|| {
        h.apply_retention(&cfg, now);
        h
    }));
    let (implementation, mut pred) = match &res {
        Ok(h2) => (format!("ok should-add={} | {}", b(should), show_entries(h2.entries())), None),
        Err(_) => ("panic".to_string(), Some("apply_retention panicked (max_age_days * 86400 overflows)".to_string())),
    };
    if let Ok(h2) = &res {
        let out = h2.entries();
        // direct statement: bounded, none too old, newest kept, order preserved
        if let Some(m) = cfg.max_entries {
            if out.len() > m {
                pred = Some(format!("{} entries kept with max_entries = {m}", out.len()));
            }
        }
        if let Some(d) = cfg.max_age_days {
            {
                let age = d.saturating_mul(86_400);
                let cutoff = now.saturating_sub(age);
                if out.iter().any(|e| e.timestamp < cutoff) {
                    pred = Some("an entry older than max_age_days survived".to_string());
                }
                let aged: Vec<&TrendEntry> = es.iter().filter(|e| e.timestamp >= cutoff).collect();
                let keep = cfg.max_entries.map_or(aged.len(), |m| m.min(aged.len()));
                let want: Vec<TrendEntry> = aged[aged.len() - keep..].iter().map(|e| (*e).clone()).collect();
                if want != out {
                    pred = Some("retention did not keep exactly the newest entries within the limits".to_string());
                }
            }
        } else {
            let keep = cfg.max_entries.map_or(es.len(), |m| m.min(es.len()));
            if es[es.len() - keep..] != *out {
                pred = Some("retention did not keep exactly the newest entries".to_string());
            }
        }
    }
    sink.push(Case {
        request: {
            let mut q = format!("retain {} {} {}", cfg_fields(&cfg), now, es.len());
            for e in &es {
                q += &format!(" {}", show_entry(e));
            }
            q
        },
        implementation,
        pred: pred.map_or_else(|| "ok".to_string(), |p| format!("FAIL {p}")),
        tag: format!("retain/{}{}", if res.is_err() { "panic" } else { "ok" }, if wild { "/wild" } else { "" }),
    });
}

fn emit_delta(sink: &mut Sink, r: &mut Rng) {
    if !sink.want() {
        sink.skip();
        return;
    }
    let cfg = gen_cfg(r, false);
    let es = gen_history(r);
    let h = history_of(&es);
    let cur = gen_tot(r);
    let last = es.last().map_or(0, |e| e.timestamp);
    let now = last + *r.pick(&[0u64, 1, 100, 86_400, 86_400 * 50]);
    let dur: Option<u64> = if r.chance(1, 2) { Some(*r.pick(&[1u64, 60, 3_600, 86_400, 604_800, u64::MAX])) } else { None };
    let d: Option<TrendDelta> = match dur {
        Some(dd) => h.compute_delta_since(dd, &stats_of(cur), now),
        None => h.compute_delta(&stats_of(cur)),
    };
    let implementation = d.as_ref().map_or_else(
        || "none".to_string(),
        |d| format!(
            "delta {} {} {} {} {} prev={} sig={}",
            d.files_delta, d.lines_delta, d.code_delta, d.comment_delta, d.blank_delta, d.previous_timestamp.unwrap_or(0), b(d.is_significant(&cfg))
        ),
    );
    // direct statement
    let target = dur.map(|dd| now.saturating_sub(dd));
    let selected: Option<&TrendEntry> = match target {
        Some(t) => es.iter().rev().find(|e| e.timestamp <= t),
        None => es.last(),
    };
    let mut pred = None;
    match (&d, selected) {
        (None, None) => {}
        (Some(d), Some(e)) => {
            let want = (cur.files as i64 - e.total_files as i64, cur.code as i64 - e.code as i64, cur.lines as i64 - e.total_lines as i64);
            if (d.files_delta, d.code_delta, d.lines_delta) != want || d.previous_timestamp != Some(e.timestamp) {
                pred = Some("delta is not current totals minus the selected entry".to_string());
            }
            let sig = d.files_delta != 0 || d.code_delta.unsigned_abs() > cfg.min_code_delta.unwrap_or(10);
            if sig != d.is_significant(&cfg) {
                pred = Some("significance differs from: files changed or |code delta| > min_code_delta".to_string());
            }
        }
        _ => pred = Some("wrong reference entry selected".to_string()),
    }
    let mut req = format!("trend-delta {} {} {} {} {} {} {} {} {}", cfg_fields(&cfg), now, opt_num(dur), cur.files, cur.lines, cur.code, cur.comment, cur.blank, es.len());
    for e in &es {
        req += &format!(" {}", show_entry(e));
    }
    sink.push(Case { request: req, implementation, pred: pred.map_or_else(|| "ok".to_string(), |p| format!("FAIL {p}")), tag: format!("delta/{}", if dur.is_some() { "since" } else { "latest" }) });
}

const DUR_TEXTS: &[&str] = &[
    "7d", "1w", "12h", "5m", "300s", "30days", "2weeks", "4wk", "1sec", "60seconds", "1min", "1hr", " 7d ", "7D", "1W", "0d", "00s", "7", "d",
    "", "  ", "7y", "7 d", "-7d", "+7d", "7.5d", "7d2h", "99999999999999999999d", "18446744073709551615s", "18446744073709551616s",
    "18446744073709551615m", "99999999999999999w", "213503982334601d", "213503982334602d", "7\u{212a}", "2w\u{212a}", "2W\u{212a}S", "1\u{130}",
    "١d", "7ｄ", "7Days", "7DAYS", "3Hrs", "3 hrs", "\t5mins\n", "5minutess", "1second", "10wks",
];

fn emit_duration(sink: &mut Sink, r: &mut Rng, idx: usize) {
    if !sink.want() {
        sink.skip();
        return;
    }
    let text: String = if idx < DUR_TEXTS.len() {
        DUR_TEXTS[idx].to_string()
    } else {
        // grammar + mutation
        let n = *r.pick(&["0", "1", "7", "30", "007", "4294967296", "30500568904943", "30500568904944", "18446744073709551615"]);
        let u = *r.pick(&["s", "sec", "m", "min", "h", "hours", "d", "day", "w", "wk", "weeks", "x", "", "S", "Min", "WEEK", "w\u{212a}s"]);
        let pre = *r.pick(&["", " ", "\t"]);
        format!("{pre}{n}{u}{}", r.pick(&["", " ", "\n"]))
    };
    let res = catch_unwind(AssertUnwindSafe(|| parse_duration(&text)));
    let implementation = match &res {
        Err(_) => "panic".to_string(),
        Ok(Ok(n)) => format!("ok {n}"),
        Ok(Err(e)) => {
            let m = e.to_string();
            let k = if m.contains("cannot be empty") { "empty" } else if m.contains("Missing unit") { "missing-unit" } else if m.contains("Missing number") { "missing-number" }
                else if m.contains("too large") { "too-large" } else if m.contains("Invalid duration number") { "bad-number" } else if m.contains("greater than zero") { "zero" } else if m.contains("Invalid duration unit") { "bad-unit" } else { "other" };
            format!("err {k}")
        }
    };
    let pred = if res.is_err() { "FAIL parse_duration panicked (value * multiplier overflows u64)".to_string() } else { "ok".to_string() };
    sink.push(Case { request: format!("duration {}", enc(&text)), implementation: implementation.clone(), pred, tag: format!("duration/{}", implementation.split(' ').take(2).collect::<Vec<_>>().join("-").replace(char::is_numeric, "")) });
}

// ------------------------------------------------------------------ end to end

struct Project {
    dir: PathBuf,
    bin: String,
}

impl Project {
    fn run(&self, now: u64, args: &[&str]) -> (i32, String, String) {
        let o = std::process::Command::new(&self.bin)
            .args(args)
            .current_dir(&self.dir)
            .env("SLOC_GUARD_VERIF_NOW", now.to_string())
            .env("NO_COLOR", "1")
            .output()
            .expect("run sloc-guard");
        (o.status.code().unwrap_or(-1), String::from_utf8_lossy(&o.stdout).into_owned(), String::from_utf8_lossy(&o.stderr).into_owned())
    }
    fn history(&self) -> Vec<TrendEntry> {
        let p = self.dir.join(".sloc-guard/history.json");
        if !p.exists() {
            return vec![];
        }
        TrendHistory::load(&p).map(|h| h.entries().to_vec()).unwrap_or_default()
    }
    /// totals as `stats summary --format json` reports them
    fn summary(&self, now: u64) -> Option<Tot> {
        let (_, out, _) = self.run(now, &["stats", "summary", "--format", "json", "--no-sloc-cache"]);
        let v: serde_json::Value = serde_json::from_str(&out).ok()?;
        let s = v.get("summary")?;
        let g = |k: &str| s.get(k).and_then(serde_json::Value::as_u64).map(|x| x as usize);
        Some(Tot { files: g("total_files")?, lines: g("total_lines")?, code: g("code")?, comment: g("comment")?, blank: g("blank")? })
    }
}

fn write_project(dir: &Path, r: &mut Rng, cfg: &TrendConfig, auto: bool, content_exclude: bool, count_all: (bool, bool)) {
    let _ = std::fs::remove_dir_all(dir);
    std::fs::create_dir_all(dir.join("src")).unwrap();
    for name in ["a.rs", "b.rs", "c.rs", "d.py"] {
        let code = r.range(1, 12);
        let mut s = String::new();
        for i in 0..code {
            s += &format!("let x{i} = {i};\n");
        }
        s += "// comment\n\n";
        std::fs::write(dir.join("src").join(name), s).unwrap();
    }
    let mut t = String::from("version = \"2\"\n[content]\nmax_lines = 1000\nextensions = [\"rs\", \"py\"]\n");
    if content_exclude {
        t += "exclude = [\"**/d.py\"]\n";
    }
    if count_all.0 { t += "skip_comments = false\n"; }
    if count_all.1 { t += "skip_blank = false\n"; }
    t += "[trend]\n";
    if let Some(v) = cfg.max_entries { t += &format!("max_entries = {v}\n"); }
    if let Some(v) = cfg.max_age_days { t += &format!("max_age_days = {v}\n"); }
    if let Some(v) = cfg.min_interval_secs { t += &format!("min_interval_secs = {v}\n"); }
    if let Some(v) = cfg.min_code_delta { t += &format!("min_code_delta = {v}\n"); }
    if auto { t += "auto_snapshot_on_check = true\n"; }
    std::fs::write(dir.join(".sloc-guard.toml"), t).unwrap();
}

fn emit_binary_history(sink: &mut Sink, r: &mut Rng, scratch: &str, bin: &str, steps: usize) {
    let dir = PathBuf::from(scratch).join(format!("h{}", sink.n));
    let mut cfg = gen_cfg(r, false);
    // the second history of a run: a full history (max_entries = 2) and auto-snapshotting checks
    let second = sink.n == steps;
    if second {
        cfg.max_entries = Some(2);
        cfg.min_interval_secs = None;
        cfg.max_age_days = None;
    }
    // the first history of a run always has a content-excluded file and starts with an
    // auto-snapshotting check (the known finding is reproduced on every run)
    let first = sink.n == 0;
    let content_exclude = r.chance(1, 4) || first;
    let count_all = (r.chance(1, 3), r.chance(1, 3));
    write_project(&dir, r, &cfg, true, content_exclude, count_all);
    let p = Project { dir: dir.clone(), bin: bin.to_string() };
    let mut now: u64 = 1_700_000_000;
    for _ in 0..steps {
        if !sink.want() {
            sink.skip();
            continue;
        }
        match r.below(5) {
            0 => {}
            1 => now += 1,
            2 => now += 3_600,
            3 => now += 86_400 * r.range(1, 40) as u64,
            _ => now = now.saturating_sub(r.range(1, 5_000) as u64),
        }
        // occasionally edit the project
        if r.chance(1, 3) {
            let f = dir.join("src").join(*r.pick(&["a.rs", "b.rs", "c.rs"]));
            let mut s = std::fs::read_to_string(&f).unwrap_or_default();
            s += "let more = 1;\n";
            std::fs::write(&f, s).unwrap();
        }
        let before = p.history();
        let whole = p.summary(now);
        let op = if (first && sink.n == 0) || (second && sink.n < steps + 5) { let _ = r.below(11); 4 } else { r.below(11) };
        if second { now += 3_600; }
        let (since_txt, since_secs): (&str, u64) = *r.fork().pick(&[("1h", 3_600u64), ("2d", 172_800), ("400d", 34_560_000), ("90s", 90)]);
        let narrowed: &[&str] = *r.fork().pick(&[&["--exclude", "src/a.rs"][..], &["--ext", "rs"][..], &["src/a.rs", "src/b.rs"][..], &["--include", "src/b.rs"][..]]);
        let (label, force, dry, restricted): (&str, bool, bool, bool) = match op {
            10 => ("stats-since", false, false, false),
            9 => ("check-narrowed", false, false, true),
            8 => ("check-auto-ff", false, false, false),
            0 | 1 => ("snapshot", false, false, false),
            2 => ("snapshot-force", true, false, false),
            3 => ("snapshot-dry", false, true, false),
            4 => ("check-auto", false, false, false),
            5 => ("check-files", false, false, true),
            6 => ("stats", false, false, false),
            _ => ("check-no-auto", false, false, false),
        };
        let mut argv: Vec<&str> = match label {
            "snapshot" => vec!["snapshot", "--no-sloc-cache"],
            "snapshot-force" => vec!["snapshot", "--force", "--no-sloc-cache"],
            "snapshot-dry" => vec!["snapshot", "--dry-run", "--no-sloc-cache"],
            "check-auto" => vec!["check", "--no-sloc-cache"],
            // every file is over the limit, --warn-only keeps the run passing, fail-fast may stop it early
            "check-auto-ff" => vec!["check", "--no-sloc-cache", "--warn-only", "--fail-fast", "--max-lines", "0", "--format", "json"],
            "check-files" => vec!["check", "--no-sloc-cache", "--files", "src/c.rs"],
            "stats" => vec!["stats", "trend", "--no-sloc-cache"],
            _ => vec!["check", "--no-sloc-cache", "--no-config"],
        };
        if label == "stats-since" {
            argv = vec!["stats", "trend", "--no-sloc-cache", "--format", "json", "--since", since_txt];
        }
        if label == "check-narrowed" {
            // a passing check of a part of the project: other targets, --include, --exclude, --ext
            argv = vec!["check", "--no-sloc-cache"];
            argv.extend(narrowed.iter());
        }
        let (rc, out, err) = p.run(now, &argv);
        // the tool's own claim: snapshot says when it skips, check says when it records
        let claims_recorded = if label.starts_with("snapshot") { !out.contains("Snapshot skipped") && !dry } else { err.contains("Auto-snapshot recorded") };
        let after = p.history();
        // a run that fail-fast stopped before the last file has partial totals, like --files
        let stopped_early = label == "check-auto-ff"
            && serde_json::from_str::<serde_json::Value>(&out).ok().and_then(|v| v["summary"]["total_files"].as_u64()).is_some_and(|n| whole.is_some_and(|w| (n as usize) < (w.files as usize).saturating_sub(usize::from(content_exclude))));
        let label = if stopped_early { "check-auto-ff-stopped" } else if label == "check-auto-ff" { "check-auto" } else { label };
        let writes = matches!(label, "snapshot" | "snapshot-force" | "check-auto");
        // what the model is told: recorded totals are taken from the entry actually appended (if
        // any), the decision and the retained list are predicted
        let appended: Option<Tot> = after.last().filter(|e| e.timestamp == now && after != before).map(|e| Tot {
            files: e.total_files, lines: e.total_lines, code: e.code, comment: e.comment, blank: e.blank,
        });
        let mut pred: Option<String> = None;
        if err.contains("panicked at") || rc == 101 {
            pred = Some(format!("{label} panicked"));
        }
        if label == "stats-since" && rc == 0 {
            // the delta is taken against the newest entry at or before now - D; none: no delta at all
            let cutoff = now.saturating_sub(since_secs);
            // ("newest" = most recently recorded: the histories let the clock step backwards, and
            // then the latest recording is not the largest timestamp)
            let sel = before.iter().rev().find(|e| e.timestamp <= cutoff);
            let v: serde_json::Value = serde_json::from_str(&out).unwrap_or(serde_json::Value::Null);
            let shown = v.get("trend").filter(|t| !t.is_null());
            match (sel, shown, whole) {
                (None, Some(t), _) => pred = Some(format!("`stats trend --since {since_txt}`: no entry is at or before now - {since_txt}, yet a delta is shown: {t}")),
                (Some(e), None, _) => pred = Some(format!("`stats trend --since {since_txt}`: the entry of {} is at or before now - {since_txt}, but no delta is shown", e.timestamp)),
                (Some(e), Some(t), Some(w)) => {
                    let tie = false;
                    let want = (w.code as i64 - e.code as i64, w.lines as i64 - e.total_lines as i64, w.files as i64 - e.total_files as i64);
                    let got = (t["code"].as_i64().unwrap_or(i64::MIN), t["lines"].as_i64().unwrap_or(i64::MIN), t["files"].as_i64().unwrap_or(i64::MIN));
                    if !tie && got != want {
                        pred = Some(format!("`stats trend --since {since_txt}`: delta (code, lines, files) {got:?}, current totals minus the entry of {} give {want:?}", e.timestamp));
                    }
                }
                _ => {}
            }
        }
        if label == "check-narrowed" && after != before {
            pred = Some(format!("`check {}` recorded an auto-snapshot of the part it looked at: {:?}, the whole project is {whole:?}", narrowed.join(" "), appended));
        } else if !writes && after != before {
            pred = Some(if stopped_early { "a check that fail-fast stopped early recorded its partial totals as an auto-snapshot".to_string() } else { format!("read-only command {label} modified the history") });
        }
        if writes {
            if let (Some(rec), Some(w)) = (appended, whole) {
                if rec != w {
                    let key = if restricted {
                        ""
                    } else if content_exclude && label == "check-auto" {
                        "key=auto-snapshot-ignores-content-excluded-files "
                    } else {
                        ""
                    };
                    pred = Some(format!("{key}{label} recorded {rec:?} but `stats summary` reports {w:?}"));
                }
            }
        }
        let tot = appended.or(whole).unwrap_or(Tot { files: 0, lines: 0, code: 0, comment: 0, blank: 0 });
        let implementation = if !writes {
            format!("{} | {}", if dry { "dry-run" } else { "skipped" }, show_entries(&after))
        } else {
            format!("{} | {}", if claims_recorded { "recorded" } else { "skipped" }, show_entries(&after))
        };
        let request = if writes || dry {
            let mut q = format!("trend-step {} {now} {now} {now} {} {} {} {} {} {} {} {}", cfg_fields(&cfg), b(force), b(dry), tot.files, tot.lines, tot.code, tot.comment, tot.blank, before.len());
            for e in &before {
                q += &format!(" {}", show_entry(e));
            }
            q
        } else {
            "noop".to_string()
        };
        let implementation = if request == "noop" { "-".to_string() } else { implementation };
        sink.push(Case { request, implementation, pred: pred.map_or_else(|| "ok".to_string(), |p| format!("FAIL {p}")), tag: format!("cli/{label}/{}", if after != before { "changed" } else { "same" }) });
    }
    let _ = std::fs::remove_dir_all(&dir);
}

pub fn run(tier: Tier, seed: u64, out: &str) {
    let mut sink = Sink::create(out);
    let mut r = Rng::new(seed);
    if let Ok(bin) = std::env::var("SGVERIF_BIN") {
        let scratch = std::env::var("SGVERIF_SCRATCH").unwrap_or_else(|_| "/verif/.build/scratch/c15".to_string());
        for _ in 0..tier.scale(12, 300) {
            emit_binary_history(&mut sink, &mut r, &scratch, &bin, 10);
        }
    }
    for i in 0..DUR_TEXTS.len() + tier.scale(2_000, 100_000) {
        emit_duration(&mut sink, &mut r, i);
    }
    for i in 0..tier.scale(20_000, 1_000_000) {
        emit_retain(&mut sink, &mut r, i % 4 == 3);
        emit_delta(&mut sink, &mut r);
    }
    sink.extra.insert("trivial_tag_prefixes".into(), serde_json::json!(["cli/stats", "cli/check-no-auto"]));
    sink.finish(out);
}
