//! C18 — remote configuration integrity and fetch policy.
//!
//! In-process: the real `fetch_remote_config_with_client` with a scripted `HttpClient` that counts
//! requests, the cache file aged with `File::set_modified`.  The full product
//! policy × cache state × hash given × server behaviour is enumerated, sequences sharing one cache
//! are sampled, and a kill during the cache write is produced by re-executing this binary as a
//! child process with a crash point armed.
use std::cell::Cell;
use std::path::{Path, PathBuf};
use std::time::{Duration, SystemTime};

use sha2::{Digest, Sha256};
use sloc_guard::SlocGuardError;
use sloc_guard::config::FetchPolicy;
use sloc_guard::config::verif_exports::{HttpClient, compute_content_hash, fetch_remote_config_with_client};

use super::Tier;
use super::c13::POINTS;
use crate::proto::{Case, Sink, b, opt_num};
use crate::rng::Rng;

const URL: &str = "https://example.invalid/base.toml";
/// content ids: 1 = the genuine body, 2 = an altered body, 3 = an older genuine-looking copy,
/// 4 = a truncated copy of the genuine body, 5 = another altered body
const BODIES: &[(usize, &str)] = &[
    (1, "version = \"2\"\n[content]\nmax_lines = 300\n"),
    (2, "version = \"2\"\n[content]\nmax_lines = 9999\n"),
    (3, "version = \"2\"\n[content]\nmax_lines = 250\n"),
    (4, "version = \"2\"\n[content]\nmax_li"),
    (5, "version = \"2\"\n"),
];

fn body(id: usize) -> &'static str {
    BODIES.iter().find(|x| x.0 == id).map_or("", |x| x.1)
}
fn id_of(text: &str) -> usize {
    BODIES.iter().find(|x| x.1 == text).map_or(0, |x| x.0)
}

struct Scripted {
    answer: Option<usize>,
    calls: Cell<usize>,
}
impl HttpClient for Scripted {
    fn get(&self, _url: &str) -> sloc_guard::Result<String> {
        self.calls.set(self.calls.get() + 1);
        match self.answer {
            Some(id) => Ok(body(id).to_string()),
            None => Err(SlocGuardError::Config("Request timeout fetching remote config".to_string())),
        }
    }
}

/// answers by URL: every URL has its own document
struct ByUrl {
    docs: Vec<(String, usize)>,
    calls: Cell<usize>,
}
impl HttpClient for ByUrl {
    fn get(&self, url: &str) -> sloc_guard::Result<String> {
        self.calls.set(self.calls.get() + 1);
        match self.docs.iter().find(|d| d.0 == url) {
            Some((_, id)) => Ok(body(*id).to_string()),
            None => Err(SlocGuardError::Config("HTTP 404".to_string())),
        }
    }
}

/// Two URLs that differ only in letter case, a trailing slash, a query string or a fragment name
/// two documents: each has its own cache entry, and none is ever answered with the other's copy.
fn two_url_cases(sink: &mut Sink, scratch: &str) {
    let pairs = [
        ("https://example.invalid/Team/base.toml", "https://example.invalid/team/base.toml"),
        ("https://example.invalid/base.toml", "https://example.invalid/base.toml/"),
        ("https://example.invalid/base.toml?v=1", "https://example.invalid/base.toml?v=2"),
        ("https://example.invalid/a/base.toml", "https://example.invalid/a//base.toml"),
        ("https://example.invalid/base.toml", "https://EXAMPLE.invalid/base.TOML"),
    ];
    for (i, (ua, ub)) in pairs.iter().enumerate() {
        if !sink.want() {
            sink.skip();
            continue;
        }
        let root = PathBuf::from(scratch).join(format!("two-urls-{i}"));
        let _ = std::fs::remove_dir_all(&root);
        std::fs::create_dir_all(&root).unwrap();
        let client = ByUrl { docs: vec![((*ua).to_string(), 1), ((*ub).to_string(), 2)], calls: Cell::new(0) };
        let mut pred: Option<String> = None;
        let mut got = vec![];
        for (url, policy, want) in [(ua, FetchPolicy::Normal, 1usize), (ub, FetchPolicy::Normal, 2), (ub, FetchPolicy::Offline, 2), (ua, FetchPolicy::Offline, 1), (ua, FetchPolicy::Normal, 1), (ub, FetchPolicy::ForceRefresh, 2)] {
            let r = fetch_remote_config_with_client(url, &client, Some(&root), None, policy);
            let id = r.as_ref().map(|t| id_of(t)).unwrap_or(0);
            got.push(id);
            if id != want && pred.is_none() {
                pred = Some(format!("`{url}` ({policy:?}) took effect as document {id} ({}), its own document is {want}: another URL's cache entry answered", r.as_ref().map_or_else(|e| e.to_string(), |_| "ok".to_string())));
            }
        }
        let _ = std::fs::remove_dir_all(&root);
        sink.push(Case { request: "noop".into(), implementation: "-".into(), pred: pred.map_or_else(|| "ok".into(), |p| format!("FAIL {p}")), tag: format!("two-urls/{i}") });
    }
}

fn cache_path(root: &Path) -> PathBuf {
    let mut h = Sha256::new();
    h.update(URL.as_bytes());
    root.join(".sloc-guard").join("remote-configs").join(format!("{:x}.toml", h.finalize()))
}

fn set_cache(root: &Path, state: Option<(usize, u64)>) {
    let p = cache_path(root);
    let _ = std::fs::remove_file(&p);
    if let Some((id, age)) = state {
        std::fs::create_dir_all(p.parent().unwrap()).unwrap();
        std::fs::write(&p, body(id)).unwrap();
        let f = std::fs::OpenOptions::new().write(true).open(&p).unwrap();
        f.set_modified(SystemTime::now() - Duration::from_secs(age)).unwrap();
    }
}

fn read_cache(root: &Path) -> Option<usize> {
    std::fs::read_to_string(cache_path(root)).ok().map(|t| id_of(&t))
}

fn policy_name(p: FetchPolicy) -> &'static str {
    match p {
        FetchPolicy::Normal => "normal",
        FetchPolicy::Offline => "offline",
        FetchPolicy::ForceRefresh => "refresh",
    }
}

#[derive(Clone)]
struct Step {
    policy: FetchPolicy,
    server: Option<usize>,
    dt: u64,
}

/// run a sequence of fetches sharing one cache; `hash` = content id whose SHA-256 is expected
fn run_seq(sink: &mut Sink, root: &Path, hash: Option<usize>, root_given: bool, cache0: Option<(usize, u64)>, steps: &[Step], tag: &str) {
    if !sink.want() {
        sink.skip();
        return;
    }
    let _ = std::fs::remove_dir_all(root);
    std::fs::create_dir_all(root).unwrap();
    set_cache(root, cache0);
    let expected = hash.map(|id| compute_content_hash(body(id)));
    let mut results = vec![];
    let mut requests = 0usize;
    let mut pred: Option<String> = None;
    let mut age_now: Option<(usize, u64)> = cache0;
    for st in steps {
        // let `dt` seconds pass: re-age the cache file
        if let Some((id, age)) = age_now {
            if read_cache(root) == Some(id) {
                set_cache(root, Some((id, age + st.dt)));
                age_now = Some((id, age + st.dt));
            }
        }
        let before = read_cache(root);
        let client = Scripted { answer: st.server, calls: Cell::new(0) };
        let r = fetch_remote_config_with_client(URL, &client, if root_given { Some(root) } else { None }, expected.as_deref(), st.policy);
        let calls = client.calls.get();
        requests += calls;
        let after = read_cache(root);
        let shown = match &r {
            Ok(text) => format!("ok:{}", id_of(text)),
            Err(SlocGuardError::RemoteConfigHashMismatch { .. }) => "err:hash-mismatch".to_string(),
            Err(SlocGuardError::Config(m)) if m.contains("cache miss in offline mode") => "err:offline-miss".to_string(),
            Err(_) => "err:network".to_string(),
        };
        // ---- the property, directly
        if let (Ok(text), Some(h)) = (&r, &expected) {
            if &compute_content_hash(text) != h {
                pred = Some("content with a different SHA-256 than extends_sha256 took effect".to_string());
            }
        }
        if after != before {
            match (&after, st.server) {
                (Some(a), Some(sv)) if *a == sv => {
                    if let Some(hid) = hash {
                        if sv != hid { pred = Some("content with a mismatching hash was written to the cache".to_string()); }
                    }
                }
                _ => pred = Some(format!("cache changed from {before:?} to {after:?} although the server answered {:?}", st.server)),
            }
        }
        if r.is_err() && after != before {
            pred = Some("a failed fetch modified the cache".to_string());
        }
        if st.policy == FetchPolicy::Offline && calls != 0 {
            pred = Some("the offline policy contacted the network".to_string());
        }
        if st.policy == FetchPolicy::Offline && before.is_none() && r.is_ok() {
            pred = Some("the offline policy succeeded on a cache miss".to_string());
        }
        if st.policy == FetchPolicy::ForceRefresh && calls != 1 {
            pred = Some("the refresh policy did not go to the network".to_string());
        }
        if st.policy == FetchPolicy::Normal && hash.is_none() && root_given {
            let fresh = age_now.is_some_and(|(_, age)| age < 3600) && before.is_some();
            if fresh != (calls == 0) {
                pred = Some(format!("normal policy: cache age {:?}, requests {calls}", age_now.map(|x| x.1)));
            }
        }
        // pinned or not: under the normal policy a copy older than an hour is never what takes effect
        // without a request
        if st.policy == FetchPolicy::Normal && root_given && calls == 0 && r.is_ok() {
            let fresh = age_now.is_some_and(|(_, age)| age < 3600) && before.is_some();
            if !fresh && pred.is_none() {
                pred = Some(format!("normal policy: a cached copy of age {:?} took effect without a request (pin {:?})", age_now.map(|x| x.1), hash));
            }
        }
        // the file's real age now: ~0 if this fetch rewrote it, unchanged otherwise
        age_now = after.map(|id| {
            let age = std::fs::metadata(cache_path(root)).and_then(|m| m.modified()).ok().and_then(|m| SystemTime::now().duration_since(m).ok()).map_or(0, |d| d.as_secs());
            // snap to the scripted ages (sub-second drift)
            let snapped = if age <= 2 { 0 } else { age_now.map_or(age, |x| if x.1.abs_diff(age) <= 2 { x.1 } else { age }) };
            (id, snapped)
        });
        results.push(shown);
    }
    let final_cache = read_cache(root);
    let mut req = format!("fetch-seq {} {}", opt_num(hash), b(root_given));
    match cache0 {
        None => req += " absent",
        Some((id, age)) => req += &format!(" {id} {age}"),
    }
    req += &format!(" {}", steps.len());
    for st in steps {
        req += &format!(" {} {} {}", policy_name(st.policy), st.server.map_or_else(|| "err".to_string(), |x| x.to_string()), st.dt);
    }
    let _ = std::fs::remove_dir_all(root);
    sink.push(Case {
        request: req,
        implementation: format!("{} | cache={} requests={requests}", results.join(" "), final_cache.map_or_else(|| "absent".to_string(), |c| format!("present:{c}"))),
        pred: pred.map_or_else(|| "ok".to_string(), |p| format!("FAIL {p}")),
        tag: tag.to_string(),
    });
}

/// child mode: perform one fetch with a crash point armed (the abort kills only this process)
pub fn child(args: &[String]) {
    // c18-child <root> <policy> <hash id|-> <server id>
    let root = PathBuf::from(&args[0]);
    let policy = match args[1].as_str() { "offline" => FetchPolicy::Offline, "refresh" => FetchPolicy::ForceRefresh, _ => FetchPolicy::Normal };
    let hash: Option<usize> = args[2].parse().ok();
    let server: Option<usize> = args[3].parse().ok();
    let expected = hash.map(|id| compute_content_hash(body(id)));
    let client = Scripted { answer: server, calls: Cell::new(0) };
    let r = fetch_remote_config_with_client(URL, &client, Some(&root), expected.as_deref(), policy);
    println!("{}", r.is_ok());
}

fn crash_cases(sink: &mut Sink, scratch: &str) {
    let me = std::env::current_exe().expect("own path");
    for prior in [None, Some((3usize, 5000u64))] {
        for point in POINTS {
            if !sink.want() {
                sink.skip();
                continue;
            }
            let root = PathBuf::from(scratch).join(format!("k{}", sink.n));
            let _ = std::fs::remove_dir_all(&root);
            std::fs::create_dir_all(&root).unwrap();
            set_cache(&root, prior);
            let file = cache_path(&root).file_name().unwrap().to_string_lossy().into_owned();
            let o = std::process::Command::new(&me)
                .args(["c18-child", &root.to_string_lossy(), "normal", "-", "1"])
                .env("SLOC_GUARD_VERIF_CRASH", point)
                .env("SLOC_GUARD_VERIF_CRASH_FILE", &file)
                .output()
                .expect("child");
            let crashed = o.status.code().is_none() || o.status.code() == Some(134);
            let after = std::fs::read_to_string(cache_path(&root)).ok();
            let state = match (&after, prior) {
                (None, _) => "absent".to_string(),
                (Some(t), Some((pid, _))) if t == body(pid) => "prior".to_string(),
                (Some(t), _) if t == body(1) => "new".to_string(),
                (Some(t), _) if t.is_empty() => "empty".to_string(),
                _ => "partial".to_string(),
            };
            let mut pred: Option<String> = None;
            if !crashed {
                pred = Some(format!("child did not abort at {point}"));
            }
            let ok = matches!((prior, state.as_str()), (None, "absent" | "new") | (Some(_), "prior" | "new"));
            if !ok {
                pred = Some(format!("a fetch killed at {point} left a {state} cache entry"));
            }
            // a later run (normal policy, no hash, server down) must not take effect with anything
            // but a complete copy
            let client = Scripted { answer: None, calls: Cell::new(0) };
            // make whatever is there look fresh
            if let Some(t) = &after {
                let id = id_of(t);
                if id != 0 { set_cache(&root, Some((id, 10))); }
            }
            let later = fetch_remote_config_with_client(URL, &client, Some(&root), None, FetchPolicy::Normal);
            if let Ok(text) = &later {
                if text != body(1) && prior.is_none_or(|(pid, _)| text != body(pid)) {
                    pred = Some(format!("after a fetch killed at {point} a later run trusted a truncated cache entry"));
                }
            }
            let _ = std::fs::remove_dir_all(&root);
            sink.push(Case {
                request: format!("save-crash {} {} {}", b(prior.is_some()), point, body(1).len()),
                implementation: format!("target={state} temp=-").replace(" temp=-", " -"),
                pred: pred.map_or_else(|| "ok".to_string(), |p| format!("FAIL {p}")),
                tag: format!("crash/{}/{point}", if prior.is_some() { "prior" } else { "absent" }),
            });
        }
    }
}

/// The pin as the user writes it: a project whose configuration extends a URL served by a local
/// HTTP server, checked by the binary.  With `extends_sha256` present the body takes effect only
/// if its hash is the pin — an empty or blank pin is a pin no content has — and a rejected body
/// is not written anywhere.
/// The fetch policy as the user gives it (`--extends-policy`), for every command that loads a
/// configuration: offline never contacts the server and fails on a cache miss; refresh always
/// contacts it; normal uses the fresh copy a moment later.
fn e2e_policies(sink: &mut Sink, scratch: &str) {
    use std::io::{Read, Write};
    let Ok(bin) = std::env::var("SGVERIF_BIN") else { return };
    let body = "version = \"2\"\n[content]\nmax_lines = 5\n";
    let commands: Vec<(&str, Vec<&str>)> = vec![
        ("check", vec!["check", "--no-sloc-cache", "--warn-only", "."]),
        ("stats summary", vec!["stats", "summary", "--no-sloc-cache"]),
        ("config show", vec!["config", "show"]),
        ("config validate", vec!["config", "validate"]),
    ];
    for (label, cmd) in commands {
        if !sink.want() {
            sink.skip();
            continue;
        }
        let Ok(listener) = std::net::TcpListener::bind("127.0.0.1:0") else {
            sink.push(Case { request: "noop".into(), implementation: "-".into(), pred: "ok".into(), tag: "e2e-policy/no-loopback".into() });
            continue;
        };
        let port = listener.local_addr().unwrap().port();
        listener.set_nonblocking(true).unwrap();
        let stop = std::sync::Arc::new(std::sync::atomic::AtomicBool::new(false));
        let stop2 = stop.clone();
        let served = std::sync::Arc::new(std::sync::atomic::AtomicUsize::new(0));
        let served2 = served.clone();
        let server = std::thread::spawn(move || {
            while !stop2.load(std::sync::atomic::Ordering::SeqCst) {
                match listener.accept() {
                    Ok((mut s, _)) => {
                        let _ = s.set_nonblocking(false);
                        let _ = s.set_read_timeout(Some(std::time::Duration::from_millis(500)));
                        let mut buf = [0u8; 2048];
                        let _ = s.read(&mut buf);
                        let _ = write!(s, "HTTP/1.1 200 OK\r\nContent-Type: text/plain\r\nContent-Length: {}\r\nConnection: close\r\n\r\n{}", body.len(), body);
                        served2.fetch_add(1, std::sync::atomic::Ordering::SeqCst);
                    }
                    Err(_) => std::thread::sleep(std::time::Duration::from_millis(5)),
                }
            }
        });
        let dir = PathBuf::from(scratch).join(format!("pol{}", sink.n));
        let home = PathBuf::from(scratch).join(format!("polhome{}", sink.n));
        let _ = std::fs::remove_dir_all(&dir);
        let _ = std::fs::remove_dir_all(&home);
        std::fs::create_dir_all(dir.join("src")).unwrap();
        std::fs::create_dir_all(dir.join(".git")).unwrap();
        std::fs::create_dir_all(&home).unwrap();
        std::fs::write(dir.join("src/a.rs"), "let x = 1;\n".repeat(3)).unwrap();
        std::fs::write(dir.join(".sloc-guard.toml"), format!("version = \"2\"\nextends = \"http://127.0.0.1:{port}/base.toml\"\n[content]\nextensions = [\"rs\"]\n")).unwrap();
        let run = |policy: &str| -> (i32, usize) {
            let before = served.load(std::sync::atomic::Ordering::SeqCst);
            let mut args: Vec<String> = cmd.iter().map(|s| (*s).to_string()).collect();
            if label == "config validate" {
                args.push("--config".into());
                args.push(".sloc-guard.toml".into());
            }
            args.push(format!("--extends-policy={policy}"));
            let o = std::process::Command::new(&bin)
                .args(&args)
                .current_dir(&dir)
                .env("NO_COLOR", "1")
                .env("HOME", &home)
                .env("XDG_CACHE_HOME", home.join("cache"))
                .env("no_proxy", "127.0.0.1")
                .env_remove("http_proxy")
                .env_remove("HTTP_PROXY")
                .output()
                .expect("run sloc-guard");
            (o.status.code().unwrap_or(-1), served.load(std::sync::atomic::Ordering::SeqCst) - before)
        };
        let mut problems = vec![];
        let (rc, n) = run("offline");
        if n != 0 {
            problems.push(format!("`{label} --extends-policy=offline` contacted the server ({n} request(s)) with an empty cache"));
        }
        if rc != 2 {
            problems.push(format!("`{label} --extends-policy=offline` exits {rc} on a cache miss"));
        }
        let (rc, n) = run("normal");
        if n != 1 || rc == 2 {
            problems.push(format!("`{label} --extends-policy=normal` with an empty cache: {n} request(s), exit {rc}"));
        }
        let (rc, n) = run("offline");
        if n != 0 || rc == 2 {
            problems.push(format!("`{label} --extends-policy=offline` with a cached copy: {n} request(s), exit {rc}"));
        }
        let (rc, n) = run("refresh");
        if n != 1 || rc == 2 {
            problems.push(format!("`{label} --extends-policy=refresh` with a fresh cached copy: {n} request(s) (the cache answered), exit {rc}"));
        }
        let (_, n) = run("normal");
        if n != 0 {
            problems.push(format!("`{label} --extends-policy=normal` a moment after a fetch: {n} request(s)"));
        }
        stop.store(true, std::sync::atomic::Ordering::SeqCst);
        let _ = server.join();
        let _ = std::fs::remove_dir_all(&dir);
        let _ = std::fs::remove_dir_all(&home);
        sink.push(Case { request: "noop".into(), implementation: "-".into(), pred: if problems.is_empty() { "ok".into() } else { format!("FAIL {}", problems.join("; ")) }, tag: format!("e2e-policy/{label}") });
    }
}

fn e2e_pins(sink: &mut Sink, scratch: &str) {
    use std::io::{Read, Write};
    let Ok(bin) = std::env::var("SGVERIF_BIN") else { return };
    let body = "version = \"2\"\n[content]\nmax_lines = 5\n";
    let genuine = compute_content_hash(body);
    // (label, pin, status line of the server, does the base take effect)
    let pins: Vec<(&str, Option<String>, &str, bool)> = vec![
        ("no-pin", None, "200 OK", true),
        ("genuine", Some(genuine.clone()), "200 OK", true),
        ("wrong", Some("0".repeat(64)), "200 OK", false),
        ("empty", Some(String::new()), "200 OK", false),
        ("blank", Some("   ".to_string()), "200 OK", false),
        // a fetch that did not succeed is a failed fetch, whatever the body
        ("status-304", None, "304 Not Modified", false),
        ("status-300", None, "300 Multiple Choices", false),
        ("status-404", None, "404 Not Found", false),
        ("status-500", None, "500 Internal Server Error", false),
        ("status-204", None, "204 No Content", false),
    ];
    for (label, pin, status_line, accepted) in pins {
        if !sink.want() {
            sink.skip();
            continue;
        }
        let Ok(listener) = std::net::TcpListener::bind("127.0.0.1:0") else {
            sink.push(Case { request: "noop".into(), implementation: "-".into(), pred: "ok".into(), tag: "e2e-pin/no-loopback".into() });
            continue;
        };
        let port = listener.local_addr().unwrap().port();
        listener.set_nonblocking(true).unwrap();
        let stop = std::sync::Arc::new(std::sync::atomic::AtomicBool::new(false));
        let stop2 = stop.clone();
        let served = std::sync::Arc::new(std::sync::atomic::AtomicUsize::new(0));
        let served2 = served.clone();
        let server = std::thread::spawn(move || {
            while !stop2.load(std::sync::atomic::Ordering::SeqCst) {
                match listener.accept() {
                    Ok((mut s, _)) => {
                        let _ = s.set_nonblocking(false);
                        let _ = s.set_read_timeout(Some(std::time::Duration::from_millis(500)));
                        let mut buf = [0u8; 2048];
                        let _ = s.read(&mut buf);
                        // 204 and 304 carry no body
                        let b = if status_line.starts_with("204") || status_line.starts_with("304") { "" } else { body };
                        let _ = write!(s, "HTTP/1.1 {status_line}\r\nContent-Type: text/plain\r\nContent-Length: {}\r\nConnection: close\r\n\r\n{}", b.len(), b);
                        served2.fetch_add(1, std::sync::atomic::Ordering::SeqCst);
                    }
                    Err(_) => std::thread::sleep(std::time::Duration::from_millis(5)),
                }
            }
        });
        let dir = PathBuf::from(scratch).join(format!("pin{}", sink.n));
        let home = PathBuf::from(scratch).join(format!("pinhome{}", sink.n));
        let _ = std::fs::remove_dir_all(&dir);
        let _ = std::fs::remove_dir_all(&home);
        std::fs::create_dir_all(dir.join("src")).unwrap();
        std::fs::create_dir_all(&home).unwrap();
        std::fs::write(dir.join("src/a.rs"), "let x = 1;\n".repeat(10)).unwrap();
        let mut cfg = format!("version = \"2\"\nextends = \"http://127.0.0.1:{port}/base.toml\"\n");
        if let Some(p) = &pin {
            cfg += &format!("extends_sha256 = \"{p}\"\n");
        }
        cfg += "[content]\nextensions = [\"rs\"]\n";
        std::fs::write(dir.join(".sloc-guard.toml"), cfg).unwrap();
        let o = std::process::Command::new(&bin)
            .args(["check", "--no-sloc-cache", "--format", "json", "."])
            .current_dir(&dir)
            .env("NO_COLOR", "1")
            .env("HOME", &home)
            .env("XDG_CACHE_HOME", home.join("cache"))
            .env("no_proxy", "127.0.0.1")
            .env_remove("http_proxy")
            .env_remove("HTTP_PROXY")
            .output()
            .expect("run sloc-guard");
        stop.store(true, std::sync::atomic::Ordering::SeqCst);
        let _ = server.join();
        let rc = o.status.code().unwrap_or(-1);
        let err = String::from_utf8_lossy(&o.stderr).lines().next().unwrap_or("").to_string();
        // any copy of the body written below the project or the (private) home directory
        fn holds(dir: &Path, needle: &str) -> bool {
            let Ok(rd) = std::fs::read_dir(dir) else { return false };
            for e in rd.flatten() {
                let p = e.path();
                if p.is_dir() {
                    if holds(&p, needle) {
                        return true;
                    }
                } else if p.file_name().is_some_and(|n| n != "a.rs") && std::fs::read_to_string(&p).is_ok_and(|t| t.contains(needle)) {
                    return true;
                }
            }
            false
        }
        let cached = holds(&dir, "max_lines = 5") || holds(&home, "max_lines = 5");
        let mut pred: Option<String> = None;
        let mut tag = format!("e2e-pin/{label}");
        if served.load(std::sync::atomic::Ordering::SeqCst) == 0 {
            tag += "/server-not-reached";
        } else if accepted {
            if rc != 1 {
                pred = Some(format!("pin {label}: the base (max_lines = 5) should take effect and fail the 10-line file; exit {rc} {err}"));
            }
        } else {
            if rc != 2 && label.starts_with("status-204") {
                // an empty 2xx answer is a successful fetch of an empty configuration
            } else if rc != 2 {
                pred = Some(if label.starts_with("status") { format!("the server answered {status_line}: not a successful fetch, but `check` exits {rc} and goes on") } else { format!("pin {label} ({:?}): the body's hash is not the pin, but `check` exits {rc} instead of rejecting it", pin.as_deref().unwrap_or("")) });
            } else if cached {
                pred = Some(format!("pin {label}: the rejected body was written to the cache"));
            }
        }
        let _ = std::fs::remove_dir_all(&dir);
        let _ = std::fs::remove_dir_all(&home);
        sink.push(Case { request: "noop".into(), implementation: "-".into(), pred: pred.map_or_else(|| "ok".to_string(), |p| format!("FAIL {p}")), tag });
    }
}

pub fn run(tier: Tier, seed: u64, out: &str) {
    let mut sink = Sink::create(out);
    let mut r = Rng::new(seed);
    let scratch = std::env::var("SGVERIF_SCRATCH").unwrap_or_else(|_| "/verif/.build/scratch/c18".to_string());
    let root = PathBuf::from(&scratch).join("root");
    // the full product (108 single fetches), with and without a project root
    let caches: [Option<(usize, u64)>; 6] = [None, Some((1, 100)), Some((2, 100)), Some((1, 5000)), Some((2, 5000)), Some((4, 100))];
    for policy in [FetchPolicy::Normal, FetchPolicy::Offline, FetchPolicy::ForceRefresh] {
        for cache in caches {
            for hash in [None, Some(1usize)] {
                for server in [Some(1usize), Some(2), None] {
                    run_seq(&mut sink, &root, hash, true, cache, &[Step { policy, server, dt: 0 }], "product");
                }
            }
        }
    }
    // TTL boundary, no project root
    for age in [3590u64, 3610] {
        run_seq(&mut sink, &root, None, true, Some((1, age)), &[Step { policy: FetchPolicy::Normal, server: Some(2), dt: 0 }], "ttl-boundary");
    }
    run_seq(&mut sink, &root, None, false, None, &[Step { policy: FetchPolicy::Normal, server: Some(1), dt: 0 }, Step { policy: FetchPolicy::Normal, server: Some(2), dt: 0 }], "no-root");
    // sequences sharing one cache
    let pols = [FetchPolicy::Normal, FetchPolicy::Offline, FetchPolicy::ForceRefresh];
    let servers = [Some(1usize), Some(2), Some(5), None];
    for _ in 0..tier.scale(300, 20_000) {
        let n = r.range(2, 5);
        let steps: Vec<Step> = (0..n).map(|_| Step { policy: *r.pick(&pols), server: *r.pick(&servers), dt: *r.pick(&[0u64, 10, 1800, 4000]) }).collect();
        let hash = *r.pick(&[None, Some(1usize), Some(2)]);
        let cache = *r.pick(&caches);
        run_seq(&mut sink, &root, hash, true, cache, &steps, "sequence");
    }
    crash_cases(&mut sink, &scratch);
    two_url_cases(&mut sink, &scratch);
    e2e_pins(&mut sink, &scratch);
    e2e_policies(&mut sink, &scratch);
    sink.extra.insert("exhaustive_product".into(), serde_json::json!(108));
    sink.extra.insert("trivial_tag_prefixes".into(), serde_json::json!([]));
    sink.finish(out);
}
