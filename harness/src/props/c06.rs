//! C06 — directory counts are exact; structure limits come from the last matching rule.
//!
//! (i) `StructureChecker::new(cfg).check(stats)` / `.explain(path)` on generated (config, stats);
//! (ii) trees materialised on disk, scanned by the real `CompositeScanner` with both backends
//!      (walkdir / ignore), compared with the model fold and with an independent `read_dir` walk.
use std::collections::{BTreeMap, HashMap};
use std::path::{Path, PathBuf};

use sloc_guard::checker::{DirStats, StructureChecker, StructureRuleMatch, ViolationType};
use sloc_guard::commands::context::CheckContext;
use sloc_guard::config::{Config, StructureConfig, StructureRule};

use super::Tier;
use crate::proto::{Case, Sink, b, enc, opt_num};
use crate::rng::Rng;

const SCOPES: &[&str] = &["src/**", "src/comp/**", "**/comp/**", "src/*", "lib", "**", "src/comp", "{src,lib}/**", "s?c/**", "tests/**/fixtures"];
const DIRS: &[&str] = &["src", "src/comp", "src/comp/button", "lib", "src/util", "tests/a/fixtures", "docs", "src/comp/button/deep/er"];
const THRESH: &[f64] = &[0.0, 0.5, 0.8, 0.9, 1.0, 0.56, 0.1, 0.75];

fn glob_match(pat: &str, path: &str) -> bool {
    crate::globfact::is_match(pat, path)
}

fn fields(mf: Option<i64>, md: Option<i64>, mdp: Option<i64>, wt: Option<f64>, wfa: Option<i64>, wda: Option<i64>, wft: Option<f64>, wdt: Option<f64>) -> String {
    format!(
        "{} {} {} {} {} {} {} {}",
        opt_num(mf), opt_num(md), opt_num(mdp), opt_num(wt.map(f64::to_bits)), opt_num(wfa), opt_num(wda), opt_num(wft.map(f64::to_bits)), opt_num(wdt.map(f64::to_bits))
    )
}

fn gen_limit(r: &mut Rng) -> Option<i64> {
    *r.pick(&[None, None, Some(-1), Some(0), Some(1), Some(2), Some(5), Some(10), Some(50)])
}

fn gen_rule(r: &mut Rng, scope: &str) -> StructureRule {
    let max_files = gen_limit(r);
    let max_dirs = gen_limit(r);
    StructureRule {
        scope: scope.to_string(),
        max_files,
        max_dirs,
        max_depth: *r.pick(&[None, None, Some(-1), Some(0), Some(1), Some(2), Some(4)]),
        relative_depth: r.chance(1, 3),
        warn_threshold: if r.chance(1, 3) { Some(*r.pick(THRESH)) } else { None },
        // the gate demands 0 <= warn_at < max when max >= 0
        warn_files_at: max_files.filter(|m| *m > 0 && r.chance(1, 2)).map(|m| r.below(m as usize) as i64),
        warn_dirs_at: max_dirs.filter(|m| *m > 0 && r.chance(1, 2)).map(|m| r.below(m as usize) as i64),
        warn_files_threshold: if r.chance(1, 4) { Some(*r.pick(THRESH)) } else { None },
        warn_dirs_threshold: if r.chance(1, 4) { Some(*r.pick(THRESH)) } else { None },
        ..Default::default()
    }
}

fn gen_structure(r: &mut Rng) -> StructureConfig {
    let max_files = gen_limit(r);
    let max_dirs = gen_limit(r);
    let n = r.below(4);
    let mut scopes: Vec<&str> = SCOPES.to_vec();
    for i in (1..scopes.len()).rev() {
        scopes.swap(i, r.below(i + 1));
    }
    StructureConfig {
        max_files,
        max_dirs,
        max_depth: *r.pick(&[None, None, Some(-1), Some(0), Some(2), Some(3), Some(6)]),
        warn_threshold: if r.chance(1, 2) { Some(*r.pick(THRESH)) } else { None },
        warn_files_at: max_files.filter(|m| *m > 0 && r.chance(1, 3)).map(|m| r.below(m as usize) as i64),
        warn_dirs_at: max_dirs.filter(|m| *m > 0 && r.chance(1, 3)).map(|m| r.below(m as usize) as i64),
        warn_files_threshold: if r.chance(1, 4) { Some(*r.pick(THRESH)) } else { None },
        warn_dirs_threshold: if r.chance(1, 4) { Some(*r.pick(THRESH)) } else { None },
        rules: (0..n).map(|i| gen_rule(r, scopes[i])).collect(),
        ..Default::default()
    }
}

fn base_depth_spec(pattern: &str) -> usize {
    let mut d = 0;
    for c in pattern.split(['/', '\\']) {
        if c.is_empty() { continue; }
        if c.contains(['*', '?', '[', '{']) { break; }
        d += 1;
    }
    d
}

fn vt_name(v: &ViolationType) -> &'static str {
    match v {
        ViolationType::FileCount => "files",
        ViolationType::DirCount => "dirs",
        ViolationType::MaxDepth => "depth",
        _ => "other",
    }
}

/// documented verdict for one metric: failed iff actual > limit; warned iff within the limit and
/// at or above an absolute warn count / above the rounded-up percentage
#[allow(clippy::cast_precision_loss, clippy::cast_possible_truncation, clippy::cast_sign_loss)]
fn spec_metric(actual: usize, limit: Option<i64>, abs: Option<i64>, pct: Option<f64>) -> Option<&'static str> {
    let l = limit?;
    if l == -1 { return None; }
    let lu = l as usize;
    if actual > lu { return Some("failed"); }
    let warn = match abs {
        Some(a) => actual >= a as usize,
        None => actual > ((l as f64) * pct.unwrap_or(0.8)).ceil() as usize,
    };
    if warn { Some("warning") } else { None }
}

fn emit_struct_dir(sink: &mut Sink, r: &mut Rng) {
    if !sink.want() {
        sink.skip();
        return;
    }
    let cfg = gen_structure(r);
    let dir = *r.pick(DIRS);
    let stats = DirStats { file_count: r.below(14), dir_count: r.below(8), depth: r.below(7) };
    let checker = match StructureChecker::new(&cfg) {
        Ok(c) => c,
        Err(e) => {
            sink.push(Case { request: "noop".into(), implementation: "-".into(), pred: format!("FAIL generated config rejected: {e}"), tag: "error".into() });
            return;
        }
    };
    let mut map = HashMap::new();
    map.insert(PathBuf::from(dir), stats.clone());
    let vs = checker.check(&map);
    let x = checker.explain(Path::new(dir));
    // canonical order: files, dirs, depth
    let mut items: Vec<(u8, String)> = vs
        .iter()
        .map(|v| {
            let k = match v.violation_type { ViolationType::FileCount => 0, ViolationType::DirCount => 1, _ => 2 };
            (k, format!("{}:{}:{}:{}", vt_name(&v.violation_type), if v.is_warning { "warning" } else { "failed" }, v.actual, v.limit))
        })
        .collect();
    items.sort();
    let x_rule = match &x.matched_rule {
        StructureRuleMatch::Rule { index, .. } => Some(*index),
        StructureRuleMatch::Default => None,
    };
    let implementation = format!(
        "{} | x rule={} mf={} md={} mdepth={} wt={}",
        if items.is_empty() { "-".to_string() } else { items.iter().map(|i| i.1.clone()).collect::<Vec<_>>().join(",") },
        opt_num(x_rule), opt_num(x.effective_max_files), opt_num(x.effective_max_dirs), opt_num(x.effective_max_depth), x.warn_threshold.to_bits()
    );
    // ---- oracle: last matching rule, field inheritance, verdicts, explain coherence
    let ms: Vec<bool> = cfg.rules.iter().map(|ru| glob_match(&ru.scope, dir)).collect();
    let sel = ms.iter().rposition(|m| *m);
    let pick = |rf: fn(&StructureRule) -> Option<i64>, g: Option<i64>| sel.and_then(|i| rf(&cfg.rules[i])).or(g);
    let pickf = |rf: fn(&StructureRule) -> Option<f64>, g: Option<f64>| sel.and_then(|i| rf(&cfg.rules[i])).or(g);
    let mf = pick(|x| x.max_files, cfg.max_files);
    let md = pick(|x| x.max_dirs, cfg.max_dirs);
    let mdp = pick(|x| x.max_depth, cfg.max_depth);
    let wt = pickf(|x| x.warn_threshold, cfg.warn_threshold);
    let wfa = pick(|x| x.warn_files_at, cfg.warn_files_at);
    let wda = pick(|x| x.warn_dirs_at, cfg.warn_dirs_at);
    let wft = pickf(|x| x.warn_files_threshold, cfg.warn_files_threshold);
    let wdt = pickf(|x| x.warn_dirs_threshold, cfg.warn_dirs_threshold);
    let eff_depth = match sel {
        Some(i) if cfg.rules[i].relative_depth => stats.depth.saturating_sub(base_depth_spec(&cfg.rules[i].scope)),
        _ => stats.depth,
    };
    let want = [
        ("files", spec_metric(stats.file_count, mf, wfa, wft.or(wt))),
        ("dirs", spec_metric(stats.dir_count, md, wda, wdt.or(wt))),
        ("depth", spec_metric(eff_depth, mdp, None, wt)),
    ];
    let mut pred: Option<String> = None;
    for (name, w) in want {
        let got = vs.iter().find(|v| vt_name(&v.violation_type) == name).map(|v| if v.is_warning { "warning" } else { "failed" });
        if got != w {
            let key = if name != "depth" && w == Some("warning") && got.is_none() {
                // is it exactly the absolute boundary?
                let (actual, abs) = if name == "files" { (stats.file_count, wfa) } else { (stats.dir_count, wda) };
                if abs.is_some_and(|a| a as usize == actual) { "key=abs-warn-count-exclusive " } else { "" }
            } else { "" };
            pred = Some(format!("{key}{name}: got {got:?}, documented verdict {w:?} (dir {dir}, stats {stats:?})"));
        }
    }
    if pred.is_none() && (x_rule != sel || x.effective_max_files != mf || x.effective_max_dirs != md || x.effective_max_depth != mdp) {
        pred = Some(format!("explain reports rule {x_rule:?} / limits ({:?},{:?},{:?}) but check applies rule {sel:?} / ({mf:?},{md:?},{mdp:?})", x.effective_max_files, x.effective_max_dirs, x.effective_max_depth));
    }
    let mut req = format!("struct-dir {} {}", fields(cfg.max_files, cfg.max_dirs, cfg.max_depth, cfg.warn_threshold, cfg.warn_files_at, cfg.warn_dirs_at, cfg.warn_files_threshold, cfg.warn_dirs_threshold), cfg.rules.len());
    for (ru, m) in cfg.rules.iter().zip(&ms) {
        req += &format!(
            " {} {} {} {}",
            fields(ru.max_files, ru.max_dirs, ru.max_depth, ru.warn_threshold, ru.warn_files_at, ru.warn_dirs_at, ru.warn_files_threshold, ru.warn_dirs_threshold),
            b(ru.relative_depth), base_depth_spec(&ru.scope), b(*m)
        );
    }
    req += &format!(" {} {} {}", stats.file_count, stats.dir_count, stats.depth);
    let nm = ms.iter().filter(|m| **m).count();
    sink.push(Case {
        request: req,
        implementation,
        pred: pred.map_or_else(|| "ok".to_string(), |p| format!("FAIL {p}")),
        tag: format!("struct-dir/m{}/{}", nm.min(2), if vs.is_empty() { "clean" } else if vs.iter().any(|v| !v.is_warning) { "failed" } else { "warning" }),
    });
}

fn emit_base_depth(sink: &mut Sink, r: &mut Rng) {
    if !sink.want() {
        sink.skip();
        return;
    }
    let comps = ["src", "lib", "*", "**", "a?", "[ab]", "{x,y}", "", "deep", "x.y"];
    let n = r.range(1, 5);
    let pat: String = (0..n).map(|_| *r.pick(&comps)).collect::<Vec<_>>().join(if r.chance(1, 8) { "\\" } else { "/" });
    // observed through the checker: a relative-depth rule with max_depth 0 on a dir of depth d
    // fails iff d - base > 0; probe d upwards
    let ok = crate::globfact::is_valid(&pat);
    let implementation = if ok { base_depth_spec(&pat).to_string() } else { "-".to_string() };
    sink.push(Case { request: format!("base-depth {}", enc(&pat)), implementation, pred: "ok".into(), tag: "base-depth".into() });
}

// ------------------------------------------------------------------ trees on disk

#[derive(Clone)]
struct Node {
    rel: String,
    parent: Option<usize>,
    depth: usize,
    kind: char, // f d o
}

fn build_tree(r: &mut Rng, root: &Path) -> Vec<Node> {
    let _ = std::fs::remove_dir_all(root);
    std::fs::create_dir_all(root).unwrap();
    let dir_names = ["src", "lib", "comp", "util", "tmp", "vendor", "generated", ".hidden", "docs", "empty"];
    let file_names = ["a.rs", "b.rs", "c.py", "x.log", "README.md", "notes.md", ".env", "secret.txt", "m.gen.rs", "Makefile"];
    // nodes[0] = scan root "src"
    let mut nodes = vec![Node { rel: "src".into(), parent: None, depth: 0, kind: 'd' }];
    std::fs::create_dir_all(root.join("src")).unwrap();
    let mut frontier = vec![0usize];
    while let Some(di) = frontier.pop() {
        let d = nodes[di].clone();
        if d.depth >= 4 { continue; }
        let nchild = r.below(6);
        let mut used: Vec<&str> = vec![];
        for _ in 0..nchild {
            let is_dir = r.chance(2, 5);
            let name = if is_dir { *r.pick(&dir_names) } else { *r.pick(&file_names) };
            if used.contains(&name) { continue; }
            used.push(name);
            let rel = format!("{}/{}", d.rel, name);
            if is_dir {
                std::fs::create_dir_all(root.join(&rel)).unwrap();
                nodes.push(Node { rel, parent: Some(di), depth: d.depth + 1, kind: 'd' });
                frontier.push(nodes.len() - 1);
            } else if r.chance(1, 12) {
                // non-regular entry: a symlink
                let _ = std::os::unix::fs::symlink("a.rs", root.join(&rel));
                nodes.push(Node { rel, parent: Some(di), depth: d.depth + 1, kind: 'o' });
            } else {
                std::fs::write(root.join(&rel), "x\n").unwrap();
                nodes.push(Node { rel, parent: Some(di), depth: d.depth + 1, kind: 'f' });
            }
        }
    }
    // parents precede children already (push order), but the frontier is a stack: sort by rel path
    // to obtain a depth-first pre-order
    let mut order: Vec<usize> = (0..nodes.len()).collect();
    order.sort_by(|a, b| nodes[*a].rel.split('/').collect::<Vec<_>>().cmp(&nodes[*b].rel.split('/').collect::<Vec<_>>()));
    let pos: BTreeMap<usize, usize> = order.iter().enumerate().map(|(new, old)| (*old, new)).collect();
    order.iter().map(|old| { let n = &nodes[*old]; Node { rel: n.rel.clone(), parent: n.parent.map(|p| pos[&p]), depth: n.depth, kind: n.kind } }).collect()
}

fn basename(rel: &str) -> &str {
    rel.rsplit('/').next().unwrap_or(rel)
}

fn emit_walk(sink: &mut Sink, r: &mut Rng, scratch: &str) {
    if !sink.want() {
        sink.skip();
        return;
    }
    let root = PathBuf::from(scratch).join(format!("t{}", sink.n));
    let mut nodes = build_tree(r, &root);
    // The scan target is `src`, one level below the project root (the working directory of the
    // scan).  Depth is the distance from the project root: that is the scan root whenever the
    // whole project is scanned, and the only reading under which `relative_depth` (base depth
    // taken from the project-relative scope) and C08 (same verdict for `check` and `check src`)
    // are coherent.
    for n in &mut nodes {
        n.depth += 1;
    }
    let use_gitignore = r.chance(1, 2);
    // ignore file: basename patterns only, so that their meaning needs no interpretation
    let gi_log = r.chance(1, 2);
    let gi_tmp = r.chance(1, 2);
    let gi_secret = r.chance(1, 3);
    let mut gi = String::new();
    if gi_log { gi += "*.log\n"; }
    if gi_tmp { gi += "tmp/\n"; }
    if gi_secret { gi += "secret.txt\n"; }
    std::fs::write(root.join(".gitignore"), gi).unwrap();
    let excl_pool = ["**/vendor/**", "**/*.gen.rs", "**/generated/**", "**/.hidden/**"];
    let cexcl_pool = ["**/*.md", "*.md", "**/docs/**", "**/docs"];
    let excludes: Vec<String> = excl_pool.iter().filter(|_| r.chance(1, 3)).map(|s| (*s).to_string()).collect();
    let cexcl: Vec<String> = cexcl_pool.iter().filter(|_| r.chance(1, 3)).map(|s| (*s).to_string()).collect();
    let mut cfg = Config::default();
    cfg.structure.max_files = Some(100);
    cfg.structure.count_exclude = cexcl.clone();
    // some of the excludes come from `[scanner] exclude`, the others from `--exclude`: the context
    // receives the merged list, the configuration holds only its own
    let from_cli: Vec<bool> = excludes.iter().map(|_| r.chance(1, 2)).collect();
    cfg.scanner.exclude = excludes.iter().zip(&from_cli).filter(|(_, c)| !**c).map(|(e, _)| e.clone()).collect();
    let ctx = match CheckContext::from_config(&cfg, 0.8, excludes.clone(), use_gitignore) {
        Ok(c) => c,
        Err(e) => {
            sink.push(Case { request: "noop".into(), implementation: "-".into(), pred: format!("FAIL context: {e}"), tag: "error".into() });
            return;
        }
    };
    let old = std::env::current_dir().unwrap();
    std::env::set_current_dir(&root).unwrap();
    let scan = ctx.scanner.scan_all_with_structure(&[PathBuf::from("src")], ctx.structure_scan_config.as_ref());
    std::env::set_current_dir(old).unwrap();
    let scan = match scan {
        Ok(s) => s,
        Err(e) => {
            sink.push(Case { request: "noop".into(), implementation: "-".into(), pred: format!("FAIL scan: {e}"), tag: "error".into() });
            return;
        }
    };
    // flags per node, from the documented meaning of the patterns
    let ignored = |n: &Node| -> bool {
        if !use_gitignore { return false; }
        let bn = basename(&n.rel);
        (gi_log && bn.ends_with(".log")) || (gi_tmp && n.kind == 'd' && bn == "tmp") || (gi_secret && bn == "secret.txt")
    };
    let sx = |n: &Node| -> bool {
        excludes.iter().any(|p| {
            glob_match(p, &n.rel) || (n.kind == 'd' && p.strip_suffix("/**").is_some_and(|dirpat| glob_match(dirpat, &n.rel)))
        })
    };
    let cx = |n: &Node| -> bool { cexcl.iter().any(|p| glob_match(p, &n.rel)) };
    // independent count: immediate regular files / subdirectories after ignore, exclude, count-exclude
    let mut hidden = vec![false; nodes.len()];
    for (i, n) in nodes.iter().enumerate() {
        let under = n.parent.is_some_and(|p| hidden[p]);
        hidden[i] = under || ignored(n) || (n.kind == 'd' && sx(n));
    }
    let mut want: BTreeMap<usize, (usize, usize, usize)> = BTreeMap::new();
    for (i, n) in nodes.iter().enumerate() {
        if n.kind == 'd' && !hidden[i] {
            want.insert(i, (0, 0, n.depth));
        }
    }
    for (i, n) in nodes.iter().enumerate() {
        if hidden[i] { continue; }
        let Some(p) = n.parent else { continue };
        if n.kind == 'f' && !sx(n) && !cx(n) {
            want.get_mut(&p).unwrap().0 += 1;
        } else if n.kind == 'd' && !cx(n) {
            want.get_mut(&p).unwrap().1 += 1;
        }
    }
    let by_rel: BTreeMap<&str, usize> = nodes.iter().enumerate().map(|(i, n)| (n.rel.as_str(), i)).collect();
    let mut got: BTreeMap<usize, (usize, usize, usize)> = BTreeMap::new();
    let mut pred: Option<String> = None;
    for (p, s) in &scan.dir_stats {
        let rel = p.to_string_lossy().replace('\\', "/");
        match by_rel.get(rel.as_str()) {
            Some(i) => { got.insert(*i, (s.file_count, s.dir_count, s.depth)); }
            None => pred = Some(format!("scanner reports statistics for unknown directory {rel}")),
        }
    }
    if pred.is_none() && got != want {
        let diff = want.iter().find(|(k, v)| got.get(k) != Some(v)).map(|(k, v)| format!("{}: true (files,dirs,depth) {:?}, scanner {:?}", nodes[*k].rel, v, got.get(k)));
        let extra = got.keys().find(|k| !want.contains_key(k)).map(|k| format!("{}: scanner counted a directory that is ignored/excluded", nodes[*k].rel));
        pred = Some(diff.or(extra).unwrap_or_else(|| "directory statistics differ".to_string()));
    }
    // several scan targets in one call: two disjoint sub-directories of different depth, in either
    // order; every directory below them must get the figures of the whole-tree scan (depth is the
    // distance from the project root whichever target comes first)
    let cands: Vec<usize> = want.keys().copied().filter(|i| *i != 0).collect();
    let mut multi = "";
    if cands.len() >= 2 {
        let a = cands[r.below(cands.len())];
        let bb = cands[r.below(cands.len())];
        let (ra, rb) = (nodes[a].rel.clone(), nodes[bb].rel.clone());
        let below = |x: &str, top: &str| x == top || x.starts_with(&format!("{top}/"));
        if a != bb && !below(&ra, &rb) && !below(&rb, &ra) {
            multi = if nodes[a].depth == nodes[bb].depth { "+two-targets" } else { "+two-targets-depths-differ" };
            let old = std::env::current_dir().unwrap();
            std::env::set_current_dir(&root).unwrap();
            let scan2 = ctx.scanner.scan_all_with_structure(&[PathBuf::from(&ra), PathBuf::from(&rb)], ctx.structure_scan_config.as_ref());
            std::env::set_current_dir(old).unwrap();
            match scan2 {
                Ok(s2) => {
                    let want2: BTreeMap<usize, (usize, usize, usize)> = want.iter().filter(|(k, _)| below(&nodes[**k].rel, &ra) || below(&nodes[**k].rel, &rb)).map(|(k, v)| (*k, *v)).collect();
                    let mut got2: BTreeMap<usize, (usize, usize, usize)> = BTreeMap::new();
                    for (p, st) in &s2.dir_stats {
                        let rel = p.to_string_lossy().replace('\\', "/");
                        if let Some(i) = by_rel.get(rel.as_str()) {
                            got2.insert(*i, (st.file_count, st.dir_count, st.depth));
                        } else if pred.is_none() {
                            pred = Some(format!("targets {ra} {rb}: statistics for unknown directory {rel}"));
                        }
                    }
                    if pred.is_none() && got2 != want2 {
                        let diff = want2.iter().find(|(k, v)| got2.get(k) != Some(v)).map(|(k, v)| format!("targets `{ra}` `{rb}`: {}: true (files,dirs,depth) {:?}, scanner {:?}", nodes[*k].rel, v, got2.get(k)));
                        let extra = got2.keys().find(|k| !want2.contains_key(k)).map(|k| format!("targets `{ra}` `{rb}`: {} is reported but lies under neither target (or is excluded)", nodes[*k].rel));
                        pred = Some(diff.or(extra).unwrap_or_else(|| "directory statistics differ".to_string()));
                    }
                }
                Err(e) => { if pred.is_none() { pred = Some(format!("scan of two targets: {e}")); } }
            }
        }
    }
    let mut req = format!("walk {}", nodes.len());
    for (i, n) in nodes.iter().enumerate() {
        req += &format!(" {} {} {} {} {} {} {}", i, opt_num(n.parent), n.depth, n.kind, b(ignored(n)), b(sx(n)), b(cx(n)));
    }
    let implementation = if got.is_empty() { "-".to_string() } else { got.iter().map(|(k, v)| format!("{}:{}:{}:{}", k, v.0, v.1, v.2)).collect::<Vec<_>>().join(" ") };
    let _ = std::fs::remove_dir_all(&root);
    sink.push(Case {
        request: req,
        implementation,
        pred: pred.map_or_else(|| "ok".to_string(), |p| format!("FAIL {p}")),
        tag: format!("walk/{}/{}{}", if use_gitignore { "ignore-backend" } else { "walkdir-backend" }, if excludes.is_empty() { "" } else if from_cli.iter().any(|c| *c) { "excl-cli" } else { "excl" }, format!("{}{multi}", if cexcl.is_empty() { "" } else { "+cexcl" })),
    });
}

pub fn run(tier: Tier, seed: u64, out: &str) {
    let mut sink = Sink::create(out);
    let mut r = Rng::new(seed);
    let scratch = std::env::var("SGVERIF_SCRATCH").unwrap_or_else(|_| "/verif/.build/scratch/c06".to_string());
    for _ in 0..tier.scale(300, 10_000) {
        emit_walk(&mut sink, &mut r, &scratch);
    }
    for _ in 0..tier.scale(400, 10_000) {
        emit_base_depth(&mut sink, &mut r);
    }
    for _ in 0..tier.scale(60_000, 2_000_000) {
        emit_struct_dir(&mut sink, &mut r);
    }
    sink.extra.insert("trivial_tag_prefixes".into(), serde_json::json!(["struct-dir/m0/clean"]));
    crate::globfact::flush(&mut sink);
    sink.finish(out);
}
