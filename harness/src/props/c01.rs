//! C01 — check is a sound and complete gate: exit code and statuses follow the rules.
//!
//! End-to-end differential on the real binary: generated project trees (files with known line
//! composition, several languages, extension-less and unknown-extension files, an ignore file,
//! ignore directives, nesting), generated valid configurations (global limits, content and
//! structure rules, excludes, extension lists, skip flags, the check section) and generated flag
//! sets.  The harness computes the facts the model takes as parameters — which pattern matches
//! which project-relative path (`globset`), what the ignore file hides (by the documented meaning
//! of three pattern shapes), which extension has a language (the registry), the line counts (the
//! real counter, C03) — the Lean model predicts results and exit status, the binary is run, and
//! both are compared; the property's soundness / completeness statement is evaluated directly too.
use std::collections::{BTreeMap, BTreeSet};
use std::path::{Path, PathBuf};
use std::process::Command;

use sloc_guard::counter::{CountResult, SlocCounter};
use sloc_guard::language::LanguageRegistry;

use super::Tier;
use crate::proto::{Case, Sink, b, enc, opt_b, opt_num};
use crate::rng::Rng;

const POOL: &[&str] = &[
    "src/main.rs", "src/lib.rs", "src/util_test.rs", "src/deep/a.rs", "src/deep/more/b.rs", "src/generated/g.rs",
    "tests/t_test.rs", "scripts/run.py", "scripts/tool.py", "docs/guide.md", "docs/notes.txt", "vendor/v.rs",
    "third_party/x.rs", "build.log", "ignored/skip.rs", "gen_api.rs", "Dockerfile", "data.unknownext", "empty.rs", "src/Makefile",
    "src-gen/out.rs",
];

fn gen_content(rng: &mut Rng, path: &str) -> String {
    let ext = Path::new(path).extension().and_then(|e| e.to_str()).unwrap_or("");
    let (code, line_comment): (&str, &str) = match ext {
        "py" => ("x = 1", "# note"),
        "rs" => ("let x = 1;", "// note"),
        _ => ("plain text line", "# hash line"),
    };
    if path == "empty.rs" {
        return String::new();
    }
    let n = *rng.pick(&[1usize, 2, 3, 4, 5, 6, 8, 9, 12]);
    let mut s = String::new();
    if ext == "rs" && rng.chance(1, 12) {
        s += "// sloc-guard:ignore-file\n";
    }
    for _ in 0..n {
        match rng.below(6) {
            0 => s += &format!("{line_comment}\n"),
            1 => s += "\n",
            2 if ext == "rs" => s += "/* block\n   comment */\n",
            _ => s += &format!("{code}\n"),
        }
    }
    s
}

#[derive(Clone)]
struct CRule {
    pattern: String,
    max_lines: usize,
    warn_threshold: Option<f64>,
    warn_at: Option<usize>,
    skip_comments: Option<bool>,
    skip_blank: Option<bool>,
}

#[derive(Clone, Default)]
struct SFields {
    max_files: Option<i64>,
    max_dirs: Option<i64>,
    max_depth: Option<i64>,
    warn_threshold: Option<f64>,
    warn_files_at: Option<i64>,
}

#[derive(Clone)]
struct SRule {
    scope: String,
    f: SFields,
    relative_depth: bool,
}

#[derive(Clone)]
struct Cfg {
    extensions: Vec<String>,
    max_lines: usize,
    warn_threshold: f64,
    warn_at: Option<usize>,
    skip_comments: bool,
    skip_blank: bool,
    content_exclude: Vec<String>,
    rules: Vec<CRule>,
    scanner_exclude: Vec<String>,
    gitignore: bool,
    structure: Option<(SFields, Vec<SRule>)>,
    warnings_as_errors: bool,
}

fn gen_cfg(rng: &mut Rng) -> Cfg {
    let mut extensions: Vec<String> = ["rs", "py", "txt", "md", "unknownext"].iter().filter(|_| rng.chance(1, 2)).map(|s| (*s).to_string()).collect();
    if rng.chance(1, 10) {
        extensions.clear();
    }
    let max_lines = *rng.pick(&[3usize, 5, 8]);
    let rules = (0..rng.below(3))
        .map(|_| {
            let ml = *rng.pick(&[2usize, 4, 6, 20]);
            let (wt, wa) = match rng.below(4) {
                0 => (Some(*rng.pick(&[0.5, 0.75, 1.0])), None),
                1 if ml > 1 => (None, Some(ml - 1)),
                _ => (None, None),
            };
            CRule { pattern: (*rng.pick(&["**/*_test.rs", "src/**", "**/Dockerfile", "**/*.txt", "src/deep/**", "**/Makefile", "*.rs"])).to_string(), max_lines: ml, warn_threshold: wt, warn_at: wa, skip_comments: *rng.pick(&[None, None, Some(true), Some(false)]), skip_blank: *rng.pick(&[None, None, Some(true), Some(false)]) }
        })
        .collect::<Vec<_>>();
    // the gate (C17): an inherited absolute warn point must lie below every rule limit
    let warn_at = if rng.chance(1, 4) { Some(1usize) } else { None }.filter(|w| rules.iter().all(|r| r.warn_at.is_some() || r.warn_threshold.is_some() || *w < r.max_lines) && *w < max_lines);
    let structure = if rng.chance(1, 2) {
        let g = SFields { max_files: *rng.pick(&[None, Some(2), Some(3), Some(-1), Some(0)]), max_dirs: *rng.pick(&[None, Some(1), Some(3)]), max_depth: *rng.pick(&[None, Some(1), Some(2), Some(5)]), warn_threshold: *rng.pick(&[None, Some(0.5)]), warn_files_at: None };
        let rules = (0..rng.below(3))
            .map(|_| SRule { scope: (*rng.pick(&["src", "src/**", "**/deep", "scripts", "**"])).to_string(), f: SFields { max_files: *rng.pick(&[None, Some(1), Some(4), Some(-1)]), max_dirs: *rng.pick(&[None, Some(0), Some(2)]), max_depth: *rng.pick(&[None, Some(1), Some(3)]), warn_threshold: None, warn_files_at: None }, relative_depth: rng.chance(1, 3) })
            .collect::<Vec<_>>();
        let enabled = g.max_files.is_some() || g.max_dirs.is_some() || g.max_depth.is_some() || !rules.is_empty();
        if enabled { Some((g, rules)) } else { None }
    } else {
        None
    };
    Cfg {
        extensions,
        max_lines,
        warn_threshold: *rng.pick(&[0.5, 0.9, 1.0, 0.0]),
        warn_at,
        skip_comments: rng.chance(2, 3),
        skip_blank: rng.chance(2, 3),
        content_exclude: ["**/generated/**", "docs/**"].iter().filter(|_| rng.chance(1, 3)).map(|s| (*s).to_string()).collect(),
        rules,
        scanner_exclude: ["vendor/**", "**/*.log", "third_party/**"].iter().filter(|_| rng.chance(1, 2)).map(|s| (*s).to_string()).collect(),
        gitignore: rng.chance(3, 4),
        structure,
        warnings_as_errors: rng.chance(1, 6),
    }
}

fn toml_list(xs: &[String]) -> String {
    format!("[{}]", xs.iter().map(|x| format!("\"{x}\"")).collect::<Vec<_>>().join(", "))
}

fn render(c: &Cfg) -> String {
    let mut s = String::from("version = \"2\"\n");
    // `gitignore` defaults to true: half of the configurations that want it leave the key out
    if c.gitignore && c.scanner_exclude.len() % 2 == 1 {
        s += &format!("[scanner]\nexclude = {}\n", toml_list(&c.scanner_exclude));
    } else {
        s += &format!("[scanner]\ngitignore = {}\nexclude = {}\n", c.gitignore, toml_list(&c.scanner_exclude));
    }
    s += &format!("[content]\nextensions = {}\nmax_lines = {}\nwarn_threshold = {:?}\nskip_comments = {}\nskip_blank = {}\nexclude = {}\n", toml_list(&c.extensions), c.max_lines, c.warn_threshold, c.skip_comments, c.skip_blank, toml_list(&c.content_exclude));
    if let Some(w) = c.warn_at {
        s += &format!("warn_at = {w}\n");
    }
    for r in &c.rules {
        s += &format!("[[content.rules]]\npattern = \"{}\"\nmax_lines = {}\n", r.pattern, r.max_lines);
        if let Some(t) = r.warn_threshold {
            s += &format!("warn_threshold = {t:?}\n");
        }
        if let Some(w) = r.warn_at {
            s += &format!("warn_at = {w}\n");
        }
        if let Some(x) = r.skip_comments {
            s += &format!("skip_comments = {x}\n");
        }
        if let Some(x) = r.skip_blank {
            s += &format!("skip_blank = {x}\n");
        }
    }
    if c.warnings_as_errors {
        s += "[check]\nwarnings_as_errors = true\n";
    }
    if let Some((g, rules)) = &c.structure {
        s += "[structure]\n";
        let put = |s: &mut String, f: &SFields| {
            if let Some(v) = f.max_files {
                *s += &format!("max_files = {v}\n");
            }
            if let Some(v) = f.max_dirs {
                *s += &format!("max_dirs = {v}\n");
            }
            if let Some(v) = f.max_depth {
                *s += &format!("max_depth = {v}\n");
            }
            if let Some(v) = f.warn_threshold {
                *s += &format!("warn_threshold = {v:?}\n");
            }
        };
        put(&mut s, g);
        for r in rules {
            s += &format!("[[structure.rules]]\nscope = \"{}\"\n", r.scope);
            put(&mut s, &r.f);
            if r.relative_depth {
                s += "relative_depth = true\n";
            }
        }
    }
    s
}

#[derive(Clone, Default)]
struct Flags {
    max_lines: Option<usize>,
    ext: Option<Vec<String>>,
    exclude: Vec<String>,
    include: Vec<String>,
    warn_only: bool,
    wae: bool,
    strict: bool,
    no_gitignore: bool,
    count_comments: bool,
    count_blank: bool,
    max_files: Option<i64>,
    baseline: Option<Vec<(String, char, usize)>>,
}

fn gen_flags(rng: &mut Rng) -> Flags {
    let mut f = Flags::default();
    for _ in 0..rng.below(3) {
        match rng.below(13) {
            12 => f.include = rng.pick(&[vec!["src", "src-gen"], vec!["src", "src/deep"], vec![".", "src"], vec!["src/deep", "src", "src"]]).iter().map(|s| (*s).to_string()).collect(),
            0 => f.max_lines = Some(*rng.pick(&[1usize, 4, 100])),
            1 => f.ext = Some(vec![(*rng.pick(&["rs", "py", "txt"])).to_string()]),
            2 => f.exclude.push((*rng.pick(&["src/deep/**", "**/*_test.rs", "scripts/**"])).to_string()),
            3 => {
                f.include = vec![(*rng.pick(&["src", "scripts", "src/deep"])).to_string()];
                // several targets in one call; `src-gen` has `src` as a string prefix but is its sibling
                if rng.chance(1, 2) {
                    f.include.push((*rng.pick(&["src-gen", "scripts", "docs"])).to_string());
                    f.include.dedup();
                }
            }
            4 => f.warn_only = true,
            5 => f.wae = true,
            6 => f.strict = true,
            7 => f.no_gitignore = true,
            8 => f.count_comments = true,
            9 => f.count_blank = true,
            10 => f.max_files = Some(*rng.pick(&[1i64, 2, 10])),
            _ => f.baseline = Some(vec![]),
        }
    }
    f
}

fn glob_matches(pat: &str, rel: &str) -> bool {
    crate::globfact::is_match(pat, rel)
}

/// the documented meaning of the three ignore-file patterns the generator uses
fn git_ignored(rel: &str) -> bool {
    let base = rel.rsplit('/').next().unwrap_or(rel);
    rel.split('/').rev().skip(1).any(|c| c == "ignored") || base.ends_with(".log") || (base.starts_with("gen_") && base.ends_with(".rs"))
}

fn base_depth_spec(pattern: &str) -> usize {
    pattern.split('/').take_while(|c| !c.contains(['*', '?', '[', '{'])).count()
}

struct RunOut {
    rc: i32,
    rows: BTreeMap<String, (String, u64)>, // "path:kind" -> (status, count)
    /// results that appear more than once (same path, same kind of finding)
    twice: Vec<String>,
    err: String,
}

fn run_bin(bin: &str, dir: &Path, args: &[String]) -> RunOut {
    let o = Command::new(bin).args(["check", "--format", "json", "--no-sloc-cache"]).args(args).current_dir(dir).env("NO_COLOR", "1").output().expect("run");
    let err = String::from_utf8_lossy(&o.stderr).into_owned();
    let mut rows = BTreeMap::new();
    let mut twice = vec![];
    if let Ok(v) = serde_json::from_slice::<serde_json::Value>(&o.stdout) {
        for e in v["results"].as_array().cloned().unwrap_or_default() {
            let mut p = e["path"].as_str().unwrap_or("").to_string();
            while let Some(r) = p.strip_prefix("./") {
                p = r.to_string();
            }
            if p.is_empty() {
                p = ".".into();
            }
            let kind = match e["violation_category"]["violation_type"]["type"].as_str() {
                None => "c",
                Some("file_count") => "f",
                Some("dir_count") => "d",
                Some(_) => "o",
            };
            // (placement findings of one path can be several: keyed with their reason)
            let key = if kind == "o" { format!("{}:{kind}:{}", enc(&p), e["violation_category"]["violation_type"]) } else { format!("{}:{kind}", enc(&p)) };
            if rows.contains_key(&format!("{}:{kind}", enc(&p))) && kind != "o" {
                twice.push(format!("{p} ({kind})"));
            }
            let _ = key;
            rows.insert(format!("{}:{kind}", enc(&p)), (e["status"].as_str().unwrap_or("").to_string(), e["sloc"].as_u64().unwrap_or(0)));
        }
    }
    RunOut { rc: o.status.code().unwrap_or(-1), rows, twice, err }
}

fn one_case(sink: &mut Sink, rng: &mut Rng, bin: &str, scratch: &str) {
    let cfg = gen_cfg(rng);
    let mut flags = gen_flags(rng);
    let present: Vec<&str> = POOL.iter().copied().filter(|_| rng.chance(3, 4)).collect();
    let contents: Vec<String> = present.iter().map(|p| gen_content(rng, p)).collect();
    let baseline_pick: Vec<bool> = (0..40).map(|_| rng.chance(1, 2)).collect();
    if !sink.want() {
        sink.skip();
        return;
    }
    let dir = PathBuf::from(scratch).join(format!("p{}", sink.n));
    let _ = std::fs::remove_dir_all(&dir);
    std::fs::create_dir_all(&dir).unwrap();
    for (p, c) in present.iter().zip(&contents) {
        let f = dir.join(p);
        std::fs::create_dir_all(f.parent().unwrap()).unwrap();
        std::fs::write(f, c).unwrap();
    }
    std::fs::write(dir.join(".gitignore"), "ignored/\n*.log\ngen_*.rs\n").unwrap();
    std::fs::write(dir.join(".sloc-guard.toml"), render(&cfg)).unwrap();

    // ---- the effective settings after the flags
    let max_lines = flags.max_lines.unwrap_or(cfg.max_lines);
    let extensions = flags.ext.clone().unwrap_or_else(|| cfg.extensions.clone());
    let skip_comments = cfg.skip_comments && !flags.count_comments;
    let skip_blank = cfg.skip_blank && !flags.count_blank;
    let use_gitignore = cfg.gitignore && !flags.no_gitignore;
    let mut excludes = cfg.scanner_exclude.clone();
    excludes.extend(flags.exclude.clone());
    let roots: Vec<String> = if flags.include.is_empty() { vec![".".into()] } else { flags.include.clone() };
    let mut structure = cfg.structure.clone();
    if let Some(mf) = flags.max_files {
        // `--max-files` needs an explicit target
        let (mut g, r) = structure.unwrap_or_default();
        g.max_files = Some(mf);
        structure = Some((g, r));
    }
    // the gate would reject an override that leaves a warn point at or above the limit
    if cfg.warn_at.is_some_and(|w| w >= max_lines) {
        flags.max_lines = None;
    }
    let max_lines = flags.max_lines.unwrap_or(cfg.max_lines);
    let registry = LanguageRegistry::default();

    // ---- facts about the tree
    let under_root = |rel: &str| roots.iter().any(|r| r == "." || rel == r || rel.starts_with(&format!("{r}/")));
    let pruned = |rel: &str| -> bool {
        // a file is hidden if it or one of its ancestor directories is ignored or excluded
        let comps: Vec<&str> = rel.split('/').collect();
        (1..=comps.len()).any(|i| {
            let prefix = comps[..i].join("/");
            let is_dir = i < comps.len();
            (use_gitignore && git_ignored(&format!("{prefix}{}", if is_dir { "/x" } else { "" })) && (!is_dir || git_ignored(&format!("{prefix}/x")))) || excludes.iter().any(|p| glob_matches(p, &prefix) || (is_dir && p.strip_suffix("/**").is_some_and(|d| glob_matches(d, &prefix))))
        }) || (use_gitignore && git_ignored(rel))
    };
    let mut all_files: Vec<String> = present.iter().map(|s| (*s).to_string()).collect();
    all_files.push(".gitignore".into());
    all_files.push(".sloc-guard.toml".into());
    all_files.sort();
    let mut req_files = vec![];
    let mut expect_scope: BTreeMap<String, (bool, usize, usize)> = BTreeMap::new(); // key -> (counted, eff, limit)
    for rel in &all_files {
        if !under_root(rel) {
            continue;
        }
        let content = std::fs::read_to_string(dir.join(rel)).unwrap_or_default();
        let ext = Path::new(rel).extension().and_then(|e| e.to_str()).unwrap_or("");
        let lang = if ext.is_empty() { None } else { registry.get_by_extension(ext) };
        let (stats, ignored) = match lang {
            Some(l) => match SlocCounter::new(&l.comment_syntax).count(&content) {
                CountResult::Stats(s) => (s, false),
                CountResult::IgnoredFile => (sloc_guard::counter::LineStats::new(), true),
            },
            None => {
                let n = content.lines().count();
                (sloc_guard::counter::LineStats { total: n, code: n, comment: 0, blank: 0, ignored: 0 }, false)
            }
        };
        let ms: Vec<bool> = cfg.rules.iter().map(|r| glob_matches(&r.pattern, rel)).collect();
        let ext_allowed = extensions.is_empty() || extensions.iter().any(|e| e == ext);
        let cexcl = cfg.content_exclude.iter().any(|p| glob_matches(p, rel));
        let pr = pruned(rel);
        req_files.push(format!("{} {} {} {} {} 1 {} {} {} {} {} {}", enc(rel), b(pr), b(cexcl), b(ext_allowed), b(lang.is_some()), b(ignored), if ms.is_empty() { "-".to_string() } else { ms.iter().map(|m| b(*m)).collect::<String>() }, stats.total, stats.code, stats.comment, stats.blank));
        // the property's own terms
        let in_scope = !pr && !cexcl && (ext_allowed || ms.iter().any(|m| *m));
        if in_scope {
            let sel = ms.iter().rposition(|m| *m);
            let (sc, sb) = match sel {
                Some(i) => (cfg.rules[i].skip_comments.unwrap_or(skip_comments), cfg.rules[i].skip_blank.unwrap_or(skip_blank)),
                None => (skip_comments, skip_blank),
            };
            let eff = stats.code + if sc { 0 } else { stats.comment } + if sb { 0 } else { stats.blank };
            let limit = sel.map_or(max_lines, |i| cfg.rules[i].max_lines);
            expect_scope.insert(rel.clone(), (lang.is_some() && !ignored, eff, limit));
        }
    }
    // directories
    let mut dirs: BTreeSet<String> = BTreeSet::new();
    for r in &roots {
        if dir.join(r).is_dir() {
            dirs.insert(r.clone());
        }
    }
    for rel in &all_files {
        if !under_root(rel) {
            continue;
        }
        let comps: Vec<&str> = rel.split('/').collect();
        for i in 1..comps.len() {
            let d = comps[..i].join("/");
            if under_root(&d) {
                dirs.insert(d);
            }
        }
    }
    let dir_hidden = |d: &str| d != "." && pruned(&format!("{d}/x")) && {
        // the directory itself (not only a file below it) is hidden
        let comps: Vec<&str> = d.split('/').collect();
        (1..=comps.len()).any(|i| {
            let prefix = comps[..i].join("/");
            (use_gitignore && git_ignored(&format!("{prefix}/x"))) || excludes.iter().any(|p| glob_matches(p, &prefix) || p.strip_suffix("/**").is_some_and(|x| glob_matches(x, &prefix)))
        })
    };
    let mut req_dirs = vec![];
    let mut dir_expect: Vec<(String, bool, bool, bool)> = vec![];
    if let Some((_, srules)) = &structure {
        for d in &dirs {
            if dir_hidden(d) {
                continue;
            }
            let child_of = |x: &str| -> bool {
                if d == "." { !x.contains('/') } else { x.strip_prefix(&format!("{d}/")).is_some_and(|r| !r.contains('/')) }
            };
            let files = all_files.iter().filter(|f| under_root(f) && child_of(f) && !pruned(f)).count();
            let subdirs = dirs.iter().filter(|x| x.as_str() != "." && child_of(x) && !dir_hidden(x)).count();
            let depth = if d == "." { 0 } else { d.split('/').count() };
            let key = d.clone();
            let ms: Vec<bool> = srules.iter().map(|r| glob_matches(&r.scope, if d == "." { "" } else { d })).collect();
            req_dirs.push(format!("{} {} {files} {subdirs} {depth}", enc(&key), if ms.is_empty() { "-".to_string() } else { ms.iter().map(|m| b(*m)).collect::<String>() }));
            // the property's own terms: limits of the last matching rule, unset fields inherited
            let (g, _) = structure.as_ref().unwrap();
            let sel = ms.iter().rposition(|m| *m).map(|i| &srules[i]);
            let lim = |f: fn(&SFields) -> Option<i64>| sel.and_then(|r| f(&r.f)).or_else(|| f(g));
            let eff_depth = match sel {
                Some(r) if r.relative_depth => depth.saturating_sub(base_depth_spec(&r.scope)),
                _ => depth,
            };
            let over = |actual: usize, l: Option<i64>| l.is_some_and(|l| l != -1 && actual as i64 > l);
            dir_expect.push((key.clone(), over(files, lim(|f| f.max_files)), over(subdirs, lim(|f| f.max_dirs)), over(eff_depth, lim(|f| f.max_depth))));
        }
    }

    // ---- baseline file: a random subset of what fails in a plain run
    let mut args: Vec<String> = vec![];
    if let Some(v) = flags.max_lines {
        args.push(format!("--max-lines={v}"));
    }
    if let Some(e) = &flags.ext {
        args.push(format!("--ext={}", e.join(",")));
    }
    for e in &flags.exclude {
        args.push(format!("--exclude={e}"));
    }
    for i in &flags.include {
        args.push(format!("--include={i}"));
    }
    if flags.no_gitignore {
        args.push("--no-gitignore".into());
    }
    if flags.count_comments {
        args.push("--count-comments".into());
    }
    if flags.count_blank {
        args.push("--count-blank".into());
    }
    if let Some(v) = flags.max_files {
        args.push(format!("--max-files={v}"));
    }
    let mut disk = "absent".to_string();
    let mut given = false;
    if flags.baseline.is_some() {
        let mut probe_args = args.clone();
        if flags.max_files.is_some() {
            probe_args.push(".".into());
        }
        let probe = run_bin(bin, &dir, &probe_args);
        let mut entries = vec![];
        let mut files_json = serde_json::Map::new();
        for (i, (k, (st, cnt))) in probe.rows.iter().enumerate() {
            if st != "failed" || !baseline_pick[i % baseline_pick.len()] {
                continue;
            }
            let (p, kind) = k.rsplit_once(':').unwrap();
            let path: String = p.split('.').filter_map(|h| u32::from_str_radix(h, 16).ok()).filter_map(char::from_u32).collect();
            match kind {
                "c" => {
                    files_json.insert(path.clone(), serde_json::json!({"type": "content", "lines": cnt, "hash": "x"}));
                    entries.push(format!("{} c {cnt}", enc(&path)));
                }
                "f" | "d" => {
                    files_json.insert(path.clone(), serde_json::json!({"type": "structure", "violation_type": if kind == "f" { "files" } else { "dirs" }, "count": cnt}));
                    entries.push(format!("{} {kind} {cnt}", enc(&path)));
                }
                _ => {}
            }
        }
        // a path can carry a file-count and a dir-count violation: one entry per path survives
        let mut seen = BTreeSet::new();
        entries.retain(|e| seen.insert(e.split(' ').next().unwrap().to_string()));
        let bl = PathBuf::from(scratch).join(format!("bl{}.json", sink.n));
        std::fs::write(&bl, serde_json::to_string(&serde_json::json!({"version": 2, "files": files_json})).unwrap()).unwrap();
        // the JSON object keeps one entry per key: re-read to know which kind survived
        let kept: serde_json::Value = serde_json::from_str(&std::fs::read_to_string(&bl).unwrap()).unwrap();
        entries = kept["files"].as_object().map(|m| m.iter().map(|(k, v)| format!("{} {} {}", enc(k), match (v["type"].as_str(), v["violation_type"].as_str()) { (Some("content"), _) => "c", (_, Some("files")) => "f", _ => "d" }, v["lines"].as_u64().or_else(|| v["count"].as_u64()).unwrap_or(0))).collect()).unwrap_or_default();
        disk = format!("{} {}", entries.len(), entries.join(" ")).trim().to_string();
        given = true;
        args.push(format!("--baseline={}", bl.to_string_lossy()));
    }
    if flags.warn_only {
        args.push("--warn-only".into());
    }
    if flags.wae {
        args.push("--warnings-as-errors".into());
    }
    if flags.strict {
        args.push("--strict".into());
    }
    if flags.max_files.is_some() {
        args.push(".".into());
    }
    let out = run_bin(bin, &dir, &args);

    // ---- request
    let f64bits = |x: f64| x.to_bits().to_string();
    let fields = |f: &SFields| format!("{} {} {} {} {} - - -", opt_num(f.max_files), opt_num(f.max_dirs), opt_num(f.max_depth), f.warn_threshold.map_or("-".to_string(), f64bits), opt_num(f.warn_files_at));
    let mut req = format!("check-run {max_lines} {} {} {} {} {}", f64bits(cfg.warn_threshold), opt_num(cfg.warn_at), b(skip_comments), b(skip_blank), cfg.rules.len());
    for r in &cfg.rules {
        req += &format!(" {} {} {} {} {}", r.max_lines, r.warn_threshold.map_or("-".to_string(), f64bits), opt_num(r.warn_at), opt_b(r.skip_comments), opt_b(r.skip_blank));
    }
    match &structure {
        Some((g, rules)) => {
            req += &format!(" 1 {} {}", fields(g), rules.len());
            for r in rules {
                req += &format!(" {} {} {}", fields(&r.f), b(r.relative_depth), base_depth_spec(&r.scope));
            }
        }
        None => req += &format!(" 0 {} 0", fields(&SFields::default())),
    }
    req += &format!(" {} {}", req_files.len(), req_files.join(" "));
    let req = req.trim_end().to_string();
    let wae = cfg.warnings_as_errors || flags.wae || flags.strict;
    let req = format!("{req} {} {} {} - - {} {} {disk}", req_dirs.len(), req_dirs.join(" "), b(given), b(flags.warn_only), b(wae));
    let req = req.split_whitespace().collect::<Vec<_>>().join(" ");

    // ---- implementation line and the property's statement
    let mut problems = vec![];
    if out.err.contains("panicked") {
        problems.push("check panicked".to_string());
    }
    if !out.twice.is_empty() {
        problems.push(format!("reported twice in one run: {}", out.twice.join(", ")));
    }
    let implementation = if out.rc == 2 {
        format!("config-error {}", out.err.lines().next().unwrap_or("").replace(' ', "_"))
    } else {
        let mut items: Vec<String> = out.rows.iter().map(|(k, (st, cnt))| format!("{k}:{st}:{cnt}")).collect();
        items.sort();
        format!("exit={} results={}", out.rc, if items.is_empty() { "-".to_string() } else { items.join(",") })
    };
    if out.rc != 2 {
        let covered = |path: &str| disk.split(' ').skip(1).step_by(3).any(|p| p == enc(path));
        let mut over = vec![];
        for (rel, (counted, eff, limit)) in &expect_scope {
            let row = out.rows.get(&format!("{}:c", enc(rel)));
            if *counted {
                match row {
                    None => problems.push(format!("in-scope file {rel} is not reported")),
                    Some((st, cnt)) => {
                        if *cnt != *eff as u64 {
                            problems.push(format!("{rel}: reported count {cnt}, effective count by the rules {eff}"));
                        }
                        let want_failed = eff > limit;
                        if want_failed && !(st == "failed" || st == "grandfathered") {
                            problems.push(format!("{rel}: {eff} lines over the limit {limit} but status {st}"));
                        }
                        if !want_failed && (st == "failed" || st == "grandfathered") {
                            problems.push(format!("{rel}: {eff} lines within the limit {limit} but status {st}"));
                        }
                        if st == "grandfathered" && !covered(rel) {
                            problems.push(format!("{rel}: grandfathered without a baseline entry"));
                        }
                        if want_failed && st == "failed" {
                            over.push(rel.clone());
                        }
                    }
                }
            } else if eff > limit && out.rc == 0 && !flags.warn_only {
                // in scope by the documented rules, over its limit, yet the run is clean
                problems.push(format!("key=unknown-language-skipped in-scope file {rel} ({eff} lines, limit {limit}) is skipped and check exits 0"));
            }
        }
        // directories: over a limit of the applicable rule <=> reported failed (or grandfathered)
        let depth_failed = |d: &str| out.rows.iter().any(|(k, v)| k == &format!("{}:o", enc(d)) && (v.0 == "failed" || v.0 == "grandfathered"));
        for (d, of, od, odepth) in &dir_expect {
            for (kind, want, label) in [("f", *of, "file count"), ("d", *od, "sub-directory count")] {
                let got = out.rows.get(&format!("{}:{kind}", enc(d))).is_some_and(|v| v.0 == "failed" || v.0 == "grandfathered");
                if want && !got {
                    problems.push(format!("directory {d}: {label} over the limit of its rule but not reported as failed"));
                }
                if !want && got {
                    problems.push(format!("directory {d}: {label} within the limit of its rule but reported as failed"));
                }
            }
            if *odepth != depth_failed(d) {
                problems.push(format!("directory {d}: depth {} the limit of its rule but the report says {}", if *odepth { "exceeds" } else { "is within" }, if depth_failed(d) { "failed" } else { "nothing" }));
            }
        }
        for k in out.rows.keys().filter(|k| k.ends_with(":f") || k.ends_with(":d") || k.ends_with(":o")) {
            let path: String = k.rsplit_once(':').unwrap().0.split('.').filter_map(|h| u32::from_str_radix(h, 16).ok()).filter_map(char::from_u32).collect();
            if !dir_expect.iter().any(|x| x.0 == path) {
                problems.push(format!("directory {path} is reported although it is hidden, excluded or structure checks are off"));
            }
        }
        for k in out.rows.keys().filter(|k| k.ends_with(":c")) {
            let path: String = k.trim_end_matches(":c").split('.').filter_map(|h| u32::from_str_radix(h, 16).ok()).filter_map(char::from_u32).collect();
            if !expect_scope.contains_key(&path) {
                problems.push(format!("{path} is reported although it is outside the documented scope"));
            }
        }
        let any_failed = out.rows.values().any(|r| r.0 == "failed");
        let any_warning = out.rows.values().any(|r| r.0 == "warning");
        let want_rc = if flags.warn_only { 0 } else if any_failed || (wae && any_warning) { 1 } else { 0 };
        if out.rc != want_rc {
            problems.push(format!("exit status {} with failed={any_failed} warning={any_warning} warn-only={} warnings-as-errors={wae}", out.rc, flags.warn_only));
        }
    } else {
        problems.push(format!("a valid configuration and flag set exits 2: {}", out.err.lines().next().unwrap_or("")));
    }
    let _ = std::fs::remove_dir_all(&dir);
    let _ = std::fs::remove_file(PathBuf::from(scratch).join(format!("bl{}.json", sink.n)));
    let mut tag = String::new();
    tag += if structure.is_some() { "structure" } else { "content-only" };
    for (on, t) in [(flags.max_lines.is_some(), "max-lines"), (flags.ext.is_some(), "ext"), (!flags.exclude.is_empty(), "exclude"), (!flags.include.is_empty(), "include"), (flags.warn_only, "warn-only"), (flags.wae || flags.strict, "wae"), (flags.no_gitignore, "no-gitignore"), (flags.count_comments || flags.count_blank, "count"), (flags.max_files.is_some(), "max-files"), (given, "baseline")] {
        if on {
            tag += "+";
            tag += t;
        }
    }
    sink.push(Case { request: req, implementation, pred: if problems.is_empty() { "ok".into() } else { format!("FAIL {} :: {}", problems.join("; "), render(&cfg).replace('\n', "\\n")) }, tag });
}

pub fn run(tier: Tier, seed: u64, out: &str) {
    let mut sink = Sink::create(out);
    let mut rng = Rng::new(seed ^ 0xC01);
    let scratch = std::env::var("SGVERIF_SCRATCH").unwrap_or_else(|_| "/verif/.build/scratch/c01".to_string());
    if let Ok(bin) = std::env::var("SGVERIF_BIN") {
        for _ in 0..tier.scale(500, 8000) {
            let mut r = rng.fork();
            one_case(&mut sink, &mut r, &bin, &scratch);
        }
    }
    sink.extra.insert("trivial_tag_prefixes".into(), serde_json::json!([]));
    crate::globfact::flush(&mut sink);
    sink.finish(out);
}
