//! C12 — the SLOC cache is transparent.
//!
//! Histories on the real binary with a simulated clock: every write stamps the file with the
//! current simulated second (`File::set_modified`), the tool's clock is pinned to the same second
//! (`SLOC_GUARD_VERIF_NOW`), `mv` keeps the mtime.  Each invocation is run with the cache and with
//! `--no-sloc-cache`; the outputs must coincide, and the model replays the history.
//! A second stream corrupts the cache file between runs in every way the property names.
use std::collections::BTreeMap;
use std::path::{Path, PathBuf};

use super::Tier;
use crate::proto::{Case, Sink};
use crate::rng::Rng;

/// content pool: groups of equal size with different code-line counts
const CONTENTS: &[&str] = &[
    "let a = 1;\nlet b = 2;\n",      // 1: 2 code, 22 bytes
    "// aaaaaaa\n// bbbbbbb\n",      // 2: 0 code, 22 bytes
    "let a = 1;\n// bbbbbbb\n",      // 3: 1 code, 22 bytes
    "let c = 3;\nlet d = 4;\nlet e = 5;\n", // 4: 3 code, 33 bytes
    "\n\n\n",                        // 5: 0 code, 3 bytes
    "x;\n",                          // 6: 1 code, 3 bytes
];

fn code_lines(text: &str) -> usize {
    text.lines().filter(|l| { let t = l.trim(); !t.is_empty() && !t.starts_with("//") }).count()
}

const PATHS: &[&str] = &["src/a.rs", "src/b.rs", "src/sub/c.rs", "d.rs"];

struct Proj {
    dir: PathBuf,
    bin: String,
}

impl Proj {
    fn run(&self, now: u64, args: &[&str]) -> (i32, String, String) {
        let o = std::process::Command::new(&self.bin)
            .args(args)
            .current_dir(&self.dir)
            .env("SLOC_GUARD_VERIF_NOW", now.to_string())
            .env("NO_COLOR", "1")
            .output()
            .expect("run sloc-guard");
        (o.status.code().unwrap_or(-1), String::from_utf8_lossy(&o.stdout).into_owned(), String::from_utf8_lossy(&o.stderr).into_owned())
    }
    fn set_mtime(&self, rel: &str, secs: u64) {
        if let Ok(f) = std::fs::OpenOptions::new().write(true).open(self.dir.join(rel)) {
            let _ = f.set_modified(std::time::UNIX_EPOCH + std::time::Duration::from_secs(secs));
        }
    }
}

/// per-file code counts as reported by one invocation (`check --format json` or `stats files`)
/// total, code, comment and blank lines in one number (each below 10 000 in these projects);
/// histories that only look at code lines keep working: the code count is the lowest part
fn pack(v: &serde_json::Value) -> Option<u64> {
    let g = |k: &str| v.get(k).and_then(serde_json::Value::as_u64);
    Some(g("code")? + 10_000 * (g("comment")? + 10_000 * (g("blank")? + 10_000 * g("total")?)))
}

/// every count of every listed file (scenarios compare cached and uncached runs on all of them)
fn per_file_full(out: &str, cmd: usize) -> Option<BTreeMap<String, u64>> {
    let v: serde_json::Value = serde_json::from_str(out).ok()?;
    let mut m = BTreeMap::new();
    if cmd == 0 {
        for r in v.get("results")?.as_array()? {
            let p = r.get("path")?.as_str()?.trim_start_matches("./").to_string();
            m.insert(p, pack(r.get("stats")?)?);
        }
    } else {
        for r in v.get("top_files").or_else(|| v.get("files"))?.as_array()? {
            let p = r.get("path")?.as_str()?.trim_start_matches("./").to_string();
            m.insert(p, pack(r)?);
        }
    }
    Some(m)
}

fn per_file(out: &str, cmd: usize) -> Option<BTreeMap<String, u64>> {
    let v: serde_json::Value = serde_json::from_str(out).ok()?;
    let mut m = BTreeMap::new();
    if cmd == 0 {
        for r in v.get("results")?.as_array()? {
            let p = r.get("path")?.as_str()?.trim_start_matches("./").to_string();
            m.insert(p, r.get("stats")?.get("code")?.as_u64()?);
        }
    } else {
        for r in v.get("top_files").or_else(|| v.get("files"))?.as_array()? {
            let p = r.get("path")?.as_str()?.trim_start_matches("./").to_string();
            m.insert(p, r.get("code")?.as_u64()?);
        }
    }
    Some(m)
}

fn invoke(p: &Proj, now: u64, cmd: usize, cached: bool) -> (i32, Option<BTreeMap<String, u64>>, String) {
    let mut args: Vec<&str> = if cmd == 0 { vec!["check", "--format", "json"] } else { vec!["stats", "files", "--format", "json"] };
    if !cached {
        args.push("--no-sloc-cache");
    }
    let (rc, out, err) = p.run(now, &args);
    (rc, per_file(&out, cmd), err)
}

fn write_config(p: &Proj, custom_lang: Option<usize>) {
    let mut t = String::from("version = \"2\"\n[content]\nmax_lines = 2\nextensions = [\"rs\"]\n");
    if let Some(k) = custom_lang {
        t += &format!("[languages.Mine{k}]\nextensions = [\"mine\"]\nsingle_line_comments = [\"{}\"]\n", if k % 2 == 0 { "#" } else { ";" });
    }
    std::fs::write(p.dir.join(".sloc-guard.toml"), t).unwrap();
}

/// op codes for scripted histories: 0-2 write (path, content), 3 delete (path), 4 tick (dt),
/// 5 drop, 6 run, 8 rename (a, b)
type Script = Vec<(usize, usize, usize)>;

fn history(sink: &mut Sink, r: &mut Rng, scratch: &str, bin: &str, with_renames: bool, script: Option<&Script>) {
    if !sink.want() {
        sink.skip();
        return;
    }
    let dir = PathBuf::from(scratch).join(format!("h{}", sink.n));
    let _ = std::fs::remove_dir_all(&dir);
    std::fs::create_dir_all(&dir).unwrap();
    let p = Proj { dir: dir.clone(), bin: bin.to_string() };
    write_config(&p, None);
    let now0: u64 = 1_700_000_000;
    let mut now = now0;
    let mut ops = String::new();
    let mut observed: Vec<String> = vec![];
    let mut pred: Option<String> = None;
    let mut lang = 0usize;
    let mut had_rename = false;
    let steps = script.map_or_else(|| r.range(4, 12), Vec::len);
    for si in 0..steps {
        let (code, a1, a2) = script.map_or_else(|| (r.below(if with_renames { 9 } else { 8 }), usize::MAX, usize::MAX), |s| s[si]);
        let mut arg = |r: &mut Rng, given: usize, n: usize| if given == usize::MAX { r.below(n) } else { given };
        match code {
            0 | 1 | 2 => {
                let pi = arg(r, a1, PATHS.len());
                let ci = arg(r, a2, CONTENTS.len());
                let f = dir.join(PATHS[pi]);
                std::fs::create_dir_all(f.parent().unwrap()).unwrap();
                std::fs::write(&f, CONTENTS[ci]).unwrap();
                p.set_mtime(PATHS[pi], now);
                ops += &format!(" w {} {}", pi + 1, ci + 1);
            }
            3 => {
                let pi = arg(r, a1, PATHS.len());
                let _ = std::fs::remove_file(dir.join(PATHS[pi]));
                ops += &format!(" d {}", pi + 1);
            }
            4 => {
                let dt = if a1 == usize::MAX { *r.pick(&[0u64, 1, 1, 2, 60]) } else { a1 as u64 };
                now += dt;
                ops += &format!(" t {dt}");
            }
            5 => {
                // lose the cache: corrupt file, foreign version, other config hash, or [languages] change
                let cp = dir.join(".sloc-guard/cache.json");
                match r.below(5) {
                    0 => { let _ = std::fs::write(&cp, "{ not json"); }
                    1 => { if let Ok(t) = std::fs::read_to_string(&cp) { let _ = std::fs::write(&cp, &t[..t.len() / 2]); } }
                    2 => { if let Ok(t) = std::fs::read_to_string(&cp) { let _ = std::fs::write(&cp, t.replacen("\"version\": 3", "\"version\": 2", 1)); } }
                    3 => { let _ = std::fs::write(&cp, ""); }
                    _ => { lang += 1; write_config(&p, Some(lang)); }
                }
                ops += " drop";
            }
            8 => {
                let a = arg(r, a1, PATHS.len());
                let b = arg(r, a2, PATHS.len());
                if a != b && dir.join(PATHS[a]).exists() {
                    std::fs::create_dir_all(dir.join(PATHS[b]).parent().unwrap()).unwrap();
                    std::fs::rename(dir.join(PATHS[a]), dir.join(PATHS[b])).unwrap();
                    ops += &format!(" r {} {}", a + 1, b + 1);
                    had_rename = true;
                }
            }
            _ => {
                let cmd = r.below(2);
                let (rc_u, unc, err_u) = invoke(&p, now, cmd, false);
                let (rc_c, cac, err_c) = invoke(&p, now, cmd, true);
                ops += " run";
                if err_c.contains("panicked") || err_u.contains("panicked") || rc_c == 2 {
                    pred = Some(format!("invocation failed (exit {rc_c}): {}", err_c.lines().next().unwrap_or("")));
                }
                match (&unc, &cac) {
                    (Some(u), Some(c)) => {
                        if u != c || rc_u != rc_c {
                            let key = if had_rename { "key=rename-keeps-mtime " } else { "" };
                            pred = Some(format!("{key}with the cache: {c:?} (exit {rc_c}); with --no-sloc-cache: {u:?} (exit {rc_u})"));
                        }
                        let mut items: Vec<String> = c.iter().map(|(k, v)| format!("{}:{v}", PATHS.iter().position(|x| x == k).map_or(0, |i| i + 1))).collect();
                        items.sort();
                        observed.push(if items.is_empty() { "-".to_string() } else { items.join(",") });
                    }
                    _ => {
                        if pred.is_none() { pred = Some("no JSON output".to_string()); }
                        observed.push("?".to_string());
                    }
                }
            }
        }
    }
    let mut req = format!("cache-hist {now0} {}", CONTENTS.len());
    for c in CONTENTS {
        req += &format!(" {} {}", code_lines(c), c.len());
    }
    req += &ops;
    let _ = std::fs::remove_dir_all(&dir);
    sink.push(Case {
        request: req,
        implementation: if observed.is_empty() { "-".to_string() } else { observed.join(" ; ") },
        pred: pred.map_or_else(|| "ok".to_string(), |p| format!("FAIL {p}")),
        tag: format!("history/{}{}", if script.is_some() { "scripted" } else if with_renames { "mv" } else { "plain" }, if observed.is_empty() { "/no-run" } else { "" }),
    });
}

/// One step of a scripted scenario: the language section of the configuration, the target the
/// invocation is given and the directory (below the project root) it is started in.
struct Step {
    langs: &'static str,
    target: &'static str,
    cwd: &'static str,
    /// a file rewritten before the step (path, content); its mtime is set into the past
    edit: Option<(&'static str, &'static str)>,
}

/// Scripted scenarios around what the cache is keyed and validated by: custom languages sharing an
/// extension (the registry lets the last one in name order win), edits of a language definition
/// that preserve the concatenation of its markers, partial-tree invocations after a configuration
/// change, invocations started in a sub-directory.  After every step the same invocation with
/// and without the cache must agree.
fn language_history(sink: &mut Sink, scratch: &str, bin: &str, variant: usize) {
    if !sink.want() {
        sink.skip();
        return;
    }
    let dir = PathBuf::from(scratch).join(format!("l{}", sink.n));
    let _ = std::fs::remove_dir_all(&dir);
    std::fs::create_dir_all(dir.join("src/sub")).unwrap();
    std::fs::create_dir_all(dir.join("mail")).unwrap();
    let p = Proj { dir: dir.clone(), bin: bin.to_string() };
    // two pairs of files have the same name relative to different directories, the same size
    // and the same modification time, and different counts
    let files: &[(&str, &str)] = &[
        ("src/x.mine", "# one\n; two\n// three\ncode\n"),
        ("src/y.mine", "; a\n; b\ncode\ncode\n"),
        ("src/z.mine", "# a\n// b\n#/ c\n/ d\n# e\ncode\n"),
        ("mail/b.mine", "; x\n# y\ncode\n"),
        ("a.mine", "code 1;\ncode 2;\n"),
        ("src/a.mine", "# aaaaa\n# bbbbb\n"),
        ("src/sub/a.mine", "; aaaaa\n# bbbbb\n"),
        ("b.rs", "let a = 1;\nlet b = 2;\n"),
        ("src/b.rs", "// aaaaaaa\n// bbbbbbb\n"),
        ("src/sub/b.rs", "let a = 1;\n// bbbbbbb\n"),
        // names that differ only in letter case, same size, same modification time
        ("Twin.rs", "let a = 1;\nlet b = 2;\n"),
        ("twin.rs", "// aaaaaaa\n// bbbbbbb\n"),
        // directives: a file that asks to be ignored, and ignored lines (they count in `total` only)
        ("gen.rs", "// sloc-guard:ignore-file\nlet a = 1;\nlet b = 2;\n"),
        ("ign.rs", "let a = 1;\n// sloc-guard:ignore-next 2\nlet b = 2;\nlet c = 3;\nlet d = 4;\n"),
    ];
    for (f, c) in files {
        std::fs::write(dir.join(f), c).unwrap();
        p.set_mtime(f, 1_600_000_000);
    }
    let _ = std::os::unix::fs::symlink("b.rs", dir.join("link.rs"));
    // the link itself is old too (the pinned clock is in the past of the real one)
    let _ = std::process::Command::new("touch").args(["-h", "-d", "@1600000000", "link.rs"]).current_dir(&dir).output();
    let one = |name: &str, m: &str| format!("[languages.{name}]\nextensions = [\"mine\"]\nsingle_line_comments = [{m}]\n");
    let l = |parts: &[(&str, &str)]| -> &'static str { Box::leak(parts.iter().map(|(n, m)| one(n, m)).collect::<String>().into_boxed_str()) };
    let all = |langs: &'static str| Step { langs, target: ".", cwd: "", edit: None };
    let steps: Vec<Step> = match variant {
        0 => vec![all(l(&[("Aaa", "\"#\""), ("Zzz", "\";\"")])), all(l(&[("Aaa", "\"#\""), ("Zzz", "\"//\"")])), all(l(&[("Aaa", "\"#\""), ("Zzz", "\"#\"")]))],
        1 => vec![all(l(&[("Aaa", "\"#\""), ("Zzz", "\";\"")])), all(l(&[("Aaa", "\"#\""), ("Bbb", "\";\""), ("Zzz", "\"//\"")])), all(l(&[("Aaa", "\";\""), ("Bbb", "\"#\"")]))],
        2 => vec![all(l(&[("Mmm", "\";\"")])), all(l(&[("Mmm", "\";\""), ("Nnn", "\"#\"")])), all(l(&[("Lll", "\"//\""), ("Mmm", "\";\"")])), all(l(&[("Lll", "\"//\""), ("Mmm", "\"#\"")]))],
        // the marker lists change, their concatenation does not
        3 => vec![all(l(&[("Mine", "\"#\", \"//\"")])), all(l(&[("Mine", "\"#/\", \"/\"")])), all(l(&[("Mine", "\"#\", \"/\", \"/\"")]))],
        4 => vec![
            all("[languages.Mine]\nextensions = [\"mine\"]\nsingle_line_comments = [\"#\", \";\"]\n"),
            all("[languages.Mine]\nextensions = [\"mine\"]\nmulti_line_comments = [[\"#\", \";\"]]\n"),
            all("[languages.Mine]\nextensions = [\"mine\"]\nsingle_line_comments = [\"#;\"]\n"),
        ],
        // a configuration change, then an invocation that covers part of the tree, then the whole tree
        5 => vec![all(l(&[("Mine", "\"#\"")])), Step { langs: l(&[("Mine", "\";\"")]), target: "src", cwd: "", edit: None }, all(l(&[("Mine", "\";\"")]))],
        6 => vec![all(l(&[("Mine", "\"#\"")])), Step { langs: l(&[("Mine", "\";\"")]), target: "mail", cwd: "", edit: None }, Step { langs: l(&[("Mine", "\";\"")]), target: "src", cwd: "", edit: None }, all(l(&[("Mine", "\";\"")]))],
        // the same project entered from its sub-directories (the configuration is discovered upwards)
        7 => vec![all(l(&[("Mine", "\"#\"")])), Step { langs: l(&[("Mine", "\"#\"")]), target: ".", cwd: "src", edit: None }, Step { langs: l(&[("Mine", "\"#\"")]), target: ".", cwd: "src/sub", edit: None }, all(l(&[("Mine", "\"#\"")]))],
        // a user-defined language that takes a built-in extension over (`.rs` with `#` comments),
        // is dropped again (the built-in syntax is back), returns under another name
        10 => vec![
            all("[languages.Hash]\nextensions = [\"rs\"]\nsingle_line_comments = [\"#\"]\n"),
            all(l(&[("Mine", "\"#\"")])),
            all("[languages.Other]\nextensions = [\"rs\", \"mine\"]\nsingle_line_comments = [\";\"]\n"),
            Step { langs: "", target: ".", cwd: "", edit: Some(("src/b.rs", "// aaaaaaa\n// bbbbbbb\n// ccccccc\n")) },
        ],
        11 => vec![
            all(""),
            all("[languages.Hash]\nextensions = [\"rs\"]\nsingle_line_comments = [\"#\"]\n"),
            Step { langs: "", target: "src", cwd: "", edit: None },
            all(""),
        ],
        // a cached file's bytes reappear under another extension (a copy, a rename): same content
        // hash, another language, other counts
        12 => vec![
            all(l(&[("Mine", "\"#\"")])),
            Step { langs: l(&[("Mine", "\"#\"")]), target: ".", cwd: "", edit: Some(("src/copy.mine", "// aaaaaaa\n// bbbbbbb\n")) },
            Step { langs: l(&[("Mine", "\"#\"")]), target: ".", cwd: "", edit: Some(("mail/x.rs", "# aaaaa\n# bbbbb\n")) },
        ],
        // a source file reached through a symbolic link and named explicitly; its target is edited
        9 => vec![
            Step { langs: l(&[("Mine", "\"#\"")]), target: "--files link.rs", cwd: "", edit: None },
            Step { langs: l(&[("Mine", "\"#\"")]), target: "--files link.rs", cwd: "", edit: Some(("b.rs", "let a = 1;\nlet b = 2;\nlet c = 3;\nlet d = 4;\n")) },
            Step { langs: l(&[("Mine", "\"#\"")]), target: "--files link.rs", cwd: "", edit: Some(("b.rs", "// only a comment now, of another size\n")) },
        ],
        _ => vec![Step { langs: l(&[("Mine", "\"#\"")]), target: ".", cwd: "src/sub", edit: None }, Step { langs: l(&[("Mine", "\"#\"")]), target: "sub", cwd: "src", edit: None }, all(l(&[("Mine", "\"#\"")])), Step { langs: l(&[("Mine", "\"#\"")]), target: "..", cwd: "src", edit: None }],
    };
    let mut pred = None;
    let now = 1_700_000_000u64;
    for (k, st) in steps.iter().enumerate() {
        std::fs::write(dir.join(".sloc-guard.toml"), format!("version = \"2\"\n[content]\nmax_lines = 2\nextensions = [\"mine\", \"rs\"]\n{}", st.langs)).unwrap();
        if let Some((f, c)) = st.edit {
            std::fs::write(dir.join(f), c).unwrap();
            p.set_mtime(f, 1_600_000_100 + k as u64);
        }
        let sub = Proj { dir: dir.join(st.cwd), bin: bin.to_string() };
        for cmd in 0..2 {
            let run = |cached: bool| {
                let mut args: Vec<&str> = if cmd == 0 { vec!["check", "--format", "json"] } else { vec!["stats", "files", "--format", "json"] };
                if !cached {
                    args.push("--no-sloc-cache");
                }
                // `--files x` for check, the bare path for stats
                let parts: Vec<&str> = st.target.split(' ').collect();
                if cmd == 0 { args.extend(parts.iter()); } else { args.push(parts[parts.len() - 1]); }
                let (rc, out, err) = sub.run(now + k as u64, &args);
                (rc, per_file_full(&out, cmd), err)
            };
            let (rc_u, unc, _) = run(false);
            let (rc_c, cac, err) = run(true);
            if unc != cac || rc_u != rc_c {
                pred = pred.or(Some(format!("step {k} (`{} {}` started in ./{}, languages {:?}): with the cache {cac:?} (exit {rc_c}); with --no-sloc-cache {unc:?} (exit {rc_u}) {}", if cmd == 0 { "check" } else { "stats files" }, st.target, st.cwd, st.langs.replace('\n', " "), err.lines().next().unwrap_or(""))));
            }
        }
    }
    let _ = std::fs::remove_dir_all(&dir);
    let kind = match variant { 0..=2 => "shared-extension", 3 | 4 => "marker-concatenation", 5 | 6 => "partial-tree-after-config-change", 9 => "symlinked-file-edited", _ => "started-in-subdirectory" };
    sink.push(Case { request: "noop".into(), implementation: "-".into(), pred: pred.map_or_else(|| "ok".to_string(), |p| format!("FAIL {p}")), tag: format!("languages/{kind}/{variant}") });
}

/// every truncation point of a real cache file (and a few byte flips): the next run ignores it
fn corruption(sink: &mut Sink, scratch: &str, bin: &str, step: usize) {
    let dir = PathBuf::from(scratch).join("corrupt");
    let _ = std::fs::remove_dir_all(&dir);
    std::fs::create_dir_all(dir.join("src")).unwrap();
    let p = Proj { dir: dir.clone(), bin: bin.to_string() };
    write_config(&p, None);
    for (i, c) in CONTENTS.iter().enumerate().take(3) {
        std::fs::write(dir.join(format!("src/f{i}.rs")), c).unwrap();
        p.set_mtime(&format!("src/f{i}.rs"), 1_600_000_000);
    }
    let now = 1_700_000_000u64;
    let (_, reference, _) = invoke(&p, now, 0, false);
    let _ = invoke(&p, now, 0, true);
    let cp = dir.join(".sloc-guard/cache.json");
    let good = std::fs::read(&cp).unwrap_or_default();
    let mut cut = 0usize;
    while cut <= good.len() {
        if !sink.want() {
            sink.skip();
            cut += step;
            continue;
        }
        let mut bytes = good[..cut].to_vec();
        let kind = if cut % (3 * step) == 0 && cut < good.len() {
            bytes = good.clone();
            bytes[cut] ^= 0x55;
            "flip"
        } else {
            "truncate"
        };
        std::fs::write(&cp, &bytes).unwrap();
        // a half-written temp file left behind by an interrupted save
        std::fs::write(dir.join(".sloc-guard/.cache.json.tmp.99999"), &good[..good.len() / 3]).unwrap();
        let (rc, got, err) = invoke(&p, now, 0, true);
        let mut pred = "ok".to_string();
        if err.contains("panicked") || rc == 2 || rc == 101 {
            pred = format!("FAIL a {kind}d cache file at byte {cut} is fatal (exit {rc})");
        } else if got != reference {
            // a flipped digit inside a stored count is indistinguishable from a valid cache by
            // design (no checksum); flips are therefore only required not to be fatal
            if kind == "truncate" {
                pred = format!("FAIL a cache file truncated at byte {cut} was trusted: {got:?} vs {reference:?}");
            }
        }
        sink.push(Case { request: "noop".into(), implementation: "-".into(), pred, tag: format!("corrupt/{kind}") });
        cut += step;
    }
    let _ = std::fs::remove_dir_all(&dir);
}

pub fn run(tier: Tier, seed: u64, out: &str) {
    let mut sink = Sink::create(out);
    let mut r = Rng::new(seed);
    if let Ok(bin) = std::env::var("SGVERIF_BIN") {
        let scratch = std::env::var("SGVERIF_SCRATCH").unwrap_or_else(|_| "/verif/.build/scratch/c12".to_string());
        let m = usize::MAX;
        let scripts: Vec<Script> = vec![
            // same-second, same-size rewrite right after a run
            vec![(0, 0, 0), (6, m, m), (0, 0, 1), (6, m, m), (4, 1, m), (6, m, m)],
            // rewrite in a later second, same size
            vec![(0, 0, 0), (4, 3, m), (6, m, m), (4, 2, m), (0, 0, 2), (6, m, m)],
            // delete and recreate with other content of equal size
            vec![(0, 1, 0), (4, 5, m), (6, m, m), (3, 1, m), (0, 1, 1), (6, m, m), (4, 1, m), (6, m, m)],
            // rename swap of two equal-size files written in the same second (known finding)
            vec![(0, 0, 0), (0, 1, 1), (4, 5, m), (6, m, m), (8, 0, 3), (8, 1, 0), (8, 3, 1), (6, m, m)],
            // cache lost between runs
            vec![(0, 0, 3), (4, 9, m), (6, m, m), (5, m, m), (6, m, m), (0, 0, 0), (6, m, m)],
            // a cached file rewritten with identical content, a run, and a same-size different
            // rewrite, all within one second
            vec![(0, 0, 0), (4, 5, m), (6, m, m), (0, 0, 0), (6, m, m), (0, 0, 1), (6, m, m), (4, 1, m), (6, m, m)],
            vec![(0, 1, 2), (4, 7, m), (6, m, m), (4, 3, m), (0, 1, 2), (6, m, m), (0, 1, 0), (6, m, m), (6, m, m)],
        ];
        for sc in &scripts {
            history(&mut sink, &mut r, &scratch, &bin, true, Some(sc));
        }
        for v in 0..13 {
            language_history(&mut sink, &scratch, &bin, v);
        }
        for i in 0..tier.scale(250, 10_000) {
            history(&mut sink, &mut r, &scratch, &bin, i % 5 == 4, None);
        }
        corruption(&mut sink, &scratch, &bin, if tier == Tier::Thorough { 1 } else { 7 });
    }
    sink.extra.insert("trivial_tag_prefixes".into(), serde_json::json!(["history/plain/no-run", "history/mv/no-run"]));
    sink.finish(out);
}

#[allow(dead_code)]
fn unused(_: &Path) {}
