//! C04 — comments and blank lines never change the code count.
//!
//! Relational: a base file (hazard-free grammar program or a real source file of /repo/src) and
//! one inserted line (whitespace only, or a whole-line line comment with arbitrary body).  The
//! insertion point must be one the tool itself places outside block comments and ignore regions:
//! a probe line of plain code inserted there is classified `code` and changes no other line.
use sloc_guard::language::CommentSyntax;

use super::Tier;
use super::c02::families;
use crate::counter::{Counted, count_str, enc_syntax, impl_classes};
use crate::grammar::{Family, program};
use crate::proto::{Case, Sink, enc};
use crate::rng::Rng;

const BODIES: &[&str] = &[
    "", " note", " don't", " \"quoted", " it's \"x\" 'y", " \\", " \\\"", " é 日本 😀", " see */ here", " ]] ]==] -->", " =end",
    " x = \"/*\"", " r#\"", " TODO: fix", "\t\ttabbed", " -- // # ///", " '''", " \"\"\"",
];
/// bodies holding a block-comment opener (known finding `opener-in-line-comment` of C02)
const OPENER_BODIES: &[&str] = &[" see src/*.rs", " /* x", " --[[ y", " --[==[ z", " <!-- w", " a /* b */ c /* d"];
const BLANKS: &[&str] = &["", " ", "\t", "  \t ", "\u{a0}", "\u{3000} "];

fn join(lines: &[String]) -> String {
    let mut s = String::new();
    for l in lines {
        s += l;
        s.push('\n');
    }
    s
}

fn classes(syn: &CommentSyntax, lines: &[String]) -> Result<String, String> {
    let text = join(lines);
    match count_str(syn, &text) {
        Counted::Stats(_) => impl_classes(syn, &text).map(|c| if c.is_empty() { "empty".to_string() } else { c }),
        Counted::IgnoredFile => Ok("ignored-file".to_string()),
        other => Err(format!("{other:?}")),
    }
}

fn with_insert(lines: &[String], k: usize, ins: &str) -> Vec<String> {
    let mut v = lines.to_vec();
    v.insert(k, ins.to_string());
    v
}

/// `None` = the property holds for this insertion; `Some(msg)` = it fails
fn violates(before: &str, after: &str, k: usize, expect: char) -> Option<String> {
    if before == "ignored-file" || after == "ignored-file" {
        return if before == after { None } else { Some("insertion changed the ignored-file outcome".to_string()) };
    }
    let b: Vec<char> = if before == "empty" { vec![] } else { before.chars().collect() };
    let a: Vec<char> = after.chars().collect();
    if a.len() != b.len() + 1 {
        return Some(format!("line count {} -> {}", b.len(), a.len()));
    }
    if a[k] != expect {
        return Some(format!("inserted line classified {} instead of {}", a[k], expect));
    }
    let mut rest = a.clone();
    rest.remove(k);
    if rest != b {
        let at = rest.iter().zip(&b).position(|(x, y)| x != y).unwrap_or(0);
        return Some(format!("class of original line {} changed {} -> {}", at + 1, b[at], rest[at]));
    }
    None
}

#[allow(clippy::too_many_arguments)]
fn one(sink: &mut Sink, f: &Family, lines: &[String], r: &mut Rng, source: &str) {
    if !sink.want() {
        sink.skip();
        return;
    }
    let syn = &f.syntax;
    let before = match classes(syn, lines) {
        Ok(c) => c,
        Err(e) => {
            sink.push(Case { request: "insert".into(), implementation: "-".into(), pred: format!("FAIL base file: {e}"), tag: "error".into() });
            return;
        }
    };
    // insertion point outside block comments / ignore regions, as the tool sees it
    let mut k = r.below(lines.len() + 1);
    let mut found = false;
    for _ in 0..8 {
        if let Ok(p) = classes(syn, &with_insert(lines, k, "probe_code_line_x")) {
            if violates(&before, &p, k, 'c').is_none() && before != "ignored-file" {
                found = true;
                break;
            }
        }
        k = r.below(lines.len() + 1);
    }
    if !found {
        sink.push(Case { request: "insert".into(), implementation: "-".into(), pred: "ok".into(), tag: format!("{source}/no-free-point") });
        return;
    }
    let blank = r.chance(1, 4);
    let opener = !blank && r.chance(1, 5);
    let ins = if blank || f.line_prefixes.is_empty() {
        (*r.pick(BLANKS)).to_string()
    } else {
        let pre = r.pick(&f.line_prefixes).clone();
        format!("{}{}{}", r.pick(&["", " ", "\t"]), pre, if opener { *r.pick(OPENER_BODIES) } else { *r.pick(BODIES) })
    };
    let expect = if ins.trim().is_empty() { 'b' } else { 'm' };
    let after = classes(syn, &with_insert(lines, k, &ins)).unwrap_or_else(|e| e);
    let mut pred = "ok".to_string();
    if let Some(msg) = violates(&before, &after, k, expect) {
        // attribute by repair: the same comment without block openers
        let mut key = String::new();
        if opener {
            let safe = ins.replace("/*", "").replace("--[[", "").replace("--[==[", "").replace("<!--", "");
            if let Ok(a2) = classes(syn, &with_insert(lines, k, &safe)) {
                if violates(&before, &a2, k, expect).is_none() {
                    key = "key=opener-in-line-comment ".to_string();
                }
            }
        }
        pred = format!("FAIL {key}{msg} (inserted {ins:?} before line {})", k + 1);
    }
    let mut req = format!("insert {} {} {} {}", enc_syntax(syn), k, enc(&ins), lines.len());
    for l in lines {
        req += &format!(" {}", enc(l));
    }
    sink.push(Case {
        request: req,
        implementation: format!("{before} {after}"),
        pred,
        tag: format!("{source}/{}/{}{}", f.name, if blank { "blank" } else { "comment" }, if opener { "/opener" } else { "" }),
    });
}

fn corpus() -> Vec<(String, Vec<String>)> {
    let mut files = vec![];
    let mut stack = vec![std::path::PathBuf::from("/repo/src")];
    while let Some(d) = stack.pop() {
        let Ok(rd) = std::fs::read_dir(&d) else { continue };
        let mut entries: Vec<_> = rd.flatten().map(|e| e.path()).collect();
        entries.sort();
        for p in entries {
            if p.is_dir() {
                stack.push(p);
            } else if p.extension().is_some_and(|e| e == "rs") {
                if let Ok(t) = std::fs::read_to_string(&p) {
                    let lines: Vec<String> = t.lines().map(str::to_string).collect();
                    if lines.len() <= 400 {
                        files.push((p.display().to_string(), lines));
                    }
                }
            }
        }
    }
    files.sort();
    files
}

/// "Hence a file's verdict depends only on its code lines", as the user sees it: pairs of files
/// that differ by inserted blank / comment-only lines (at points the tool places outside block
/// comments) are checked by the binary under a configuration whose last matching rule leaves the
/// skip settings at their defaults (an earlier, superseded rule sets them otherwise).  Both files
/// of a pair must get the same count and the same status.
fn e2e_batch(sink: &mut Sink, r: &mut Rng, fams: &[Family], bin: &str, scratch: &str) {
    if !sink.want() {
        sink.skip();
        return;
    }
    let dir = std::path::PathBuf::from(scratch).join(format!("e{}", sink.n));
    let _ = std::fs::remove_dir_all(&dir);
    std::fs::create_dir_all(dir.join("src/core")).unwrap();
    let reg = sloc_guard::language::LanguageRegistry::default();
    let mut exts: Vec<String> = vec![];
    let mut pairs: Vec<(String, String, String)> = vec![];
    let mut tries = 0;
    while pairs.len() < 12 && tries < 300 {
        tries += 1;
        let f = &fams[r.below(fams.len())];
        let Some(lang) = reg.all().iter().find(|l| l.name == f.name && !l.extensions.is_empty()) else { continue };
        if f.line_prefixes.is_empty() {
            continue;
        }
        let pieces = r.range(2, 7);
        let p = program(r, f, pieces, &[], false);
        let lines: Vec<String> = p.lines.iter().map(|l| l.text.clone()).collect();
        let Ok(before) = classes(&f.syntax, &lines) else { continue };
        if before == "ignored-file" || before == "empty" || !before.contains('c') {
            continue;
        }
        // two insertions at free points
        let mut more = lines.clone();
        let mut what = vec![];
        for _ in 0..2 {
            let k = r.below(more.len() + 1);
            let Ok(b0) = classes(&f.syntax, &more) else { break };
            let free = classes(&f.syntax, &with_insert(&more, k, "probe_code_line_x")).is_ok_and(|pr| violates(&b0, &pr, k, 'c').is_none());
            if !free {
                continue;
            }
            let ins = if r.chance(1, 3) { (*r.pick(&["", " ", "\t"])).to_string() } else { format!("{}{}", r.pick(&f.line_prefixes), r.pick(BODIES)) };
            what.push(format!("{ins:?} before line {}", k + 1));
            more = with_insert(&more, k, &ins);
        }
        if what.is_empty() {
            continue;
        }
        let ext = lang.extensions[0].trim_start_matches('.').to_string();
        if !exts.contains(&ext) {
            exts.push(ext.clone());
        }
        let n = pairs.len();
        let (a, b) = (format!("src/core/base{n}.{ext}"), format!("src/core/more{n}.{ext}"));
        std::fs::write(dir.join(&a), join(&lines)).unwrap();
        std::fs::write(dir.join(&b), join(&more)).unwrap();
        pairs.push((a, b, what.join(", ")));
    }
    // a user-defined language whose single-line prefixes overlap (`;` and `;;`): comments with
    // either prefix are comments
    exts.push("lsp".to_string());
    std::fs::write(dir.join("src/core/custom_base.lsp"), "(define a 1)\n(define b 2)\n").unwrap();
    std::fs::write(dir.join("src/core/custom_more.lsp"), "; short prefix\n(define a 1)\n;; long prefix\n(define b 2)\n ; indented\n").unwrap();
    pairs.push(("src/core/custom_base.lsp".to_string(), "src/core/custom_more.lsp".to_string(), "\"; short prefix\", \";; long prefix\", \" ; indented\" (custom language with prefixes ; and ;;)".to_string()));
    let list = exts.iter().map(|e| format!("\"{e}\"")).collect::<Vec<_>>().join(", ");
    std::fs::write(dir.join(".sloc-guard.toml"), format!("version = \"2\"\n[scanner]\ngitignore = false\n[content]\nmax_lines = 4\nextensions = [{list}]\n[[content.rules]]\npattern = \"src/**\"\nmax_lines = 100000\nskip_comments = false\nskip_blank = false\n[[content.rules]]\npattern = \"src/core/**\"\nmax_lines = 5\n[languages.Lispish]\nextensions = [\"lsp\"]\nsingle_line_comments = [\";\", \";;\"]\n")).unwrap();
    let o = std::process::Command::new(bin).args(["check", "--no-sloc-cache", "--format", "json", "."]).current_dir(&dir).env("NO_COLOR", "1").output().expect("run sloc-guard");
    let v: serde_json::Value = serde_json::from_slice(&o.stdout).unwrap_or(serde_json::Value::Null);
    let get = |name: &str| -> Option<(String, u64)> {
        let x = v.get("results")?.as_array()?.iter().find(|x| x.get("path").and_then(|p| p.as_str()).is_some_and(|p| p.trim_start_matches("./") == name))?;
        Some((x.get("status")?.as_str()?.to_string(), x.get("sloc")?.as_u64()?))
    };
    let mut pred: Option<String> = None;
    for (a, b, what) in &pairs {
        match (get(a), get(b)) {
            (Some(x), Some(y)) => {
                if x != y && pred.is_none() {
                    pred = Some(format!("{a} is {} with count {}, {b} (the same file with {what} inserted) is {} with count {}", x.0, x.1, y.0, y.1));
                }
            }
            (x, y) => pred = pred.or(Some(format!("{a} / {b}: not both reported ({x:?}, {y:?}); exit {:?}: {}", o.status.code(), String::from_utf8_lossy(&o.stderr).lines().next().unwrap_or("")))),
        }
    }
    let _ = std::fs::remove_dir_all(&dir);
    sink.push(Case { request: "noop".into(), implementation: "-".into(), pred: pred.map_or_else(|| "ok".to_string(), |p| format!("FAIL {p}")), tag: format!("e2e/{}-pairs", pairs.len().min(12)) });
}

pub fn run(tier: Tier, seed: u64, out: &str) {
    let mut sink = Sink::create(out);
    let mut r = Rng::new(seed);
    let fams = families();
    let rust = fams.iter().find(|f| f.name == "Rust").cloned();
    let files = corpus();
    let n = tier.scale(12_000, 400_000);
    let n_real = tier.scale(150, 5_000);
    for i in 0..n {
        let f = &fams[r.below(fams.len())];
        let k = r.range(1, 8);
        let p = program(&mut r, f, k, &[], i % 3 == 0);
        let lines: Vec<String> = p.lines.iter().map(|l| l.text.clone()).collect();
        one(&mut sink, f, &lines, &mut r, "grammar");
    }
    if let Some(rust) = rust {
        for _ in 0..n_real {
            if files.is_empty() {
                break;
            }
            let (_, lines) = &files[r.below(files.len())];
            one(&mut sink, &rust, lines, &mut r, "repo-src");
        }
    }
    if let Ok(bin) = std::env::var("SGVERIF_BIN") {
        let scratch = std::env::var("SGVERIF_SCRATCH").unwrap_or_else(|_| "/verif/.build/scratch/c04".to_string());
        for _ in 0..tier.scale(4, 60) {
            let mut rr = r.fork();
            e2e_batch(&mut sink, &mut rr, &fams, &bin, &scratch);
        }
    }
    sink.extra.insert("corpus_files".into(), serde_json::json!(files.len()));
    sink.extra.insert("trivial_tag_prefixes".into(), serde_json::json!(["grammar/no-free-point", "repo-src/no-free-point"]));
    sink.finish(out);
}
