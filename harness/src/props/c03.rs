//! C03 — line accounting is total; the three entry points agree; appending is monotone.
use sloc_guard::language::CommentSyntax;

use super::Tier;
use crate::counter::{Counted, builtins, count_bytes, count_reader, count_str, enc_syntax, fmt_counted, impl_classes, line_ends, random_custom_syntax};
use crate::proto::{Case, Sink, enc};
use crate::rng::Rng;

const TOKENS: &[&str] = &[
    "/*", "*/", "//", "#", "\"", "'", "\\", "\"\"\"", "'''", "--[[", "]]", "--[==[", "]==]", "r#\"", "\"#", "r\"", "=begin",
    "=end", "<!--", "-->", " ", "\t", "\n", "\n", "\n", "\r\n", "\r", "x", "fn f()", "é", "日", "\u{a0}", "\u{2028}", "\0",
    "sloc-guard:ignore-next 2", "sloc-guard:ignore-start", "sloc-guard:ignore-end", "sloc-guard:ignore-file",
    "sloc-guard:ignore-next", "+3", "99999999999999999999", "r", "-", "[", "=", "]", "--", "///", "\u{3000}", "😀", "\u{85}",
];

const LINE_TOKENS: &[&str] = &[
    "/*", "*/", "//", "#", "\"", "'", "\\", "\"\"\"", "'''", "--[[", "]]", "--[==[", "]==]", "r#\"", "\"#", "r\"", "=begin",
    "=end", "<!--", "-->", " ", "\t", "\r", "x", "fn f()", "é", "日", "\u{a0}", "\u{2028}", "\0", "r", "-", "[", "=", "]", "--",
    "///", "\u{3000}", "😀", "\u{85}", "sloc-guard:ignore-file", "sloc-guard:ignore-next 1",
];
const COMMENT_PREFIXES: &[&str] = &["//", "#", "--", "///", "//!", " // ", "\t# "];
const DIRECTIVES: &[&str] = &[
    "sloc-guard:ignore-next 2", "sloc-guard:ignore-start", "sloc-guard:ignore-end", "sloc-guard:ignore-file",
    "sloc-guard:ignore-next", "sloc-guard:ignore-next +3", "sloc-guard:ignore-next 99999999999999999999", "sloc-guard:ignore-next0",
    "sloc-guard:ignore-next \u{a0}1 x", "sloc-guard:ignore-next -1",
];

fn random_line(r: &mut Rng, max_tokens: usize) -> String {
    match r.below(10) {
        0 => (0..r.below(3)).map(|_| *r.pick(&[" ", "\t", "\u{a0}", "\u{3000}"])).collect(),
        1 => format!("{}{}", r.pick(COMMENT_PREFIXES), r.pick(DIRECTIVES)),
        2 => format!("{} {}", r.pick(COMMENT_PREFIXES), (0..r.below(5)).map(|_| *r.pick(LINE_TOKENS)).collect::<String>()),
        3 => format!("x = \"{}\"", r.pick(DIRECTIVES)),
        _ => (0..r.below(max_tokens + 1)).map(|_| *r.pick(LINE_TOKENS)).collect(),
    }
}

/// line-structured random text: every line is blank / directive / comment-like / token soup
fn random_text(r: &mut Rng, max_tokens: usize) -> String {
    if r.chance(1, 5) {
        // unstructured token soup including raw newlines and lone CRs
        let n = r.below(max_tokens + 1);
        return (0..n).map(|_| *r.pick(TOKENS)).collect();
    }
    let lines = r.below(max_tokens / 2 + 2);
    let mut s = String::new();
    for i in 0..lines {
        s += &random_line(r, 6);
        if i + 1 < lines || r.chance(2, 3) {
            s += *r.pick(&["\n", "\n", "\n", "\r\n"]);
        }
    }
    s
}

fn one_case(sink: &mut Sink, name: &str, syn: &CommentSyntax, bytes: &[u8], r: &mut Rng) {
    if !sink.want() {
        sink.skip();
        return;
    }
    let text = String::from_utf8_lossy(bytes).into_owned();
    let valid = std::str::from_utf8(bytes).is_ok();
    let whole = count_bytes(syn, bytes);
    let via_str = count_str(syn, &text);
    let via_reader = count_reader(syn, bytes);
    let mut pred: Option<String> = None;
    if whole == Counted::Panic || via_str == Counted::Panic || via_reader == Counted::Panic {
        pred = Some("panic".to_string());
    }
    if pred.is_none() && whole != via_str {
        pred = Some(format!("count_from_bytes {whole:?} differs from count {via_str:?}"));
    }
    if pred.is_none() && valid && via_reader != via_str {
        pred = Some(format!("count_reader {via_reader:?} differs from count {via_str:?} on valid UTF-8"));
    }
    if pred.is_none() && count_str(syn, &text) != via_str {
        pred = Some("repeated call differs".to_string());
    }
    let mut classes = String::new();
    if let Counted::Stats(s) = &via_str {
        let physical = line_ends(&text).len();
        if pred.is_none() && s.total != physical {
            pred = Some(format!("total {} but the content has {} physical lines", s.total, physical));
        }
        if pred.is_none() && s.total != s.code + s.comment + s.blank + s.ignored {
            pred = Some(format!("total {} != code+comment+blank+ignored", s.total));
        }
        if pred.is_none() && physical <= 40 {
            match impl_classes(syn, &text) {
                Ok(c) => classes = c,
                Err(e) => pred = Some(e),
            }
        } else {
            classes = "-".to_string();
        }
        // appending a line never decreases a counter (unless it is an ignore-file directive)
        if pred.is_none() {
            let mut more = text.clone();
            if !more.is_empty() && !more.ends_with('\n') {
                more.push('\n');
            }
            more += &random_text(r, 6).replace(['\n', '\r'], " ");
            match count_str(syn, &more) {
                Counted::Stats(s2) => {
                    if s2.total < s.total || s2.code < s.code || s2.comment < s.comment || s2.blank < s.blank || s2.ignored < s.ignored {
                        pred = Some("a counter decreased when a line was appended".to_string());
                    }
                }
                Counted::IgnoredFile => {
                    let last = more.lines().last().unwrap_or("");
                    if !last.contains("sloc-guard:ignore-file") || s.total >= 10 {
                        pred = Some("appending a non-directive line turned the file into an ignored file".to_string());
                    }
                }
                _ => pred = Some("panic on appended text".to_string()),
            }
        }
    }
    let implementation = if classes == "-" {
        // too long for prefix classes: compare totals only (the model prints classes; strip them on comparison)
        fmt_counted(&via_str, "-")
    } else {
        fmt_counted(&via_str, &classes)
    };
    let shape = match &via_str {
        Counted::Stats(s) => format!(
            "stats{}{}{}{}",
            if s.code > 0 { "+code" } else { "" }, if s.comment > 0 { "+comment" } else { "" },
            if s.blank > 0 { "+blank" } else { "" }, if s.ignored > 0 { "+ignored" } else { "" }
        ),
        Counted::IgnoredFile => "ignored-file".to_string(),
        _ => "panic".to_string(),
    };
    sink.push(Case {
        request: format!("count {} {}", enc_syntax(syn), enc(&text)),
        implementation,
        pred: pred.map_or_else(|| "ok".to_string(), |p| format!("FAIL {p}")),
        tag: format!("{name}/{}{}", shape, if valid { "" } else { "/invalid-utf8" }),
    });
}

/// The same accounting as the user sees it: files with generated byte contents (a third of them
/// not valid UTF-8) are scanned by the binary; `check` and `stats files` must list every file
/// that carries no ignore-file directive, with the numbers the counter gives for its bytes, and a
/// total equal to its physical lines.
fn e2e_batch(sink: &mut Sink, r: &mut Rng, bin: &str, scratch: &str) {
    if !sink.want() {
        sink.skip();
        return;
    }
    let dir = std::path::PathBuf::from(scratch).join(format!("e{}", sink.n));
    let _ = std::fs::remove_dir_all(&dir);
    std::fs::create_dir_all(dir.join("src")).unwrap();
    let reg = sloc_guard::language::LanguageRegistry::default();
    let langs: Vec<_> = reg.all().iter().filter(|l| !l.extensions.is_empty()).collect();
    let mut exts: Vec<String> = vec![];
    let mut expect: Vec<(String, Counted, usize, bool)> = vec![];
    for k in 0..40 {
        let lang = *r.pick(&langs);
        let ext = lang.extensions[0].trim_start_matches('.').to_string();
        if !exts.contains(&ext) {
            exts.push(ext.clone());
        }
        let mut bytes = random_text(r, 24).into_bytes();
        let spliced = k % 3 == 0;
        if spliced {
            for _ in 0..r.range(1, 3) {
                let pos = r.below(bytes.len() + 1);
                bytes.insert(pos, *r.pick(&[0xffu8, 0xc3, 0x80, 0xe9, 0xf0]));
            }
        }
        let name = format!("src/f{k}.{ext}");
        std::fs::write(dir.join(&name), &bytes).unwrap();
        if let Ok(h) = std::fs::OpenOptions::new().write(true).open(dir.join(&name)) {
            let _ = h.set_modified(std::time::UNIX_EPOCH + std::time::Duration::from_secs(1_600_000_000));
        }
        let text = String::from_utf8_lossy(&bytes).into_owned();
        expect.push((name, count_bytes(&lang.comment_syntax, &bytes), line_ends(&text).len(), std::str::from_utf8(&bytes).is_ok()));
    }
    let cfg = format!("version = \"2\"\n[scanner]\ngitignore = false\n[content]\nmax_lines = 100000\nextensions = [{}]\n", exts.iter().map(|e| format!("\"{e}\"")).collect::<Vec<_>>().join(", "));
    std::fs::write(dir.join(".sloc-guard.toml"), cfg).unwrap();
    let run = |args: &[&str]| -> (i32, serde_json::Value, String) {
        let o = std::process::Command::new(bin).args(args).current_dir(&dir).env("NO_COLOR", "1").output().expect("run sloc-guard");
        (o.status.code().unwrap_or(-1), serde_json::from_slice(&o.stdout).unwrap_or(serde_json::Value::Null), String::from_utf8_lossy(&o.stderr).into_owned())
    };
    let (rc1, check, err1) = run(&["check", "--no-sloc-cache", "--format", "json", "."]);
    let (rc2, stats, err2) = run(&["stats", "files", "--no-sloc-cache", "--format", "json", "."]);
    let mut pred: Option<String> = None;
    if rc1 != 0 || rc2 != 0 {
        pred = Some(format!("check exits {rc1}, stats files exits {rc2}: {} {}", err1.lines().next().unwrap_or(""), err2.lines().next().unwrap_or("")));
    }
    let quad = |v: &serde_json::Value| -> Option<(usize, usize, usize, usize)> {
        Some((v.get("total")?.as_u64()? as usize, v.get("code")?.as_u64()? as usize, v.get("comment")?.as_u64()? as usize, v.get("blank")?.as_u64()? as usize))
    };
    let find = |arr: Option<&Vec<serde_json::Value>>, name: &str| -> Option<serde_json::Value> {
        arr?.iter().find(|x| x.get("path").and_then(|p| p.as_str()).is_some_and(|p| p.trim_start_matches("./") == name)).cloned()
    };
    let mut shapes = std::collections::BTreeSet::new();
    for (name, counted, physical, valid) in &expect {
        let in_check = find(check.get("results").and_then(|x| x.as_array()), name);
        let in_stats = find(stats.get("top_files").and_then(|x| x.as_array()), name);
        let what = if *valid { "" } else { " (not valid UTF-8)" };
        match counted {
            Counted::Stats(s) => {
                shapes.insert(if *valid { "counted" } else { "counted-invalid-utf8" });
                let want = (s.total, s.code, s.comment, s.blank);
                let got_c = in_check.as_ref().and_then(|x| x.get("stats")).and_then(quad);
                let got_s = in_stats.as_ref().and_then(quad);
                if pred.is_none() && (got_c.is_none() || got_s.is_none()) {
                    pred = Some(format!("{name}{what} is missing from {}: every physical line must land in a class", if got_c.is_none() { "`check`" } else { "`stats files`" }));
                }
                if pred.is_none() && (got_c != Some(want) || got_s != Some(want)) {
                    pred = Some(format!("{name}{what}: counter gives {want:?}, `check` shows {got_c:?}, `stats files` shows {got_s:?}"));
                }
                if pred.is_none() && s.total != *physical {
                    pred = Some(format!("{name}: total {} but {} physical lines", s.total, physical));
                }
            }
            Counted::IgnoredFile => {
                shapes.insert("ignore-file");
                if pred.is_none() && (in_check.is_some() || in_stats.is_some()) {
                    pred = Some(format!("{name} carries an ignore-file directive but is listed"));
                }
            }
            _ => pred = pred.or(Some(format!("{name}: the counter panicked"))),
        }
    }
    // "repeated calls agree": the same two commands with the SLOC cache, cold and then warm
    let listing = |v: &serde_json::Value, key: &str, inner: bool| -> Vec<(String, Option<(usize, usize, usize, usize)>)> {
        let mut rows: Vec<_> = v.get(key).and_then(|x| x.as_array()).cloned().unwrap_or_default().iter().map(|x| (x.get("path").and_then(|p| p.as_str()).unwrap_or("").to_string(), if inner { x.get("stats").and_then(quad) } else { quad(x) })).collect();
        rows.sort();
        rows
    };
    let (want_check, want_stats) = (listing(&check, "results", true), listing(&stats, "top_files", false));
    for round in ["cold cache", "warm cache", "warm cache again"] {
        if pred.is_some() {
            break;
        }
        let (_, c, _) = run(&["check", "--format", "json", "."]);
        let (_, st, _) = run(&["stats", "files", "--format", "json", "."]);
        let (got_check, got_stats) = (listing(&c, "results", true), listing(&st, "top_files", false));
        if got_check != want_check {
            let d = got_check.iter().find(|x| !want_check.contains(x)).or_else(|| want_check.iter().find(|x| !got_check.contains(x)));
            pred = Some(format!("`check` with a {round} differs from `check --no-sloc-cache`, e.g. {d:?}"));
        } else if got_stats != want_stats {
            let d = got_stats.iter().find(|x| !want_stats.contains(x)).or_else(|| want_stats.iter().find(|x| !got_stats.contains(x)));
            pred = Some(format!("`stats files` with a {round} differs from `stats files --no-sloc-cache`, e.g. {d:?}"));
        }
    }
    let _ = std::fs::remove_dir_all(&dir);
    sink.push(Case { request: "noop".into(), implementation: "-".into(), pred: pred.map_or_else(|| "ok".to_string(), |p| format!("FAIL {p}")), tag: format!("e2e/{}", shapes.into_iter().collect::<Vec<_>>().join("+")) });
}

pub fn run(tier: Tier, seed: u64, out: &str) {
    let mut sink = Sink::create(out);
    let mut r = Rng::new(seed);
    let langs = builtins();
    let n = tier.scale(40_000, 2_000_000);
    for i in 0..n {
        let (name, syn) = match i % 4 {
            0 | 1 => {
                let (n, s) = r.pick(&langs).clone();
                (n, s)
            }
            2 => ("custom".to_string(), random_custom_syntax(&mut r, false)),
            _ => ("custom-any".to_string(), random_custom_syntax(&mut r, true)),
        };
        let mut bytes = random_text(&mut r, if i % 50 == 0 { 400 } else { 24 }).into_bytes();
        if i % 9 == 0 {
            // invalid UTF-8: splice raw bytes
            for _ in 0..r.range(1, 3) {
                let pos = r.below(bytes.len() + 1);
                bytes.insert(pos, *r.pick(&[0xffu8, 0xc3, 0x80, 0xe2, 0xf0]));
            }
        }
        if i % 997 == 0 {
            // a very long line
            let mut long = "x /* ".repeat(20_000).into_bytes();
            long.extend_from_slice(&bytes);
            bytes = long;
        }
        one_case(&mut sink, &name, &syn, &bytes, &mut r);
    }
    if let Ok(bin) = std::env::var("SGVERIF_BIN") {
        let scratch = std::env::var("SGVERIF_SCRATCH").unwrap_or_else(|_| "/verif/.build/scratch/c03".to_string());
        for _ in 0..tier.scale(4, 60) {
            let mut rr = r.fork();
            e2e_batch(&mut sink, &mut rr, &bin, &scratch);
        }
    }
    sink.extra.insert("trivial_tag_prefixes".into(), serde_json::json!([]));
    sink.finish(out);
}
