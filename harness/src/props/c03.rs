//! C03 — line accounting is total; the three entry points agree; appending is monotone.
use sloc_guard::language::CommentSyntax;

use super::Tier;
use crate::counter::{Counted, builtins, count_bytes, count_reader, count_str, enc_syntax, fmt_counted, impl_classes, line_ends, random_custom_syntax};
use crate::proto::{Case, Sink, enc};
use crate::rng::Rng;

const TOKENS: &[&str] = &[
    "/*", "*/", "//", "#", "\"", "'", "\\", "\"\"\"", "'''", "--[[", "]]", "--[==[", "]==]", "r#\"", "\"#", "r\"", "=begin",
    "=end", "<!--", "-->", " ", "\t", "\n", "\n", "\n", "\r\n", "\r", "x", "fn f()", "é", "日", "\u{a0}", "\u{2028}", "\0",
    "sloc-guard:ignore-next 2", "sloc-guard:ignore-start", "sloc-guard:ignore-end", "sloc-guard:ignore-file",
    "sloc-guard:ignore-next", "+3", "99999999999999999999", "r", "-", "[", "=", "]", "--", "///", "\u{3000}", "😀", "\u{85}",
];

const LINE_TOKENS: &[&str] = &[
    "/*", "*/", "//", "#", "\"", "'", "\\", "\"\"\"", "'''", "--[[", "]]", "--[==[", "]==]", "r#\"", "\"#", "r\"", "=begin",
    "=end", "<!--", "-->", " ", "\t", "\r", "x", "fn f()", "é", "日", "\u{a0}", "\u{2028}", "\0", "r", "-", "[", "=", "]", "--",
    "///", "\u{3000}", "😀", "\u{85}", "sloc-guard:ignore-file", "sloc-guard:ignore-next 1",
];
const COMMENT_PREFIXES: &[&str] = &["//", "#", "--", "///", "//!", " // ", "\t# "];
const DIRECTIVES: &[&str] = &[
    "sloc-guard:ignore-next 2", "sloc-guard:ignore-start", "sloc-guard:ignore-end", "sloc-guard:ignore-file",
    "sloc-guard:ignore-next", "sloc-guard:ignore-next +3", "sloc-guard:ignore-next 99999999999999999999", "sloc-guard:ignore-next0",
    "sloc-guard:ignore-next \u{a0}1 x", "sloc-guard:ignore-next -1",
];

fn random_line(r: &mut Rng, max_tokens: usize) -> String {
    match r.below(10) {
        0 => (0..r.below(3)).map(|_| *r.pick(&[" ", "\t", "\u{a0}", "\u{3000}"])).collect(),
        1 => format!("{}{}", r.pick(COMMENT_PREFIXES), r.pick(DIRECTIVES)),
        2 => format!("{} {}", r.pick(COMMENT_PREFIXES), (0..r.below(5)).map(|_| *r.pick(LINE_TOKENS)).collect::<String>()),
        3 => format!("x = \"{}\"", r.pick(DIRECTIVES)),
        _ => (0..r.below(max_tokens + 1)).map(|_| *r.pick(LINE_TOKENS)).collect(),
    }
}

/// line-structured random text: every line is blank / directive / comment-like / token soup
fn random_text(r: &mut Rng, max_tokens: usize) -> String {
    if r.chance(1, 5) {
        // unstructured token soup including raw newlines and lone CRs
        let n = r.below(max_tokens + 1);
        return (0..n).map(|_| *r.pick(TOKENS)).collect();
    }
    let lines = r.below(max_tokens / 2 + 2);
    let mut s = String::new();
    for i in 0..lines {
        s += &random_line(r, 6);
        if i + 1 < lines || r.chance(2, 3) {
            s += *r.pick(&["\n", "\n", "\n", "\r\n"]);
        }
    }
    s
}

fn one_case(sink: &mut Sink, name: &str, syn: &CommentSyntax, bytes: &[u8], r: &mut Rng) {
    if !sink.want() {
        sink.skip();
        return;
    }
    let text = String::from_utf8_lossy(bytes).into_owned();
    let valid = std::str::from_utf8(bytes).is_ok();
    let whole = count_bytes(syn, bytes);
    let via_str = count_str(syn, &text);
    let via_reader = count_reader(syn, bytes);
    let mut pred: Option<String> = None;
    if whole == Counted::Panic || via_str == Counted::Panic || via_reader == Counted::Panic {
        pred = Some("panic".to_string());
    }
    if pred.is_none() && whole != via_str {
        pred = Some(format!("count_from_bytes {whole:?} differs from count {via_str:?}"));
    }
    if pred.is_none() && valid && via_reader != via_str {
        pred = Some(format!("count_reader {via_reader:?} differs from count {via_str:?} on valid UTF-8"));
    }
    if pred.is_none() && count_str(syn, &text) != via_str {
        pred = Some("repeated call differs".to_string());
    }
    let mut classes = String::new();
    if let Counted::Stats(s) = &via_str {
        let physical = line_ends(&text).len();
        if pred.is_none() && s.total != physical {
            pred = Some(format!("total {} but the content has {} physical lines", s.total, physical));
        }
        if pred.is_none() && s.total != s.code + s.comment + s.blank + s.ignored {
            pred = Some(format!("total {} != code+comment+blank+ignored", s.total));
        }
        if pred.is_none() && physical <= 40 {
            match impl_classes(syn, &text) {
                Ok(c) => classes = c,
                Err(e) => pred = Some(e),
            }
        } else {
            classes = "-".to_string();
        }
        // appending a line never decreases a counter (unless it is an ignore-file directive)
        if pred.is_none() {
            let mut more = text.clone();
            if !more.is_empty() && !more.ends_with('\n') {
                more.push('\n');
            }
            more += &random_text(r, 6).replace(['\n', '\r'], " ");
            match count_str(syn, &more) {
                Counted::Stats(s2) => {
                    if s2.total < s.total || s2.code < s.code || s2.comment < s.comment || s2.blank < s.blank || s2.ignored < s.ignored {
                        pred = Some("a counter decreased when a line was appended".to_string());
                    }
                }
                Counted::IgnoredFile => {
                    let last = more.lines().last().unwrap_or("");
                    if !last.contains("sloc-guard:ignore-file") || s.total >= 10 {
                        pred = Some("appending a non-directive line turned the file into an ignored file".to_string());
                    }
                }
                _ => pred = Some("panic on appended text".to_string()),
            }
        }
    }
    let implementation = if classes == "-" {
        // too long for prefix classes: compare totals only (the model prints classes; strip them on comparison)
        fmt_counted(&via_str, "-")
    } else {
        fmt_counted(&via_str, &classes)
    };
    let shape = match &via_str {
        Counted::Stats(s) => format!(
            "stats{}{}{}{}",
            if s.code > 0 { "+code" } else { "" }, if s.comment > 0 { "+comment" } else { "" },
            if s.blank > 0 { "+blank" } else { "" }, if s.ignored > 0 { "+ignored" } else { "" }
        ),
        Counted::IgnoredFile => "ignored-file".to_string(),
        _ => "panic".to_string(),
    };
    sink.push(Case {
        request: format!("count {} {}", enc_syntax(syn), enc(&text)),
        implementation,
        pred: pred.map_or_else(|| "ok".to_string(), |p| format!("FAIL {p}")),
        tag: format!("{name}/{}{}", shape, if valid { "" } else { "/invalid-utf8" }),
    });
}

pub fn run(tier: Tier, seed: u64, out: &str) {
    let mut sink = Sink::create(out);
    let mut r = Rng::new(seed);
    let langs = builtins();
    let n = tier.scale(40_000, 2_000_000);
    for i in 0..n {
        let (name, syn) = match i % 4 {
            0 | 1 => {
                let (n, s) = r.pick(&langs).clone();
                (n, s)
            }
            2 => ("custom".to_string(), random_custom_syntax(&mut r, false)),
            _ => ("custom-any".to_string(), random_custom_syntax(&mut r, true)),
        };
        let mut bytes = random_text(&mut r, if i % 50 == 0 { 400 } else { 24 }).into_bytes();
        if i % 9 == 0 {
            // invalid UTF-8: splice raw bytes
            for _ in 0..r.range(1, 3) {
                let pos = r.below(bytes.len() + 1);
                bytes.insert(pos, *r.pick(&[0xffu8, 0xc3, 0x80, 0xe2, 0xf0]));
            }
        }
        if i % 997 == 0 {
            // a very long line
            let mut long = "x /* ".repeat(20_000).into_bytes();
            long.extend_from_slice(&bytes);
            bytes = long;
        }
        one_case(&mut sink, &name, &syn, &bytes, &mut r);
    }
    sink.extra.insert("trivial_tag_prefixes".into(), serde_json::json!([]));
    sink.finish(out);
}
