//! C08 — verdicts do not depend on how paths are spelled.
//!
//! End-to-end on the real binary: a project tree with directory names that repeat at several
//! depths, configurations drawing root-anchored and `**/`-prefixed patterns for every rule family
//! (scanner.exclude, content.exclude, content.rules, structure limits / placement / siblings,
//! count_exclude), and every pair of equivalent spellings of the same target (none, `.`, `./`,
//! absolute; `src`, `./src`, `src/`, absolute), with and without a baseline written under another
//! spelling.  In-process: the path normalisation used for matching, against the model.
use std::collections::BTreeMap;
use std::path::{Path, PathBuf};
use std::process::Command;

use super::Tier;
use crate::proto::{Case, Sink, enc};
use crate::rng::Rng;

const TREE: &[(&str, usize)] = &[
    ("build.rs", 2),
    ("src/main.rs", 8),
    ("src/lib.rs", 3),
    ("src/gen/out.rs", 20),
    ("src/gen/more.rs", 4),
    ("src/widget.tsx", 6),
    ("src/widget.test.tsx", 2),
    ("src/panel.tsx", 5),
    ("src/notes.md", 1),
    ("vendor/v.rs", 30),
    ("vendor/deep/w.rs", 5),
    ("tests/t.rs", 12),
    ("tests/u.rs", 1),
    ("lib/vendor/x.rs", 9),
    ("lib/src/inner.rs", 7),
    ("lib/src/gen/g.rs", 11),
    ("docs/readme.md", 3),
    ("tmp.bak", 1),
    ("scripts/gen.py", 9),
    ("scripts/deep/tool.py", 2),
    ("lib/scripts/other.py", 7),
    ("src/old.bak", 1),
];

fn write_tree(dir: &Path) {
    let _ = std::fs::remove_dir_all(dir);
    for (p, n) in TREE {
        let f = dir.join(p);
        std::fs::create_dir_all(f.parent().unwrap()).unwrap();
        let mut s = String::new();
        for i in 0..*n {
            s += &format!("let v{i} = {i};\n");
        }
        // two comment lines and a blank one: they count only where a rule says so
        let c = if p.ends_with(".py") { "#" } else { "//" };
        s += &format!("{c} note\n{c} note\n\n");
        std::fs::write(f, s).unwrap();
    }
}

/// one pattern per family, either anchored at the project root or `**/`-prefixed
fn gen_config(rng: &mut Rng) -> (String, String) {
    let tag = std::cell::RefCell::new(Vec::<String>::new());
    let pick = |rng: &mut Rng, label: &str, anchored: &str, floating: &str| -> String {
        if rng.chance(1, 2) {
            tag.borrow_mut().push(format!("{label}:root"));
            anchored.to_string()
        } else {
            tag.borrow_mut().push(format!("{label}:any"));
            floating.to_string()
        }
    };
    let mut c = String::from("version = \"2\"\n");
    if rng.chance(2, 3) {
        let p = pick(rng, "scanner", "vendor/**", "**/vendor/**");
        c += &format!("[scanner]\nexclude = [\"{p}\"]\n");
    }
    c += "[content]\nmax_lines = 10\nwarn_threshold = 0.5\nextensions = [\"rs\", \"tsx\"]\n";
    if rng.chance(2, 3) {
        let p = pick(rng, "content.exclude", "src/gen/**", "**/gen/**");
        c += &format!("exclude = [\"{p}\"]\n");
    }
    if rng.chance(2, 3) {
        let p = pick(rng, "content.rules", "src/**", "**/src/**");
        // the rule's own warn point differs from the one derived from the global threshold (0.5)
        match rng.below(4) {
            0 => c += &format!("[[content.rules]]\npattern = \"{p}\"\nmax_lines = 4\n"),
            3 => {
                // the rule prescribes another way of counting than [content]
                c += &format!("[[content.rules]]\npattern = \"{p}\"\nmax_lines = 10\nskip_comments = false\nskip_blank = false\n");
                tag.borrow_mut().push("rule-limit-10".into());
            }
            1 => {
                c += &format!("[[content.rules]]\npattern = \"{p}\"\nmax_lines = 10\nwarn_threshold = 1.0\n");
                tag.borrow_mut().push("rule-limit-10".into());
            }
            _ => {
                c += &format!("[[content.rules]]\npattern = \"{p}\"\nmax_lines = 10\nwarn_at = 9\n");
                tag.borrow_mut().push("rule-limit-10".into());
            }
        }
    }
    if rng.chance(1, 2) {
        // `.py` is not in content.extensions: these files are in scope through this rule only
        let p = pick(rng, "content.rules-ext", "scripts/**/*.py", "**/scripts/**/*.py");
        c += &format!("[[content.rules]]\npattern = \"{p}\"\nmax_lines = 5\n");
    }
    if rng.chance(1, 2) {
        let p = pick(rng, "content.rules2", "tests/*.rs", "**/tests/*.rs");
        c += &format!("[[content.rules]]\npattern = \"{p}\"\nmax_lines = 100\n");
    }
    if rng.chance(3, 4) {
        c += "[structure]\nmax_files = 3\nmax_dirs = 4\n";
        if rng.chance(1, 2) {
            c += &format!("max_depth = {}\n", rng.range(1, 3));
            tag.borrow_mut().push("max_depth".into());
        }
        if rng.chance(1, 2) {
            let p = pick(rng, "count_exclude", "src/*.md", "**/*.md");
            c += &format!("count_exclude = [\"{p}\"]\n");
        }
        if rng.chance(1, 2) {
            let p = pick(rng, "deny_patterns", "src/*.bak", "**/*.bak");
            c += &format!("deny_patterns = [\"{p}\"]\n");
        }
        if rng.chance(2, 3) {
            let p = pick(rng, "structure.rules", "src", "**/src");
            c += &format!("[[structure.rules]]\nscope = \"{p}\"\nmax_files = 1\n");
            match rng.below(4) {
                0 | 1 => {
                    c += "siblings = [{ match = \"*.tsx\", require = \"{stem}.test.tsx\" }]\n";
                    tag.borrow_mut().push("siblings".into());
                }
                2 => {
                    c += "siblings = [{ group = [\"{stem}.tsx\", \"{stem}.test.tsx\"] }]\n";
                    tag.borrow_mut().push("sibling-group".into());
                }
                _ => {}
            }
            if rng.chance(1, 3) {
                c += "deny_files = [\"lib.rs\"]\n";
                tag.borrow_mut().push("placement".into());
            }
        }
        if rng.chance(1, 3) {
            let p = pick(rng, "structure.rules2", "lib/*", "**/lib/*");
            c += &format!("[[structure.rules]]\nscope = \"{p}\"\nmax_files = 0\n");
        }
    }
    let t = tag.borrow().join(",");
    (c, t)
}

type Rows = BTreeMap<String, String>;

fn run_check(bin: &str, dir: &Path, extra: &[String]) -> Result<(i32, Rows), String> {
    run_check_in(bin, dir, dir, extra)
}

/// `cwd` is the directory as the shell spells it (exported as `$PWD`), `dir` the same directory
/// as the kernel names it
fn run_check_in(bin: &str, dir: &Path, cwd: &Path, extra: &[String]) -> Result<(i32, Rows), String> {
    let o = Command::new(bin).args(["check", "--format", "json", "--no-sloc-cache"]).args(extra).current_dir(cwd).env("PWD", cwd).env("NO_COLOR", "1").output().map_err(|e| e.to_string())?;
    let rc = o.status.code().unwrap_or(-1);
    let err = String::from_utf8_lossy(&o.stderr);
    if err.contains("panicked") {
        return Err(format!("panic: {}", err.lines().next().unwrap_or("")));
    }
    if rc == 2 {
        return Err(format!("exit 2: {}", err.lines().next().unwrap_or("")));
    }
    let v: serde_json::Value = serde_json::from_slice(&o.stdout).map_err(|e| format!("JSON: {e}"))?;
    let abs = dir.canonicalize().unwrap().to_string_lossy().into_owned();
    let logical_abs = cwd.to_string_lossy().into_owned();
    let mut rows = Rows::new();
    for e in v["results"].as_array().cloned().unwrap_or_default() {
        let raw = e["path"].as_str().unwrap_or("").to_string();
        // (an absolute path in the report is a path the tool did not reduce: it keeps its own key)
        let _ = &logical_abs;
        let mut p = raw.strip_prefix(&abs).unwrap_or(&raw).trim_start_matches('/').to_string();
        while let Some(r) = p.strip_prefix("./") {
            p = r.to_string();
        }
        let p = p.trim_end_matches('/').to_string();
        let p = if p.is_empty() || p == "." { ".".to_string() } else { p };
        let cat = if e["violation_category"].is_null() { "content".to_string() } else { e["violation_category"]["violation_type"].to_string() };
        rows.insert(format!("{p} [{cat}]"), format!("{} sloc={} limit={}", e["status"].as_str().unwrap_or(""), e["sloc"], e["limit"]));
    }
    Ok((rc, rows))
}

fn diff_rows(a: &Rows, b: &Rows, only_under: Option<&str>) -> Option<String> {
    let under = |k: &str| only_under.is_none_or(|u| k.starts_with(&format!("{u}/")) || k.starts_with(&format!("{u} ")));
    for (k, v) in a {
        if !under(k) {
            continue;
        }
        match b.get(k) {
            Some(w) if w == v => {}
            Some(w) => return Some(format!("{k}: {v} vs {w}")),
            None => return Some(format!("{k}: {v} vs not reported")),
        }
    }
    for (k, v) in b {
        if under(k) && !a.contains_key(k) {
            return Some(format!("{k}: not reported vs {v}"));
        }
    }
    None
}

fn spelling_case(sink: &mut Sink, rng: &mut Rng, bin: &str, scratch: &str) {
    let (cfg, tag) = gen_config(rng);
    let subdir = rng.chance(1, 3);
    let with_baseline = rng.chance(1, 3);
    if !sink.want() {
        sink.skip();
        return;
    }
    let dir = PathBuf::from(scratch).join(format!("s{}", sink.n));
    write_tree(&dir);
    std::fs::write(dir.join(".sloc-guard.toml"), &cfg).unwrap();
    let abs = dir.canonicalize().unwrap().to_string_lossy().into_owned();
    let spellings: Vec<(String, Vec<String>)> = if subdir {
        vec![("src".into(), vec!["src".into()]), ("./src".into(), vec!["./src".into()]), ("src/".into(), vec!["src/".into()]), ("<abs>/src".into(), vec![format!("{abs}/src")])]
    } else {
        vec![("<none>".into(), vec![]), (".".into(), vec![".".into()]), ("./".into(), vec!["./".into()]), ("<abs>".into(), vec![abs.clone()])]
    };
    let mut problems = vec![];
    let mut reference: Option<(String, i32, Rows)> = None;
    for (label, args) in &spellings {
        match run_check(bin, &dir, args) {
            Ok((rc, rows)) => match &reference {
                None => reference = Some((label.clone(), rc, rows)),
                Some((l0, rc0, r0)) => {
                    if let Some(d) = diff_rows(r0, &rows, None) {
                        problems.push(format!("key={} target `{l0}` vs `{label}`: {d}", family_of(&d, &tag)));
                    } else if rc != *rc0 {
                        problems.push(format!("target `{l0}` exits {rc0}, `{label}` exits {rc}"));
                    }
                }
            },
            Err(e) => problems.push(format!("target `{label}`: {e}")),
        }
    }
    // the same for targets given with --include, and for file arguments given with --files
    let groups: Vec<(&str, Vec<Vec<String>>)> = vec![
        ("--include", ["src", "./src", "src/"].iter().map(|x| vec!["--include".to_string(), (*x).to_string()]).chain(std::iter::once(vec!["--include".to_string(), format!("{abs}/src")])).collect()),
        ("--files", ["src/main.rs", "./src/main.rs"].iter().map(|x| vec!["--files".to_string(), (*x).to_string(), "--files".to_string(), "tests/t.rs".to_string()]).chain(std::iter::once(vec!["--files".to_string(), format!("{abs}/src/main.rs"), "--files".to_string(), format!("{abs}/tests/t.rs")])).collect()),
    ];
    if problems.is_empty() && subdir {
        for (flag, variants) in &groups {
            let mut first: Option<(String, i32, Rows)> = None;
            for args in variants {
                let label = args.join(" ").replace(&abs, "<abs>");
                match run_check(bin, &dir, args) {
                    Ok((rc, rows)) => match &first {
                        None => first = Some((label, rc, rows)),
                        Some((l0, rc0, r0)) => {
                            if let Some(d) = diff_rows(r0, &rows, None) {
                                problems.push(format!("key={}-spelling `{l0}` vs `{label}`: {d}", flag.trim_start_matches('-')));
                            } else if rc != *rc0 {
                                problems.push(format!("`{l0}` exits {rc0}, `{label}` exits {rc}"));
                            }
                        }
                    },
                    Err(e) => problems.push(format!("`{label}`: {e}")),
                }
                if !problems.is_empty() {
                    break;
                }
            }
        }
    }
    // `explain` names the same rule, limit and warn point whichever way its argument is spelled
    if problems.is_empty() && subdir {
        let mut first: Option<(String, serde_json::Value)> = None;
        for (label, arg) in [("src/main.rs", "src/main.rs".to_string()), ("./src/main.rs", "./src/main.rs".to_string()), ("<abs>/src/main.rs", format!("{abs}/src/main.rs"))] {
            let o = Command::new(bin).args(["explain", "--format", "json", &arg]).current_dir(&dir).env("NO_COLOR", "1").output().expect("run sloc-guard");
            match serde_json::from_slice::<serde_json::Value>(&o.stdout) {
                Ok(mut v) => {
                    if let Some(m) = v.as_object_mut() {
                        m.remove("path");
                    }
                    match &first {
                        None => first = Some((label.to_string(), v)),
                        Some((l0, v0)) => {
                            if *v0 != v {
                                problems.push(format!("key=files-spelling `explain {l0}` and `explain {label}` differ: limit {} / {} warn point {} / {} rule {} / {}", v0["effective_limit"], v["effective_limit"], v0["effective_warn_at"], v["effective_warn_at"], v0["matched_rule"], v["matched_rule"]));
                                break;
                            }
                        }
                    }
                }
                Err(_) => {
                    problems.push(format!("`explain {label}` printed no JSON (exit {:?})", o.status.code()));
                    break;
                }
            }
        }
    }
    // a pattern written relative to the project root takes effect (independently of spelling)
    if !subdir && problems.is_empty() {
        if let Some((_, _, rows)) = &reference {
            let has = |t: &str| tag.split(',').any(|x| x == t);
            let any_under = |prefix: &str, kind: &str| rows.keys().any(|k| k.starts_with(prefix) && k.ends_with(kind));
            let limit_of = |key: &str| rows.get(key).and_then(|v| v.split("limit=").nth(1)).map(str::to_string);
            if (has("scanner:root") || has("scanner:any")) && rows.keys().any(|k| k.starts_with("vendor/") || k.starts_with("vendor ")) {
                problems.push("key=raw-path-matching scanner.exclude does not exclude vendor/".to_string());
            }
            if (has("content.exclude:root") || has("content.exclude:any")) && any_under("src/gen/", "[content]") {
                problems.push("key=raw-path-matching content.exclude does not exclude src/gen/".to_string());
            }
            if (has("content.rules:root") || has("content.rules:any")) && !any_under("src/gen/", "[content]") && limit_of("src/main.rs [content]").is_some_and(|l| l != if has("rule-limit-10") { "10" } else { "4" }) {
                problems.push(format!("key=raw-path-matching the content rule for src/** does not apply to src/main.rs (limit {:?})", limit_of("src/main.rs [content]")));
            }
            if (has("content.rules-ext:root") || has("content.rules-ext:any")) && !rows.contains_key("scripts/gen.py [content]") {
                problems.push("key=raw-path-matching the content rule for scripts/**/*.py does not put scripts/gen.py in scope".to_string());
            }
            if (has("structure.rules:root") || has("structure.rules:any")) && !has("structure.rules2:root") && !has("structure.rules2:any") {
                match limit_of("src [{\"type\":\"file_count\"}]") {
                    Some(l) if l == "1" => {}
                    other => problems.push(format!("key=raw-path-matching the structure rule for scope src does not apply to src (file-count limit {other:?})")),
                }
            }
            if (has("deny_patterns:root") || has("deny_patterns:any")) && !rows.keys().any(|k| k.starts_with("src/old.bak [") && k.contains("denied")) {
                problems.push("key=raw-path-matching deny_patterns does not flag src/old.bak".to_string());
            }
        }
    }
    // a sub-directory target agrees with the full run on the paths they have in common
    // (content results only: directory counts of the target itself are the same, but the parent's
    // are not part of the narrower run)
    if subdir && problems.is_empty() {
        if let (Ok((_, full)), Some((_, _, part))) = (run_check(bin, &dir, &[]), &reference) {
            // everything at or below the target: its own counts are the same in both runs
            let content = |r: &Rows| -> Rows { r.clone() };
            if let Some(d) = diff_rows(&content(part), &content(&full), Some("src")) {
                problems.push(format!("key={} target `src` vs the whole project: {d}", family_of(&d, &tag)));
            }
        }
    }
    // a baseline written under one spelling is honoured under the others
    if with_baseline && problems.is_empty() {
        // the baseline file lives outside the scanned tree (it would otherwise change the
        // root directory's file count between the two runs)
        let bl = PathBuf::from(scratch).join(format!("bl{}.json", sink.n)).to_string_lossy().into_owned();
        let _ = std::fs::remove_file(&bl);
        let (wl, wargs) = rng.pick(&spellings).clone();
        let mut a = vec!["--update-baseline".to_string(), "--baseline".to_string(), bl.clone()];
        a.extend(wargs);
        let _ = run_check(bin, &dir, &a);
        let mut base: Option<(String, Rows)> = None;
        for (label, args) in &spellings {
            let mut a = vec!["--baseline".to_string(), bl.clone()];
            a.extend(args.clone());
            match run_check(bin, &dir, &a) {
                Ok((_, rows)) => {
                    // only line-count, file-count and directory-count violations can be
                    // grandfathered (the tool says so); the others stay failed by design
                    let again: Vec<&String> = rows.iter().filter(|(k, v)| v.starts_with("failed") && (k.ends_with("[content]") || k.contains("file_count") || k.contains("dir_count"))).map(|(k, _)| k).collect();
                    if !again.is_empty() {
                        problems.push(format!("key=baseline-spelling baseline written for `{wl}`: under `{label}` {} grandfathered result(s) are failed again, e.g. {}", again.len(), again[0]));
                        break;
                    }
                    match &base {
                        None => base = Some((label.clone(), rows)),
                        Some((l0, r0)) => {
                            if let Some(d) = diff_rows(r0, &rows, None) {
                                problems.push(format!("key=baseline-spelling with a baseline, `{l0}` vs `{label}`: {d}"));
                                break;
                            }
                        }
                    }
                }
                Err(e) => problems.push(format!("with baseline, `{label}`: {e}")),
            }
        }
    }
    // a baseline written for the whole project is honoured when only a sub-directory is checked,
    // and the other way round
    if with_baseline && problems.is_empty() {
        let bl = PathBuf::from(scratch).join(format!("blx{}.json", sink.n)).to_string_lossy().into_owned();
        let _ = std::fs::remove_file(&bl);
        let (writer, reader): (Vec<String>, Vec<String>) = if rng.chance(1, 2) { (vec![], vec!["src".into()]) } else { (vec!["src".into()], vec![]) };
        let mut a = vec!["--update-baseline".to_string(), "--baseline".to_string(), bl.clone()];
        a.extend(writer.clone());
        let _ = run_check(bin, &dir, &a);
        let mut a = vec!["--baseline".to_string(), bl.clone()];
        a.extend(reader.clone());
        if let Ok((_, rows)) = run_check(bin, &dir, &a) {
            let again: Vec<&String> = rows.iter().filter(|(k, v)| v.starts_with("failed") && k.starts_with("src/") && k.ends_with("[content]")).map(|(k, _)| k).collect();
            if !again.is_empty() {
                problems.push(format!("key=baseline-spelling baseline written for target {writer:?}: checking {reader:?} reports {} as failed again", again[0]));
            }
        }
        let _ = std::fs::remove_file(&bl);
    }
    let _ = std::fs::remove_dir_all(&dir);
    let _ = std::fs::remove_file(PathBuf::from(scratch).join(format!("bl{}.json", sink.n)));
    sink.push(Case {
        request: "noop".into(),
        implementation: "-".into(),
        pred: if problems.is_empty() { "ok".into() } else { format!("FAIL {} :: {}", problems[0], cfg.replace('\n', "\\n")) },
        tag: format!("{}{}/{tag}", if subdir { "subdir" } else { "project" }, if with_baseline { "+baseline" } else { "" }),
    });
}

/// which rule family a difference belongs to (finding key)
fn family_of(diff: &str, _tag: &str) -> &'static str {
    if diff.contains("[content]") {
        if diff.contains("not reported") { "content-scope-spelling" } else { "content-rule-spelling" }
    } else if diff.contains("missing_sibling") || diff.contains("group_incomplete") {
        "sibling-spelling"
    } else if diff.contains("denied") || diff.contains("disallowed") || diff.contains("naming") {
        "placement-spelling"
    } else if diff.contains("max_depth") {
        "depth-from-scan-root"
    } else {
        "structure-limit-spelling"
    }
}

// ------------------------------------------------------------------ normalisation, in-process

fn normalise_cases(sink: &mut Sink, rng: &mut Rng, n: usize, scratch: &str) {
    // `canonical_target` consults the working directory
    let cwd = PathBuf::from(scratch).join("cwd with space").join("proj");
    std::fs::create_dir_all(&cwd).unwrap();
    // the project root is this directory (baseline keys are relative to the project root)
    std::fs::write(cwd.join(".sloc-guard.toml"), "version = \"2\"\n").unwrap();
    std::fs::create_dir_all(cwd.join("sub dir/deeper")).unwrap();
    let cwd = cwd.canonicalize().unwrap();
    std::env::set_current_dir(&cwd).unwrap();
    let cwd_s = cwd.to_string_lossy().into_owned();
    // the shell's spelling of the same directory: reached through a symbolic link, exported as $PWD
    let logical = cwd.parent().unwrap().join("link to proj");
    let _ = std::fs::remove_file(&logical);
    let _ = std::os::unix::fs::symlink("proj", &logical);
    let logical_s = logical.to_string_lossy().into_owned();
    // SAFETY-free: the harness is single-threaded here
    unsafe { std::env::set_var("PWD", &logical_s) };
    let comps = ["src", "a.rs", ".", "..", "lib", "x y", ".hidden", "deep", ""];
    for _ in 0..n {
        let k = rng.below(5);
        let rel: Vec<&str> = (0..k).map(|_| *rng.pick(&comps)).collect();
        let rel = rel.join("/");
        let style = rng.below(8);
        let spelled = match style {
            7 => format!("{logical_s}/{rel}"),
            0 => rel.clone(),
            1 => format!("./{rel}"),
            2 => format!("{cwd_s}/{rel}"),
            3 => format!("././{rel}"),
            4 => format!("{rel}/"),
            5 => format!("{}/{rel}", cwd.parent().unwrap().to_string_lossy()),
            _ => format!("/{rel}"),
        };
        if !sink.want() {
            sink.skip();
        } else {
            let got = sloc_guard::commands::context::verif_canonical_target(Path::new(&spelled));
            sink.push(Case { request: format!("target {} {} {}", enc(&cwd_s), enc(&logical_s), enc(&spelled)), implementation: enc(&got.to_string_lossy()), pred: "ok".into(), tag: format!("target/style{style}") });
        }
        // several targets in one call: each is reduced, nested ones and repetitions are dropped
        if !sink.want() {
            sink.skip();
        } else {
            let pool = [".", "src", "src/", "./src", "src/deep", "src/deep/x y", "lib", "src-gen", "src/../lib", "..", "../proj/src", "", "/", "lib/.", "a.rs"];
            let n = rng.fork().range(1, 4);
            let mut rr = rng.fork();
            let mut ts: Vec<String> = (0..n).map(|_| (*rr.pick(&pool)).to_string()).collect();
            if rr.chance(1, 4) {
                ts.push(format!("{cwd_s}/{}", rr.pick(&pool)));
            }
            if rr.chance(1, 6) {
                ts.push(format!("{logical_s}/{}", rr.pick(&pool)));
            }
            let paths: Vec<PathBuf> = ts.iter().map(PathBuf::from).collect();
            let got = sloc_guard::commands::context::verif_resolve_scan_paths(&paths, &[]);
            // direct statement: every target given is still covered, no kept target lies below another
            let mut pred = None;
            let plain = |p: &Path| !p.is_absolute() && !p.components().any(|c| matches!(c, std::path::Component::ParentDir));
            let below = |inner: &Path, outer: &Path| outer == Path::new(".") || inner.starts_with(outer);
            for (i, a) in got.iter().enumerate() {
                for (j, bq) in got.iter().enumerate() {
                    if i != j && plain(a) && plain(bq) && below(a, bq) {
                        pred = Some(format!("targets {ts:?}: both {bq:?} and {a:?} (below it) are scanned"));
                    }
                }
            }
            for t in &paths {
                let r = sloc_guard::commands::context::verif_canonical_target(t);
                if plain(&r) && !got.iter().any(|k| plain(k) && below(&r, k)) {
                    pred = Some(format!("targets {ts:?}: {r:?} is covered by no scanned target {got:?}"));
                }
                if !plain(&r) && !got.contains(&r) {
                    pred = Some(format!("targets {ts:?}: {r:?} (absolute or with ..) was dropped: {got:?}"));
                }
            }
            sink.push(Case {
                request: format!("targets {} {} {}{}", enc(&cwd_s), enc(&logical_s), ts.len(), ts.iter().map(|t| format!(" {}", enc(t))).collect::<String>()),
                implementation: got.iter().map(|p| enc(&p.to_string_lossy())).collect::<Vec<_>>().join(" "),
                pred: pred.map_or_else(|| "ok".into(), |p| format!("FAIL {p}")),
                tag: format!("targets/{}/{}", ts.len(), got.len()),
            });
        }
        // what a walk from that root yields, and the keys derived from it
        let entry = ["a.rs", "src/a.rs", "deep/x y/b.rs", ""][rng.below(4)];
        if !sink.want() {
            sink.skip();
            continue;
        }
        let root = sloc_guard::commands::context::verif_canonical_target(Path::new(&spelled));
        let walked = if entry.is_empty() { root.clone() } else { root.join(entry) };
        let m = sloc_guard::output::path::verif_normalize_for_matching(&walked);
        let b = sloc_guard::baseline::baseline_key(&walked);
        // direct statement: below the working directory both keys are the project-relative path
        let mut pred = None;
        if !root.is_absolute() && !root.components().any(|c| matches!(c, std::path::Component::ParentDir)) {
            let full = cwd.join(&walked);
            let want: PathBuf = full.strip_prefix(&cwd).unwrap_or(&full).components().filter(|c| !matches!(c, std::path::Component::CurDir)).collect();
            let want_s = want.to_string_lossy().into_owned();
            if m.to_string_lossy() != want_s {
                pred = Some(format!("the matching key of {walked:?} is {m:?}, project-relative {want_s:?}"));
            }
            if !want_s.is_empty() && b != want_s {
                pred = Some(format!("the baseline key of {walked:?} is {b:?}, project-relative {want_s:?}"));
            }
        }
        sink.push(Case { request: format!("match-key {}", enc(&walked.to_string_lossy())), implementation: format!("match={} baseline={}", enc(&m.to_string_lossy()), enc(&b)), pred: pred.map_or_else(|| "ok".into(), |p| format!("FAIL {p}")), tag: format!("keys/style{style}") });
        // the same walk in a run started below the project root: the baseline key is the
        // project-relative path all the same
        if !sink.want() {
            sink.skip();
            continue;
        }
        let below = ["sub dir", "sub dir/deeper"][rng.fork().below(2)];
        std::env::set_current_dir(cwd.join(below)).unwrap();
        let root2 = sloc_guard::commands::context::verif_canonical_target(Path::new(if style % 2 == 0 { "." } else { "./" }));
        let walked2 = if entry.is_empty() { root2.clone() } else { root2.join(entry) };
        let b2 = sloc_guard::baseline::baseline_key(&walked2);
        std::env::set_current_dir(&cwd).unwrap();
        let want2 = if entry.is_empty() { below.to_string() } else { format!("{below}/{entry}") };
        sink.push(Case {
            request: format!("match-key {} {}", enc(&walked2.to_string_lossy()), enc(below)),
            implementation: format!("match={} baseline={}", enc(&sloc_guard::output::path::verif_normalize_for_matching(&walked2).to_string_lossy()), enc(&b2)),
            pred: if b2 == want2 { "ok".into() } else { format!("FAIL started in `{below}`, the baseline key of {walked2:?} is {b2:?}, project-relative {want2:?}") },
            tag: "keys/below-root".into(),
        });
    }
}

/// Symbolic links in the spelling: a working directory reached through a link (the shell's
/// `$PWD` is the logical path), and a target that is a link inside the project.  Every spelling
/// of a target must give the statuses of the plain relative spelling.
fn symlink_case(sink: &mut Sink, rng: &mut Rng, bin: &str, scratch: &str) {
    let anchored = rng.chance(2, 3);
    if !sink.want() {
        sink.skip();
        return;
    }
    let top = PathBuf::from(scratch).join(format!("l{}", sink.n));
    let _ = std::fs::remove_dir_all(&top);
    let real = top.join("real");
    std::fs::create_dir_all(real.join("src")).unwrap();
    std::fs::create_dir_all(real.join("v2")).unwrap();
    std::fs::write(real.join("src/x.rs"), "fn a() {}\nfn b() {}\nfn c() {}\n").unwrap();
    std::fs::write(real.join("v2/y.rs"), "fn a() {}\nfn b() {}\nfn c() {}\n").unwrap();
    let _ = std::os::unix::fs::symlink("v2", real.join("current"));
    let _ = std::os::unix::fs::symlink("real", top.join("link"));
    let pat = |d: &str| if anchored { format!("{d}/**") } else { format!("**/{d}/**") };
    std::fs::write(
        real.join(".sloc-guard.toml"),
        format!("version = \"2\"\n[content]\nmax_lines = 2\nextensions = [\"rs\"]\n[[content.rules]]\npattern = \"{}\"\nmax_lines = 10\n[[content.rules]]\npattern = \"{}\"\nmax_lines = 100\n", pat("src"), pat("current")),
    )
    .unwrap();
    let real = real.canonicalize().unwrap();
    let link = top.canonicalize().unwrap().join("link");
    let (real_s, link_s) = (real.to_string_lossy().into_owned(), link.to_string_lossy().into_owned());
    let mut problems: Vec<String> = vec![];
    let mut compare = |what: &str, a: Result<(i32, Rows), String>, b: Result<(i32, Rows), String>| match (a, b) {
        (Ok((rc0, r0)), Ok((rc, r))) => {
            if let Some(d) = diff_rows(&r0, &r, None) {
                problems.push(format!("{what}: {d}"));
            } else if rc0 != rc {
                problems.push(format!("{what}: exit {rc0} vs {rc}"));
            }
        }
        (Err(e), _) | (_, Err(e)) => problems.push(format!("{what}: {e}")),
    };
    // working directory reached through `link`: no target, the logical absolute path, a sub-directory
    compare("in a symlinked working directory, no target vs `$PWD`", run_check_in(bin, &real, &link, &[]), run_check_in(bin, &real, &link, &[link_s.clone()]));
    compare("in a symlinked working directory, `src` vs `$PWD/src`", run_check_in(bin, &real, &link, &["src".into()]), run_check_in(bin, &real, &link, &[format!("{link_s}/src")]));
    compare("in a symlinked working directory, no target vs the physical path", run_check_in(bin, &real, &link, &[]), run_check_in(bin, &real, &link, &[real_s.clone()]));
    compare("in a symlinked working directory, `--files src/x.rs` vs `--files $PWD/src/x.rs`", run_check_in(bin, &real, &link, &["--files".into(), "src/x.rs".into()]), run_check_in(bin, &real, &link, &["--files".into(), format!("{link_s}/src/x.rs")]));
    // a target that is itself a link inside the project
    compare("target `current` (a link) vs its absolute spelling", run_check(bin, &real, &["current".into()]), run_check(bin, &real, &[format!("{real_s}/current")]));
    compare("`--files current/y.rs` vs its absolute spelling", run_check(bin, &real, &["--files".into(), "current/y.rs".into()]), run_check(bin, &real, &["--files".into(), format!("{real_s}/current/y.rs")]));
    let _ = std::fs::remove_dir_all(&top);
    sink.push(Case {
        request: "noop".into(),
        implementation: "-".into(),
        pred: if problems.is_empty() { "ok".into() } else { format!("FAIL {}", problems.join(" ;; ")) },
        tag: format!("e2e/symlinks/{}", if anchored { "root-anchored" } else { "floating" }),
    });
}

pub fn run(tier: Tier, seed: u64, out: &str) {
    let mut sink = Sink::create(out);
    let mut rng = Rng::new(seed ^ 0xC08);
    let scratch = std::env::var("SGVERIF_SCRATCH").unwrap_or_else(|_| "/verif/.build/scratch/c08".to_string());
    normalise_cases(&mut sink, &mut rng.fork(), tier.scale(2000, 40000), &scratch);
    if let Ok(bin) = std::env::var("SGVERIF_BIN") {
        for _ in 0..tier.scale(120, 1500) {
            let mut r = rng.fork();
            spelling_case(&mut sink, &mut r, &bin, &scratch);
        }
        for _ in 0..tier.scale(4, 40) {
            let mut r = rng.fork();
            symlink_case(&mut sink, &mut r, &bin, &scratch);
        }
    }
    sink.extra.insert("trivial_tag_prefixes".into(), serde_json::json!([]));
    sink.finish(out);
}
