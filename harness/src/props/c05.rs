//! C05 — threshold verdicts, last-match-wins, explain coherence.
//!
//! Implementation side: the real `ThresholdChecker` (`new`, `with_warning_threshold`,
//! `should_process`, `get_skip_settings_for_path`, `check`, `explain`) and
//! `compute_effective_stats`.  The glob match vector handed to the model is computed here with
//! `globset` on the path with a leading `./` removed.
use std::path::Path;

use sloc_guard::checker::{Checker, ContentRuleMatch, ThresholdChecker, WarnAtSource};
use sloc_guard::commands::check::verif_exports::compute_effective_stats;
use sloc_guard::config::{Config, ContentRule};
use sloc_guard::counter::LineStats;

use super::Tier;
use crate::proto::{Case, Sink, b, enc, guarded, opt_b, opt_num};
use crate::rng::Rng;

const PATTERNS: &[&str] = &[
    "**/*.rs", "src/**", "src/a/*.rs", "**/a.rs", "*.rs", "src/**/*.py", "**/gen/**", "lib/*", "**",
    "src/a/x.rs", "**/Dockerfile", "**/*.{rs,py}",
];
const PATHS: &[&str] = &[
    "src/a/x.rs", "./src/a/x.rs", "src/b.rs", "b.rs", "./b.rs", "lib/a.rs", "src/gen/m.py", "src/a/gen/q.rs",
    "Dockerfile", "./docker/Dockerfile", "src/a/a.rs", "README",
];
/// thresholds inside the documented domain, including values where f64 and decimal part ways
const T_VALID: &[f64] = &[0.0, 1.0, 0.56, 0.1, 0.7, 0.9, 0.8, 0.5, 0.3, 0.999_999_999, 1e-9, 0.29];
/// outside the gate (reachable through rule thresholds and --warn-threshold, see C17)
const T_WILD: &[f64] = &[-3.5, 7.5, f64::NAN, f64::INFINITY, f64::NEG_INFINITY, -0.0, 5e-324, 1.000_000_000_000_000_2, 1e300];

#[derive(Clone)]
struct Gen {
    gmax: usize,
    gwt: f64,
    gwa: Option<usize>,
    gsc: bool,
    gsb: bool,
    cli_wt: Option<f64>,
    exclude: Vec<&'static str>,
    exts: Vec<&'static str>,
    rules: Vec<ContentRule>,
    path: &'static str,
    stats: LineStats,
}

fn strip_dot(p: &str) -> &str {
    p.strip_prefix("./").unwrap_or(p)
}

fn glob_match(pat: &str, path: &str) -> bool {
    crate::globfact::is_match(pat, strip_dot(path))
}

fn src_str(s: &WarnAtSource) -> String {
    match s {
        WarnAtSource::RuleAbsolute { index } => format!("rule-abs:{index}"),
        WarnAtSource::RulePercentage { index, threshold } => format!("rule-pct:{index}:{}", threshold.to_bits()),
        WarnAtSource::GlobalAbsolute => "global-abs".to_string(),
        WarnAtSource::GlobalPercentage { threshold } => format!("global-pct:{}", threshold.to_bits()),
    }
}

fn rank(s: &str) -> u8 {
    match s {
        "passed" => 0,
        "warning" => 1,
        _ => 2,
    }
}

struct Observed {
    line: String,
    status: String,
    limit: usize,
    warn: Option<usize>,
    eff: usize,
    skip: (bool, bool),
    rule: Option<usize>,
    x_rule: Option<usize>,
    x_limit: usize,
    x_warn: usize,
    x_skip: (bool, bool),
    x_excl: bool,
    src: String,
    x_src: String,
    process: bool,
}

fn config_of(g: &Gen) -> Config {
    let mut c = Config::default();
    c.content.max_lines = g.gmax;
    c.content.warn_threshold = g.gwt;
    c.content.warn_at = g.gwa;
    c.content.skip_comments = g.gsc;
    c.content.skip_blank = g.gsb;
    c.content.exclude = g.exclude.iter().map(|s| (*s).to_string()).collect();
    c.content.extensions = g.exts.iter().map(|s| (*s).to_string()).collect();
    c.content.rules = g.rules.clone();
    c
}

fn observe(g: &Gen) -> Observed {
    let mut checker = ThresholdChecker::new(config_of(g)).expect("valid patterns");
    if let Some(t) = g.cli_wt {
        checker = checker.with_warning_threshold(t);
    }
    let path = Path::new(g.path);
    let process = checker.should_process(path);
    let skip = checker.get_skip_settings_for_path(path);
    let eff = compute_effective_stats(&g.stats, skip.0, skip.1);
    let r = checker.check(path, &eff, Some(&g.stats));
    let status = if r.is_failed() {
        "failed"
    } else if r.is_warning() {
        "warning"
    } else if r.is_passed() {
        "passed"
    } else {
        "grandfathered"
    }
    .to_string();
    let x = checker.explain(path);
    let x_rule = match &x.matched_rule {
        ContentRuleMatch::Rule { index, .. } => Some(*index),
        _ => None,
    };
    // `check` does not say which rule it used or what the warn point was; both are read from the
    // same object through the functions `check` itself calls (limit) and through `explain`
    // (rule / warn point) and *independently* bracketed below by probing `check` with other counts.
    let limit = r.limit();
    let warn = probe_warn_point(&checker, path, limit);
    let src = src_str(&x.warn_at_source);
    let line = format!(
        "process={} status={} eff={} limit={} warn={} skip={}{} | x excl={} rule={} limit={} warn={} src={} skip={}{}",
        b(process), status, eff.sloc(), limit, warn.map_or_else(|| ">limit".to_string(), |w| w.to_string()), b(skip.0), b(skip.1),
        b(x.is_excluded), opt_num(x_rule), x.effective_limit, x.effective_warn_at, src_str(&x.warn_at_source),
        b(x.skip_comments), b(x.skip_blank)
    );
    Observed {
        line, status, limit, warn, eff: eff.sloc(), skip, rule: x_rule, x_rule, x_limit: x.effective_limit,
        x_warn: x.effective_warn_at, x_skip: (x.skip_comments, x.skip_blank), x_excl: x.is_excluded, src: src.clone(),
        x_src: src, process,
    }
}

/// The warn point `check` really applies, observed behaviourally: the least count within the
/// limit for which `check` answers `warning`, found by bisection; `None` when no count within
/// the limit warns (the warn point lies above the limit and is then unobservable through `check`).
fn probe_warn_point(checker: &ThresholdChecker, path: &Path, limit: usize) -> Option<usize> {
    let st = |n: usize| {
        let s = LineStats { total: n, code: n, comment: 0, blank: 0, ignored: 0 };
        checker.check(path, &s, None)
    };
    if !st(limit).is_warning() {
        return None;
    }
    let (mut lo, mut hi) = (0usize, limit); // st(hi) warns
    while lo < hi {
        let mid = lo + (hi - lo) / 2;
        if st(mid).is_warning() { hi = mid } else { lo = mid + 1 }
    }
    Some(lo)
}

/// Independent statement of the property on the implementation's observable behaviour.
fn oracle(g: &Gen, o: &Observed, ms: &[bool], excluded: bool) -> Option<String> {
    let sel = ms.iter().rposition(|m| *m);
    let wt = g.cli_wt.unwrap_or(g.gwt);
    let (limit, sc, sb) = match sel {
        Some(i) => (g.rules[i].max_lines, g.rules[i].skip_comments.unwrap_or(g.gsc), g.rules[i].skip_blank.unwrap_or(g.gsb)),
        None => (g.gmax, g.gsc, g.gsb),
    };
    #[allow(clippy::cast_precision_loss, clippy::cast_possible_truncation, clippy::cast_sign_loss)]
    let pct = |l: usize, t: f64| (l as f64 * t).ceil() as usize;
    let warn = match sel {
        Some(i) if g.rules[i].warn_at.is_some() => g.rules[i].warn_at.unwrap(),
        Some(i) if g.rules[i].warn_threshold.is_some() => pct(g.rules[i].max_lines, g.rules[i].warn_threshold.unwrap()),
        _ => g.gwa.unwrap_or_else(|| pct(limit, wt)),
    };
    let eff = g.stats.code + if sc { 0 } else { g.stats.comment } + if sb { 0 } else { g.stats.blank };
    let status = if eff > limit { "failed" } else if eff >= warn { "warning" } else { "passed" };
    if o.limit != limit {
        return Some(format!("limit {} but last matching rule/global gives {}", o.limit, limit));
    }
    if o.skip != (sc, sb) {
        return Some(format!("skip flags {:?} expected {:?}", o.skip, (sc, sb)));
    }
    if o.eff != eff {
        return Some(format!("effective count {} expected {}", o.eff, eff));
    }
    if o.status != status {
        return Some(format!("status {} expected {} (eff {eff} limit {limit} warn {warn})", o.status, status));
    }
    // the warn point is observable only at or below the limit
    if o.warn != (if warn <= limit { Some(warn) } else { None }) {
        return Some(format!("warn point applied by check {:?} expected {}", o.warn, warn));
    }
    if excluded {
        if !o.x_excl || o.process {
            return Some("excluded file: explain/should_process disagree".to_string());
        }
    } else {
        if o.x_excl {
            return Some("explain says excluded".to_string());
        }
        if o.x_rule != sel || o.rule != sel {
            return Some(format!("explain names rule {:?}, last match is {:?}", o.x_rule, sel));
        }
        if o.x_limit != o.limit || o.x_skip != o.skip || o.x_src != o.src {
            return Some("explain differs from check (limit/flags/source)".to_string());
        }
        if o.warn != (if o.x_warn <= o.x_limit { Some(o.x_warn) } else { None }) {
            return Some(format!("explain warn point {} but check applies {:?}", o.x_warn, o.warn));
        }
        if o.x_warn != warn {
            return Some(format!("explain warn point {} expected {}", o.x_warn, warn));
        }
    }
    None
}

fn request(g: &Gen, ms: &[bool], excluded: bool, ext_listed: bool) -> String {
    let wt = g.cli_wt.unwrap_or(g.gwt);
    let mut s = format!(
        "verdict {} {} {} {} {} {} {} {} {}",
        g.gmax, wt.to_bits(), opt_num(g.gwa), b(g.gsc), b(g.gsb), b(excluded), b(g.exts.is_empty()), b(ext_listed),
        g.rules.len()
    );
    for (r, m) in g.rules.iter().zip(ms) {
        s += &format!(
            " {} {} {} {} {} {}",
            r.max_lines, opt_num(r.warn_threshold.map(f64::to_bits)), opt_num(r.warn_at), opt_b(r.skip_comments),
            opt_b(r.skip_blank), b(*m)
        );
    }
    s += &format!(" {} {} {} {} {}", g.stats.total, g.stats.code, g.stats.comment, g.stats.blank, g.stats.ignored);
    s
}

fn emit(sink: &mut Sink, g: &Gen, relational: bool) {
    if !sink.want() {
        sink.skip();
        return;
    }
    let ms: Vec<bool> = g.rules.iter().map(|r| glob_match(&r.pattern, g.path)).collect();
    let excluded = g.exclude.iter().any(|p| glob_match(p, g.path));
    let ext_listed = Path::new(g.path).extension().and_then(|e| e.to_str()).is_some_and(|e| g.exts.contains(&e));
    let req = request(g, &ms, excluded, ext_listed);
    let g2 = g.clone();
    let ms2 = ms.clone();
    let res = std::panic::catch_unwind(move || {
        let o = observe(&g2);
        let mut pred = oracle(&g2, &o, &ms2, excluded);
        if pred.is_none() && relational {
            // monotone in the count
            let mut more = g2.clone();
            more.stats.code += 1;
            more.stats.total += 1;
            let o2 = observe(&more);
            if rank(&o2.status) < rank(&o.status) {
                pred = Some("verdict improved when a code line was added".to_string());
            }
            // monotone in the limit (the limit that applies to this path)
            let mut lax = g2.clone();
            match ms2.iter().rposition(|m| *m) {
                Some(i) => lax.rules[i].max_lines += 1,
                None => lax.gmax += 1,
            }
            // keep the configuration inside the gate: an absolute warn point stays below its limit
            let o3 = observe(&lax);
            if rank(&o3.status) > rank(&o.status) {
                pred = Some("verdict worsened when the applicable limit was raised".to_string());
            }
        }
        (o.line, o.status, pred)
    });
    let sel = ms.iter().rposition(|m| *m);
    let nmatch = ms.iter().filter(|m| **m).count();
    let (line, pred, status) = match res {
        Ok((line, status, pred)) => (line, pred.map_or_else(|| "ok".to_string(), |p| format!("FAIL {p}")), status),
        Err(_) => ("panic".to_string(), "FAIL panic".to_string(), "panic".to_string()),
    };
    let kind = match sel {
        None => "global",
        Some(i) if g.rules[i].warn_at.is_some() => "rule-abs",
        Some(i) if g.rules[i].warn_threshold.is_some() => "rule-pct",
        Some(_) => "rule-inherit",
    };
    let tag = format!("{status}/{kind}/m{}{}{}", nmatch.min(2), if excluded { "/excl" } else { "" }, if g.cli_wt.is_some() { "/cli" } else { "" });
    sink.push(Case { request: req, implementation: line, pred, tag });
}

/// Scope and rule selection from the pattern *texts*: the model derives the match bits itself
/// (glob model) and must name the processing decision and the governing rule the checker names.
fn scope_case(sink: &mut Sink, g: &Gen) {
    if !sink.want() {
        sink.skip();
        return;
    }
    let g2 = g.clone();
    let got = std::panic::catch_unwind(move || {
        let o = observe(&g2);
        (o.process, o.x_rule, o.x_excl)
    });
    let list = |v: &[&str]| v.iter().map(|x| format!(" {}", enc(x))).collect::<String>();
    let pats: Vec<&str> = g.rules.iter().map(|r| r.pattern.as_str()).collect();
    let request = format!("scope {}{} {}{} {}{} {}", g.exclude.len(), list(&g.exclude), g.exts.len(), list(&g.exts), pats.len(), list(&pats), enc(g.path));
    let (implementation, tag) = match got {
        // `explain` names no rule for an excluded file: compare the processing decision only
        Ok((process, _, true)) => (format!("process={} -", b(process)), "scope/excluded".to_string()),
        Ok((process, rule, false)) => (format!("process={} rule={}", b(process), opt_num(rule)), format!("scope/{}{}", if process { "processed" } else { "out-of-scope" }, if rule.is_some() { "/rule" } else { "" })),
        Err(_) => ("panic".to_string(), "scope/panic".to_string()),
    };
    sink.push(Case { request, implementation, pred: "ok".into(), tag });
}

fn gen_rule(r: &mut Rng, wild: bool) -> ContentRule {
    let max_lines = *r.pick(&[0usize, 1, 2, 5, 10, 50, 100, 300, 1000]);
    let warn_threshold = if r.chance(1, 2) {
        Some(if wild && r.chance(1, 3) { *r.pick(T_WILD) } else { *r.pick(T_VALID) })
    } else {
        None
    };
    // the gate demands warn_at < max_lines
    let warn_at = if max_lines > 0 && r.chance(1, 3) { Some(r.below(max_lines)) } else { None };
    ContentRule {
        pattern: (*r.pick(PATTERNS)).to_string(),
        max_lines,
        warn_threshold,
        warn_at,
        skip_comments: *r.pick(&[None, Some(true), Some(false)]),
        skip_blank: *r.pick(&[None, Some(true), Some(false)]),
        reason: if r.chance(1, 4) { Some("legacy".to_string()) } else { None },
        expires: None,
    }
}

fn gen_case(r: &mut Rng, wild: bool, big: bool) -> Gen {
    let gmax = if big { (r.next() >> r.range(11, 60)) as usize } else { *r.pick(&[0usize, 1, 3, 10, 100, 500, 600]) };
    let nrules = r.below(4);
    let limit_hint = gmax.max(1);
    let code = if big { gmax.saturating_sub(2) + r.below(5) } else { r.below(limit_hint.min(700) + 3) };
    Gen {
        gmax,
        gwt: *r.pick(T_VALID),
        gwa: if gmax > 0 && r.chance(1, 4) { Some(r.below(gmax)) } else { None },
        gsc: r.chance(2, 3),
        gsb: r.chance(2, 3),
        cli_wt: if r.chance(1, 6) { Some(if wild { *r.pick(T_WILD) } else { *r.pick(T_VALID) }) } else { None },
        exclude: if r.chance(1, 5) { vec![*r.pick(PATTERNS)] } else { vec![] },
        exts: r.pick(&[vec![], vec!["rs"], vec!["rs", "py"]]).clone(),
        rules: (0..nrules).map(|_| gen_rule(r, wild)).collect(),
        path: *r.pick(PATHS),
        stats: LineStats { total: code + 9, code, comment: r.below(4), blank: r.below(4), ignored: r.below(3) },
    }
}

/// Exhaustive small scope: counts 0..=12 x limits 0..=10 x the 12 valid thresholds, with zero or
/// one matching rule carrying each combination of optional warn fields.
fn exhaustive(sink: &mut Sink) {
    for limit in 0..=10usize {
        for t in T_VALID {
            for variant in 0..5 {
                for count in 0..=12usize {
                    let mut g = Gen {
                        gmax: 7, gwt: 0.9, gwa: None, gsc: true, gsb: true, cli_wt: None, exclude: vec![], exts: vec![],
                        rules: vec![], path: "src/a/x.rs",
                        stats: LineStats { total: count, code: count, comment: 0, blank: 0, ignored: 0 },
                    };
                    let rule = |wt: Option<f64>, wa: Option<usize>| ContentRule {
                        pattern: "src/**".to_string(), max_lines: limit, warn_threshold: wt, warn_at: wa,
                        skip_comments: None, skip_blank: None, reason: None, expires: None,
                    };
                    match variant {
                        0 => { g.gmax = limit; g.gwt = *t; }
                        1 => { g.rules = vec![rule(Some(*t), None)]; }
                        2 => { g.gwt = *t; g.rules = vec![rule(None, None)]; }
                        3 => { if limit == 0 { continue; } g.rules = vec![rule(Some(*t), Some(limit / 2))]; }
                        _ => {
                            // earlier matching rule is superseded by a later one
                            g.rules = vec![rule(Some(0.1), None), ContentRule { pattern: "**/*.rs".to_string(), ..rule(Some(*t), None) }];
                            g.rules[0].max_lines = 3;
                        }
                    }
                    emit(sink, &g, false);
                }
            }
        }
    }
}

/// The same verdicts as the user gets them: the generated configuration is written as TOML, the
/// file is created with the drawn numbers of code / comment / blank lines, and `check` (with
/// `--warn-threshold` when the case has a CLI override) must report the status, count and limit
/// the checker object gives in-process (which the model and the oracle above decide).
fn e2e_case(sink: &mut Sink, r: &mut Rng, bin: &str, scratch: &str) {
    if !sink.want() {
        sink.skip();
        return;
    }
    let mut g = gen_case(r, false, false);
    g.path = *r.pick(&["src/a/x.rs", "src/b.rs", "b.rs", "lib/a.rs", "src/gen/m.py", "src/a/gen/q.rs", "src/a/a.rs"]);
    g.stats.ignored = 0;
    if r.chance(1, 2) {
        g.cli_wt = Some(*r.pick(T_VALID));
    }
    if g.gmax > 1 && r.chance(1, 2) {
        g.gwa = Some(r.below(g.gmax));
    }
    g.stats.code = g.stats.code.min(130);
    g.stats.total = g.stats.code + g.stats.comment + g.stats.blank;
    if g.exts.is_empty() {
        g.exts = vec!["rs", "py"];
    }
    // keep inside the load-time gate (C17): absolute warn points below the limits they apply to
    if g.gwa.is_some_and(|w| w >= g.gmax || g.rules.iter().any(|x| x.warn_at.is_none() && x.warn_threshold.is_none() && w >= x.max_lines)) {
        g.gwa = None;
    }
    for x in &mut g.rules {
        if x.warn_at.is_some_and(|w| w >= x.max_lines) {
            x.warn_at = None;
        }
    }
    let dir = std::path::PathBuf::from(scratch).join(format!("e{}", sink.n));
    let _ = std::fs::remove_dir_all(&dir);
    let file = dir.join(g.path);
    std::fs::create_dir_all(file.parent().unwrap()).unwrap();
    let cm = if g.path.ends_with(".py") { "# note\n" } else { "// note\n" };
    std::fs::write(&file, format!("{}{}{}", "x = 1;\n".repeat(g.stats.code), cm.repeat(g.stats.comment), "\n".repeat(g.stats.blank))).unwrap();
    let q = |v: &[&str]| v.iter().map(|e| format!("\"{e}\"")).collect::<Vec<_>>().join(", ");
    let mut t = format!("version = \"2\"\n[scanner]\ngitignore = false\n[content]\nmax_lines = {}\nwarn_threshold = {:?}\nskip_comments = {}\nskip_blank = {}\nextensions = [{}]\nexclude = [{}]\n", g.gmax, g.gwt, g.gsc, g.gsb, q(&g.exts), q(&g.exclude));
    if let Some(w) = g.gwa {
        t += &format!("warn_at = {w}\n");
    }
    let rule_text = |x: &ContentRule| {
        let mut t = format!("[[content.rules]]\npattern = \"{}\"\nmax_lines = {}\n", x.pattern, x.max_lines);
        if let Some(v) = x.warn_threshold { t += &format!("warn_threshold = {v:?}\n"); }
        if let Some(v) = x.warn_at { t += &format!("warn_at = {v}\n"); }
        if let Some(v) = x.skip_comments { t += &format!("skip_comments = {v}\n"); }
        if let Some(v) = x.skip_blank { t += &format!("skip_blank = {v}\n"); }
        t
    };
    // a third of the configurations are an `extends` chain of two files: the base holds the first
    // rules, the child the others and then restates one of the base's rules — rule arrays
    // concatenate parent-then-child, so the restated rule is declared last
    let mut base_text: Option<String> = None;
    if !g.rules.is_empty() && r.chance(1, 3) {
        let k = r.range(1, g.rules.len());
        let restated = g.rules[r.below(k)].clone();
        let mut bt = String::from("version = \"2\"\n");
        for x in &g.rules[..k] {
            bt += &rule_text(x);
        }
        base_text = Some(bt);
        t = format!("extends = \"base.toml\"\n{t}");
        for x in &g.rules[k..] {
            t += &rule_text(x);
        }
        t += &rule_text(&restated);
        g.rules.push(restated);
    } else {
        for x in &g.rules {
            t += &rule_text(x);
        }
    }
    if let Some(bt) = &base_text {
        std::fs::write(dir.join("base.toml"), bt).unwrap();
    }
    std::fs::write(dir.join(".sloc-guard.toml"), &t).unwrap();
    let mut argv: Vec<String> = ["check", "--no-sloc-cache", "--format", "json"].iter().map(|x| (*x).to_string()).collect();
    if let Some(w) = g.cli_wt {
        argv.push(format!("--warn-threshold={w:?}"));
    }
    // split suggestions are advice: asking for them must not change any verdict
    let suggest = r.chance(1, 4);
    if suggest {
        argv.push("--suggest".into());
    }
    argv.push(".".into());
    let o = std::process::Command::new(bin).args(&argv).current_dir(&dir).env("NO_COLOR", "1").output().expect("run sloc-guard");
    let rc = o.status.code().unwrap_or(-1);
    let mut pred: Option<String> = None;
    let mut tag = "e2e/".to_string();
    if rc == 2 {
        tag += "rejected-at-load";
    } else {
        let obs = observe(&g);
        let v: serde_json::Value = serde_json::from_slice(&o.stdout).unwrap_or(serde_json::Value::Null);
        let res = v.get("results").and_then(|x| x.as_array()).and_then(|a| a.iter().find(|x| x.get("path").and_then(|p| p.as_str()).is_some_and(|p| p.trim_start_matches("./") == g.path)).cloned());
        match (obs.process, res) {
            (false, Some(_)) => pred = Some(format!("{} is reported although should_process is false", g.path)),
            (false, None) => tag += "not-processed",
            (true, None) => pred = Some(format!("{} is not reported although it is in scope", g.path)),
            (true, Some(x)) => {
                let status = x.get("status").and_then(|s| s.as_str()).unwrap_or("?").to_string();
                let sloc = x.get("sloc").and_then(|s| s.as_u64()).unwrap_or(u64::MAX) as usize;
                let limit = x.get("limit").and_then(|s| s.as_u64()).unwrap_or(u64::MAX) as usize;
                tag += &format!("{status}{}{}{}{}", if g.cli_wt.is_some() { "/cli-threshold" } else { "" }, if g.gwa.is_some() { "/global-warn-at" } else { "" }, if base_text.is_some() { "/extends" } else { "" }, if suggest { "/suggest" } else { "" });
                if (status.as_str(), sloc, limit) != (obs.status.as_str(), obs.eff, obs.limit) {
                    pred = Some(format!("`{}` reports {} (count {sloc}, limit {limit}) for {}; the checker gives {} (count {}, limit {}, warn point {:?})", argv.join(" "), status, g.path, obs.status, obs.eff, obs.limit, obs.warn));
                }
                let want_rc = i32::from(obs.status == "failed");
                if pred.is_none() && rc != want_rc {
                    pred = Some(format!("exit status {rc}, expected {want_rc}"));
                }
            }
        }
    }
    if let Some(p) = &mut pred {
        *p += &format!(" :: {}", t.replace('\n', "\\n"));
    }
    let _ = std::fs::remove_dir_all(&dir);
    sink.push(Case { request: "noop".into(), implementation: "-".into(), pred: pred.map_or_else(|| "ok".to_string(), |p| format!("FAIL {p}")), tag });
}

pub fn run(tier: Tier, seed: u64, out: &str) {
    let mut sink = Sink::create(out);
    let mut r = Rng::new(seed);
    if tier != Tier::Search {
        exhaustive(&mut sink);
    }
    let n = tier.scale(60_000, 1_500_000);
    for i in 0..n {
        let wild = i % 5 == 4;
        let big = i % 7 == 6;
        let g = gen_case(&mut r, wild, big);
        emit(&mut sink, &g, i % 4 == 0);
        if i % 3 == 0 {
            scope_case(&mut sink, &g);
        }
    }
    let _ = guarded(String::new);
    if let Ok(bin) = std::env::var("SGVERIF_BIN") {
        let scratch = std::env::var("SGVERIF_SCRATCH").unwrap_or_else(|_| "/verif/.build/scratch/c05".to_string());
        for _ in 0..tier.scale(250, 4000) {
            let mut rr = r.fork();
            e2e_case(&mut sink, &mut rr, &bin, &scratch);
        }
    }
    crate::globfact::stream(&mut sink, &mut r, tier.scale(400, 6000));
    crate::globfact::flush(&mut sink);
    sink.finish(out);
}
