//! C14 — concurrent invocations neither corrupt nor lose persisted state.
//!
//! Real `sloc-guard` processes (built with the `verif` feature) are paused at the named sync
//! points of the load / lock / rename / unlock protocol (`SLOC_GUARD_VERIF_BARRIER`): the controller
//! here owns the barrier directory and releases one process at a time, so every run is one
//! interleaving, chosen by a vector of decisions.  Interleavings are enumerated depth-first
//! (stateless exploration: every vector is a fresh run) up to a budget, always starting with the
//! vectors that overlap the critical sections.  Observed: each process's exit status, stdout
//! ("Snapshot recorded"), wall time, and the state file after all have finished.  For snapshots
//! the sequence of lock / load / save / exit events is replayed on the Lean model.
use std::collections::{BTreeMap, BTreeSet};
use std::path::{Path, PathBuf};
use std::process::{Child, Command, Stdio};
use std::time::{Duration, Instant};

use super::Tier;
use crate::proto::{Case, Sink};

const INTERESTING: &[&str] = &["update.lock-wanted", "update.locked", "load.opened", "load.locked", "save.start", "save.synced", "save.lock-opened", "save.locked", "save.renamed", "save.unlocked"];

struct Spec {
    args: Vec<String>,
    now: u64,
}

struct Live {
    child: Child,
    os_pid: u32,
    waiting: Option<(PathBuf, String)>, // (.go path to create, point name)
    seen: BTreeSet<String>,
    exited: Option<i32>,
    started: Instant,
    finished: Option<Duration>,
    last_release: Instant,
}

struct Outcome {
    rc: i32,
    stdout: String,
    stderr: String,
    wall: Duration,
}

struct RunResult {
    outcomes: Vec<Outcome>,
    /// announcements and exits in the order observed: (process index, event)
    events: Vec<(usize, String)>,
    /// number of alternatives at each decision taken
    widths: Vec<usize>,
    stuck: bool,
}

fn scan(dir: &Path, procs: &mut [Live]) {
    let Ok(rd) = std::fs::read_dir(dir) else { return };
    let mut found: Vec<(u32, usize, String, PathBuf)> = vec![];
    for e in rd.flatten() {
        let name = e.file_name().to_string_lossy().into_owned();
        let Some(stem) = name.strip_suffix(".at") else { continue };
        let mut it = stem.splitn(3, '.');
        let (Some(pid), Some(seq), Some(point)) = (it.next(), it.next(), it.next()) else { continue };
        let (Ok(pid), Ok(seq)) = (pid.parse::<u32>(), seq.parse::<usize>()) else { continue };
        found.push((pid, seq, point.to_string(), dir.join(format!("{stem}.go"))));
    }
    found.sort();
    for (pid, _seq, point, go) in found {
        if let Some(p) = procs.iter_mut().find(|p| p.os_pid == pid) {
            let key = go.to_string_lossy().into_owned();
            if p.seen.insert(key) {
                p.waiting = Some((go, point));
            }
        }
    }
}

/// run one interleaving
fn run_schedule(bin: &str, dir: &Path, barrier: &Path, file_name: &str, specs: &[Spec], choices: &[usize]) -> RunResult {
    let _ = std::fs::remove_dir_all(barrier);
    std::fs::create_dir_all(barrier).unwrap();
    let mut procs: Vec<Live> = specs
        .iter()
        .map(|s| {
            let child = Command::new(bin)
                .args(&s.args)
                .current_dir(dir)
                .env("NO_COLOR", "1")
                .env("SLOC_GUARD_VERIF_BARRIER", barrier)
                .env("SLOC_GUARD_VERIF_BARRIER_FILE", file_name)
                .env("SLOC_GUARD_VERIF_NOW", s.now.to_string())
                .stdin(Stdio::null())
                .stdout(Stdio::piped())
                .stderr(Stdio::piped())
                .spawn()
                .expect("spawn");
            let os_pid = child.id();
            Live { child, os_pid, waiting: None, seen: BTreeSet::new(), exited: None, started: Instant::now(), finished: None, last_release: Instant::now() }
        })
        .collect();
    let mut events = vec![];
    let mut widths = vec![];
    let mut next_choice = 0usize;
    let hard = Instant::now();
    let mut stuck = false;
    loop {
        // settle: every live process is waiting at a point, has exited, or has been quiet for a while
        let settle_start = Instant::now();
        loop {
            scan(barrier, &mut procs);
            for (i, p) in procs.iter_mut().enumerate() {
                if p.exited.is_none() {
                    if let Ok(Some(st)) = p.child.try_wait() {
                        p.exited = Some(st.code().unwrap_or(-1));
                        p.finished = Some(p.started.elapsed());
                        events.push((i, "exit".to_string()));
                    }
                }
            }
            // points that are not interesting are released at once
            let mut auto = false;
            for (i, p) in procs.iter_mut().enumerate() {
                if let Some((go, point)) = &p.waiting {
                    if !INTERESTING.contains(&point.as_str()) {
                        let _ = std::fs::write(go, "");
                        p.waiting = None;
                        p.last_release = Instant::now();
                        auto = true;
                    } else if !events.iter().any(|(j, e)| *j == i && e == &format!("at:{}:{}", point, go.to_string_lossy())) {
                        events.push((i, format!("at:{}:{}", point, go.to_string_lossy())));
                    }
                }
            }
            if auto {
                continue;
            }
            let all_settled = procs.iter().all(|p| p.exited.is_some() || p.waiting.is_some() || p.last_release.elapsed() > Duration::from_millis(120));
            if all_settled || settle_start.elapsed() > Duration::from_secs(8) {
                break;
            }
            std::thread::sleep(Duration::from_millis(1));
        }
        if procs.iter().all(|p| p.exited.is_some()) {
            break;
        }
        let enabled: Vec<usize> = procs.iter().enumerate().filter(|(_, p)| p.exited.is_none() && p.waiting.is_some()).map(|(i, _)| i).collect();
        if enabled.is_empty() {
            // everybody is blocked on a lock: the lock timeouts (5 s) will resolve it
            if hard.elapsed() > Duration::from_secs(40) {
                stuck = true;
                for p in &mut procs {
                    let _ = p.child.kill();
                }
                break;
            }
            std::thread::sleep(Duration::from_millis(20));
            continue;
        }
        let pick = if enabled.len() == 1 {
            enabled[0]
        } else {
            let c = choices.get(next_choice).copied().unwrap_or(0).min(enabled.len() - 1);
            next_choice += 1;
            widths.push(enabled.len());
            enabled[c]
        };
        let (go, point) = procs[pick].waiting.take().unwrap();
        let _ = std::fs::write(&go, "");
        procs[pick].last_release = Instant::now();
        events.push((pick, format!("go:{point}")));
    }
    let outcomes = procs
        .into_iter()
        .map(|mut p| {
            let out = p.child.wait_with_output();
            let (stdout, stderr) = out.as_ref().map_or((String::new(), String::new()), |o| (String::from_utf8_lossy(&o.stdout).into_owned(), String::from_utf8_lossy(&o.stderr).into_owned()));
            Outcome { rc: p.exited.unwrap_or(-9), stdout, stderr, wall: p.finished.unwrap_or_else(|| p.started.elapsed()) }
        })
        .collect();
    RunResult { outcomes, events: events.into_iter().map(|(i, e)| (i, if e.starts_with("at:") { format!("at:{}", e.split(':').nth(1).unwrap_or("")) } else { e })).collect(), widths, stuck }
}

/// next decision vector in depth-first order, given the widths observed for `current`
fn next_vector(current: &[usize], widths: &[usize]) -> Option<Vec<usize>> {
    let mut v: Vec<usize> = (0..widths.len()).map(|i| current.get(i).copied().unwrap_or(0).min(widths[i] - 1)).collect();
    while let Some(last) = v.pop() {
        let i = v.len();
        if last + 1 < widths[i] {
            v.push(last + 1);
            return Some(v);
        }
    }
    None
}

fn project(dir: &Path) {
    let _ = std::fs::remove_dir_all(dir);
    std::fs::create_dir_all(dir.join("src")).unwrap();
    for i in 0..4 {
        let mut s = String::new();
        for j in 0..(6 + 3 * i) {
            s += &format!("let v{j} = {j};\n");
        }
        let f = dir.join("src").join(format!("f{i}.rs"));
        std::fs::write(&f, s).unwrap();
        set_old_mtime(&f);
    }
    std::fs::write(dir.join(".sloc-guard.toml"), "version = \"2\"\n[content]\nmax_lines = 8\nextensions = [\"rs\"]\n").unwrap();
}

/// the cache only records files older than the (pinned) current second
fn set_old_mtime(path: &Path) {
    if let Ok(f) = std::fs::OpenOptions::new().write(true).open(path) {
        let _ = f.set_modified(std::time::UNIX_EPOCH + Duration::from_secs(1_600_000_000));
    }
}

fn sv(xs: &[&str]) -> Vec<String> {
    xs.iter().map(|s| (*s).to_string()).collect()
}

fn history_timestamps(dir: &Path) -> Result<Vec<u64>, String> {
    let p = dir.join(".sloc-guard/history.json");
    if !p.exists() {
        return Ok(vec![]);
    }
    let bytes = std::fs::read(&p).map_err(|e| e.to_string())?;
    if bytes.is_empty() {
        return Err("history.json is empty".into());
    }
    let v: serde_json::Value = serde_json::from_slice(&bytes).map_err(|e| format!("history.json does not parse: {e}"))?;
    Ok(v["entries"].as_array().cloned().unwrap_or_default().iter().map(|e| e["timestamp"].as_u64().unwrap_or(0)).collect())
}

#[derive(Clone, Copy, PartialEq, Eq)]
enum Scenario {
    TwoSnapshots { with_history: bool },
    ThreeSnapshots,
    SnapshotAndReader,
    TwoBaselineUpdates,
    TwoChecksSharingCache,
    /// an explicit snapshot and a passing check with `auto_snapshot_on_check`: two writers of the
    /// history that reach the append protocol through different code paths
    SnapshotAndAutoCheck,
}

fn scenario_case(sink: &mut Sink, bin: &str, scratch: &str, sc: Scenario, choices: &[usize]) -> Option<Vec<usize>> {
    let dir = PathBuf::from(scratch).join(format!("c{}", sink.n));
    let barrier = PathBuf::from(scratch).join(format!("bar{}", sink.n));
    project(&dir);
    let base_now = 1_700_000_000u64;
    let run_plain = |args: &[&str], now: u64| {
        let _ = Command::new(bin).args(args).current_dir(&dir).env("SLOC_GUARD_VERIF_NOW", now.to_string()).env("NO_COLOR", "1").output();
    };
    let (file_name, specs, label): (&str, Vec<Spec>, String) = match sc {
        Scenario::TwoSnapshots { with_history } => {
            if with_history {
                run_plain(&["snapshot", "--force", "--no-sloc-cache", "--quiet"], base_now - 200);
                run_plain(&["snapshot", "--force", "--no-sloc-cache", "--quiet"], base_now - 100);
            }
            ("history.json", (0..2).map(|i| Spec { args: sv(&["snapshot", "--force", "--no-sloc-cache"]), now: base_now + i }).collect(), format!("snapshot+snapshot/{}", if with_history { "history" } else { "no-history" }))
        }
        Scenario::ThreeSnapshots => {
            run_plain(&["snapshot", "--force", "--no-sloc-cache", "--quiet"], base_now - 100);
            ("history.json", (0..3).map(|i| Spec { args: sv(&["snapshot", "--force", "--no-sloc-cache"]), now: base_now + i }).collect(), "snapshot x3".to_string())
        }
        Scenario::SnapshotAndReader => {
            run_plain(&["snapshot", "--force", "--no-sloc-cache", "--quiet"], base_now - 200);
            run_plain(&["snapshot", "--force", "--no-sloc-cache", "--quiet"], base_now - 100);
            ("history.json", vec![Spec { args: sv(&["snapshot", "--force", "--no-sloc-cache"]), now: base_now }, Spec { args: sv(&["stats", "history", "--format", "json"]), now: base_now + 1 }], "snapshot+stats-history".to_string())
        }
        Scenario::SnapshotAndAutoCheck => {
            std::fs::write(dir.join(".sloc-guard.toml"), "version = \"2\"\n[content]\nmax_lines = 1000\nextensions = [\"rs\"]\n[trend]\nauto_snapshot_on_check = true\n").unwrap();
            run_plain(&["snapshot", "--force", "--no-sloc-cache", "--quiet"], base_now - 200);
            ("history.json", vec![Spec { args: sv(&["snapshot", "--force", "--no-sloc-cache"]), now: base_now }, Spec { args: sv(&["check", "--no-sloc-cache", "."]), now: base_now + 1 }], "snapshot+auto-check".to_string())
        }
        Scenario::TwoBaselineUpdates => {
            run_plain(&["check", "--no-sloc-cache", "--quiet", "--update-baseline", "--baseline", "bl.json"], base_now);
            ("bl.json", vec![Spec { args: sv(&["check", "--no-sloc-cache", "--quiet", "--update-baseline", "--baseline", "bl.json", "--max-lines", "10"]), now: base_now }, Spec { args: sv(&["check", "--no-sloc-cache", "--quiet", "--update-baseline", "--baseline", "bl.json", "--max-lines", "13"]), now: base_now }], "update-baseline x2".to_string())
        }
        Scenario::TwoChecksSharingCache => {
            run_plain(&["check", "--quiet"], base_now);
            std::fs::write(dir.join("src/new.rs"), "let a = 1;\n").unwrap();
            set_old_mtime(&dir.join("src/new.rs"));
            ("cache.json", vec![Spec { args: sv(&["check", "--quiet"]), now: base_now + 5 }, Spec { args: sv(&["check", "--quiet", "--format", "json"]), now: base_now + 5 }], "check+check/cache".to_string())
        }
    };
    if !sink.want() {
        sink.skip();
        let _ = std::fs::remove_dir_all(&dir);
        return None;
    }
    let before = history_timestamps(&dir).unwrap_or_default();
    // what each writer writes on its own (baseline scenario): learnt from solo runs on copies
    let solo_contents: Vec<serde_json::Value> = if sc == Scenario::TwoBaselineUpdates {
        specs
            .iter()
            .map(|s| {
                let copy = PathBuf::from(scratch).join(format!("solo{}", sink.n));
                let _ = std::fs::remove_dir_all(&copy);
                let _ = Command::new("cp").args(["-r", &dir.to_string_lossy(), &copy.to_string_lossy()]).status();
                let _ = Command::new(bin).args(&s.args).current_dir(&copy).env("NO_COLOR", "1").output();
                let v = std::fs::read(copy.join("bl.json")).ok().and_then(|b| serde_json::from_slice(&b).ok()).unwrap_or(serde_json::Value::Null);
                let _ = std::fs::remove_dir_all(&copy);
                v
            })
            .collect()
    } else {
        vec![]
    };
    let initial_baseline: serde_json::Value = std::fs::read(dir.join("bl.json")).ok().and_then(|b| serde_json::from_slice(&b).ok()).unwrap_or(serde_json::Value::Null);
    let res = run_schedule(bin, &dir, &barrier, file_name, &specs, choices);
    let _ = std::fs::remove_dir_all(&barrier);

    let mut problems = vec![];
    if res.stuck {
        problems.push("the processes did not finish within 40 s".to_string());
    }
    for (i, o) in res.outcomes.iter().enumerate() {
        if o.stderr.contains("panicked") {
            problems.push(format!("process {i} panicked"));
        }
        if !(0..=1).contains(&o.rc) {
            problems.push(format!("process {i} exits {} ({})", o.rc, o.stderr.lines().next().unwrap_or("")));
        }
        if o.stderr.contains("EOF while parsing") || o.stderr.contains("expected value") {
            problems.push(format!("process {i} read a torn or empty state file: {}", o.stderr.lines().next().unwrap_or("")));
        }
    }
    // left-over temporary files
    let state_dir = if file_name == "bl.json" { dir.clone() } else { dir.join(".sloc-guard") };
    if let Ok(rd) = std::fs::read_dir(&state_dir) {
        for e in rd.flatten() {
            let n = e.file_name().to_string_lossy().into_owned();
            if n.contains(".tmp.") {
                problems.push(format!("temporary file {n} left behind"));
            }
        }
    }
    let mut request = "noop".to_string();
    let mut implementation = "-".to_string();
    match sc {
        Scenario::TwoSnapshots { .. } | Scenario::ThreeSnapshots | Scenario::SnapshotAndReader | Scenario::SnapshotAndAutoCheck => {
            let writers: Vec<usize> = specs.iter().enumerate().filter(|(_, s)| s.args[0] == "snapshot" || (sc == Scenario::SnapshotAndAutoCheck && s.args[0] == "check")).map(|(i, _)| i).collect();
            match history_timestamps(&dir) {
                Ok(after) => {
                    for t in &before {
                        if !after.contains(t) {
                            problems.push(format!("the entry recorded at {t} before the run is gone"));
                        }
                    }
                    let mut recorded = vec![];
                    for &i in &writers {
                        let said = res.outcomes[i].stdout.contains("Snapshot recorded") || res.outcomes[i].stderr.contains("Auto-snapshot recorded");
                        recorded.push(said);
                        let present = after.contains(&specs[i].now);
                        if said && !present {
                            problems.push(format!("process {i} reported \"Snapshot recorded\" but its entry is not in the history ({} entries)", after.len()));
                        }
                        if !said && present {
                            problems.push(format!("process {i} did not report a snapshot but its entry is in the history"));
                        }
                    }
                    // replay on the model: acquire / load / save / exit events of the writers
                    let mut ev = vec![];
                    for (i, e) in &res.events {
                        let Some(w) = writers.iter().position(|x| x == i) else { continue };
                        match e.as_str() {
                            "at:update.locked" => ev.push(format!("a{w}")),
                            "at:save.start" => ev.push(format!("l{w}")),
                            "at:save.renamed" => ev.push(format!("s{w}")),
                            "exit" => ev.push(format!("x{w}")),
                            _ => {}
                        }
                    }
                    let idx = |t: &u64| -> String { writers.iter().position(|&i| specs[i].now == *t).map_or_else(|| "old".to_string(), |w| format!("e{w}")) };
                    request = format!("conc-append {} {} {}", before.len(), writers.len(), ev.join(" ")).trim().to_string();
                    implementation = format!("file={} recorded={}", after.iter().map(idx).collect::<Vec<_>>().join(","), recorded.iter().map(|b| if *b { "1" } else { "0" }).collect::<String>());
                }
                Err(e) => problems.push(e),
            }
            if sc == Scenario::SnapshotAndReader {
                let out = &res.outcomes[1];
                match serde_json::from_str::<serde_json::Value>(&out.stdout) {
                    Ok(v) => {
                        let n = v["entries"].as_array().map_or(0, Vec::len);
                        if n != before.len() && n != before.len() + 1 {
                            problems.push(format!("the reader saw {n} entries, the history had {} before and {} after the snapshot", before.len(), before.len() + 1));
                        }
                    }
                    Err(e) => problems.push(format!("the reader's output does not parse ({e}): {}", out.stdout.chars().take(80).collect::<String>())),
                }
            }
        }
        Scenario::TwoBaselineUpdates => match std::fs::read(dir.join("bl.json")).map_err(|e| e.to_string()).and_then(|b| serde_json::from_slice::<serde_json::Value>(&b).map_err(|e| format!("bl.json does not parse: {e}"))) {
            Ok(v) => {
                if !solo_contents.contains(&v) && v != initial_baseline {
                    problems.push("the baseline equals neither writer's own result".to_string());
                }
            }
            Err(e) => problems.push(e),
        },
        Scenario::TwoChecksSharingCache => {
            match std::fs::read(dir.join(".sloc-guard/cache.json")).map_err(|e| e.to_string()).and_then(|b| serde_json::from_slice::<serde_json::Value>(&b).map_err(|e| format!("cache.json does not parse: {e}"))) {
                Ok(v) => {
                    let n = v["files"].as_object().map_or(0, serde_json::Map::len);
                    if n != 5 {
                        problems.push(format!("the cache holds {n} files instead of the 5 either writer records"));
                    }
                }
                Err(e) => problems.push(e),
            }
            // the cache is transparent: the JSON run reports all five files
            if let Ok(v) = serde_json::from_str::<serde_json::Value>(&res.outcomes[1].stdout) {
                if v["summary"]["total_files"].as_u64() != Some(5) {
                    problems.push(format!("the concurrent check reports {} files", v["summary"]["total_files"]));
                }
            } else {
                problems.push("the concurrent check's JSON does not parse".to_string());
            }
        }
    }
    // nobody waits longer than the lock timeout (5 s) plus the controller's own pauses
    let paused: Duration = Duration::from_millis(150) * (res.events.len() as u32 + 4);
    for (i, o) in res.outcomes.iter().enumerate() {
        if o.wall > Duration::from_secs(5) + paused + Duration::from_secs(3) {
            problems.push(format!("process {i} took {:?}", o.wall));
        }
    }
    let _ = std::fs::remove_dir_all(&dir);
    let overlap = {
        // did two processes have overlapping critical sections in this interleaving?
        let mut open: BTreeMap<usize, bool> = BTreeMap::new();
        let mut any = false;
        for (i, e) in &res.events {
            if e == "at:load.locked" || e == "at:update.locked" {
                if open.values().any(|v| *v) {
                    any = true;
                }
                open.insert(*i, true);
            }
            if e == "exit" {
                open.insert(*i, false);
            }
        }
        any
    };
    sink.push(Case {
        request,
        implementation,
        pred: if problems.is_empty() { "ok".into() } else { format!("FAIL {} :: choices {:?}", problems.join("; "), choices) },
        tag: format!("{label}/{}", if overlap { "overlapping" } else { "serial" }),
    });
    next_vector(choices, &res.widths)
}

/// the k-th decision vector of a scenario: fixed (replayable by index), starting with the vectors
/// that overlap the critical sections, then alternating a binary counter over the first
/// decisions with pseudo-random vectors
/// A reader that is stopped while it holds its shared lock on the history keeps every writer out
/// for the whole lock timeout.  A passing `check` with `auto_snapshot_on_check` then abandons its
/// save; whatever it tells the user, a snapshot it reports as recorded must be in the history.
fn stuck_reader_case(sink: &mut Sink, bin: &str, scratch: &str) {
    if !sink.want() {
        sink.skip();
        return;
    }
    let dir = PathBuf::from(scratch).join(format!("c{}", sink.n));
    let barrier = PathBuf::from(scratch).join(format!("bar{}", sink.n));
    project(&dir);
    std::fs::write(dir.join(".sloc-guard.toml"), "version = \"2\"\n[content]\nmax_lines = 1000\nextensions = [\"rs\"]\n[trend]\nauto_snapshot_on_check = true\n").unwrap();
    let base_now = 1_700_000_000u64;
    let _ = Command::new(bin).args(["snapshot", "--force", "--no-sloc-cache", "--quiet"]).current_dir(&dir).env("SLOC_GUARD_VERIF_NOW", (base_now - 200).to_string()).env("NO_COLOR", "1").output();
    let _ = std::fs::remove_dir_all(&barrier);
    std::fs::create_dir_all(&barrier).unwrap();
    let mut reader = Command::new(bin)
        .args(["stats", "trend", "--no-sloc-cache"])
        .current_dir(&dir)
        .env("NO_COLOR", "1")
        .env("SLOC_GUARD_VERIF_BARRIER", &barrier)
        .env("SLOC_GUARD_VERIF_BARRIER_FILE", "history.json")
        .env("SLOC_GUARD_VERIF_NOW", base_now.to_string())
        .stdin(Stdio::null())
        .stdout(Stdio::piped())
        .stderr(Stdio::piped())
        .spawn()
        .expect("spawn");
    // let the reader run up to the point where it holds its shared lock
    let mut released: BTreeSet<String> = BTreeSet::new();
    let mut holding = false;
    let t0 = Instant::now();
    let mut step = |hold_at: Option<&str>, released: &mut BTreeSet<String>| -> bool {
        let mut held = false;
        if let Ok(rd) = std::fs::read_dir(&barrier) {
            let mut names: Vec<String> = rd.flatten().map(|e| e.file_name().to_string_lossy().into_owned()).filter(|n| n.ends_with(".at")).collect();
            names.sort();
            for n in names {
                let stem = n.trim_end_matches(".at").to_string();
                if released.contains(&stem) {
                    continue;
                }
                let point = stem.splitn(3, '.').nth(2).unwrap_or("").to_string();
                if hold_at == Some(point.as_str()) {
                    held = true;
                } else {
                    let _ = std::fs::write(barrier.join(format!("{stem}.go")), "");
                    released.insert(stem);
                }
            }
        }
        held
    };
    while t0.elapsed() < Duration::from_secs(10) {
        if step(Some("load.locked"), &mut released) {
            holding = true;
            break;
        }
        if let Ok(Some(_)) = reader.try_wait() {
            break;
        }
        std::thread::sleep(Duration::from_millis(5));
    }
    let mut pred: Option<String> = None;
    let mut tag = "auto-snapshot+stuck-reader/".to_string();
    if holding {
        let now = base_now + 5;
        let o = Command::new(bin).args(["check", "--no-sloc-cache", "."]).current_dir(&dir).env("SLOC_GUARD_VERIF_NOW", now.to_string()).env("NO_COLOR", "1").output().expect("run check");
        let said = String::from_utf8_lossy(&o.stderr).contains("Auto-snapshot recorded") || String::from_utf8_lossy(&o.stdout).contains("Auto-snapshot recorded");
        // let the reader go
        let t1 = Instant::now();
        while t1.elapsed() < Duration::from_secs(10) {
            step(None, &mut released);
            if let Ok(Some(_)) = reader.try_wait() {
                break;
            }
            std::thread::sleep(Duration::from_millis(5));
        }
        let rc = o.status.code().unwrap_or(-1);
        if !(0..=1).contains(&rc) {
            pred = Some(format!("`check` exits {rc}: {}", String::from_utf8_lossy(&o.stderr).lines().next().unwrap_or("")));
        }
        match history_timestamps(&dir) {
            Ok(after) => {
                let present = after.contains(&now);
                tag += if said { "reported" } else if present { "recorded-silently" } else { "save-abandoned" };
                if said && !present {
                    pred = Some(format!("`check` reported \"Auto-snapshot recorded\" but its entry is not in the history ({} entries) — the save was abandoned after the lock timeout", after.len()));
                }
                if !after.contains(&(base_now - 200)) {
                    pred = Some("the earlier entry is gone".to_string());
                }
            }
            Err(e) => pred = Some(e),
        }
    } else {
        tag += "reader-never-held-the-lock";
    }
    let _ = reader.kill();
    let _ = reader.wait();
    let _ = std::fs::remove_dir_all(&barrier);
    let _ = std::fs::remove_dir_all(&dir);
    sink.push(Case { request: "noop".into(), implementation: "-".into(), pred: pred.map_or_else(|| "ok".to_string(), |p| format!("FAIL {p}")), tag });
}

fn vector_for(scenario: usize, k: usize, seed: u64) -> Vec<usize> {
    match k {
        0 => (0..20).map(|i| (i + 1) % 2).collect(),
        1 => vec![1; 20],
        2 => vec![0; 20],
        3 => (0..20).map(|i| i % 2).collect(),
        _ if k % 2 == 0 => (0..20).map(|i| ((k / 2) >> i) & 1).collect(),
        _ => {
            let mut r = crate::rng::Rng::new(seed ^ ((scenario as u64) << 32) ^ k as u64);
            (0..20).map(|_| r.below(3)).collect()
        }
    }
}

pub fn run(tier: Tier, seed: u64, out: &str) {
    let mut sink = Sink::create(out);
    let scratch = std::env::var("SGVERIF_SCRATCH").unwrap_or_else(|_| "/verif/.build/scratch/c14".to_string());
    if let Ok(bin) = std::env::var("SGVERIF_BIN") {
        let budget = |quick: usize, thorough: usize| tier.scale(quick, thorough);
        let plan = [
            (Scenario::TwoSnapshots { with_history: true }, budget(14, 400)),
            (Scenario::TwoSnapshots { with_history: false }, budget(8, 200)),
            (Scenario::SnapshotAndReader, budget(8, 200)),
            (Scenario::TwoBaselineUpdates, budget(10, 300)),
            (Scenario::TwoChecksSharingCache, budget(8, 200)),
            (Scenario::ThreeSnapshots, budget(14, 120)),
            (Scenario::SnapshotAndAutoCheck, budget(10, 200)),
        ];
        for (si, (sc, n)) in plan.into_iter().enumerate() {
            for k in 0..n {
                let v = vector_for(si, k, seed);
                let _ = scenario_case(&mut sink, &bin, &scratch, sc, &v);
            }
        }
    }
    if let Ok(bin) = std::env::var("SGVERIF_BIN") {
        for _ in 0..tier.scale(1, 3) {
            stuck_reader_case(&mut sink, &bin, &scratch);
        }
    }
    sink.extra.insert("trivial_tag_prefixes".into(), serde_json::json!([]));
    sink.extra.insert("exhaustive".into(), serde_json::json!(false));
    sink.finish(out);
}
